"""C19 - matrix/vector files round-trip exactly; bad files fail cleanly."""
import json, os, hashlib

SAN_FLAGS = ["-fno-sanitize=null,pointer-overflow"]   # &v[0] of an empty std::vector (null + 0) is not what this check is about
SAN_ENV = {"ASAN_OPTIONS": "detect_leaks=0:allocator_may_return_null=1:symbolize=0",
           "UBSAN_OPTIONS": "print_stacktrace=0:symbolize=0", "VERIF_SAN": 1}
MM_RANGE = {"inconsistent-sizes=>error", "returned-structure-valid", "range-structure-valid", "no-crash", "range-no-crash"}


def classify(rec, clauses):
    """Name of the defect class a rejected line belongs to (for attribution / known-finding signatures)."""
    k = rec.get("k")
    cs = set(clauses)
    if k == "mm" and cs <= MM_RANGE and rec.get("where") in ("size", "index", "separator", "newline", "value"):
        return "mm_reader-no-range-checks"
    if k == "bin" and not rec.get("dense") and cs <= (MM_RANGE | {"crs_size"}) and rec.get("where") in ("n", "ptr", "col"):
        return "read_crs-trusts-stored-structure"
    if k == "bin" and rec.get("dense") and cs <= MM_RANGE and rec.get("where") in ("n", "m"):
        return "read_dense-trusts-stored-sizes"
    if k == "bits" and rec.get("type") == "int8" and rec.get("cont", "").startswith("mm-"):
        return "mm_write-char-as-character"
    return "other"


def sig(rec, clauses):
    k = rec.get("k")
    comp = {"mm": "mm_reader", "bin": "read_dense" if rec.get("dense") else "read_crs", "bits": "roundtrip", "usedvec": "reader-output-vectors", "mtread": "reader-threads",
            "mmkind": "mm_reader"}.get(k, str(k))
    s = {"component": comp, "class": classify(rec, clauses)}
    for f in ("fault", "where", "fid", "type", "cont", "fmt", "hist"):
        if f in rec:
            s[f] = rec[f]
    return s


def run(c):
    c.rule = ("model: every NR x NC pattern file (MatrixMarket: general+comment, symmetric, integer, complex, dense; binary: three "
              "width sets) x every single abstract fault; code: 10 MatrixMarket + 6 binary valid files written by the real "
              "writers x EVERY truncation point x single-byte corruptions (every position of small files and of every header / "
              "size line / row-pointer block, strided elsewhere in the quick tier; 7-13 replacement bytes), each read in full "
              "and for row ranges, plain and under ASan+UBSan; a case is non-trivial when the file differs from the valid one; "
              "distinct by (file, fault, position, byte)")
    c.mechanism = {"damaged file => exception or structurally valid result, never a crash (FaultOutcomeOK)": "M+V",
                   "row-range read = slice of the full read (SliceOK)": "M+V",
                   "symmetric expansion, write/read round trip of structure": "M+V",
                   "no out-of-bounds access while reading a damaged file": "O (ASan/UBSan build of the same sweep)",
                   "bitwise value round trip incl. denormals / extreme exponents / random bit patterns": "O (digests)"}
    c.assumptions = ["values are compared as interned bit patterns (equal id <=> bitwise equal)",
                     "allocations above 16 MiB throw std::bad_alloc in the recorder (resource limit; the valid files are tiny)",
                     "the binary CRS format stores no column count: a returned column index is only required to be >= 0",
                     "UBSan checks 'null' and 'pointer-overflow' are off: &v[0] of an empty std::vector is not reported",
                     "recorders are OpenMP builds run with OMP_NUM_THREADS=1 (fork per case); std::terminate in a child = crash",
                     "single-byte faults and truncations only; TLC, CommunityModules Json, g++/clang/libstdc++ are trusted"]
    th = c.thorough()
    env = {"TMPDIR": "/dev/shm"} if os.path.isdir("/dev/shm") and os.access("/dev/shm", os.W_OK) else {}
    tenv = {"JAVA_TOOL_OPTIONS": "-Xss256m"}
    mmc = {"NR": 3, "NC": 3, "SubStride": 37} if th else {"NR": 2, "NC": 3, "SubStride": 7}
    binc = {"NR": 3, "NC": 3} if th else {"NR": 2, "NC": 3}
    st = {}

    def model(name, consts, checked, workers):
        k = dict(consts); k["Checked"] = "TRUE" if checked else "FALSE"
        # -coverage makes TLC keep cost statistics for every (recursive) sub-expression: minutes and GBs here
        return c.tlc_model(name, constants=k, workers=workers, timeout=1500, coverage=False)

    skip_models = bool(os.environ.get("VERIF_SKIP_MODELS"))      # developer switch for mutation runs: code side only
    none = {"violated": None, "module": "(skipped)"}

    def stage_a():
        return c.parallel([
            # built WITH -fopenmp (the readers have `#pragma omp parallel for` loops: an exception thrown inside one
            # is std::terminate even with one thread); the sweeps run with OMP_NUM_THREADS=1 (no threads at fork time)
            lambda: c.build("record_io", ["record_io.cpp"], omp=True),
            lambda: c.build("record_io_san", ["record_io.cpp"], omp=True, san="address,undefined", flags=SAN_FLAGS),
            lambda: none if skip_models else model("MMModel", mmc, True, 8),
            lambda: none if skip_models else model("BinModel", binc, True, 6),
        ])
    rio, rsan, mm_fixed, bin_fixed = stage_a()

    runs = [("mmfault", rio, env, 4000), ("binfault", rio, env, 4000), ("rt", rio, env, 4000), ("bits", rio, env, 4000), ("usedvec", rio, env, 4000),
            ("usedvec", rsan, dict(env, **SAN_ENV), 4000),
            ("mtread", rio, dict(env, OMP_NUM_THREADS=4, OMP_WAIT_POLICY="passive"), 4000),
            ("mmfault", rsan, dict(env, **SAN_ENV), 4000), ("binfault", rsan, dict(env, **SAN_ENV), 4000)]

    def rec(i):
        mode, binary, e, chunk = runs[i]
        return c.record(binary, [mode], env=e, out=c.path("io-%d-%s.ndjson" % (i, mode)), timeout=1500)
    traces = c.parallel([(lambda i=i: rec(i)) for i in range(len(runs))], max_workers=9)

    # the transcription of the pinned tree (Checked = FALSE) is expected to violate FaultInv: a model-level
    # finding, turned into a verdict only by the recorded executions below
    pinned = [] if skip_models else c.parallel([lambda: model("MMModel", {"NR": 2, "NC": 3, "SubStride": 7}, False, 4),
                                                lambda: model("BinModel", {"NR": 2, "NC": 3}, False, 4)])

    drift = {"drift0": 0, "drift1": 0}
    rejected = 0
    def validate(i):
        mode, binary, e, chunk = runs[i]
        return c.tlc_trace("C19Trace", traces[i], label="%s%s" % (mode, "@asan" if binary == rsan else ""), chunk=chunk, env=tenv)
    results = c.parallel([(lambda i=i: validate(i)) for i in range(len(runs))], max_workers=3)
    for i, res in enumerate(results):
        mode, binary, e, chunk = runs[i]
        san = binary == rsan
        real = []
        for ln, cl in res["bad"]:
            if cl and cl[0].startswith("drift"):
                k, v = cl[0].split("=")
                drift[k] += int(v)
                c.traces += 1
            else:
                real.append((ln, cl))
        res["bad"] = real
        rejected += len(real)
        for ln in res["lines"]:
            if '"k":"summary"' in ln:
                s = json.loads(ln)
                if san and mode.endswith("fault"):      # the sanitizer fault sweeps print crashing cases only
                    c.evaluations += s["cases"]
                    c.traces += s["cases"] - s["crashed"]
                c.note("%s%s: %d cases, %d needed process isolation" % (mode, "@asan" if san else "", s["cases"], s["crashed"]))
            elif '"fault":"' in ln and '"fault":"none"' not in ln:
                r = json.loads(ln)
                c.nontrivial.add((r["fid"], r["fault"], r["pos"], r["rep"]))
            elif '"k":"bits"' in ln or '"fault":"none"' in ln or '"k":"usedvec"' in ln:
                c.nontrivial.add(hashlib.sha1(ln.encode()).hexdigest()[:12])
        for ln in res["lines"][1:30000:1511]:
            c.sample(ln, limit=6)
        c.judge(res, "a damaged or valid file is not handled as the property demands%s" % (" (sanitizer run)" if san else ""),
                sigfn=lambda r, cl, san=san: dict(sig(r, cl), san=san), stage="io-" + mode)
    c.exhaustive = True

    # which transcription does the tree conform to?
    for m in (mm_fixed, bin_fixed):
        if m["violated"]:
            c.drift("%s with the proposed range checks (Checked = TRUE) violates %s: the repaired design is not sound" % (m["module"], m["violated"]))
    pv = [m["module"] for m in pinned if m["violated"]]
    c.note("transcription drift vs pinned tree (Checked=FALSE): %d lines, vs repaired tree (Checked=TRUE): %d lines" % (drift["drift0"], drift["drift1"]))
    for m in pinned:
        if not m["violated"]:
            c.vacuous.append("%s with Checked = FALSE (the snapshot's readers) no longer violates FaultInv: the fault model lost its teeth" % m["module"])
    if pv:
        c.note("model-level finding: the transcription of the pinned readers (Checked = FALSE) violates FaultInv in %s" % ", ".join(pv))
    if drift["drift0"] and drift["drift1"]:
        c.drift("recorded reader outcomes differ from both transcriptions (pinned: %d lines, repaired: %d lines)" % (drift["drift0"], drift["drift1"]))
    elif pv and not rejected and drift["drift1"] == 0:
        c.note("the tree conforms to the repaired transcription (Checked = TRUE); the pinned transcription is kept for reference")
