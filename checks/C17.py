"""C17 - matrix adapters preserve the operator; input row order does not matter."""
import json, hashlib

# A leak (owned arrays never deleted after copy-assignment onto a borrowing matrix) is a real
# resource defect but the property text only fixes "never copy or free user memory"; it is
# reported as a NOTE with a proposed fix unless this switch is turned on.
LEAK_IS_VIOLATION = False

def sig(rec, clauses):
    s = {"kind": rec.get("k"), "adapter": rec.get("ad", ""), "index": rec.get("it", ""), "class": rec.get("cls", "")}
    if rec.get("k") == "precond":
        s["shuffled_exception"] = rec.get("exc_shuffled", "")
    return s

def judge(c, res, what, stage):
    """violations = rejected lines with at least one clause that is not a note; notes are counted."""
    notes = {}
    hard = []
    for ln, clauses in res["bad"]:
        real = [x for x in clauses if not x.startswith("note:") or (LEAK_IS_VIOLATION and "leak" in x)]
        for x in clauses:
            if x not in real:
                notes[x] = notes.get(x, 0) + 1
        if real:
            hard.append((ln, real))
    for k, v in notes.items():
        c.note("%s: %d recorded case(s) [%s]" % (k, v, stage))
    c.judge(dict(res, bad=hard), what, sigfn=sig, stage=stage)
    return notes

def run(c):
    c.rule = ("model: all 3x3 (and 2x3) patterns x every order of the entries inside each row x all permutations of the "
              "unknowns through the transcribed adapters; all operation sequences of length <= 6 over 3 matrix handles for "
              "ownership; code: the same small space and seeded random matrices through the real adapters, ownership "
              "operation streams, preconditioners built from sorted vs shuffled rows, reorder/scaled solves; a recorded "
              "case is non-trivial when the source matrix has >= 2 stored entries (views), >= 3 operations (ownership), "
              "or is a preconditioner / solve observation; distinct by digest of the record's input part")
    c.mechanism = {"adapter view = source operator, rows/cols/nonzeros, spmv (all index types)": "M+V",
                   "zero-copy: pointer identity, canaries, user memory never freed/written, no double free": "M+V",
                   "Dense(Reordered) = P^T A P, reordered_vector, Dense(Scaled) = S A S": "M+V",
                   "preconditioner from shuffled rows = from sorted rows (apply, 1 thread)": "V (bitwise at 1 thread)",
                   "reorder / scaled problem: back-transformed solution solves the original system": "O (true residual in long double, quantised)"}
    c.assumptions = ["integer-valued matrices: operator equality is exact",
                     "the block adapter and make_block_solver are fed sorted rows only (their documentation requires them)",
                     "nonzeros() of the block adapter and of crs_builder is an estimate by documentation and is not judged",
                     "scaled_matrix wraps only matrices whose row iterator is constructible from (matrix,row): tuples / Eigen",
                     "TLC, CommunityModules Json, g++/libgomp, Eigen, Boost.uBLAS are trusted"]
    th = c.thorough()
    leak = {}

    def models():
        c.tlc_model("AdaptersModel", workers=8)                                   # 3x3, every in-row order, every permutation
        c.tlc_model("AdaptersModel", cfg="AdaptersRect.cfg", workers=4)             # 2x3
        if th:
            # 3x4 with every in-row order (274 625 matrices); 4x4 with sorted / reversed rows on every 7th pattern, every 5th permutation
            c.tlc_model("AdaptersModel", cfg="AdaptersRect.cfg", constants={"R": 3, "C": 4}, workers=8, timeout=1500)
            c.tlc_model("AdaptersModel", constants={"R": 4, "C": 4, "ORD": '"two"', "SAMPLE": 7, "PSTEP": 5}, workers=8, timeout=1500)
        c.tlc_model("OwnershipModel", constants={"MaxOps": 7 if th else 6}, workers=4)
        m = c.tlc_model("OwnershipModel", cfg="OwnershipLeak.cfg", workers=2, coverage=False)
        leak["model"] = bool(m["violated"])

    def builds():
        return c.build_many([dict(name="record_adapters", sources=["record_adapters.cpp"]),
                             dict(name="record_adapters_pc", sources=["record_adapters_pc.cpp"])])
    _, (ra, rpc) = c.parallel([models, builds])

    runs = [(ra, "small", 1, 3000), (ra, "random", 1, 400), (ra, "random", 4, 400), (ra, "own", 1, 400),
            (rpc, "precond", 1, 200), (rpc, "solve", 1, 200), (rpc, "solve", 4, 200)]
    if th:
        runs += [(ra, "own", 4, 400), (rpc, "precond", 4, 200)]
    leak_obs = 0
    import os

    def rec(run):
        binary, mode, nt, chunk = run
        t = c.record(binary, [mode], env={"OMP_NUM_THREADS": nt}, out=c.path("ad-%s-%d.ndjson" % (mode, nt)))
        if not os.path.exists(t) or os.path.getsize(t) == 0:
            return run, None            # the recorder crashed before its first line: c.record registered the violation
        return run, c.tlc_trace("C17Trace", t, label="%s@%dthreads" % (mode, nt), chunk=chunk)
    for (binary, mode, nt, chunk), res in c.parallel([lambda r=r: rec(r) for r in runs], max_workers=4):
        if res is None:
            continue
        for ln in res["lines"][::max(1, len(res["lines"]) // 3)]:
            c.sample(ln, limit=9)
        for ln in res["lines"]:
            if '"k":"view"' in ln or '"k":"block"' in ln:
                if ln.count(",", ln.find('"col":['), ln.find(']', ln.find('"col":['))) >= 1:
                    c.nontrivial.add(hashlib.sha1(ln.split('"out"')[0].encode()).hexdigest()[:12])
            elif '"k":"own"' in ln:
                if ln.count('"op"') >= 3:
                    c.nontrivial.add(hashlib.sha1(ln.split('"obs"')[0].encode()).hexdigest()[:12])
            elif '"k":"precond"' in ln or '"k":"solve"' in ln or '"k":"shared"' in ln:
                c.nontrivial.add(hashlib.sha1(ln.encode()).hexdigest()[:12])
        notes = judge(c, res, "adapter / ownership / row-order property fails on the real code", stage=mode)
        leak_obs += sum(v for k, v in notes.items() if "leak" in k)
    c.exhaustive = True
    if leak.get("model"):
        if leak_obs:
            c.note("Ownership model: NoLeak is violated by the transcribed copy-assignment (borrowed = x allocates arrays that "
                   "own_data=false never frees); the real code reproduces it in %d recorded operation streams. Outside the "
                   "property text (user memory is untouched): reported as a note, see proposed_fixes/C17-crs-assign-leak.md" % leak_obs)
        else:
            c.drift("Ownership model violates NoLeak but no recorded operation stream of the real code leaks")
