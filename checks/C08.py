"""C08 - sparse matrix kernels equal their dense definitions."""
import json

def sig(rec, clauses):
    return {"kernel": rec.get("k"), "tagclass": rec.get("tag")}

def run(c):
    c.rule = ("model: every pattern pair A(2x3|3x3, rows sorted or reversed) x B(3x3) through the transcribed "
              "transpose/saad/rmerge/sum/sort_row, every 4x4 pattern through pointwise_matrix; code: the same "
              "mask-enumerated spaces plus seeded random integer/block/complex matrices through the real kernels at "
              "1/4/17 threads; a case is non-trivial when its kernel output has >= 1 stored entry; distinct by input digest")
    c.mechanism = {"transpose/product/sum/scale/sort/pointwise/diagonal/copy/gershgorin = definition": "M+V",
                   "gershgorin >= rho, power method <= sigma_max": "O (Eigen oracle)"}
    c.assumptions = ["integer-valued data: IEEE doubles are exact, TLC recomputes the definition exactly",
                     "block/complex values judged on the harness' own real scalar expansion",
                     "TLC, the CommunityModules Json reader, g++/libgomp are trusted"]
    th = c.thorough()
    pw = {}

    def models():
        c.tlc_model("KernelsModel", constants={"RA": 3 if th else 2, "CB": 2}, timeout=3000)
        if th:
            c.tlc_model("KernelsModel", constants={"RA": 2, "CB": 3}, timeout=3000)
        m = c.tlc_model("PointwiseModel")      # transcription of the (repaired) code
        pw["model"] = bool(m["violated"])
        if pw["model"]:
            c.note("PointwiseModel violated: " + str(m["violated"]))

    def code():
        rk = c.build("record_kernels", ["record_kernels.cpp"])
        runs = [("small", 1), ("random", 1), ("random", 4), ("random", 17), ("big", 17), ("big", 4), ("obs", 1), ("obs", 4)]
        if th:
            runs += [("random", 16), ("random", 24), ("big", 1), ("obs", 8), ("small", 17)]
        for mode, nt in runs:
            t = c.record(rk, [mode], env={"OMP_NUM_THREADS": nt}, out=c.path("k-%s-%d.ndjson" % (mode, nt)))
            res = c.tlc_trace("C08Trace", t, label="%s@%dthreads" % (mode, nt), chunk=12000 if mode == "small" else 400)
            for ln in res["lines"][:40000:997]:
                c.sample(ln, limit=8)
            for ln in res["lines"]:
                if '"out":{' in ln and '"col":[]' not in ln.split('"out":')[1]:
                    c.nontrivial.add(hash(ln.split('"out":')[0]))
            c.judge(res, "sparse kernel output differs from its definition", sigfn=sig, stage="kernels")
    models()
    code()
    c.exhaustive = True
    if pw.get("model") and not c.violations:
        c.drift("PointwiseModel violates PointwiseOK but the real pointwise_matrix satisfies it on every recorded case")
