"""C13 - block, complex and mixed-precision formulations solve the same system."""
import hashlib, os

def sig(rec, clauses):
    s = {"kind": rec.get("k"), "via": rec.get("ad", ""), "type": rec.get("ty", ""), "b": rec.get("b", 0), "system": rec.get("sys", "")}
    if "forms" in rec:
        tol = rec.get("tol_md", 0)
        bad = [f["name"] for f in rec["forms"] if f.get("exc") or f["reported_md"] > tol or f["true_md"] > tol + 1000 or f["diff_md"] > -6000
               or f["reported_md"] > max(f["true_md"], -13000) + 1000]
        s["formulations"] = ";".join(bad)
    return s

def run(c):
    c.rule = ("model: every sorted 4x4 pattern with b=2, every 3x3 and (sampled in quick, all in thorough) 3x6 pattern with b=3, "
              "every 2x6 pattern with b=2 through the transcribed block row iterator and unblock_matrix; every 2x3 / 3x3 Gaussian "
              "pattern through the transcribed complex adapter; code: the same small patterns and seeded random matrices with "
              "structurally incomplete blocks through the real adapters / wrappers / hybrid backend, plus seeded block SPD, complex "
              "and Poisson systems solved through every formulation; a case is non-trivial when the source matrix has >= 2 entries "
              "(exact records) or is a solve observation; distinct by digest of the record's input part")
    c.mechanism = {"Unblock(Block(A)) = A, entries at (i mod b, j mod b), incomplete blocks zero-filled": "M+V",
                   "complex adapter = [[re,-im],[im,re]] definition; real product on interleaved vectors": "M+V",
                   "spmv with scalar vectors through block matrices / hybrid backend = scalar product": "V (exact)",
                   "as_scalar transfer and coarse operators = scalar coarsening; as_block = block smoother": "V (exact / bitwise)",
                   "all block formulations: true scalar residual within a decade of tol, solutions agree to 1e-6": "O",
                   "complex vs real 2n x 2n form: same solution": "O",
                   "float preconditioner under double solver reaches 1e-8": "O"}
    c.assumptions = ["the block adapter / make_block_solver / hybrid backend are fed sorted rows (documented requirement)",
                     "wrappers that need every level divisible by the block size are run with aggr.block_size = b",
                     "complex adapter and scaled_matrix wrap tuple-like matrices only (compile-time restriction of the library)",
                     "observations are judged on quantised millidecades: tol 1e-10 (1e-8 mixed precision), band one decade, agreement 1e-6",
                     "TLC, CommunityModules Json, g++/libgomp, Eigen are trusted"]
    th = c.thorough()

    def models_a():
        c.tlc_model("FormulationsModel", workers=8)                                                      # 4x4, b=2, all

    def models_b():
        c.tlc_model("FormulationsModel", constants={"R": 3, "C": 6, "B": 3, "STEP": 1 if th else 29}, workers=6)
        c.tlc_model("FormulationsModel", constants={"R": 2, "C": 6, "B": 2}, workers=4)
        c.tlc_model("FormulationsModel", constants={"R": 3, "C": 3, "B": 3}, workers=2)
        c.tlc_model("FormulationsModel", cfg="FormulationsComplex.cfg", workers=4)
        c.tlc_model("FormulationsModel", cfg="FormulationsComplex.cfg", constants={"R": 2, "C": 3}, workers=2)

    def rec(run):
        binary, mode, nt, chunk = run
        t = c.record(binary, [mode], env={"OMP_NUM_THREADS": nt}, out=c.path("fm-%s-%d.ndjson" % (mode, nt)))
        if not os.path.exists(t) or os.path.getsize(t) == 0:
            return run, None
        return run, c.tlc_trace("C13Trace", t, label="%s@%dthreads" % (mode, nt), chunk=chunk)

    def code():
        bins = c.build_many([dict(name="record_formulations%d" % p, sources=["record_formulations.cpp"], flags=["-DPART=%d" % p]) for p in (1, 2, 3, 4)])
        runs = [(bins[0], "exact", 1, 800), (bins[0], "obs", 1, 100), (bins[0], "obs", 4, 100),
                (bins[1], "b2", 1, 100), (bins[2], "b3", 1, 100), (bins[3], "b4", 1, 100), (bins[1], "b2", 4, 100)]
        if th:
            runs += [(bins[0], "exact", 4, 800), (bins[2], "b3", 4, 100), (bins[3], "b4", 4, 100)]
        return c.parallel([lambda r=r: rec(r) for r in runs], max_workers=4)
    _, _, results = c.parallel([models_a, models_b, code])
    for (binary, mode, nt, chunk), res in results:
        if res is None:
            continue
        for ln in res["lines"][::max(1, len(res["lines"]) // 2)]:
            c.sample(ln, limit=10)
        for ln in res["lines"]:
            if '"forms"' in ln or '"k":"mixed"' in ln or '"k":"asblock"' in ln:
                c.nontrivial.add(hashlib.sha1(ln.encode()).hexdigest()[:12])
            elif '"A":' in ln and ln.count(",", ln.find('"col":['), ln.find(']', ln.find('"col":['))) >= 1:
                c.nontrivial.add(hashlib.sha1(ln.encode()).hexdigest()[:12])
        c.judge(res, "formulations of the same system disagree", sigfn=sig, stage=mode)
    c.exhaustive = True
