"""X02 (extra coverage, not a listed property) - coarsening::rigid_body_modes returns rigid body motions that span all of them."""
import json

def run(c):
    th = c.thorough()
    c.rule = ("model: every integer combination (coefficients -1, 0, 2) of the generators the routine forms is an infinitesimal rigid motion, for "
              "every cloud of 3 points with integer coordinates 0..2 in 2-D (2 points, thorough 3, with coordinates 0..1 in 3-D); code: %d random integer clouds (2-D / 3-D, 3..14 points, one "
              "in seven collinear): number of modes, finiteness, transposed layout bitwise, rigid-motion identity of every returned vector, rank in "
              "general position. non-trivial = a cloud in general position" % (4000 if th else 600))
    c.mechanism = {"span of the generators = rigid motions": "M (RigidBody.tla, exhaustive small clouds)",
                   "returned vectors are rigid motions and span them": "O (identity measured in units of 2^-40, rank via SVD)",
                   "transposed layout": "V (bitwise)"}
    c.assumptions = ["orthonormality of the returned vectors is observed only: the unchanged routine does not deliver it (docs/X02.md)"]
    c.tlc_model("RigidBodyModel", constants={"NDim": 2, "NPts": 3, "CMax": 2}, workers=4)
    c.tlc_model("RigidBodyModel", constants={"NDim": 3, "NPts": 3 if th else 2, "CMax": 1}, workers=8)
    vac = c.tlc_model("RigidBodyModel", cfg="RigidBodyVac.cfg", workers=2)
    if not vac["violated"]:
        c.vacuous.append("a shear field passes RigidMotion")
    c.exhaustive = True
    rb = c.build("record_rbm", ["record_rbm.cpp"])
    t = c.record(rb, [], out=c.path("rbm.ndjson"), timeout=600)
    res = c.tlc_trace("X02Trace", t, label="rigid_body_modes")
    worst_off = worst_unit = 0
    for ln in res["lines"]:
        if '"k":"rbm"' in ln:
            r = json.loads(ln)
            if r["generic"]:
                c.nontrivial.add((r["ndim"], r["np"], r["rigid"], r["offd6"]))
                worst_off = max(worst_off, r["offd6"]); worst_unit = max(worst_unit, r["unit6"])
    for ln in res["lines"][:3]:
        c.sample(ln, limit=6)
    c.note("observed, not demanded: largest off-diagonal Gram entry %.3f, largest | |v|^2 - 1 | %.3f over the clouds in general position "
           "(the routine's 'Orthonormalization' scales the translations by 1/sqrt(#dofs) instead of 1/sqrt(#nodes))" % (worst_off / 1e6, worst_unit / 1e6))
    c.judge(res, "rigid_body_modes", sigfn=lambda rec, cl: {"ndim": rec.get("ndim")}, stage="rbm")
