"""C18 - composite preconditioners realise their block formulas."""
import json, hashlib, os


def sig(rec, clauses):
    k = rec.get("k")
    s = {"component": {"schur": "schur", "schurO": "schur", "schurK": "schur", "pattern": "schur", "cpr": "cpr", "cprupd": "cpr", "cprO": "cpr", "cprdev": "cpr",
                       "defl": "deflated_solver", "deflmt": "deflated_solver", "reuse": "solver-reuse"}.get(k, str(k))}
    if k == "pattern":
        s.update(clause="pmask_pattern", pattern=rec.get("pattern"))
    elif k in ("schur", "schurO", "schurK"):
        K, pm = rec.get("K"), rec.get("pm")
        if K and pm:
            ppdiag = all((not pm[i]) or (i in K["col"][K["ptr"][i]:K["ptr"][i + 1]]) for i in range(K["n"]))
        else:
            ppdiag = bool(rec.get("ppdiag", True))
        s.update(clause="schur-operator" if any("schur-operator" in c for c in clauses) else "apply",
                 adjust_p=rec.get("adjust"), type=rec.get("type"), pressure_diagonal_stored=ppdiag)
    elif k == "cprupd":
        s.update(clause="partial_update", variant=rec.get("variant"), update_transfer_ops=rec.get("transfer"), block_input=rec.get("block"), shuffled_rows=rec.get("shuffled"), eps_dd64=rec.get("dd64"), eps_ps64=rec.get("ps64"),
                 crash=bool(rec.get("crash")), hang=bool(rec.get("hang")))
    elif k in ("cpr", "cprO", "cprdev"):
        s.update(clause="two-stage", variant=rec.get("variant", "cpr"), block_size=rec.get("B"), active_rows=rec.get("act"))
    elif k == "reuse":
        s.update(clause="operator()(A, rhs, x)", wrapper=rec.get("wrapper"), solver=rec.get("solver"), nvec=rec.get("nvec"))
    elif k in ("defl", "deflmt"):
        s.update(clause="deflation", solver=rec.get("solver"), nvec=rec.get("nvec"), threads=rec.get("threads", 1))
    return s


def run(c):
    c.rule = ("model: every stored 3x3 pattern (stride) x every pressure mask x adjust_p x simplec_dia with exact rational inner "
              "solves; every 4x4 CPR matrix with full diagonal blocks; 3x3 deflation; every pattern string of the value sets; "
              "code: the same 3x3 family plus seeded random integer saddle-point / multi-phase matrices through the real "
              "composites with scripted and exact-LU harness inner solvers; a case is non-trivial when the composite was "
              "constructed and applied; distinct by record digest")
    c.mechanism = {"sub-blocks reassemble K; apply() program of type 1 / 2; Schur operator uses Kpp": "M+V (scripted inner solves, integers)",
                   "type 1 = exact inverse, type 2 = block upper-triangular solve (exact inner solves)": "M + O (long double LU, 1e-9)",
                   "CPR weights, App = Fpp A Scatter, two-stage formula, scalar = block input": "M+V",
                   "partial_update with the unchanged matrix leaves the action unchanged": "M + V (bitwise digests)",
                   "pmask_pattern parser": "M+V (each construction in a child with an alarm)",
                   "deflated solver: true residual, residual orthogonal to Z": "M + O"}
    c.assumptions = ["inner solvers are harness classes with the solver / preconditioner concept amgcl expects (template arguments)",
                     "scripted runs use integer data (dyadic fixed point with 16 digits where a diagonal is inverted): exact",
                     "class O bounds: 1e-9 (exact LU in long double), 1e-6 true relative residual for tol 1e-10, 1e-10 orthogonality",
                     "deflated_solver::params::get is not instantiated (does not compile, C14)",
                     "TLC, CommunityModules Json, g++/libgomp are trusted"]
    th = c.thorough()
    tenv = {"JAVA_TOOL_OPTIONS": "-Xss128m"}

    def model(name, consts, workers=4):
        # no -coverage: it keeps cost statistics for every recursive sub-expression (minutes)
        return c.tlc_model(name, constants=consts, workers=workers, timeout=1500, coverage=False)

    skip_models = bool(os.environ.get("VERIF_SKIP_MODELS"))      # developer switch for mutation runs: code side only
    if skip_models:
        def model(name, consts, workers=4):
            return {"violated": None, "module": name}
    stage = c.parallel([
        lambda: c.build("record_composite", ["record_composite.cpp"]),
        lambda: model("SchurModel", {"NN": 3, "Stride": 1 if th else 5, "ColonParse": "TRUE", "AdjustFix": "TRUE"}, 8),
        lambda: model("CprModel", {"ClearScratch": "TRUE", "AdjointInUpdate": "TRUE"}),
        lambda: model("DeflationModel", {"KStride": 1 if th else 4, "MirrorE": "FALSE"}),
        lambda: model("PatternModel", {"ColonParse": "TRUE", "AdjustFix": "TRUE"}, 2),
    ], max_workers=5)
    rc = stage[0]
    repaired = stage[1:]
    pinned = c.parallel([
        lambda: model("SchurModel", {"NN": 3, "Stride": 1 if th else 17, "ColonParse": "FALSE", "AdjustFix": "FALSE"}, 6),
        lambda: model("PatternModel", {"ColonParse": "FALSE", "AdjustFix": "FALSE"}, 2),
        # variants that are NOT the code: they must violate, or the invariants have lost their teeth
        lambda: model("CprModel", {"ClearScratch": "FALSE", "AdjointInUpdate": "TRUE"}, 2),
        lambda: model("CprModel", {"ClearScratch": "TRUE", "AdjointInUpdate": "FALSE"}, 2),
        lambda: model("DeflationModel", {"KStride": 8, "MirrorE": "TRUE"}, 2),
    ], max_workers=3)
    teeth = pinned[2:]
    pinned = pinned[:2]
    modes = ["schur", "schurO", "schurK", "pattern", "cpr", "cprO", "defl", "deflmt", "reuse"]
    # deflmt: the set-up loops with 4 really overlapping threads (data races are a matter of timing)
    menv = {"deflmt": {"OMP_NUM_THREADS": 4, "OMP_WAIT_POLICY": "passive"}}
    traces = c.parallel([(lambda m=m: c.record(rc, [m], out=c.path("comp-%s.ndjson" % m), timeout=1200, env=menv.get(m)))
                         for m in modes], max_workers=9)
    results = c.parallel([(lambda i=i: c.tlc_trace("C18Trace", traces[i], label=modes[i], chunk=1500, env=tenv)) for i in range(len(modes))],
                         max_workers=3)
    drift = {"drift0": 0, "drift1": 0}
    rejected = 0
    for m, res in zip(modes, results):
        real = []
        for ln, cl in res["bad"]:
            if cl and cl[0].startswith("drift"):
                k, v = cl[0].split("=")
                drift[k] += int(v)
                c.traces += 1
            else:
                real.append((ln, cl))
        res["bad"] = real
        rejected += len(real)
        for ln in res["lines"]:
            if '"k":"' in ln:
                c.nontrivial.add(hashlib.sha1(ln.encode()).hexdigest()[:12])
        for ln in res["lines"][1:4000:997]:
            c.sample(ln, limit=6)
        c.judge(res, "composite preconditioner deviates from its block formula", sigfn=sig, stage="composite-" + m)
    c.exhaustive = True
    for m in repaired:
        if m["violated"]:
            c.drift("%s (repaired transcription) violates %s" % (m["module"], m["violated"]))
    for m in pinned:
        if not skip_models and not m["violated"]:
            c.vacuous.append("%s as written (the snapshot) no longer violates its invariant: the model lost its teeth" % m["module"])
    for m in teeth:
        if not skip_models and not m["violated"]:
            c.vacuous.append("%s %s (not the code) does not violate any invariant" % (m["module"], m.get("constants")))
    pv = ["%s:%s" % (m["module"], m["violated"]) for m in pinned if m["violated"]]
    if pv:
        c.note("model-level findings of the transcription as written: " + ", ".join(pv))
        if not rejected:
            c.note("the real code no longer shows them: the tree conforms to the repaired transcription")
    c.note("structural drift vs the transcription as written: %d lines, vs the repaired transcription: %d lines" % (drift["drift0"], drift["drift1"]))
    if drift["drift0"] and drift["drift1"]:
        c.drift("%d / %d recorded executions differ structurally from both transcriptions (storage order of Kuu / parser outcome)"
                % (drift["drift0"], drift["drift1"]))
