"""C02 - the AMG cycle is a fixed linear, symmetric positive, contracting operator."""
import json

def run(c):
    th = c.thorough()
    c.rule = ("model: every cycle program for levels <= 3 (4 thorough), ncycle 1..2, npre/npost 0..3, pre_cycles 0..2, direct or "
              "relaxed coarse level, two consecutive applies on OpMachine; code: op streams (hooks H2/H3) of construction + two "
              "apply() calls for ~110 (400) seeded configurations over 4 coarsenings x 9 relaxations x cycle parameters, and dense "
              "extraction of B (n <= 180) for ~120 (600) configurations on SPD diagonally dominant M-matrices with real weights. "
              "non-trivial = a recorded apply with >= 2 levels or an observation record; distinct by configuration + matrix size")
    c.mechanism = {"B does not depend on earlier applications (no stale read)": "M (CycleModel) + V (freshness monitor on the real op stream)",
                   "cycle shape = Program(p)": "V (drift only)",
                   "linearity, symmetry, positivity, rho(I-BA) < 1": "O (dense extraction, Eigen eigen-solvers)",
                   "B(4A) = B(A)/4 bitwise": "O (bitwise comparison)"}
    c.assumptions = ["hooks H2/H3 report every backend primitive the cycle issues; smoothers that touch vector elements directly are "
                     "observed as one relax event (reads rhs and x, writes x)",
                     "block value types: 2x2 static_matrix hierarchies for four typed coarsening x relaxation compositions",
                     "eigenvalues from Eigen (double); thresholds: linearity 1e-11, symmetry 1e-9 relative, rho < 1"]
    c.tlc_model("CycleModel", constants={"MaxLevels": 4 if th else 3})
    skip = c.tlc_model("CycleModel", constants={"MaxLevels": 2, "SkipClear": "TRUE"})
    if not skip["violated"]:
        c.vacuous.append("CycleModel with SkipClear=TRUE no longer violates NoStaleRead: the monitor is vacuous")
    c.exhaustive = True
    rc = c.build("record_cycle", ["record_cycle.cpp"])
    # (a) op stream
    t = c.record(rc, ["ops"], out=c.path("ops.ndjson"), timeout=600)
    res = c.tlc_trace("C02Trace", t, label="opstream")
    applies = 0
    for ln in res["lines"]:
        if ln.startswith('{"e":"end"'):
            r = json.loads(ln); applies += 1
            if r["levels"] >= 2:
                c.nontrivial.add(("ops", r["coarsening"], r["relax"], r["ncycle"], r["npre"], r["npost"], r["pre_cycles"], r["levels"], r["direct"]))
    for ln in res["lines"][5:4000:611]:
        c.sample(ln, limit=6)
    c.note("op stream: %d apply() calls replayed on OpMachine" % applies)
    c.judge(res, "cycle op stream", stage="cycle-ops")
    # (b) observations
    t = c.record(rc, ["obs"], out=c.path("obs.ndjson"), timeout=1200)
    res = c.tlc_trace("C02Trace", t, label="observations")
    for ln in res["lines"][:3]:
        c.sample(ln, limit=9)
    for ln in res["lines"]:
        if '"k":"cycobs"' in ln:
            r = json.loads(ln)
            c.nontrivial.add(("obs", r["coarsening"], r["relax"], r["ncycle"], r["npre"], r["npost"], r["pre_cycles"], r["levels"], r["n"]))
    def sig(rec, clauses):
        nan = not rec.get("finite", True)
        cl = set(clauses)
        # an expanding cycle (rho > 1) applied twice (pre_cycles = 2) is necessarily indefinite as well:
        # 2B - BAB has the eigenvalues 1 - (1 - lambda)^2 of the single cycle's lambda
        kind = ("contraction" if cl == {"contraction"} else
                "contraction+indefinite-two-cycles" if cl == {"contraction", "positive-definite"} and rec.get("pre_cycles", 1) >= 2 else
                "other")
        return {"kind": kind, "coarsening": rec.get("coarsening"), "relax": rec.get("relax"), "oi_gt1": rec.get("oi_gt1"), "ncycle": rec.get("ncycle"),
                "levels_ge3": rec.get("levels", 0) >= 3, "nan": nan}
    c.judge(res, "cycle operator", sigfn=sig, stage="cycle-obs")
    # (c) the same observations with the hierarchy built and applied by 17 threads (above the 16-thread switch of the
    #     sparse product and above the 4-thread switch of the level-scheduled sweeps): the cycle is the same kind of operator
    t = c.record(rc, ["obs"], out=c.path("obs17.ndjson"), timeout=1500, env={"OMP_NUM_THREADS": 17, "VERIF_SMALL": 1, "VERIF_REPS": 72 if c.thorough() else 12, "VERIF_BREPS": 4 if c.thorough() else 1})
    res = c.tlc_trace("C02Trace", t, label="observations@17threads")
    for ln in res["lines"]:
        if '"k":"cycobs"' in ln:
            r = json.loads(ln)
            c.nontrivial.add(("obs17", r["coarsening"], r["relax"], r["ncycle"], r["npre"], r["npost"], r["pre_cycles"], r["levels"], r["n"]))
    c.judge(res, "cycle operator", sigfn=sig, stage="cycle-obs")
