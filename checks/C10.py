"""C10 - outputs are a function of the inputs only; no memory errors on valid input."""
import json

MATS = ["1x1", "diag2", "diag3", "tridiag3", "disconnected5", "positive_offdiag4", "mixed_sign5", "two_hubs8", "oneway12", "nonsym20", "poisson8x7", "poisson30x1"]

def run(c):
    th = c.thorough()
    c.rule = ("model: def-before-use of ruge_stuben::connect's S.val over every sign pattern of a 3x3 (4x4 thorough) matrix, and "
              "the degenerate control paths of Hierarchy.tla (1x1, empty level, n <= coarse_enough, max_levels = 1); code: 9 matrices "
              "(7 degenerate) x 4 coarsenings x 9 relaxations x 8 solvers x coarse_enough {0,1,3000} x max_levels {1,2,100} x "
              "direct_coarse through the run-time pipeline: plain build (outcome classes, truthfulness), ASan+UBSan build (memory "
              "errors, leaks), and under 4 heap pre-fills + second construction (bitwise outcome digests). "
              "non-trivial = a configuration with max_levels > 1; distinct by configuration")
    c.mechanism = {"no read of never-written memory in ruge_stuben::connect": "M (RsConnectModel, poison value)",
                   "degenerate configurations enumerated": "M (Hierarchy.tla) + replay",
                   "outcome independent of prior heap contents / allocation history": "O (operator new replaced, 4 fills + dirty prelude)",
                   "no out-of-bounds / use-after-free / leak / UB": "O (ASan+UBSan+LSan exit status; incl. 9 hand-over histories of borrowed / owned crs per matrix)",
                   "failure = exception or truthfully reported residual": "V (outcome class + long-double residual)"}
    c.assumptions = ["operator new / new[] replacement reaches every allocation amgcl makes (it uses new[] and std containers)",
                     "sanitizers see single-threaded runs (OMP_NUM_THREADS=1)",
                     "stack mode: amgcl called from the master thread of a 2-thread region with OMP_NUM_THREADS=3 (team of one inside the library); 192 KB of stack pre-filled"]
    c.tlc_model("RsConnectModel", constants={"N": 4 if th else 3})
    snap = c.tlc_model("RsConnectModel", constants={"N": 2, "Fixed": "FALSE"})
    if not snap["violated"]:
        c.vacuous.append("RsConnectModel Fixed=FALSE (snapshot) no longer reads poison")
    c.tlc_model("Hierarchy", constants={"MaxRows": 4})
    c.exhaustive = True
    plain, san = c.build_many([dict(name="record_fill", sources=["record_fill.cpp"]),
                               dict(name="record_fill_san", sources=["record_fill.cpp"], san="address,undefined", ndebug=False)])
    def sig(rec, clauses):
        return {"matrix": rec.get("m"), "coarsening": rec.get("c"), "relax": rec.get("r"), "solver": rec.get("s")}
    # plain build: outcome classes / truthfulness
    t = c.record(plain, ["degen", "all"], out=c.path("degen.ndjson"), timeout=900)
    res = c.tlc_trace("C10Trace", t, label="degenerate/plain", chunk=12000)
    for ln in res["lines"][11:40000:8111]:
        c.sample(ln, limit=5)
    for ln in res["lines"]:
        if '"k":"degen"' in ln and '"ml":1,' not in ln:
            c.nontrivial.add(ln.split('"cls"')[0])
    c.judge(res, "degenerate input", sigfn=sig, stage="degenerate")
    # sanitizer build, one process per matrix so that one abort does not hide the rest
    for m in MATS:
        t = c.record(san, ["degen", m], out=c.path("san-%s.ndjson" % m), timeout=1800,
                     env={"ASAN_OPTIONS": "detect_leaks=1:abort_on_error=0:exitcode=134", "UBSAN_OPTIONS": "halt_on_error=1:exitcode=134"},
                     sig={"stage": "sanitizer", "matrix": m})
        res = c.tlc_trace("C10Trace", t, label="sanitized/" + m, chunk=12000)
        c.judge(res, "degenerate input (sanitizer build)", sigfn=sig, stage="sanitizer")
    # heap fills
    t = c.record(plain, ["fill", "all"], out=c.path("fill.ndjson"), timeout=1800)
    res = c.tlc_trace("C10Trace", t, label="heap-fills", chunk=12000)
    for ln in res["lines"][5:8]:
        c.sample(ln, limit=8)
    c.judge(res, "outcome depends on prior heap contents", sigfn=sig, stage="fill")
    # non-default component parameters: heap fills + second construction + second call on the object, plain and sanitized
    def psig(rec, clauses):
        d = sig(rec, clauses); d["extra"] = rec.get("extra"); return d
    t = c.record(plain, ["prm", "all"], out=c.path("prm.ndjson"), timeout=900)
    res = c.tlc_trace("C10Trace", t, label="parameters/plain")
    for ln in res["lines"][3:5]:
        c.sample(ln, limit=8)
    for ln in res["lines"]:
        if '"what":"prm"' in ln:
            c.nontrivial.add(ln.split('"d":')[0])
    c.judge(res, "outcome depends on prior heap contents / object history (non-default parameters)", sigfn=psig, stage="fill")
    t = c.record(san, ["prm", "all"], out=c.path("prm-san.ndjson"), timeout=1800,
                 env={"ASAN_OPTIONS": "detect_leaks=1:abort_on_error=0:exitcode=134", "UBSAN_OPTIONS": "halt_on_error=1:exitcode=134"},
                 sig={"stage": "sanitizer", "matrix": "prm"})
    res = c.tlc_trace("C10Trace", t, label="parameters/sanitized")
    c.judge(res, "non-default parameters (sanitizer build)", sigfn=psig, stage="sanitizer")
    # ownership histories of the builtin crs (borrowed via zero_copy / owned; copy and move construction and assignment), sanitized
    t = c.record(san, ["own", "all"], out=c.path("own-san.ndjson"), timeout=900,
                 env={"ASAN_OPTIONS": "detect_leaks=1:abort_on_error=0:exitcode=134", "UBSAN_OPTIONS": "halt_on_error=1:exitcode=134"},
                 sig={"stage": "sanitizer", "matrix": "own"})
    # (a sanitizer abort - already reported by c.record as a crash - may leave an empty or truncated trace)
    lines = [x for x in open(t).read().splitlines() if x.startswith("{") and x.endswith("}")]
    if lines:
        open(t, "w").write("\n".join(lines) + "\n")
        res = c.tlc_trace("C10Trace", t, label="ownership/sanitized")
        c.judge(res, "ownership history of a matrix (sanitizer build)", sigfn=lambda rec, cl: {"matrix": rec.get("m"), "history": rec.get("h")}, stage="sanitizer")
    # stack contents + a team smaller than omp_get_max_threads(): the library called from inside the
    # caller's parallel region, 3 threads configured, after four different stack fills
    t = c.record(plain, ["stack", "all"], out=c.path("stack.ndjson"), timeout=1800, env={"OMP_NUM_THREADS": 3})
    res = c.tlc_trace("C10Trace", t, label="stack-fills/nested-team", chunk=12000)
    c.judge(res, "outcome depends on prior stack contents", sigfn=sig, stage="stack")
