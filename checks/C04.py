"""C04 - interpolation is exact on the near-null space; aggregates partition the grid."""
import json, os, re

ALL = "{" + ", ".join(str(i) for i in range(24)) + "}"
NAMES = {"plain": "plain_aggregates", "lift": "pointwise_aggregates", "pw": "pointwise_aggregates",
         "agg": "aggregation", "sa": "smoothed_aggregation", "emin": "smoothed_aggr_emin",
         "rs": "ruge_stuben", "ns": "nullspace"}


def rs_tie_rows(rec):
    """rows of a recorded Ruge-Stuben case whose interpolation row sum is not one and that hold
    two negative off-diagonals w, v with w == eps_trunc * v (a truncation tie)"""
    A, P, td = rec.get("A"), rec.get("P"), rec.get("td", 0)
    if not A or not P or not td:
        return [], []
    bad, tie = [], []
    for i in range(A["n"]):
        a = range(A["ptr"][i], A["ptr"][i + 1])
        if sum(A["val"][p] for p in a) != 0:
            continue
        neg = [A["val"][p] for p in a if A["col"][p] != i and A["val"][p] < 0]
        if not neg:
            continue
        s = sum(P["val"][p] * 2 ** 20 + P["lo"][p] for p in range(P["ptr"][i], P["ptr"][i + 1])) / 2.0 ** 40
        if abs(s - 1) > 1e-9:
            bad.append(i)
            if any(w * td == v for v in neg for w in neg):
                tie.append(i)
    return bad, tie


def sig(rec, clauses):
    k = rec.get("k")
    s = {"coarsening": NAMES.get(k, str(k)), "clause": clauses[0] if clauses else "", "bs": rec.get("bs", 1),
         "tag": rec.get("tag", "")}
    if k == "rs":
        s["trunc"] = rec.get("td", 0) != 0
        s["poison"] = bool(rec.get("poison"))
        if "rowsum-one" in clauses:
            bad, tie = rs_tie_rows(rec)
            s["clause"] = "rowsum"
            s["tie"] = bool(bad) and bad == tie           # every failing row is a tie row
    if k in ("lift", "pw") and clauses and clauses[0] in ("blocklift-flags", "block-flags"):
        s["clause"] = "blocklift-flags"
    # consequence of wrong block flags for the smoothed prolongation of a block problem
    s["blockflags"] = s["clause"] == "blocklift-flags" or (
        k == "sa" and s["bs"] > 1 and bool(clauses) and set(clauses) <= {"smoothed=formula", "rowsum-one"})
    return s


def what_of(rec, clauses, s):
    if s["coarsening"] == "ruge_stuben" and s.get("clause") == "rowsum" and s.get("tie"):
        return ("ruge_stuben truncation tie: an entry with a_ij == eps_trunc*min is dropped from P but not from the "
                "rescaling, interpolation row does not sum to one on a symmetric zero-row-sum row")
    if s.get("blockflags"):
        return ("pointwise_aggregates (block_size>1) expands the strength flags against column (ip+1)*bs+k instead of the "
                "diagonal: block coarsening != lifted scalar coarsening [%s, %s]" % (s["coarsening"], ",".join(clauses)))
    if s["coarsening"] == "ruge_stuben" and s.get("poison"):
        return "ruge_stuben with recycled-heap contents (uninitialised S.val): " + ",".join(clauses)
    return "%s output violates %s" % (s["coarsening"], ",".join(clauses))


def run(c):
    th = c.thorough()
    c.rule = ("model: every CoPatterns matrix (all digraph masks <= 4 nodes quick / 5 thorough, all symmetric masks <= 5 "
              "quick / 6 thorough, value modes incl. positive-only rows, eps in {1/4,1/2}, omega in {1/2,2/3,1}, truncation "
              "in {off,1/4,1/2} with exact ties) through the transcribed plain/pointwise aggregation, tentative "
              "prolongation, smoothed aggregation and Ruge-Stuben; code: the same enumerated spaces (thinned by a "
              "seed-dependent stride in the quick tier) plus seeded random graphs (to 120 / 300 nodes), block sizes 1..3, "
              "near-null spaces of dimension 1..3 through the public classes; a case is non-trivial when the coarsening "
              "produced at least one aggregate / C point; distinct by input digest")
    c.mechanism = {
        "PartitionOK / TravelTogetherOK / BlockLiftOK / strong flags": "M+V (exact, integers)",
        "TentativeOK, disjoint supports, orthogonal columns, constant reproduced (no null space)": "M+V (exact)",
        "SmoothedOK = (I - w D_F^-1 A_F) P_tent, RowSumOneOK (SA, Ruge-Stuben), C/F sanity": "M (exact rationals) + V (2^-40 fixed point against exact rationals)",
        "cfsplit bucket bookkeeping (i2n/n2i inverse, sorted buckets, no index out of range)": "M",
        "near-null space: P^T P = I, P B_c = B, SA formula with B": "V structure + O (long double, quantised 2^-40)",
        "smoothed_aggr_emin: shape and sparsity pattern": "V",
    }
    c.assumptions = [
        "integer matrix data with positive diagonals; eps/omega/eps_trunc exactly representable or compared at 2^-40",
        "'strong' is the implementation's test eps^2 a_ii a_jj < a_ij^2 (strict); Ruge-Stuben: a_ij < eps * min_k a_ik",
        "rows whose filtered diagonal vanishes are outside the documented SA formula and not judged",
        "every allocation of the recorder is zero-filled (deterministic content of memory the library does not initialise); "
        "the 'poison' stage repeats Ruge-Stuben with 0xFF fill in a child process",
        "TLC, the CommunityModules Json reader, g++/libgomp are trusted",
    ]
    base = {}
    for mod in ("AggregatesModel", "BlockLiftModel", "SmoothedModel", "RugeStubenModel"):
        base[mod] = open(os.path.join(os.path.dirname(os.path.dirname(os.path.abspath(__file__))), "spec", mod + ".cfg")).read()
    pinned = {}

    def model(mod, name, workers=2, invariants=None, coverage=False, **consts):
        txt = base[mod]
        for k, v in consts.items():
            txt, n = re.subn(r"(?m)^(\s*%s\s*=\s*).*$" % re.escape(k), lambda m: m.group(1) + str(v), txt)
            assert n == 1, (mod, k)
        if invariants:
            txt = re.sub(r"(?m)^INVARIANTS.*$", "INVARIANTS " + invariants, txt)
        p = c.path("%s-%s.cfg" % (mod, name))
        open(p, "w").write(txt)
        r = c.tlc_model(mod, cfg=p, workers=workers, timeout=6000, coverage=coverage)
        r["name"] = name
        return r

    M4 = "{0, 2, 7, 9, 15, 16, 22, 23}"          # pairwise cover of weak x sgn x dg x mag
    NOSIGN = "{0, 1, 6, 7, 12, 13, 18, 19}"      # aggregation does not look at signs
    RSINV = "BucketInv SortedInv NoOOBInv SplitInv EmptyInv SanityInv RowSumInv TruncSumInv"
    AGINV = "TypeInv PartitionInv FlagsInv SymInv"
    jobs = [
        # transcriptions of the code as it is meant to be (repaired variants); longest first
        lambda: model("RugeStubenModel", "di4", N=4, Modes="{22}" if not th else M4, invariants=RSINV, workers=3),
        lambda: model("RugeStubenModel", "sym5", N=5, Sym="TRUE", Modes="{21, 22}" if not th else ALL, invariants=RSINV, workers=3),
        lambda: model("SmoothedModel", "di4", N=4, Modes="{7}" if not th else M4, OmegaCodes="{23}", workers=3),
        lambda: model("AggregatesModel", "di4", N=4, Modes=NOSIGN, invariants=AGINV, workers=2),
        lambda: model("RugeStubenModel", "di3", N=3, Modes=M4, invariants=RSINV + " RunInv", workers=2),
        lambda: model("SmoothedModel", "di3", N=3, OmegaCodes="{12, 23, 11}" if th else "{23, 11}", workers=2),
        lambda: model("SmoothedModel", "kron3x2", N=3, BS=2, Modes="{7, 22}", OmegaCodes="{12}", EpsDens="{4}"),
        lambda: model("BlockLiftModel", "kron3x2", N=3, BS=2, Modes="{0, 7, 13, 18}", workers=2),
        lambda: model("AggregatesModel", "sym5", N=5, Sym="TRUE", Modes=NOSIGN, invariants=AGINV),
        # the code as pinned (known defects): TLC stops at the first counter-example
        lambda: pinned.__setitem__("tie", model("RugeStubenModel", "pinned-tie", N=4, Sym="TRUE", Modes="{19, 21}", TieBug="TRUE", invariants="RowSumInv")),
        lambda: pinned.__setitem__("lift", model("BlockLiftModel", "pinned-lift", N=3, BS=2, Modes="{0}", LiftBug="TRUE", invariants="LiftInv")),
        lambda: pinned.__setitem__("uninit", model("RugeStubenModel", "pinned-uninit", N=4, Sym="TRUE", Modes="{4, 5}", Uninit="TRUE", invariants="NoOOBInv")),
        # small runs with TLC's coverage statistics (vacuity control: an action that is never taken is reported)
        lambda: model("AggregatesModel", "di3", N=3, Modes=ALL, coverage=True),
        lambda: model("BlockLiftModel", "kron2x3", N=2, BS=3, Modes=NOSIGN, coverage=True),
    ]
    if th:
        jobs = [
            # all 32768 symmetric 6-node graphs through Ruge-Stuben (about 300 CPU s): thorough only since the quick tier has to fit 3 minutes
            lambda: model("RugeStubenModel", "sym6", N=6, Sym="TRUE", Modes="{21}", EpsDens="{4}", TruncDens="{2}", invariants=RSINV, workers=5),
            lambda: model("AggregatesModel", "di5", N=5, Modes="{19}", invariants=AGINV, workers=5),
            lambda: model("RugeStubenModel", "sym6more", N=6, Sym="TRUE", Modes="{15, 22}", EpsDens="{4}", TruncDens="{0, 2}", invariants=RSINV, workers=5),
        ] + jobs + [
            lambda: model("AggregatesModel", "sym6", N=6, Sym="TRUE", Modes=NOSIGN, invariants=AGINV, workers=3),
            lambda: model("SmoothedModel", "sym5", N=5, Sym="TRUE", Modes=ALL, OmegaCodes="{23, 12}", workers=3),
            lambda: model("BlockLiftModel", "gen2x2", N=2, BS=2, Modes="{0}", GenLo=0, GenHi=65535, workers=3),
            lambda: model("SmoothedModel", "kron2x3", N=2, BS=3, Modes=ALL, OmegaCodes="{12, 23}"),
        ]

    # ------------------------------------------------------------------ the real code
    rc = c.build("record_coarsening", ["record_coarsening.cpp"])
    S = 1 if th else None
    runs = [  # (label, args, chunk)
        ("enum1", ["enum", 1, 0, "plasSer", "all", 1], None),
        ("enum2", ["enum", 2, 0, "plasSer", "all", 1], 1200),
        ("enum3-agg", ["enum", 3, 0, "pl", NOSIGN.strip("{}").replace(" ", ""), 1], 1200),
        ("enum3", ["enum", 3, 0, "asSer", "all", S or 3], 1200),
        ("enum4-agg", ["enum", 4, 0, "p", "1,7,13,19,0", S or 5], 2000),
        ("enum4", ["enum", 4, 0, "asr", "7,9,15,22", S or 16], 1000),
        ("enum4-block", ["enum", 4, 0, "lS", "7,22", S or 16], 300),
        ("sym5", ["enum", 5, 1, "psr", "all", 2 if th else 16], 1200),
        ("sym6", ["enum", 6, 1, "r", "19,21", 2 if th else 32], 800),
        ("random", ["random"], 40),
        ("nullspace", ["ns"], 60),
        ("poison", ["poison"], 200),
    ]
    if th:
        runs += [("sym6-sa", ["enum", 6, 1, "ps", "7,21", 8], 1500), ("di5", ["enum", 5, 0, "pr", "7,22", 128], 1500)]
    traces = []
    for label, args, chunk in runs:
        t = c.record(rc, args, out=c.path("co-%s.ndjson" % label), sig={"coarsening": "recorder", "clause": "crash"})
        traces.append((label, t, chunk))

    # models first (at most 6 JVMs), then the traces (tlc_trace runs its chunks in parallel).
    # The models do not depend on REPO: VERIF_C04_SKIP_MODELS=1 (development aid for mutation runs) skips them.
    if os.environ.get("VERIF_C04_SKIP_MODELS"):
        c.note("models skipped (VERIF_C04_SKIP_MODELS)")
        jobs = []
    if jobs:
        c.parallel(jobs, max_workers=6)
    for name, key in (("tie", "RowSumInv"), ("lift", "LiftInv"), ("uninit", "NoOOBInv")):
        m = pinned.get(name)
        if m is None:
            continue
        if m["violated"]:
            c.note("model of the snapshot behaviour (%s) violates %s as it must: counter-example found by TLC" % (m["name"], m["violated"]))
        else:
            # the snapshot variants (defects since repaired in /repo) must keep violating: otherwise the
            # invariant / the enumerated space lost the power to see that defect
            c.vacuous.append("RugeStuben/BlockLift model variant '%s' of the snapshot behaviour no longer violates %s" % (name, key))
    for m in c.models:
        if m.get("violated") and not str(m.get("cfg", "")).count("pinned"):
            c.drift("model %s violates %s: the transcription of the repaired algorithm is wrong or the algorithm has a further defect"
                    % (os.path.basename(str(m.get("cfg"))), m["violated"]))

    seen = {"tie": 0, "lift": 0, "poison": 0}
    drift = 0
    # One stateless trace: the records of all recorder runs are interleaved deterministically so that the
    # 16 parallel chunks cost about the same (one JVM each); `origin` maps a merged line back to its run.
    merged, origin = [], []
    for label, t, chunk in traces:
        for n, ln in enumerate(open(t).read().splitlines(), 1):
            if ln.strip() and '"e":"End"' not in ln:
                origin.append((label, n))
                merged.append(ln)
    order = sorted(range(len(merged)), key=lambda i: (i * 2654435761) % 4294967296)
    mp = c.path("co-all.ndjson")
    with open(mp, "w") as f:
        for i in order:
            f.write(merged[i] + "\n")
        f.write('{"e":"End"}\n')
    per = {}
    for label, n in origin:
        per[label] = per.get(label, 0) + 1
    c.note("recorded lines per run: " + ", ".join("%s=%d" % kv for kv in sorted(per.items())))
    res = c.tlc_trace("C04Trace", mp, label="all recorder runs (%d lines)" % len(merged),
                      chunk=max(500, (len(merged) + 15) // 16), timeout=3000)
    for ln in res["lines"][::max(1, len(res["lines"]) // 8)]:
        c.sample(ln, limit=8)
    for ln in res["lines"]:
        if '"empty":false' in ln:
            c.nontrivial.add(hash(ln.split('"A":')[1][:400] + ln[:60]))
    for lineno, clauses in res["bad"][:3000]:
        line = res["lines"][lineno - 1] if 0 < lineno <= len(res["lines"]) else "{}"
        label, olineno = origin[order[lineno - 1]] if 0 < lineno <= len(order) else ("?", 0)
        try:
            rec = json.loads(line)
        except Exception:
            rec = {"raw": line}
        if clauses == ["drift"]:
            drift += 1
            if drift <= 3:
                c.drift("recorded %s output differs from the transcription's Run although every predicate holds (%s line %d)"
                        % (rec.get("k"), label, olineno))
            continue
        s = sig(rec, clauses)
        s["stage"] = label
        if s.get("tie"):
            seen["tie"] += 1
        if s.get("blockflags"):
            seen["lift"] += 1
        if s.get("poison"):
            seen["poison"] += 1
        c.violation(what_of(rec, clauses, s), {"line": rec, "run": label, "lineno": olineno, "clauses": clauses}, s)
    if drift:
        c.note("%d enumerated cases drifted from the transcription" % drift)
    c.exhaustive = True
    # a pinned-variant counter-example that the real code does not reproduce = the repository was repaired
    for name, key in (("tie", "tie"), ("lift", "lift"), ("uninit", "poison")):
        m = pinned.get(name)
        if m is not None and m["violated"] and not seen[key]:
            c.note("pinned-code model '%s' has a counter-example that the real code does not reproduce (repaired in REPO)" % name)
