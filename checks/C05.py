"""C05 - each Krylov method produces its defining iterates."""
import json, collections


def sig(rec, clauses):
    return {"kind": rec.get("k"), "method": rec.get("method") or (rec.get("m") or "").split(".")[0],
            "side": rec.get("side"), "vt": rec.get("vt", "real"), "prec": rec.get("prec"), "family": rec.get("kind"),
            "reuse": rec.get("reuse"), "var": rec.get("var"), "delta": rec.get("delta"), "L": rec.get("L")}


def run(c):
    th = c.thorough()
    AMAX, AMAXCG, KMAX = 2, 3, 2      # larger entries overflow TLC's 32-bit rationals in the second step
    c.rule = ("model: KrylovProgModel - the transcribed amgcl recurrences (CG, BiCGStab both sides, Richardson, GMRES both sides "
              "and restarts) against the exact-rational definitions of KrylovRef on every non-singular integer 2x2 system with "
              "|a| <= %d (SPD |a| <= %d for CG), k <= %d%s; code: (a) the same systems through the real solvers with maxiter = k, "
              "x_k compared with the rational definition, (b) real solvers against an independent long-double reference on random "
              "dense systems n <= 60 (real/complex, symmetric/non-symmetric, identity/dense preconditioner, both sides, restarts), "
              "every k <= 14, (c) measured optimality / orthogonality / termination; a case is non-trivial when the solver "
              "iterated (k >= 1); distinct by input (system or seeded id, method, side, restart, k)"
              % (AMAX, AMAXCG, KMAX, ", two right-hand sides, zero and non-zero guess, three preconditioners, 9 method variants, "
                                       "plus 3x3 systems with |a| <= 1, k <= 3 for CG and Richardson" if th else ""))
    c.mechanism = {"program iterate = definition (KrylovProgModel: ProgMatchesRef, TerminatesAtN, CarriedResidual, GmresMonotone)": "M",
                   "real solver iterate = rational definition on the enumerated 2x2 systems": "M+V (exact rationals; reconstruction error <= 1e-10)",
                   "real solver iterate = long-double reference, CG optimality / Galerkin orthogonality, GMRES-family residual "
                   "optimality and monotone reported residual, Richardson formula, termination within n (+n/s)": "O"}
    c.assumptions = ["TLC integers are 32 bit: recurrences take a second step only from states with numerators/denominators <= 20 "
                     "(BsBound), Krylov vectors are rescaled to primitive integer vectors (spans unchanged)",
                     "GMRES is transcribed with an unnormalised orthogonal basis (Arnoldi/Givens are irrational); its iterate is "
                     "basis independent",
                     "class-O bounds: 1e-9 * cond(operator) for iterates and optimality, 1e-10 * cond for termination (1e-7 * cond for "
                     "complex BiCGStab(L >= 2)); calibrated, see docs/C05.md",
                     "TLC, CommunityModules Json, g++, Eigen (dense QR/LU/SVD in long double) are trusted"]

    # ---------------------------------------------------------------- model
    consts = {"AMax": AMAX, "AMaxCG": AMAXCG, "AMaxBs": AMAX, "KMax": KMAX, "Wide": "TRUE" if th else "FALSE"}
    if th:
        consts["Methods"] = ('{"cg", "bicgstab.left", "bicgstab.right", "richardson", "richardson.half", '
                             '"gmres.left.K", "gmres.right.1", "gmres.left.1", "gmres.right.K"}')
    import os
    if os.environ.get("C05_SKIP_MODEL"):      # development aid for mutation runs: the model does not depend on /repo
        m = {"violated": None, "output": "", "distinct": 0}
        c.note("model run skipped (C05_SKIP_MODEL)")
    else:
        m = c.tlc_model("KrylovProgModel", constants=consts, coverage=False, timeout=1700)
    if m["violated"]:
        c.note("KrylovProgModel violated at model level: %s (the bindings below decide on the real code)" % m["violated"])
    nsys_model = None
    import re
    mm = re.search(r"Finished computing initial states: (\d+) distinct", m["output"])
    if mm:
        nsys_model = int(mm.group(1))
        c.note("KrylovProgModel: %d systems x methods, %d states (k = 0..%d)" % (nsys_model, m["distinct"], KMAX))
    if th and not os.environ.get("C05_SKIP_MODEL"):
        m3 = c.tlc_model("KrylovProgModel", cfg="KrylovProgModel3.cfg", coverage=False, timeout=1700)
        if m3["violated"]:
            c.note("KrylovProgModel3 violated at model level: %s" % m3["violated"])

    # the augmentation ring of LGMRES (slot = n_outer mod K): distinct slots, last K corrections, oldest first;
    # the variant slot = outer_v.size() mod K is run as a demonstration that the invariants are not vacuous
    for kk in (2, 3):
        c.tlc_model("LgmresRing", constants={"K": kk, "Cycles": 3 * kk + 3})
    bad = c.tlc_model("LgmresRing", constants={"K": 3, "Rule": '"size"'}, coverage=False)
    c.note("LgmresRing with slot = size mod K: %s" % (bad["violated"] or "no violation (unexpected)"))

    # ---------------------------------------------------------------- code
    rk = c.build("record_krylov", ["record_krylov.cpp"], timeout=1200)

    def validate(trace, label, stage, chunk):
        res = c.tlc_trace("C05Trace", trace, label=label, chunk=chunk, timeout=1500)
        for ln in res["lines"][::max(1, len(res["lines"]) // 3)]:
            c.sample(ln, limit=10)
        recs = []
        for ln in res["lines"]:
            try:
                recs.append(json.loads(ln))
            except Exception:
                pass
        c.judge(res, "iterate differs from the method's definition", sigfn=sig, stage=stage)
        if not recs or recs[-1].get("e") != "End":
            c.violation("recorder output truncated (%s)" % label, {"trace": label}, {"stage": stage})
        return recs

    # (a) tiny systems: exact
    t = c.record(rk, ["tiny"], env={"C05_AMAX": AMAX, "C05_AMAXCG": AMAXCG, "C05_KMAX": KMAX, "C05_WIDE": 1 if th else 0},
                 out=c.path("tiny.ndjson"), timeout=900)
    recs = validate(t, "tiny-systems", "tiny", chunk=3000 if not th else 12000)
    tiny = [r for r in recs if r.get("k") == "tiny"]
    for r in tiny:
        c.nontrivial.add(("tiny", r["m"], tuple(r["A"]), tuple(r["P"]), tuple(r["f"]), tuple(r["x0"]), r["kk"]))
    cnt = [r for r in recs if r.get("k") == "tinycount"]
    if cnt:
        model_methods = 9 if th else 7
        c.note("tiny: %d recorded solves on %d (system, method) pairs, 11 method variants (model: %d pairs, %d variants); "
               "%d exceptions, %d NaN (breakdowns of BiCGStab, not judged when the definition breaks down too)"
               % (len(tiny), cnt[0]["systems"], nsys_model or -1, model_methods,
                  sum(1 for r in tiny if "exc" in r), sum(1 for r in tiny if r.get("nan"))))
        # cross-check of the enumeration: thorough tier records every (system, method) pair of the model
        per = collections.Counter(r["m"] for r in tiny if r["kk"] == 1)
        if nsys_model and th:
            want = sum(v for k, v in per.items() if k in {"cg", "bicgstab.left", "bicgstab.right", "richardson", "richardson.half",
                                                          "gmres.left.K", "gmres.right.1", "gmres.left.1", "gmres.right.K"})
            if want != nsys_model:
                c.drift("recorder enumerated %d (system, method) pairs for the model's methods, the model has %d initial states" % (want, nsys_model))
    c.exhaustive = not m["violated"]

    # (b), (c): class O
    jobs = [("ref", "real"), ("ref", "complex"), ("prop", "real"), ("prop", "complex")]
    outs = c.parallel([(lambda mode=mode, vt=vt: c.record(rk, [mode, vt], out=c.path("%s-%s.ndjson" % (mode, vt)), timeout=1500))
                       for mode, vt in jobs], max_workers=4)
    for (mode, vt), o in zip(jobs, outs):
        recs = validate(o, "%s-%s" % (mode, vt), mode, chunk=400)
        for r in recs:
            if r.get("k") in ("ref", "cgopt", "minres", "term", "delta", "afterbrk"):
                c.nontrivial.add((r["k"], vt, r.get("id"), r.get("method"), r.get("side")))
        if mode == "ref":
            rr = [r for r in recs if r.get("k") == "ref" and r.get("err")]
            if rr:
                c.note("ref-%s: %d (system, method) pairs, %d iterates compared, worst distance %d millidecades (bound -9000 + cond)"
                       % (vt, len(rr), sum(len(r["err"]) for r in rr), max(max(r["err"]) - r["cond"] for r in rr)))
