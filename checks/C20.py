"""C20 - the C interface (0- and 1-based) gives the C++ results.

model -> code: TLC enumerates every valid call sequence of the C handle API (spec/CApiModel.tla,
history variable, maximal histories printed as JSON); harness/replay_capi.cpp steps the REAL
lib/amgcl.cpp (second translation unit of the harness) through each of them next to the plain C++
run-time objects (shadow) and a 0-based twin handle; code -> model: every API call is one event of a
trace that spec/C20Trace.tla replays through the CApi actions and judges (SameAsCpp, OneBasedOK,
ParamsReach).  The same replay built with AddressSanitizer on exact-size arrays observes reads
outside the caller's arrays and unmatched create/destroy (leaks).
"""
import json, os, re, threading
import vcheck

QUICK = [  # (label, constants of CApiModel)
    ("len5-one-group", dict(MaxLen=5, Switches=0, Free="FALSE", Prelude="FALSE")),
    ("len4-interleaved", dict(MaxLen=4, Switches=9, Free="FALSE", Prelude="FALSE")),
    ("prelude+4-one-group", dict(MaxLen=4, Switches=0, Free="FALSE", Prelude="TRUE")),
]
THOROUGH = [
    ("len6-one-group", dict(MaxLen=6, Switches=0, Free="FALSE", Prelude="FALSE")),
    ("len5-interleaved", dict(MaxLen=5, Switches=9, Free="FALSE", Prelude="FALSE")),
    ("len4-interleaved-free", dict(MaxLen=4, Switches=9, Free="TRUE", Prelude="FALSE")),
    ("prelude+4-one-group", dict(MaxLen=4, Switches=0, Free="FALSE", Prelude="TRUE")),
    ("prelude+3-interleaved-free", dict(MaxLen=3, Switches=9, Free="TRUE", Prelude="TRUE")),
]
NPARTS = 6           # replay processes / trace files / concurrent trace JVMs
ASAN_RC = 77


def sigfn(rec, clauses):
    return {"call": rec.get("f"), "handle": rec.get("h"),
            "clause": clauses[0] if clauses else "", "cleanup": rec.get("cl", 0)}


def seq_line(sid, calls):
    return "%d %s" % (sid, " ".join("%s,%s,%s,%d,%d" % (x["f"], x["h"], x["p"] or "-", x["m"], x["k"]) for x in calls))


def run(c):
    th = c.thorough()
    c.rule = ("model: every valid call sequence of the 19 functions of lib/amgcl.h over one params handle per shape, one "
              "preconditioner and one solver handle, 2 matrices, 2 parameter sets (typed setters / read_json), both index bases: "
              "quick = all sequences of 5 calls within one handle group + all sequences of 4 calls with every interleaving + all "
              "4-call continuations of the 2 filled-params preludes; thorough = one call longer, free choice of setter/JSON and "
              "replacement matrix; code: every sequence replayed on the real C API, a 0-based twin handle and the C++ shadow; "
              "a case is non-trivial when it is an apply/solve/report on an object with a >= 2 level hierarchy built from a "
              "non-default parameter list, or a solve through a replacement matrix; distinct by (call, matrix, base, "
              "parameter map, replacement matrix, result digest)")
    c.mechanism = {"LifecycleOK (handle states follow create/use/destroy; TLC invariant + every event is an enabled CApi step)": "M+V",
                   "SameAsCpp (vector, iterations, residual, report text bitwise = C++ shadow)": "V (digests)",
                   "OneBasedOK (_f entry points = 0-based twin; canaries intact)": "V (digests)",
                   "no read outside the arrays / create-destroy matched": "O (AddressSanitizer + LeakSanitizer on exact-size arrays)",
                   "ParamsReach (tree read back from the handle = abstract map; effective params of the object; iterations obey maxiter/tol)": "M+V"}
    c.assumptions = ["single thread (OMP_NUM_THREADS=1); the C handle, its twin and the shadow are three separate objects",
                     "floats passed to amgcl_params_setf are dyadic with <= 9 significant decimal digits (exact as float, double and text); "
                     "a general float reaches the solver as the 9-digit decimal text of the float read as double (relative change <= 6e-9), "
                     "which the check does not judge",
                     "digests are 60 bits of a 64-bit FNV-1a hash of the raw bytes",
                     "reads outside the arrays are observed by AddressSanitizer (heap redzones), i.e. up to its detection power",
                     "TLC, the CommunityModules Json module, g++/clang++/libasan and boost::property_tree are trusted"]
    lock = threading.Lock()
    orig_violation = c.violation

    def locked_violation(*a, **k):
        with lock:
            return orig_violation(*a, **k)
    c.violation = locked_violation

    REPO = vcheck.REPO
    flags = ["-I" + os.path.join(REPO, "lib")]
    srcs = ["replay_capi.cpp", os.path.join(REPO, "lib", "amgcl.cpp")]
    box = {}

    def builds():
        # guard=False: lib/amgcl.cpp is compiled as a user compiles it (no verification hooks)
        box["bins"] = c.build_many([
            dict(name="replay_capi", sources=srcs, flags=flags, guard=False),
            dict(name="replay_capi_asan", sources=srcs, flags=flags + ["-DC20_EXACT"], san="address", guard=False)])

    def export(runs):
        seqs = []
        for label, consts in runs:
            # action coverage (vacuity) only where every action can fire: with the prelude both
            # parameter lists exist already, so params_create is never taken by construction
            res = c.tlc_model("CApiModel", constants=consts, workers=6, coverage=(consts["Prelude"] == "FALSE"), timeout=1500)
            if res["violated"]:
                # model-level only: the design as transcribed; never a verdict by itself
                c.drift("CApiModel[%s] violates %s (transcription to be corrected)" % (label, res["violated"]))
            got = [json.loads(json.loads(l)) for l in res["printed"] if l.startswith('"[')]
            if not got:
                raise vcheck.InfraError("CApiModel[%s] exported no history" % label)
            c.note("model run %s: %d maximal histories" % (label, len(got)))
            c.models[-1].pop("printed", None)          # the exported histories do not belong in the evidence file
            c.models[-1].update(label=label, sequences=len(got))
            seqs += got
        return seqs

    def models():
        box["seqs"] = export(THOROUGH if th else QUICK)
        if th:
            box["quick"] = export(QUICK)

    c.parallel([builds, models])
    normal, asan = box["bins"]

    def replay_all(seqs, seed, tag, with_asan, nparts):
        """Replay `seqs` (split round robin into nparts files = processes = trace files) with matrices
        of VERIF_SEED=seed; returns the number of sequences after judging everything."""
        nseq = len(seqs)
        c.log("[%s] %d call sequences, seed %d" % (tag, nseq, seed))
        parts = []
        for k in range(nparts):
            chunk = [(i + 1, s) for i, s in enumerate(seqs) if i % nparts == k]     # balanced parts
            if not chunk:
                continue
            p = c.path("seqs-%s-%d.txt" % (tag, k))
            with open(p, "w") as f:
                for sid, s in chunk:
                    f.write(seq_line(sid, s) + "\n")
            jd = c.path("json-%s-%d" % (tag, k))
            os.makedirs(jd, exist_ok=True)
            os.makedirs(jd + "a", exist_ok=True)
            parts.append((k, p, jd, len(chunk)))

        def normal_part(part):
            k, p, jd, n = part
            t = c.record(normal, [p, jd], out=c.path("capi-%s-%d.ndjson" % (tag, k)), timeout=1200,
                         env={"VERIF_SEED": seed}, sig={"stage": "replay", "clause": "crash"})
            # a replay that crashed (already registered as a violation by c.record) can leave an empty
            # trace or a torn last line: neither may turn the verdict into an infrastructure error
            try:
                ls = open(t).read().splitlines()
            except OSError:
                ls = []
            good = []
            for ln in ls:
                try:
                    json.loads(ln)
                    good.append(ln)
                except Exception:
                    c.note("replay part %d: dropped a torn trace line after a crash" % k)
            if not good:
                return dict(total=0, consumed=0, bad=[], lines=[])
            if len(good) != len(ls):
                open(t, "w").write("\n".join(good) + "\n")
            return c.tlc_trace("C20Trace", t, label="%s part %d (%d sequences, seed %d)" % (tag, k, n, seed),
                               timeout=1500, heap="6g")

        def asan_part(part):
            k, p, jd, n = part
            out = c.path("capi-asan-%s-%d.ndjson" % (tag, k))
            env = {"VERIF_SEED": seed, "VERIF_TIER": c.tier, "OMP_NUM_THREADS": 1,
                   "ASAN_OPTIONS": "exitcode=%d:detect_leaks=1:abort_on_error=0:allocator_may_return_null=1" % ASAN_RC}
            rc, so, err = c.sh([asan, p, jd + "a"], env=env, timeout=2400, stdout=out)
            c.log("ASan replay %s part %d (%d sequences): rc=%s" % (tag, k, n, rc))
            return (k, n, rc, err, out)

        # two pools: <= 6 replay+trace-JVM pipelines and, beside them, <= 6 ASan replays (no JVM)
        def run_normals():
            return c.parallel([(lambda q=q: normal_part(q)) for q in parts], max_workers=NPARTS)

        def run_asans():
            return c.parallel([(lambda q=q: asan_part(q)) for q in parts], max_workers=NPARTS) if with_asan else []
        traces, asans = c.parallel([run_normals, run_asans])

        # ---- judge the traces
        begins = ends = creates = 0
        for res in traces:
            for ln in res["lines"]:
                if ln.startswith('{"e":"Begin"'):
                    begins += 1
                elif ln.startswith('{"e":"End"'):
                    ends += json.loads(ln)["nseq"]
                elif ln.startswith('{"e":"Obs"') and "obs" not in box:
                    r = box["obs"] = json.loads(ln)
                    c.note("amgcl_params_setf on %d general floats: %d read back as the same float (judged), %d as the same double "
                           "(not judged; e.g. 1e-6f is stored as '%s')" % (r["n"], r["f32same"], r["f64same"], r.get("text1", "")))
                elif '"c":[' in ln or '"lv":' in ln:
                    r = json.loads(ln)
                    if "lv" in r:
                        creates += 1
                        if r["lv"] >= 2 and r["shprm"]:
                            c.nontrivial.add(("create", r["f"], r["m"], json.dumps(r["shprm"], sort_keys=True), r["lv"]))
                    elif r["f"] in ("solver_solve_mtx", "solver_solve_mtx_f", "solver_solve_mtx_upd", "solver_solve_mtx_upd_f") or r["c"][2] > 1 or r["f"] == "precond_apply":
                        c.nontrivial.add((r["f"], r["m2"], tuple(r["c"])))
            for ln in res["lines"][1:200000:20011]:
                c.sample(ln, limit=8)
            c.judge(res, "C API call differs from the C++ run-time interface / parameter did not arrive", sigfn=sigfn, stage="replay")
        crashed = any(v[2].get("clause") == "crash" for v in c.violations) or any(
            h[1].get("match", {}).get("clause") == "crash" for h in c.known_hits.values())
        if not crashed and (begins != nseq or ends != nseq):
            raise vcheck.InfraError("[%s] replayed %d sequences (End events: %d) but TLC exported %d" % (tag, begins, ends, nseq))
        c.note("[%s, seed %d] %d sequences replayed, %d exported by TLC; %d create calls" % (tag, seed, begins, nseq, creates))

        # ---- judge the AddressSanitizer replays
        adone = 0
        for k, n, rc, err, out in asans:
            last = ""
            try:
                ls = open(out).read().splitlines()
                last = ls[-1] if ls else ""
                if rc == 0:
                    adone += json.loads(last).get("nseq", 0) if last.startswith('{"e":"End"') else 0
            except OSError:
                pass
            if rc == 0:
                continue
            if rc == 124:
                raise vcheck.InfraError("ASan replay timeout (part %d)" % k)
            m = re.search(r"ERROR: (AddressSanitizer|LeakSanitizer): ([^\n]*)", err)
            kind = (m.group(2).split(" on ")[0].strip() if m else "crash rc=%s" % rc)
            acc = re.search(r"^(READ|WRITE) of size \d+", err, re.M)
            cur = re.search(r"C20-CURRENT-CALL seq=(\d+) step=(\d+) f=(\S+)", err)
            try:
                lastrec = json.loads(last)
            except Exception:
                lastrec = {"raw": last[:500]}
            if rc == ASAN_RC or rc < 0 or rc in (3, 134, 136, 139):
                leak = "leak" in kind.lower()
                sig = {"stage": "asan", "clause": "create-destroy-matched" if leak else "no-out-of-bounds",
                       "kind": kind, "access": acc.group(1) if acc else "", "call": cur.group(3) if cur else ""}
                what = ("memory leaked although every created handle was destroyed (%s)" % kind) if leak else \
                       ("memory error on a valid call sequence with exact-size arrays: %s %s" % (kind, acc.group(0) if acc else ""))
                if cur:
                    what += " in %s" % cur.group(3)
                c.violation(what, {"part": k, "rc": rc, "seed": seed, "call_in_progress": cur.group(0) if cur else None,
                                   "last_completed_event": lastrec, "asan_report": err[:6000],
                                   "cmd": [asan, "seqs-%s-%d.txt" % (tag, k)]}, sig)
            else:
                raise vcheck.InfraError("ASan replay rc=%s\n%s" % (rc, err[-3000:]))
        if with_asan and not any(rc != 0 for _, _, rc, _, _ in asans):
            if adone != nseq:
                raise vcheck.InfraError("ASan replay finished %d of %d sequences" % (adone, nseq))
            c.note("[%s] AddressSanitizer+LeakSanitizer replay of all %d sequences on exact-size arrays: clean" % (tag, nseq))
            c.evaluations += nseq

    replay_all(box["seqs"], c.seed, "main", True, NPARTS if not th else 8 * NPARTS)
    if th:
        # more seeds: other matrix sizes (6x6..8x8 by seed % 3) and the non-symmetric variant (odd seeds)
        for ds in (1, 2):
            replay_all(box["quick"], c.seed + ds, "seed+%d" % ds, ds == 1, NPARTS)
    c.exhaustive = True
