"""X01 (extra coverage, not a listed property) - utility state machines: profiler, circular_buffer,
multi_array, human_readable_memory follow their specifications along every TLC-generated history."""
import re

def run(c):
    th = c.thorough()
    steps = 6 if th else 5
    c.rule = ("model: every tic/toc/reset/scoped_tic/counter-advance history of one profiler (<= %d calls, depth <= 3, names a,b) and every "
              "push/clear history of circular buffers of capacity 1..4 (<= %d calls); code: each history TLC emits is replayed on the real "
              "class (integer counter under the harness's control) and after every call the printed report / the window is compared with "
              "the state the specification reaches. non-trivial = a step at position >= 2 of a history" % (steps, 10 if th else 8))
    c.mechanism = {"profiler report = specification tree after every call": "M (Profiler.tla) + V (replay of TLC histories)",
                   "circular buffer window = last cap pushed values": "M (Ring.tla) + V (replay of TLC histories)",
                   "multi_array offsets, human_readable_memory": "V (closed-form definitions)"}
    c.assumptions = ["the profiler is observed only through toc()'s return value and operator<< (it has no other accessors)",
                     "toc() with nothing open is outside the specification (the class documents no behaviour for it); no history contains it"]
    c.tlc_model("ProfilerModel", constants={"MaxSteps": steps + 1})
    vac = c.tlc_model("ProfilerModel", cfg="ProfilerVac.cfg")
    if not vac["violated"]:
        c.vacuous.append("no reachable report with a self line")
    h = c.tlc_model("ProfilerModel", cfg="ProfilerHist.cfg", constants={"MaxSteps": steps}, workers=1, coverage=False)
    hists = sorted(set(re.sub(r'[\\" ]', "", m) for m in re.findall(r'HIST <<(.*?)>>', h["output"])))
    if len(hists) < 1000:
        raise Exception("too few profiler histories from TLC: %d" % len(hists))
    hp = c.path("prof-hists.txt")
    open(hp, "w").write("\n".join(hists) + "\n")
    r = c.tlc_model("RingModel", constants={"MaxSteps": 10 if th else 8}, workers=1, coverage=False)
    rh = sorted(set(re.sub(r'[\\" ]', "", m) for m in re.findall(r'HIST <<(.*?)>>', r["output"])))
    if len(rh) < 4 * 2 ** 8:
        raise Exception("too few ring histories from TLC: %d" % len(rh))
    rp = c.path("ring-hists.txt")
    open(rp, "w").write("\n".join(rh) + "\n")
    c.exhaustive = True
    ru = c.build("replay_util", ["replay_util.cpp"])
    for mode, args in (("prof", ["prof", hp]), ("ring", ["ring", rp]), ("misc", ["misc"])):
        t = c.record(ru, args, out=c.path(mode + ".ndjson"), timeout=900)
        res = c.tlc_trace("X01Trace", t, label=mode, chunk=30000)
        if mode == "prof":
            mis = sum(1 for ln in res["lines"] if '"aligned":false' in ln)
            c.note("profiler reports whose value column is not aligned: %d of %d (a 'self' line nested deeper than the widest name; "
                   "cosmetic, total_width() ignores self lines - no clause demands alignment)" % (mis, res["total"]))
        for ln in res["lines"][5:9]:
            c.sample(ln, limit=10)
        c.nontrivial.update((mode, i) for i in range(res["total"]))
        c.judge(res, "utility object differs from its specification", sigfn=lambda rec, cl: {"k": rec.get("k", rec.get("e")), "a": rec.get("a")}, stage=mode)
