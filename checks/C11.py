"""C11 - distributed matrix algebra equals serial algebra for every partition."""
import re

QUICK_NP = (1, 2, 3, 5)
ALL_NP = (1, 2, 3, 4, 5, 6, 7, 8)
# FromRows / FlattenSeq recurse once per matrix row: matrices of ~200 rows overflow the default Java thread stack
XSS = {"JAVA_TOOL_OPTIONS": "-Xss64m"}


def sig(rec, clauses):
    return {"op": rec.get("k") or rec.get("e"), "np": rec.get("np"), "tagclass": rec.get("tag")}


def run(c):
    th = c.thorough()
    c.rule = ("model: every 3x3 pattern (quick tier: a seed-rotated quarter) x every contiguous partition (empty ranks included) for 1-2 ranks, a seed-rotated "
              "1/64 of the patterns (a quarter of them in the thorough tier) for 3 ranks, every 2x3 pattern x every independent "
              "row/column partition for 1-2 ranks, each under every rank interleaving and message arrival order; "
              "code: mpirun -n {1,2,3,5} (thorough 1..8) over the same mask-enumerated spaces plus seeded random integer "
              "matrices (rectangular too) with random partitions; a recorded case is non-trivial when at least one rank "
              "has a send neighbour (ghost values really travel); distinct by (np, partition, matrix)")
    c.mechanism = {"PatternOK / GhostOK / DistSpmvOK / no mixing of consecutive exchanges / deadlock freedom under any arrival order": "M",
                   "split, pattern, spmv, residual, inner product, transpose, product, remote_rows, scale, sort_rows, copy, "
                   "Gershgorin = serial definition on the assembled matrix; sizes and scalars identical on all ranks": "V",
                   "PMPI log: FifoMatch, Completed, CollectiveLockstep": "V",
                   "scaled Gershgorin bitwise = serial kernel; power method bitwise identical on all ranks": "O"}
    c.assumptions = ["integer-valued data: IEEE doubles (and floats for the backend copy) are exact, TLC recomputes the definition exactly",
                     "OpenMPI 4.1 on one node (shared memory transport) produces the arrival orders; other orders are covered by the model only",
                     "the harness' own gather (PMPI_Gatherv) and TLC, CommunityModules Json, mpicxx/g++ are trusted",
                     "eager/rendezvous: the model lets a send buffer be read at any time between Isend and the completion of its wait"]
    nps = ALL_NP if th else QUICK_NP
    off = (c.seed * 7 + 5) % 64

    def models():
        base = {"N": 3, "M": 3, "SamePart": "TRUE"}
        # three state spaces side by side (distinct cfg files so that the derived configs do not collide)
        c.parallel([
            lambda: c.tlc_model("DistMatrixModel", constants=dict(base, MinNP=1, MaxNP=2, MaskStride=1 if th else 4, MaskOff=0 if th else off % 4),
                                workers=6, coverage=False, heap="4g"),     # (-coverage slows TLC down several times: collected on the small space only)
            lambda: c.tlc_model("DistMatrixModel", cfg="DistMatrixModel3.cfg",
                                constants=dict(base, MinNP=3, MaxNP=3, MaskStride=4 if th else 64, MaskOff=off % 4 if th else off), workers=6 if not th else 12, timeout=2400, coverage=False, heap="6g"),
            lambda: c.tlc_model("DistMatrixModel", cfg="DistMatrixModelRect.cfg",
                                constants={"N": 2, "M": 3, "SamePart": "FALSE", "MinNP": 1, "MaxNP": 2,
                                           "MaskStride": 1 if th else 2, "MaskOff": 0 if th else off % 2}, workers=4, heap="3g")])

    def validate(t, label, chunk):
        # a crashed recorder (already reported by c.record) may leave a truncated last line
        lines = [x for x in open(t).read().splitlines() if x.startswith("{") and x.endswith("}")]
        if not lines:
            return None
        open(t, "w").write("\n".join(lines) + "\n")
        return c.tlc_trace("C11Trace", t, label=label, chunk=chunk, env=XSS, heap="3g")

    def code():
        rd = c.build("record_dist", ["record_dist.cpp"], mpi=True)
        stride = {1: 1, 2: 1 if th else 2, 3: 1 if th else 8, 4: 2 if th else 16, 5: 4 if th else 64, 6: 8, 7: 16, 8: 32}
        mca = {"OMPI_MCA_mpi_yield_when_idle": 1, "OMPI_MCA_hwloc_base_binding_policy": "none"}
        jobs = []
        for n in nps:
            jobs.append((n, "small", {"VERIF_STRIDE": stride[n]}, 6000))
            if n > 1:
                jobs.append((n, "rect", {"VERIF_STRIDE": 1 if th and n < 4 else 2 * stride[n]}, 6000))
            jobs.append((n, "random", {"VERIF_SHIM": 1}, 400))
            if n in (3, 5, 8) or th:
                jobs.append((n, "big", {}, 40))

        def one(job):
            n, mode, env, chunk = job
            t = c.record(rd, [mode], mpi=n, env=dict(mca, **env), out=c.path("d-%s-%d.ndjson" % (mode, n)), timeout=1500,
                         hang_is_violation=True, sig={"np": n, "mode": mode})
            res = validate(t, "%s@%dranks" % (mode, n), chunk)
            if res is not None and mode == "random":
                # drift pass: recorded pattern / split storage vs the transcription (informational)
                sub = c.path("drift-%d.ndjson" % n)
                pick = [x for x in res["lines"] if x.startswith('{"k":"pattern"') or x.startswith('{"k":"build"')]
                open(sub, "w").write("\n".join(pick) + "\n")
                res["drift"] = c.tlc_trace("C11Trace", sub, label="drift@%dranks" % n, env=dict(XSS, C11MODE="drift"), heap="3g")["bad"] if pick else []
            return res
        for res in c.parallel([lambda j=j: one(j) for j in jobs], max_workers=3):
            if res is None:
                continue
            if res.get("drift"):
                c.drift("%d recorded patterns / splits are stored differently from CommPattern.tla's PatternRun / DistMatrix.tla's SplitRun "
                        "although the predicates hold (first: line %d)" % (len(res["drift"]), res["drift"][0][0]))
            for ln in res["lines"][:60000:1499]:
                c.sample(ln, limit=8)
            for ln in res["lines"]:
                if ln.startswith('{"k":"pattern"') and re.search(r'"snbr":\[\d', ln):
                    c.nontrivial.add(hash(ln.split('"D":')[0]))
            c.judge(res, "distributed operation differs from the serial definition", sigfn=sig, stage="dist")

    c.parallel([models, code])
    c.exhaustive = True
