"""C16 - direct and dense kernels are exact: skyline LU, small inverse, QR, static matrices, Cuthill-McKee."""
import hashlib, json


def sig(rec, clauses):
    return {"kernel": rec.get("k"), "tagclass": rec.get("tag") or rec.get("vt") or rec.get("via"),
            "value_type": rec.get("vtag") or rec.get("vt")}


def split_drift(c, res):
    """lines rejected only with the pseudo-clause drift:* satisfy every predicate: SPEC-DRIFT, not a violation"""
    keep, n = [], 0
    for ln, clauses in res["bad"]:
        if clauses and all(x.startswith("drift:") for x in clauses):
            n += 1
            if n <= 3:
                c.drift("recorded storage differs from the transcription (predicates hold): line %d %s" % (ln, res["lines"][ln - 1][:300]))
        else:
            keep.append((ln, clauses))
    res["bad"] = keep
    return n


def whole_lines(c, path):
    """a crashed recorder (already reported by c.record) may leave a truncated last line / an empty file"""
    lines = [x for x in open(path).read().splitlines() if x.startswith("{") and x.endswith("}")]
    if not lines:
        return False
    open(path, "w").write("\n".join(lines) + "\n")
    return True


def run(c):
    th = c.thorough()
    c.rule = ("model: every N x N pattern with full diagonal x {raw, dominant, SPD} values x {CM, reversed CM} through the "
              "transcribed cuthill_mckee + skyline_lu on exact rationals (N = 3 quick, N = 4 thorough; the code side runs "
              "every 5th 4x4 pattern in quick, all in thorough), every 4x4 (5x5 with diagonal in thorough) pattern through cuthill_mckee, every 2x2 "
              "matrix over -2..2 and 3x3 over -1..1 (-1..2 thorough) through detail::inverse, static_matrix ring identities "
              "on 2x2 integer blocks, the stride maps of qr.hpp for all shapes <= 12x12, call histories of 3 calls over shapes <= 3x3 (4x4) on one QR / skyline object; code: the same spaces plus seeded "
              "random real/complex/block matrices through the public classes; a case is non-trivial when the matrix has "
              ">= 2 rows (and the kernel produced a result); distinct by digest of the recorded input")
    c.mechanism = {"a kernel object is reusable: any call of a history on one QR / skyline_lu object / inverse work buffer equals the call on a fresh object": "M (call-history model: no call reads scratch it has not written) + V (bitwise against a fresh object) + O (definition)",
                   "cuthill_mckee returns a permutation": "M+V (exact)",
                   "skyline profile covers every non-zero": "M+V (exact)",
                   "skyline solve A x = f": "M (exact rationals) + V (rational solution vs recorded double at 2^-20) + O (long-double residual)",
                   "zero pivot <=> exception": "M+V (judged where the floating-point elimination is exact: dyadic pivots)",
                   "A inv(A) = I (partial pivoting)": "M (exact) + V (2^-20) + O (residual)",
                   "static_matrix algebra identities": "M+V (exact integers)",
                   "QR: A = QR, Q^H Q = I, R upper triangular, least squares / minimum norm": "O (long double, Eigen oracle) judged by QrOK; stride arithmetic M",
                   "complex / block valued skyline, default direct solver, solver::EigenSolver": "O"}
    c.assumptions = ["integer-valued inputs: IEEE doubles hold them exactly; TLC recomputes the definition in exact rationals",
                     "recorded doubles are compared with the rational value at 2^-20 absolute (+-2 units); rounding-level "
                     "accuracy is judged on long-double residuals computed by the recorder (threshold 1e-12, worst observed 2e-14)",
                     "singular small blocks are outside the property (the code only asserts)",
                     "the recorder reads skyline_lu::perm/ptr with -fno-access-control (no /repo edit)",
                     "TLC, CommunityModules Json, g++/libgomp, Eigen (least-squares oracle) are trusted"]
    notes = {}

    def report(ms):
        for m in ms:
            if m["violated"]:
                notes[m["module"]] = m["violated"]
                c.note("model %s violated %s" % (m["module"], m["violated"]))

    # coverage=False: TLC's coverage bookkeeping slows the deeply recursive rational evaluation 20x
    def models_a():
        ms = [c.tlc_model("DirectModel", constants={"N": 3}, workers=4, coverage=False)]
        if th:
            ms.append(c.tlc_model("DirectModel", constants={"N": 4}, workers=6, coverage=False, timeout=1700))
        ms.append(c.tlc_model("PermModel", constants={"NP": 5, "DiagOnly": "TRUE"} if th else {"NP": 4, "DiagOnly": "FALSE"},
                              workers=6 if th else 8, coverage=False, timeout=1700))
        report(ms)

    def models_b():
        ms = [c.tlc_model("InverseModel", constants={"NI": 2, "NegLo": 2, "Hi": 2}, workers=4, coverage=False),
              c.tlc_model("InverseModel", constants={"NI": 3, "NegLo": 1, "Hi": 2 if th else 1}, workers=6 if th else 8, coverage=False, timeout=1700),
              c.tlc_model("StaticMatrixModel", constants={"Wide": "TRUE" if th else "FALSE"}, workers=6 if th else 8, coverage=False, timeout=1700),
              c.tlc_model("QrModel", workers=2),
              c.tlc_model("ScratchModel", constants={"SMAX": 4 if th else 3}, workers=4, coverage=False, timeout=1700)]
        # teeth: without the loop that zeroes a Q column above its diagonal the call-history model must find a stale read
        m = c.tlc_model("ScratchModel", constants={"ZeroAbove": "FALSE"}, workers=2, coverage=False)
        if m["violated"]:
            c.note("ScratchModel with ZeroAbove = FALSE violates %s as expected (history found after %d states)" % (m["violated"], m["states"]))
        else:
            c.vacuous.append("ScratchModel with ZeroAbove = FALSE no longer finds the stale read of QR::factorize")
        report(ms)

    def models():
        if th:
            c.parallel([models_a, models_b])
        else:
            models_a()
            models_b()

    def code():
        rd = c.build("record_direct", ["record_direct.cpp"], flags=["-fno-access-control"])
        runs = [("small", 1, 4000), ("random", 1, 400), ("random", 4, 400), ("inverse", 1, 2500), ("sm", 1, 600), ("qr", 1, 800), ("reuse", 1, 800), ("reuse", 4, 800), ("long", 1, 40), ("long", 4, 40), ("smc", 1, 800)]
        if th:
            runs += [("random", 16, 400)]
        for mode, nt, chunk in runs:
            t = c.record(rd, [mode], env={"OMP_NUM_THREADS": nt, "OMP_WAIT_POLICY": "passive", "GOMP_SPINCOUNT": 0}, out=c.path("d-%s-%d.ndjson" % (mode, nt)))
            if not whole_lines(c, t):
                continue
            res = c.tlc_trace("C16Trace", t, label="%s@%dthreads" % (mode, nt), chunk=chunk)
            for ln in res["lines"][:60000:1499]:
                c.sample(ln, limit=8)
            for ln in res["lines"]:
                if '"k":"' not in ln:
                    continue
                r = json.loads(ln)
                n = r.get("n") or (r.get("A") or {}).get("n") or r.get("rows") or r.get("N") or 0
                if isinstance(n, int) and n >= 2:
                    inp = {k: v for k, v in r.items() if k in ("k", "tag", "vtag", "vt", "rev", "A", "f", "n", "rows", "cols", "order", "cls", "a", "b", "sq", "via")}
                    c.nontrivial.add(hashlib.sha1(json.dumps(inp, sort_keys=True).encode()).hexdigest()[:12])
            split_drift(c, res)
            c.judge(res, "direct / dense kernel differs from its definition", sigfn=sig, stage="direct")

    c.parallel([models, code])
    c.exhaustive = True
    if notes and not c.violations:
        c.drift("model invariant(s) %s violated by the transcription but the real code satisfies every predicate on every recorded case" % notes)
