"""X03 (extra coverage, not a listed property) - repartitioning utilities (amgcl/mpi/partition/util.hpp, merge.hpp):
the renumbering is a stable bijection onto the parts' ranges, its matrix is the permutation matrix, I^T A I is the
renumbered operator, the partitioner graph is the symmetrised adjacency - for every rank count and part vector."""
import json

QUICK_NP = (1, 2, 3, 5)
ALL_NP = (1, 2, 3, 4, 5, 6, 7, 8)


def run(c):
    th = c.thorough()
    nps = ALL_NP if th else QUICK_NP
    reps = 400 if th else 120
    c.rule = ("model: graph_perm_index as the ranks execute it (one action per statement group, MPI_Exscan / MPI_Allreduce as enter/complete pairs), "
              "every interleaving, every part vector for 1..3 ranks with <= 2 rows each (thorough: <= 3 rows for 1..2 ranks in addition) and npart <= np: the result is the definition, a stable "
              "bijection into the parts' ranges, ranges tile, no rank is ever stuck, all terminate; code: mpirun -n %s, %d seeded cases each (random sizes "
              "with empty ranks, four styles of part vectors, random non-symmetric integer matrices with unsorted rows): graph_perm_index, graph_perm_matrix, "
              "I^T A I via mpi::transpose/product, symm_graph, partition::merge - each compared with Repartition.tla by X03Trace. "
              "non-trivial = a case where at least one row changes its number or its owner" % (list(nps), reps))
    c.mechanism = {"graph_perm_index = PermDef / RangeDef; Bijective, GoesToItsPart, Stable, RangesTile": "M (RepartitionModel, exhaustive) + V (recorded runs)",
                   "graph_perm_matrix = PermMatrixOK": "V", "I^T A I = Renumbered(A, perm), rows follow the new ranges": "V",
                   "symm_graph = GraphRowDef": "V", "merge: is_needed and merged column ranges": "V"}
    c.assumptions = ["npart <= number of ranks (the callers pass the number of target ranks); rows of a part >= np would belong to no rank",
                     "ParMETIS / PT-Scotch themselves are not installed: the part vectors come from the harness, any vector in 0..npart-1 is a legal partitioner answer"]
    c.tlc_model("RepartitionModel", constants={"MinNP": 1, "MaxNP": 3, "MaxLoc": 2}, workers=8, coverage=False)
    if th:
        c.tlc_model("RepartitionModel", constants={"MinNP": 1, "MaxNP": 2, "MaxLoc": 3}, workers=8)
    else:
        c.tlc_model("RepartitionModel", constants={"MinNP": 1, "MaxNP": 2, "MaxLoc": 2}, workers=4)    # small space, with action coverage
    vac = c.tlc_model("RepartitionModel", cfg="RepartitionVac.cfg", workers=2, coverage=False)
    if not vac["violated"]:
        c.vacuous.append("no reachable renumbering moves a row")
    c.exhaustive = True
    rr = c.build("record_repart", ["record_repart.cpp"], mpi=True)
    mca = {"OMPI_MCA_mpi_yield_when_idle": 1, "OMPI_MCA_hwloc_base_binding_policy": "none", "VERIF_REPS": reps}
    # spec -> code: the model's whole input space (every Init state of RepartitionModel: sizes 0..2 per rank, npart <= np,
    # every part vector) is executed on the real routine; the number of executed cases must be the number of Init states
    for n in (1, 2, 3):
        t = c.record(rr, ["exh"], out=c.path("repart-exh-%d.ndjson" % n), mpi=n, env=dict(mca, VERIF_MAXLOC=2), timeout=900)
        lines = [x for x in open(t).read().splitlines() if x.startswith("{") and x.endswith("}")]
        if not lines:
            continue
        open(t, "w").write("\n".join(lines) + "\n")
        want = sum(sum(k ** m for m in range(3)) ** n for k in range(1, n + 1))
        got = sum(1 for x in lines if x.startswith('{"k":"perm"'))
        if got != want and lines[-1] == '{"e":"End"}':
            raise Exception("exhaustive replay for np=%d executed %d cases, the model has %d initial states" % (n, got, want))
        res = c.tlc_trace("X03Trace", t, label="model input space, np=%d" % n, chunk=400, env={"JAVA_TOOL_OPTIONS": "-Xss64m"}, heap="3g")
        c.nontrivial.update(("exh", n, i) for i in range(got))
        c.judge(res, "repartitioning utility differs from its specification", sigfn=lambda rec, cl: {"k": rec.get("k", rec.get("e")), "np": rec.get("np")}, stage="exh np=%d" % n)
    for n in nps:
        t = c.record(rr, [], out=c.path("repart-%d.ndjson" % n), mpi=n, env=mca, timeout=900)
        lines = [x for x in open(t).read().splitlines() if x.startswith("{") and x.endswith("}")]
        if not lines:
            continue
        open(t, "w").write("\n".join(lines) + "\n")
        for ln in lines:
            if ln.startswith('{"k":"perm"'):
                r = json.loads(ln)
                off = 0
                for q, pm in enumerate(r["perm"]):
                    if any(v != off + i for i, v in enumerate(pm)) or any(not (r["rng"][q][0] <= v < r["rng"][q][1]) for v in pm):
                        c.nontrivial.add((n, json.dumps(r["parts"])))
                    off += len(pm)
        res = c.tlc_trace("X03Trace", t, label="np=%d" % n, chunk=150, env={"JAVA_TOOL_OPTIONS": "-Xss64m"}, heap="3g")
        for ln in lines[5:7]:
            c.sample(ln[:600], limit=6)
        c.judge(res, "repartitioning utility differs from its specification", sigfn=lambda rec, cl: {"k": rec.get("k", rec.get("e")), "np": rec.get("np")}, stage="np=%d" % n)
