"""C07 - backend vector and matrix-vector primitives equal their algebraic definitions."""
import json, hashlib

PARTS = {1: "builtin scalar/complex", 2: "builtin blocks + mixed scalar/block", 3: "block_crs, eigen, hybrid",
         4: "mixed scalar/block with different matrix and vector precision"}

def sig(rec, clauses):
    return {"op": rec.get("op"), "backend": rec.get("be"), "type": rec.get("ty"), "mixed": rec.get("mixed", "")}

def run(c):
    c.rule = ("model: every primitive transcription on every coefficient class {0,1,-1,2} (+2 complex) x output content "
              "{finite, poison} x shape (empty vectors/rows, rectangular, size not divisible by block size) x kind "
              "(int, Gaussian int, 2x2 int blocks, 2x2 Gaussian blocks); code: seeded integer cases through the real "
              "primitives at 1 and 4 threads; a recorded case is non-trivial when its vectors are non-empty (n >= 1); "
              "distinct by digest of the whole input part of the record")
    c.mechanism = {"axpby/axpbypcz/vmul/copy/clear/lin_comb/spmv/residual = defining formula": "M+V",
                   "inner_product conjugate-linear in the second argument": "M+V",
                   "output with zero coefficient is write-only (NaN/Inf poison)": "M+V",
                   "scalar vectors where block vectors are expected give identical results": "M (Reinterpret) + V"}
    c.assumptions = ["integer-valued data: exact in float/double/long double, so TLC recomputes the definition with no tolerance",
                     "rounding behaviour on non-integer data is not examined",
                     "TLC, the CommunityModules Json reader, g++/libgomp, Eigen are trusted"]
    th = c.thorough()
    import sys, os
    sys.path.insert(0, os.path.join(os.path.dirname(os.path.abspath(__file__)), "..", "lib"))
    from vcheck import InfraError

    def builds():
        # parts 1-3 must build (else: infrastructure error). Part 4 instantiates the scalar<->block overloads with a matrix
        # precision different from the vector precision (supported: tutorial/5.Nullspace/nullspace_hybrid.cpp). If the rest
        # builds and only these instantiations do not compile any more, the library lost a supported use of the primitives.
        def opt4():
            try:
                return c.build("record_prims4", ["record_prims.cpp"], flags=["-DPART=4"])
            except InfraError as e:
                return e
        r = c.parallel([lambda: c.build_many([dict(name="record_prims%d" % p, sources=["record_prims.cpp"], flags=["-DPART=%d" % p]) for p in (1, 2, 3)]), opt4])
        bins = {1: r[0][0], 2: r[0][1], 3: r[0][2]}
        if isinstance(r[1], Exception):
            c.violation("mixed scalar/block primitives with different matrix and vector precision no longer compile (they do on the reference tree)",
                        {"compiler": str(r[1])[-3000:]}, {"stage": "compile", "op": "spmv/residual/vmul", "backend": "builtin", "type": "mixed precision", "mixed": "xy"})
        else:
            bins[4] = r[1]
        return bins
    _, bins = c.parallel([
        lambda: c.tlc_model("VecPrimsModel", constants={"NMax": 3, "BSMax": 4 if th else 3}, workers=10),
        builds])
    runs = [(p, nt) for p in sorted(bins) for nt in (1, 4)]
    if th:
        runs += [(p, nt) for p in sorted(bins) for nt in (2, 7)]

    def one(pn):
        p, nt = pn
        return p, nt, c.record(bins[p], [], env={"OMP_NUM_THREADS": nt, "OMP_WAIT_POLICY": "passive"}, out=c.path("prims-%d-%d.ndjson" % (p, nt)))
    traces = c.parallel([lambda pn=pn: one(pn) for pn in runs], max_workers=6)

    def val(t):
        p, nt, path = t
        return p, nt, c.tlc_trace("C07Trace", path, label="%s@%dthreads" % (PARTS[p], nt), chunk=400)
    for p, nt, res in c.parallel([lambda t=t: val(t) for t in traces], max_workers=3):
        for ln in res["lines"][::211]:
            c.sample(ln, limit=6)
        for ln in res["lines"]:
            if '"n":0,' in ln.split('"out"')[0] and '"A"' not in ln:
                continue
            if '"op"' in ln:
                c.nontrivial.add(hashlib.sha1(ln.split('"out"')[0].encode()).hexdigest()[:12])
        c.judge(res, "backend primitive differs from its defining formula", sigfn=sig, stage="primitives")
    c.exhaustive = True
