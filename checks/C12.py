"""C12 - distributed solve is truthful and rank-consistent for any rank count."""
import json

QUICK_NP = (1, 2, 3, 5)
ALL_NP = (1, 2, 3, 4, 5, 6, 7, 8)
# FromRows / FlattenSeq recurse once per matrix row: matrices of ~200 rows overflow the default Java thread stack
XSS = {"JAVA_TOOL_OPTIONS": "-Xss64m"}


def sig(rec, clauses):
    s = {"op": rec.get("k") or rec.get("e"), "np": rec.get("np"), "cfg": rec.get("cfg") or rec.get("tag"),
         "kind": rec.get("kind")}
    parts = str(rec.get("cfg") or "").split("/")
    if rec.get("kind") == "amg" and len(parts) >= 3:
        s.update(coarsening=parts[0], relax=parts[1], solver=parts[2])
    return s


def run(c):
    th = c.thorough()
    c.rule = ("model: every undirected strength graph on 4 nodes x 1-3 ranks and on 5 nodes x 2 ranks (thorough: 1-3, and 6 nodes x 2 "
              "ranks), every digraph on 3 (thorough: 4) nodes, each with every contiguous partition (empty ranks included) and every order of the ranks "
              "inside a phase, without a round counter (termination is a temporal property); consolidation: every partition of "
              "4 rows over 1-4 ranks x 1-3 requested masters; code: mpirun -n {1,2,3,5} (thorough 1..8): the real pmis on the same "
              "graph space (thinned for more ranks) + random M-matrices, the real mpi::amg hierarchy through recording "
              "coarsening/repartition template arguments, skyline_lu, and make_solver over coarsening x relaxation x solver; a "
              "case is non-trivial when >= 2 ranks own rows; distinct by (kind, np, partition, configuration, size)")
    c.mechanism = {"GlobalPartitionOK, round termination (<>done), n_undone bookkeeping, ghost-state agreement, closed form = interleaved machine": "M",
                   "ConsolidationOK / RhsOK / SolutionOK of the master-slave grouping": "M",
                   "aggregates of the real pmis: GlobalPartitionOK (and equal to the transcription: drift only)": "V",
                   "R = P^T, Ac = (1/over) R A P exactly (aggregation, over_interp 1|2), I permutation + merge rule + next A = I^T Ac I": "V",
                   "distributed skyline_lu = exact integer solution (|err| <= 1e-6 absolute, oracle checked exactly by TLC)": "V",
                   "PMPI log of setup/solve: FifoMatch, Completed, CollectiveLockstep": "V",
                   "iterations / residual bits identical on all ranks; ReturnOK with the true long-double residual; convergence; "
                   "smoothed aggregation / over_interp 1.5 Galerkin vs serial kernels (1e-12); near-null-space (1e-12)": "O",
                   "termination of every mpirun under timeout (hang = violation)": "O",
                   "subdomain_deflation with a different num_def_vec per rank: same truthfulness / rank-consistency clauses, plain and AddressSanitizer builds (a sanitizer report = recorder crash = violation)": "O"}
    c.assumptions = ["integer / dyadic data where exactness is claimed; eps_strong = 1/4 or 1/2 so the strength test is exact in doubles",
                     "true residual is computed by the harness in long double on the gathered solution",
                     "ReturnOK slack: reported <= tol => true <= 10 tol (measured |reported - true| <= 0.02 decades over seeds 0..5)",
                     "subdomain_deflation and block_preconditioner only with non-empty subdomains (a constant deflation vector on an "
                     "empty subdomain makes the deflated matrix singular by construction)",
                     "richardson is recorded but convergence within maxiter is not claimed for it",
                     "TLC, CommunityModules Json, OpenMPI 4.1 (single node), mpicxx are trusted"]
    nps = ALL_NP if th else QUICK_NP

    def models():
        # four small state spaces: run side by side (distinct cfg files: the derived configs must not collide)
        c.parallel([
            # action coverage (vacuity control) is collected on a tiny space only: -coverage slows TLC down ~10x here
            lambda: c.tlc_model("PmisModel", cfg="PmisModelCov.cfg", constants={"NN": 3, "MinNP": 1, "MaxNP": 3, "Sym": "TRUE"}, workers=2, heap="2g"),
            lambda: c.tlc_model("PmisModel", constants={"NN": 4, "MinNP": 1, "MaxNP": 3, "Sym": "TRUE"}, workers=4, coverage=False, heap="3g"),
            lambda: c.tlc_model("PmisModel", cfg="PmisModel5.cfg", constants={"NN": 5, "MinNP": 1 if th else 2, "MaxNP": 3 if th else 2, "Sym": "TRUE"},
                                workers=6 if not th else 8, timeout=2400, coverage=False, heap="4g"),
            lambda: c.tlc_model("PmisModel", cfg="PmisModelDi.cfg", constants={"NN": 4 if th else 3, "MinNP": 1, "MaxNP": 3, "Sym": "FALSE"},
                                workers=4 if not th else 8, timeout=2400, coverage=False, heap="4g"),
            lambda: c.tlc_model("Consolidation", workers=2, heap="1g")]
            + ([lambda: c.tlc_model("PmisModel", cfg="PmisModel6.cfg", constants={"NN": 6, "MinNP": 2, "MaxNP": 2, "Sym": "TRUE"},
                                    workers=8, timeout=3000, coverage=False, heap="6g")] if th else []))

    def validate(t, label, chunk):
        lines = [x for x in open(t).read().splitlines() if x.startswith("{") and x.endswith("}")]
        if not lines:
            return None
        open(t, "w").write("\n".join(lines) + "\n")
        return c.tlc_trace("C12Trace", t, label=label, chunk=chunk, env=XSS, heap="3g")

    def code():
        # plain and AddressSanitizer builds side by side (the sanitizer build runs the subdomain-deflation mode only)
        rs, rsa = c.build_many([dict(name="record_dist_solve", sources=["record_dist_solve.cpp"], mpi=True),
                                dict(name="record_dist_solve_asan", sources=["record_dist_solve.cpp"], mpi=True, san="address")])
        mca = {"OMPI_MCA_mpi_yield_when_idle": 1, "OMPI_MCA_hwloc_base_binding_policy": "none"}
        stride = {1: 1, 2: 1 if th else 4, 3: 2 if th else 8, 4: 8 if th else 32, 5: 16 if th else 64, 6: 64, 7: 128, 8: 256}
        jobs = []
        for n in nps:
            jobs.append((n, "aggr", {"VERIF_STRIDE": stride[n]}, 1500))
            jobs.append((n, "amg", {"VERIF_SHIM": 1 if n in (2, 3) else 0}, 12))
            jobs.append((n, "solve", {"VERIF_SHIM": 1 if n == 3 else 0}, 8))
            if n >= 2:
                # a different number of deflation vectors on every rank, strips and irregular partitions
                jobs.append((n, "sdd", {}, 20))
                if n in (2, 3, 5, 8):
                    jobs.append((n, "sdd-asan", {"ASAN_OPTIONS": "detect_leaks=0"}, 20))

        def one(job):
            n, mode, env, chunk = job
            binary, arg = (rsa, "sdd") if mode == "sdd-asan" else (rs, mode)
            t = c.record(binary, [arg], mpi=n, env=dict(mca, **env), out=c.path("s-%s-%d.ndjson" % (mode, n)), timeout=2400 if th else 900,
                         hang_is_violation=True, sig={"np": n, "mode": mode})
            res = validate(t, "%s@%dranks" % (mode, n), chunk)
            if res is not None and mode == "aggr":
                # drift pass: recorded aggregates vs the transcription's PmisRun (informational)
                sub = c.path("drift-%d.ndjson" % n)
                pick = [x for x in res["lines"] if '"k":"aggr"' in x]
                step = max(1, len(pick) // (2000 if th else 500))
                open(sub, "w").write("\n".join(pick[::step]) + "\n")
                res["drift"] = c.tlc_trace("C12Trace", sub, label="drift@%dranks" % n, chunk=300, env=dict(XSS, C12MODE="drift"), heap="3g")["bad"] if pick else []
            return res
        for res in c.parallel([lambda j=j: one(j) for j in jobs], max_workers=3):
            if res is None:
                continue
            if res.get("drift"):
                c.drift("%d of the sampled recorded aggregations differ from Pmis.tla's PmisRun although GlobalPartitionOK holds "
                        "(first: line %d)" % (len(res["drift"]), res["drift"][0][0]))
            for ln in res["lines"][:60000:997]:
                c.sample(ln, limit=8)
            for ln in res["lines"]:
                if '"rp":' not in ln or '"k":"msgs"' in ln:
                    continue
                try:
                    r = json.loads(ln)
                except Exception:
                    continue
                rp = r.get("rp") or []
                if sum(1 for i in range(len(rp) - 1) if rp[i + 1] > rp[i]) >= 2:
                    c.nontrivial.add((r.get("k"), r.get("np"), tuple(rp), r.get("cfg") or r.get("tag"), r.get("n") or (r.get("A") or {}).get("n"),
                                      json.dumps(r.get("A", ""))[:200]))
            c.judge(res, "distributed solver stack violates its contract", sigfn=sig, stage="distsolve")

    c.parallel([models, code])
    c.exhaustive = True
