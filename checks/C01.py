"""C01 - a reported convergence is truthful: residual, iteration count, solution."""
import json, collections

SIG_KEYS = ("solver", "side", "par", "opt", "maxit", "zero", "conv", "it", "nP")


def sig(rec, clauses):
    return {"mode": rec.get("mode"), "solver": rec.get("solver"), "side": rec.get("side"), "opt": rec.get("opt"),
            "coars": rec.get("coars"), "relax": rec.get("relax"), "fam": rec.get("fam"),
            "case": (rec.get("case") or "").rstrip("0123456789"), "maxit0": int(rec.get("maxit", -1) == 0),
            "kind": rec.get("k")}


def model_key(p):
    return (p["solver"], p["side"], p["par"], bool(p["opt"]), p["maxit"], bool(p["zero"]), bool(p["conv"]), p["it"], p["nP"])


def run(c):
    th = c.thorough()
    MAXIT, MAXPAR = (8, 4) if th else (6, 3)
    c.rule = ("model: KrylovCtl, every control path of the 8 solver skeletons for maxiter <= %d, M/L/s <= %d, both sides, "
              "every outcome of every convergence test; code: (a) replay - the same configuration grid through the real solvers "
              "with inputs designed to force the paths, (b) sampled run-time configurations over 6 matrix families, (c) family "
              "spd_m with default parameters, all 4 x 9 x 8 combinations; a recorded solve is non-trivial when the solver "
              "iterated (it > 0); distinct by (mode, configuration, case, it, nP)" % (MAXIT, MAXPAR))
    c.mechanism = {"Budget / ExitReason / iterations-account-for-work (KrylovRet predicates)": "M+V (model invariant; same predicate on every recorded return)",
                   "Provenance (reported residual belongs to the returned x)": "M (model) + O (|rep - tru| on the real code)",
                   "Termination under fairness": "M",
                   "reported = true residual, below-tol-is-solved": "O (long double recomputation; calibrated slack)",
                   "spd_m default parameters converge (it < 100, rep <= 1e-8)": "O",
                   "Richardson rate = cycle contraction": "O"}
    c.assumptions = ["the environment of KrylovCtl decides every convergence test: numbers are abstracted away",
                     "class-O slack constants (C01Trace.cfg) are calibrated on the unchanged tree, not derived",
                     "the convergence clause is stated for coefficient contrast <= 10 (measured: <= 20 iterations there)",
                     "recorders run with OMP_NUM_THREADS=1 (parallel Gauss-Seidel on non-symmetric matrices is a known defect elsewhere)",
                     "TLC, the CommunityModules Json reader, g++/libgomp, boost::property_tree are trusted"]
    consts = {"MaxIter": MAXIT, "MaxPar": MAXPAR}

    # ---------------------------------------------------------------- model
    m = c.tlc_model("KrylovCtl", constants=consts)
    if m["violated"]:
        c.note("KrylovCtl violated at model level: %s (replay on the real code decides)" % m["violated"])
    # the pinned tree's BiCGStab check_after (res = 2 eps): Provenance fails in the model; the replay
    # below decides on the real code (proposed_fixes/C01-bicgstab-check-after.md)
    pinned = c.tlc_model("KrylovCtl", cfg="KrylovCtlPinned.cfg", constants=consts, coverage=False)
    c.note("KrylovCtlPinned (check_after as in the pinned tree): %s" % (pinned["violated"] or "no violation"))
    paths = c.tlc_model("KrylovCtl", cfg="KrylovCtlPaths.cfg", constants=consts, coverage=False)
    Sm = {}
    for ln in paths["output"].splitlines():
        if ln.startswith('"PATH '):
            p = json.loads(json.loads(ln)[5:])
            Sm.setdefault(model_key(p), []).append("".join(p["path"]))
    if not Sm:
        raise Exception("no control paths exported by KrylovCtlPaths")
    npaths = sum(len(v) for v in Sm.values())
    c.note("KrylovCtlPaths: %d maximal control paths, %d distinct return signatures" % (npaths, len(Sm)))

    # ---------------------------------------------------------------- code
    rs = c.build("record_solve", ["record_solve.cpp"])

    def validate(trace, label, stage, chunk=4000):
        res = c.tlc_trace("C01Trace", trace, label=label, chunk=chunk)
        for ln in res["lines"][::max(1, len(res["lines"]) // 3)]:
            c.sample(ln, limit=9)
        recs = []
        for ln in res["lines"]:
            try:
                r = json.loads(ln)
            except Exception:
                continue
            recs.append(r)
            if r.get("k") == "ret" and r.get("it", 0) > 0:
                c.nontrivial.add((r["mode"], r["solver"], r["side"], r["par"], r["opt"], r["coars"], r["relax"], r["fam"],
                                  r["case"], r["maxit"], r["it"], r["nP"]))
        c.judge(res, "returned (iterations, residual) is not truthful", sigfn=sig, stage=stage)
        if not recs or recs[-1].get("e") != "End":
            c.violation("recorder output truncated (%s)" % label, {"trace": label}, {"stage": stage, "mode": stage})
        return res, recs

    # (a) replay: forced control paths
    t = c.record(rs, ["replay"], env={"C01_MAXITER": MAXIT, "C01_MAXPAR": MAXPAR}, out=c.path("replay.ndjson"), timeout=600)
    res, recs = validate(t, "replay", "replay")
    So = collections.defaultdict(list)
    for r in recs:
        if r.get("k") != "ret" or "it" not in r or r.get("nan") or r.get("amb") or "cv" not in r:
            continue
        k = (r["solver"], r["side"], r["par"], bool(r["opt"]), r["maxit"], bool(r["zero"]),
             bool(r["cv"]) and not r["zero"], r["it"], r["nP"])
        So[k].append(r["case"])
    extra = [k for k in So if k not in Sm]
    forced = [k for k in Sm if k in So]
    miss = collections.Counter((k[0], "opt" if k[3] else "") for k in Sm if k not in So)
    c.note("replay: %d of %d model return signatures forced in the real solvers (%.1f%%); not forced: %s" % (
        len(forced), len(Sm), 100.0 * len(forced) / len(Sm), dict(("%s %s" % k, v) for k, v in miss.items())))
    if len(forced) < 0.85 * len(Sm):
        c.vacuous.append("replay forced only %d of %d model signatures" % (len(forced), len(Sm)))
    if extra and not c.violations:
        c.drift("%d recorded return signatures are not behaviours of KrylovCtl although every predicate holds, e.g. %s (%s)"
                % (len(extra), dict(zip(SIG_KEYS, extra[0])), So[extra[0]][0]))
    c.exhaustive = not extra and not m["violated"]

    # (b), (c): class O through the run-time interface, sharded over processes
    NSH = 8
    for mode, label in (("solve", "families"), ("spd", "spd_m-defaults"), ("hist", "histories-restarts-cycles")):
        outs = c.parallel([(lambda sh=sh, mode=mode: c.record(rs, [mode, sh, NSH], out=c.path("%s-%d.ndjson" % (mode, sh)),
                                                                timeout=1500)) for sh in range(NSH)], max_workers=NSH)
        merged = c.path(mode + ".ndjson")
        with open(merged, "w") as f:
            for i, o in enumerate(outs):
                lines = [x for x in open(o).read().splitlines() if x.strip()]
                if not lines or '"e":"End"' not in lines[-1]:
                    c.violation("recorder output truncated (%s shard %d)" % (mode, i), {"trace": o}, {"stage": mode, "mode": mode})
                f.write("\n".join(x for x in lines if '"e":"End"' not in x) + "\n")
            f.write('{"e":"End"}\n')
        res, recs = validate(merged, label, mode, chunk=200)
        rets = [r for r in recs if r.get("k") == "ret"]
        nexc = collections.Counter(r["exc"][:48] for r in rets if "exc" in r)
        nnan = sum(1 for r in rets if r.get("nan"))
        if nexc or nnan:
            c.note("%s: %d solves ended in a C++ exception %s, %d returned NaN/Inf" % (label, sum(nexc.values()), dict(nexc), nnan))
        if mode == "solve":
            combos = set((r["solver"], r["coars"], r["relax"]) for r in rets)
            c.note("families: %d solves, %d distinct (solver, coarsening, relaxation) triples, families %s, %d left-preconditioned"
                   % (len(rets), len(combos), sorted(set(r["fam"] for r in rets)), sum(r["side"] == "left" for r in rets)))
        elif mode == "hist":
            ab = [r for r in recs if r.get("k") == "abort"]
            c.note("histories: %d aborted calls (%d thrown) followed by %d judged solves on the same object; restarts: %d solves "
                   "(max %d iterations, budget 500), %d restart-boundary sequences; cycles without pre-smoothing: %d solves "
                   "(max %d iterations, budget 100), %d Richardson contraction pairs"
                   % (len(ab), sum(r.get("thrown", 0) for r in ab), sum(1 for r in rets if r["mode"] == "hist"),
                      sum(1 for r in rets if r["mode"] == "restart"), max([r.get("it", 0) for r in rets if r["mode"] == "restart"] or [0]),
                      sum(1 for r in recs if r.get("k") == "restart"),
                      sum(1 for r in rets if r["mode"] == "cyc" and r.get("dflt") == 2),
                      max([r.get("it", 0) for r in rets if r["mode"] == "cyc" and r.get("dflt") == 2] or [0]),
                      sum(1 for r in recs if r.get("k") == "contract")))
        else:
            d = [r for r in rets if r.get("dflt") == 1 and "it" in r]
            if d:
                c.note("spd_m defaults: %d solves, max iterations %d, worst reported residual %d millidecades"
                       % (len(d), max(r["it"] for r in d), max(r.get("rep", 0) for r in d)))
