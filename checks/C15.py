"""C15 - solver and preconditioner objects are reusable; calls do not leak state."""
import json, re

NKINDS = 12

def run(c):
    th = c.thorough()
    c.rule = ("model: all call histories of length <= 3 (4 thorough) over 12 call kinds (incl. rebuild to an exact multiple of the matrix) on an object with persistent work registers "
              "and the LGMRES outer-vector ring (K <= 2..3, <= 3 restarts per call); code: every history TLC emits (1331 / 14641) replayed "
              "on one real object per kind (8 Krylov solvers, preonly, two amg, as_preconditioner, skyline_lu, make_solver) and call by "
              "call on fresh objects, bitwise; op streams of a stride of the histories through the NoLeak monitor. "
              "non-trivial = a call at position >= 2 of a history; distinct by (object, history prefix)")
    c.mechanism = {"each call = fresh object's result": "M (histories from SolverObject.tla) + V (bitwise replay)",
                   "no call reads a vector written by an earlier call": "M (NoLeak on OpMachine) + V (real op stream)",
                   "zero rhs / converged guess / inputs untouched": "V"}
    c.assumptions = ["single-threaded replay (bitwise comparisons)", "the throwing preconditioner wrapper fails on its 2nd apply",
                     "solver scalars (Hessenberg, Givens coefficients) are not vectors and are not tracked by the freshness monitor; "
                     "a leak through them is visible only through the bitwise comparison with a fresh object"]
    calls = 4 if th else 3
    c.tlc_model("SolverObject", constants={"MaxCalls": calls, "K": 3 if th else 2})
    noreset = c.tlc_model("SolverObject", constants={"MaxCalls": 2, "AlwaysReset": "FALSE"})
    if not noreset["violated"]:
        c.vacuous.append("SolverObject with AlwaysReset=FALSE does not show the documented LGMRES carry-over")
    stale = c.tlc_model("SolverObject", constants={"MaxCalls": 2, "RebuildAll": "FALSE"})
    if stale["violated"] != "OneVersion":
        c.vacuous.append("SolverObject with RebuildAll=FALSE does not violate OneVersion")
    h = c.tlc_model("SolverObject", cfg="SolverObjectHist.cfg", constants={"MaxCalls": calls}, workers=1, coverage=False)
    hists = sorted(set(re.sub(r'[\\" ]', "", m) for m in re.findall(r'HIST <<(.*?)>>', h["output"])))
    if len(hists) != NKINDS ** calls:
        raise Exception("expected %d histories from TLC, got %d" % (NKINDS ** calls, len(hists)))
    hp = c.path("hists.txt")
    open(hp, "w").write("\n".join(hists) + "\n")
    c.exhaustive = True
    ro = c.build("replay_objects", ["replay_objects.cpp"])
    t = c.record(ro, ["hist", hp], out=c.path("hist.ndjson"), timeout=1200)
    res = c.tlc_trace("C15Trace", t, label="histories", chunk=6000)
    for ln in res["lines"][7:20000:4999]:
        c.sample(ln, limit=5)
    for ln in res["lines"]:
        if '"k":"call"' in ln:
            r = json.loads(ln)
            if r["i"] >= 2:
                c.nontrivial.add((r["obj"], ",".join(r["hist"].split(",")[:r["i"]])))
    def sig(rec, clauses):
        return {"obj": rec.get("obj"), "call": rec.get("call")}
    c.judge(res, "object reuse", sigfn=sig, stage="histories")
    t = c.record(ro, ["ops", hp], out=c.path("ops.ndjson"), timeout=1200)
    res = c.tlc_trace("C15Trace", t, label="opstream")
    c.note("op stream: %d events" % res["total"])
    for ln in res["lines"][3:6]:
        c.sample(ln, limit=8)
    c.judge(res, "object reuse (op stream)", stage="opstream")
