"""C14 - run-time configuration is equivalent to compile-time configuration.

Readings of every parameter structure that are bound together here:
  (i)   docs/components/*.rst        documented members           (tools/scan_params.py)
  (ii)  header scan                   struct members + the import / check / export lists
  (iii) behaviour                     record_params pushes abstract trees through the REAL
                                      params(ptree) constructors, reads every member back, exports
                                      with params::get and records AMGCL_PARAM_UNKNOWN calls
All of it is judged by spec/C14Trace.tla with the predicates of spec/Params.tla /
spec/Dispatch.tla, which are the invariants of ParamsModel / DispatchModel.
"""
import hashlib, json, os, sys

sys.path.insert(0, os.path.join(os.path.dirname(os.path.dirname(os.path.abspath(__file__))), "tools"))
sys.path.insert(0, os.path.join(os.path.dirname(os.path.dirname(os.path.abspath(__file__))), "lib"))
import scan_params
import vcheck

AMG = "amgcl::amg<B, amgcl::coarsening::smoothed_aggregation, amgcl::relaxation::spai0>"
RAMG = "amgcl::amg<B, amgcl::runtime::coarsening::wrapper, amgcl::runtime::relaxation::wrapper>"
CG = "amgcl::solver::cg<B>"
MS = "amgcl::make_solver<%s, %s >" % (AMG, CG)
MPIB = "amgcl::backend::builtin<double>"


def comp(id, file, cls, type, part="serial", idx=0, bases=(), arrays=(), require=None, export=True, struct="params"):
    return dict(id=id, file=file, cls=cls, type=type, part=part, idx=idx, bases=list(bases),
                arrays=list(arrays), require=dict(require or {}), export=export, struct=struct)


def components():
    c = []
    for s in ("cg", "bicgstab", "bicgstabl", "gmres", "lgmres", "fgmres", "idrs", "richardson"):
        c.append(comp("solver." + s, "amgcl/solver/%s.hpp" % s, s, "amgcl::solver::%s<B>::params" % s))
    c.append(comp("relaxation.ilu_solve", "amgcl/relaxation/detail/ilu_solve.hpp", "ilu_solve",
                  "amgcl::relaxation::detail::ilu_solve<B>::params", idx=1))
    for r in ("damped_jacobi", "gauss_seidel", "chebyshev", "ilu0", "iluk", "ilut"):
        # ilut::params::get did not compile before 44fb554 (the ptree argument `p` hid the member `p`): kept as a probe
        c.append(comp("relaxation." + r, "amgcl/relaxation/%s.hpp" % r, r, "amgcl::relaxation::%s<B>::params" % r,
                      export="probe" if r == "ilut" else True))
    c.append(comp("relaxation.ilup", "amgcl/relaxation/ilup.hpp", "ilup", "amgcl::relaxation::ilup<B>::params",
                  bases=["relaxation.iluk"]))
    c.append(comp("util.empty_params", "amgcl/util.hpp", None, "amgcl::detail::empty_params", struct="empty_params"))
    c.append(comp("coarsening.plain_aggregates", "amgcl/coarsening/plain_aggregates.hpp", "plain_aggregates",
                  "amgcl::coarsening::plain_aggregates::params"))
    c.append(comp("coarsening.pointwise_aggregates", "amgcl/coarsening/pointwise_aggregates.hpp", "pointwise_aggregates",
                  "amgcl::coarsening::pointwise_aggregates::params", bases=["coarsening.plain_aggregates"]))
    # cols and B are one array parameter: cols > 0 without B (and B without cols) is rejected by the constructor
    c.append(comp("coarsening.nullspace", "amgcl/coarsening/tentative_prolongation.hpp", None,
                  "amgcl::coarsening::nullspace_params", arrays=["cols", "B"], struct="nullspace_params"))
    for k in ("ruge_stuben", "aggregation", "smoothed_aggregation", "smoothed_aggr_emin"):
        c.append(comp("coarsening." + k, "amgcl/coarsening/%s.hpp" % k, k, "amgcl::coarsening::%s<B>::params" % k))
    c.append(comp("amg", "amgcl/amg.hpp", "amg", AMG + "::params"))
    c.append(comp("amg.runtime", "amgcl/amg.hpp", "amg", RAMG + "::params"))
    c.append(comp("make_solver", "amgcl/make_solver.hpp", "make_solver", MS + "::params"))
    c.append(comp("make_solver.runtime", "amgcl/make_solver.hpp", "make_solver",
                  "amgcl::make_solver<%s, amgcl::runtime::solver::wrapper<B> >::params" % RAMG))
    c.append(comp("deflated_solver", "amgcl/deflated_solver.hpp", "deflated_solver",
                  "amgcl::deflated_solver<%s, %s >::params" % (AMG, CG), arrays=["vec"], export="probe"))
    ILU = "amgcl::relaxation::as_preconditioner<B, amgcl::relaxation::ilu0>"
    c.append(comp("cpr", "amgcl/preconditioner/cpr.hpp", "cpr", "amgcl::preconditioner::cpr<%s, %s >::params" % (AMG, ILU)))
    c.append(comp("cpr_drs", "amgcl/preconditioner/cpr_drs.hpp", "cpr_drs",
                  "amgcl::preconditioner::cpr_drs<%s, %s >::params" % (AMG, ILU), arrays=["weights"]))
    PS = "amgcl::make_solver<amgcl::relaxation::as_preconditioner<B, amgcl::relaxation::damped_jacobi>, amgcl::solver::bicgstab<B> >"
    c.append(comp("schur_pressure_correction", "amgcl/preconditioner/schur_pressure_correction.hpp", "schur_pressure_correction",
                  "amgcl::preconditioner::schur_pressure_correction<%s, %s >::params" % (MS, PS), arrays=["pmask"],
                  require={"pmask_size": "4", "pmask_pattern": "<2"}))
    c.append(comp("make_solver.asprecond", "amgcl/make_solver.hpp", "make_solver", PS + "::params"))
    # ---- MPI components (compiled with mpicxx, parameter structures only - no communication)
    M = "amgcl::mpi::"
    c.append(comp("mpi.coarsening.aggregation", "amgcl/mpi/coarsening/aggregation.hpp", "aggregation", M + "coarsening::aggregation<B>::params", part="mpi"))
    c.append(comp("mpi.coarsening.smoothed_aggregation", "amgcl/mpi/coarsening/smoothed_aggregation.hpp", "smoothed_aggregation",
                  M + "coarsening::smoothed_aggregation<B>::params", part="mpi"))
    c.append(comp("mpi.coarsening.pmis", "amgcl/mpi/coarsening/pmis.hpp", "pmis", M + "coarsening::pmis<B>::params", part="mpi"))
    c.append(comp("mpi.partition.merge", "amgcl/mpi/partition/merge.hpp", "merge", M + "partition::merge<B>::params", part="mpi"))
    MAMG = M + "amg<B, " + M + "coarsening::smoothed_aggregation<B>, " + M + "relaxation::spai0<B>, " + M + "direct::skyline_lu<double>, " + M + "partition::merge<B> >"
    c.append(comp("mpi.amg", "amgcl/mpi/amg.hpp", "amg", MAMG + "::params", part="mpi"))
    MSOLV = M + "solver::cg<B>"
    c.append(comp("mpi.solver.cg", "amgcl/solver/cg.hpp", "cg", MSOLV + "::params", part="mpi"))
    c.append(comp("mpi.make_solver", "amgcl/mpi/make_solver.hpp", "make_solver", M + "make_solver<%s, %s >::params" % (MAMG, MSOLV), part="mpi"))
    c.append(comp("mpi.subdomain_deflation", "amgcl/mpi/subdomain_deflation.hpp", "subdomain_deflation",
                  M + "subdomain_deflation<%s, %s, %s >::params" % (AMG, CG, M + "direct::skyline_lu<double>"), part="mpi",
                  # params() leaves num_def_vec uninitialised: it has no default to compare with and is
                  # one parameter together with def_vec (noted in docs/C14.md, outside the property)
                  arrays=["num_def_vec"], require={"def_vec": "@fn", "num_def_vec": "1"}))
    c.append(comp("mpi.cpr", "amgcl/mpi/cpr.hpp", "cpr", M + "cpr<%s, %s >::params" % (MAMG, M + "relaxation::as_preconditioner<" + M + "relaxation::spai0<B> >"), part="mpi"))
    c.append(comp("mpi.schur_pressure_correction", "amgcl/mpi/schur_pressure_correction.hpp", "schur_pressure_correction",
                  M + "schur_pressure_correction<%s, %s >::params" % (M + "make_solver<%s, %s >" % (MAMG, MSOLV), M + "make_solver<%s, %s >" % (MAMG, MSOLV)),
                  part="mpi", arrays=["pmask"], require={"pmask_size": "4", "pmask_pattern": "<2"}))
    return c


# parameter structures that cannot be instantiated offline (external libraries / devices): header scan only
SCAN_ONLY = {"amgcl/backend/cuda.hpp", "amgcl/backend/hpx.hpp", "amgcl/backend/vexcl.hpp", "amgcl/backend/block_crs.hpp",
             "amgcl/relaxation/cusparse_ilu0.hpp", "amgcl/mpi/direct_solver/pastix.hpp", "amgcl/mpi/partition/parmetis.hpp",
             "amgcl/mpi/partition/ptscotch.hpp"}


def find_struct(scan, c):
    m = [s for s in scan["structs"] if s["file"] == c["file"] and s["struct"] == c["struct"] and (c["cls"] is None or s["class"] == c["cls"])]
    m.sort(key=lambda s: s["line"])
    return m[c["idx"]] if len(m) > c["idx"] else None


def flatten(scan, comps):
    """Per component: the members (own + chained bases) and the understood extra keys."""
    byid = {c["id"]: c for c in comps}
    out = {}

    def rec(cid):
        c = byid[cid]
        s = find_struct(scan, c)
        if s is None:
            return None
        fields = [f["name"] for f in s["fields"]]
        keys = set(s["checked"]) | set(s["checked_opt"]) | set(s["imp_custom"])
        lists = {k: list(s[k]) for k in ("imp_value", "imp_child", "imp_custom", "checked", "checked_opt", "exp_value", "exp_child")}
        for b in c["bases"]:
            r = rec(b)
            if r:
                fields = r["fields"] + [f for f in fields if f not in r["fields"]]
                keys |= r["keys"]
                for k in lists:
                    lists[k] = r["lists"][k] + [x for x in lists[k] if x not in r["lists"][k]]
        return dict(fields=fields, keys=keys, lists=lists, struct=s)
    for c in comps:
        r = rec(c["id"])
        if r:
            r["xk"] = sorted(k for k in r["keys"] if k not in r["fields"])
            out[c["id"]] = r
    return out


def generate(scan, comps):
    """C++ text of c14_gen.hpp: one c14::desc<T> specialisation per (distinct) parameter type."""
    flat = flatten(scan, comps)
    L = ["// GENERATED by checks/C14.py from the header scan - do not edit", "#pragma once", ""]
    seen = {}
    L.append("namespace c14g { typedef amgcl::backend::builtin<double> B; }")
    for part in ("serial", "mpi"):
        # the MPI unit also needs the serial structures (they are members of the MPI ones)
        L.append("#if defined(C14_PART_MPI)" if part == "mpi" else "#if defined(C14_PART_SERIAL) || defined(C14_PART_MPI)")
        ids = []
        for c in comps:
            if c["part"] != part or c["id"] not in flat:
                continue
            ty = c["type"]
            tname = "T_" + c["id"].replace(".", "_")
            L.append("namespace c14g { typedef %s %s; }" % (ty, tname))
            if ty in seen:
                continue
            seen[ty] = c["id"]
            ids.append((c["id"], tname))
            f = flat[c["id"]]
            L.append("namespace c14 { template <> struct desc< c14g::%s > {" % tname)
            L.append("    typedef c14g::%s P; static constexpr bool described = true;" % tname)
            if c["export"] == "probe":
                L.append("#ifdef C14_PROBE_EXPORT\n    static constexpr bool can_export = true;\n#else\n    static constexpr bool can_export = false;\n#endif")
            else:
                L.append("    static constexpr bool can_export = true;")
            L.append("    template <class V> static void visit(V &v) {")
            for name in f["fields"]:
                L.append('        v.%s("%s", &P::%s);' % ("array" if name in c["arrays"] else "field", name, name))
            for k in f["xk"]:
                if k not in c["require"]:
                    L.append('        v.extra("%s");' % k)
            for k, val in c["require"].items():
                L.append('        v.require("%s", "%s");' % (k, val))
            L.append("    }\n}; }")
        L.append("#define C14_COMPONENTS_%s(X) \\" % part.upper())
        for cid, tname in ids:
            L.append('    X("%s", c14g::%s) \\' % (cid, tname))
        L.append("")
        L.append("#endif")
    return "\n".join(L) + "\n", flat


def gen_dir(text):
    h = hashlib.sha1(text.encode()).hexdigest()[:12]
    d = os.path.join(vcheck.BUILD, "c14gen-" + h)
    os.makedirs(d, exist_ok=True)
    p = os.path.join(d, "c14_gen.hpp")
    if not os.path.exists(p) or open(p).read() != text:
        open(p, "w").write(text)
    return d



# ----------------------------------------------------------------------------------- the check
NPARTS = 6
WRAPPER_FILES = {"solver": "amgcl/solver/runtime.hpp", "relaxation": "amgcl/relaxation/runtime.hpp",
                 "coarsening": "amgcl/coarsening/runtime.hpp", "precond": "amgcl/preconditioner/runtime.hpp"}


def dispatch_tables(scan, path):
    """ndjson with the four scanned dispatch tables in the shape of Dispatch.tla."""
    n = 0
    with open(path, "w") as f:
        for w, rel in WRAPPER_FILES.items():
            t = scan["dispatch"].get(rel)
            if not t or "enum" not in t or "print" not in t or "parse" not in t:
                continue
            enum = [e.split()[0] for e in t["enum"] if e.split()]
            f.write(json.dumps({"w": w, "enum": enum, "print": t["print"], "parse": t["parse"],
                                "parse_throws": bool(t.get("parse_throws")), "key": t.get("key", ""), "default": t.get("default", ""),
                                "switches": [{"fn": x["fn"], "cases": x["cases"], "dflt": x["has_default_throw"]} for x in t["switches"]]}) + "\n")
            n += 1
    return n


def documented(scan, c):
    """Members documented for the class of component c (docs/components/*.rst)."""
    if c["part"] != "serial":
        return None
    want = c["cls"] or c["struct"]
    out = []
    for m in scan["docs"]:
        cls = m["classes"]
        last = cls[0].split("::")[-1] if cls else ""
        inner = cls[-1] if len(cls) > 1 else ""
        if last == want and (inner in ("params", "") or c["struct"] != "params"):
            if m["member"] not in out:
                out.append(m["member"])
    return out or None


def sig(rec, clauses):
    comp = rec.get("comp") or rec.get("component")
    if comp is None and rec.get("k") in ("equiv", "equivb", "mequiv"):
        comp = "%s+%s+%s" % (rec.get("s"), rec.get("c"), rec.get("r"))
    if comp is None:
        comp = rec.get("w") or rec.get("cls") or rec.get("key") or rec.get("what") or (rec.get("k") == "reimport" and "reimport:" + str(rec.get("s"))) or "?"
    return {"component": comp, "clause": clauses[0] if clauses else "", "kind": rec.get("k", "")}


def run(c):
    th = c.thorough()
    c.rule = ("model: a 3-level parameter structure with every sub-list of its import/export/check lists (one level varied at a time) "
              "x every property tree over its keys + one unknown key per level; the dispatch tables of the 4 run-time wrappers x every "
              "name + an unknown name + the absent key.  code: every params struct instantiable offline (serial + MPI) x the probe family "
              "of the model (each member alone at every nesting level, Bad on enumerations, each extra key, one unknown key per level) + "
              "value subsets + seeded random trees; 36 (solver, coarsening, relaxation) compositions x problems x 2 configurations typed vs "
              "run-time.  non-trivial = a tree with >= 1 key that did not throw, or a composition case with >= 1 iteration; distinct by content")
    c.mechanism = {"SchemaOK / TakesEffect / RoundTrip / UnknownReported / BadEnumThrows per component": "M+V",
                   "DispatchOK (parse o print = id, every enumerator reaches the same-named type)": "M+V",
                   "run-time = compile-time (iterations, residual bits, solution / preconditioner-action / report-text digests, bytes), scalar and 2x2 block backend, also after amg::rebuild(A2) on the same objects": "V (bitwise)",
                   "parameters still in effect after rebuild (rebuilt typed amg = typed amg freshly built from 2A)": "V (bitwise)",
                   "params::get compiles (deflated_solver, ilut)": "V (compile probe)",
                   "header scan = behaviour": "drift only"}
    c.assumptions = ["value codes: two non-default values per member (one for bool), dyadic so the text round trip is exact",
                     "array parameters (weights, pmask, nullspace B/cols, deflation vectors) are pointer transports, judged by their own protocol "
                     "and exempt from the export round trip (value parameters only, as the property says)",
                     "single-threaded runs (OMP_NUM_THREADS=1); builtin<double> backend; cuda/vexcl/hpx/pastix/scotch/parmetis structures are scanned only",
                     "TLC, the CommunityModules Json reader, g++/mpicxx, Boost.PropertyTree are trusted"]
    scan = scan_params.scan(vcheck.REPO)
    comps = components()
    text, flat = generate(scan, comps)
    gdir = gen_dir(text)
    inc = "-I" + gdir
    state = {}

    # ------------------------------------------------------------------ models
    def models():
        c.tlc_model("ParamsModel", constants={"Vals": "{1, 2}" if th else "{1}"}, workers=8, timeout=3000)
        c.tlc_model("DispatchModel")                      # the tables a correct header has
        dp = c.path("dispatch.ndjson")
        n = dispatch_tables(scan, dp)
        if n == 4:
            m = c.tlc_model("DispatchModel", env={"DISPATCH": dp})   # the tables scanned from this tree
            state["dispatch_scan_violated"] = m["violated"]
        else:
            c.drift("dispatch tables of %d/4 run-time wrappers could not be scanned" % n)

    # ------------------------------------------------------------------ builds
    def try_build(**kw):
        kw.setdefault("timeout", 2700)       # the machine is shared: a loaded box must not turn into an infrastructure error
        try:
            return c.build(**kw), None
        except vcheck.InfraError as e:
            return None, str(e)

    def builds():
        specs = [dict(name="c14_params", sources=["record_params.cpp"], flags=[inc, "-DC14_PART_SERIAL"]),
                 dict(name="c14_rt", sources=["record_equiv_rt.cpp"]),
                 dict(name="c14_block", sources=["record_equiv_block.cpp"])]
        for k in range(NPARTS):
            specs.append(dict(name="c14_typed%d" % k, sources=["record_equiv_typed.cpp"], flags=["-DPART=%d" % k, "-DNPARTS=%d" % NPARTS]))
        thunks = [lambda s=s: c.build(timeout=2700, **s) for s in specs]
        # optional: MPI structures; probes: exporters that are known not to compile
        thunks.append(lambda: try_build(name="c14_params_mpi", sources=["record_params.cpp"], flags=[inc, "-DC14_PART_MPI"], mpi=True))
        probes = [x for x in comps if x["export"] == "probe" and x["id"] in flat]
        for x in probes:
            thunks.append(lambda x=x: try_build(name="c14_probe_" + x["id"].replace(".", "_"), sources=["record_params.cpp"],
                                                flags=[inc, "-DC14_PART_SERIAL", "-DC14_PROBE_EXPORT",
                                                       '-DC14_ONLY_ID="%s"' % x["id"], "-DC14_ONLY_TYPE=T_" + x["id"].replace(".", "_")]))
        # distributed compositions (mpicxx): 3 typed units + the run-time unit
        nfixed = len(thunks)
        for k in range(3):
            thunks.append(lambda k=k: try_build(name="c14_mpi_typed%d" % k, sources=["record_equiv_mpi.cpp"], mpi=True,
                                                flags=["-DC14_MPI_TYPED", "-DPART=%d" % k, "-DNPARTS=3"]))
        thunks.append(lambda: try_build(name="c14_mpi_rt", sources=["record_equiv_mpi.cpp"], mpi=True, flags=["-DC14_MPI_RT"]))
        res = c.parallel(thunks, max_workers=12)
        state["mpieq"] = res[nfixed:nfixed + 4]
        res = res[:nfixed]
        state["params"], state["rt"], state["block"] = res[0], res[1], res[2]
        state["typed"] = res[3:3 + NPARTS]
        state["mpi"] = res[3 + NPARTS]
        state["probes"] = list(zip(probes, res[4 + NPARTS:]))

    c.parallel([models, builds])

    # ------------------------------------------------------------------ recorders
    lines = []
    env = {"OMP_NUM_THREADS": 1}
    def rec(binary, label, **kw):
        out = c.record(binary, [], out=c.path(label + ".ndjson"), env=env, sig={"component": label}, **kw)
        ls = [x for x in open(out).read().splitlines() if x.strip()]
        return ls

    plines = rec(state["params"], "params")
    # the same process history started on the other side of the thread-count threshold of the defaults
    out = c.record(state["params"], ["env"], out=c.path("params-env8.ndjson"), env={"OMP_NUM_THREADS": 8}, sig={"component": "params-env"})
    plines += [x for x in open(out).read().splitlines() if x.strip()]
    if state["mpi"][0]:
        plines += rec(state["mpi"][0], "params-mpi")
    else:
        c.note("MPI parameter structures not built offline: " + (state["mpi"][1] or "")[-300:])
    byid = {x["id"]: x for x in comps}
    # compile probes
    for x, (binary, err) in state["probes"]:
        ok = binary is not None
        lines.append(json.dumps({"k": "compile", "comp": x["id"], "clause": "export-compiles", "ok": ok,
                                 "what": "params::get(ptree&, path) instantiated for " + x["type"],
                                 "stderr": "" if ok else ("\n".join(l for l in (err or "").splitlines() if "error" in l)[:600] or (err or "")[-400:])}))
        if ok:
            plines += rec(binary, "probe-" + x["id"])
    # schema records: add the documentation and the header-scan readings
    seen_schema = set()
    for ln in plines:
        if '"k":"schema"' in ln:
            r = json.loads(ln)
            x = byid.get(r["comp"])
            if x is None or (r["comp"] in seen_schema):
                lines.append(ln); continue
            seen_schema.add(r["comp"])
            d = documented(scan, x)
            if d:
                # a class documented once for several specialisations (ilu_solve): members of a sibling
                # specialisation are documented for another backend, not for this structure
                sib = set()
                for s2 in scan["structs"]:
                    if s2["file"] == x["file"] and s2["class"] == x["cls"] and s2 is not find_struct(scan, x):
                        sib |= {f_["name"] for f_ in s2["fields"]}
                own = set(flat[r["comp"]]["fields"])
                other = [m for m in d if m not in own and m in sib]
                if other:
                    c.note("%s: documented members %s belong to another specialisation of the class (not instantiable with the builtin backend)" % (r["comp"], other))
                r["documented"] = [m for m in d if m not in other]
            f = flat[r["comp"]]
            r["scan"] = {"imp": f["lists"]["imp_value"] + f["lists"]["imp_child"] + f["lists"]["imp_custom"],
                         "exp": f["lists"]["exp_value"] + f["lists"]["exp_child"],
                         "chk": f["lists"]["checked"] + f["lists"]["checked_opt"], "fields": f["fields"]}
            # scan vs behaviour: drift of the scanner / a list defect the behaviour shows as well
            S = r["S"]
            vf = set(S["vf"]) - set(S["pf"])
            if (set(r["scan"]["imp"]) & vf) != (set(r["imported"]) & vf) or (not r["noexp"] and (set(r["scan"]["exp"]) & vf) != (set(r["exported"]) & vf)):
                state.setdefault("scan_diff", []).append(r["comp"])
            lines.append(json.dumps(r))
        elif '"e":"End"' in ln:
            continue
        else:
            lines.append(ln)
    # typed vs run-time (thorough: four seeds = four families of problems)
    nseeds = 4 if th else 1
    for so in range(nseeds):
        env2 = {"OMP_NUM_THREADS": 1, "VERIF_SEED": c.seed + 1000 * so}
        typed, rt = {}, {}
        for k in range(NPARTS):
            out = c.record(state["typed"][k], [], out=c.path("typed%d-%d.ndjson" % (k, so)), env=env2, sig={"component": "typed%d" % k})
            for ln in open(out).read().splitlines():
                if not ln.strip():
                    continue
                r = json.loads(ln)
                if r.get("k") == "typed":
                    typed[(r["idx"], r["mat"], r["cfg"])] = r
                elif r.get("e") not in (None, "End"):
                    lines.append(ln)
        out = c.record(state["rt"], [], out=c.path("runtime-%d.ndjson" % so), env=env2, sig={"component": "runtime"})
        for ln in open(out).read().splitlines():
            if not ln.strip():
                continue
            r = json.loads(ln)
            if r.get("k") == "rt":
                rt[(r["idx"], r["mat"], r["cfg"])] = r
            elif r.get("e") == "End" or (so > 0 and r.get("k") in ("enum", "badtype")):
                continue
            else:
                lines.append(ln)
        out = c.record(state["block"], [], out=c.path("block-%d.ndjson" % so), env=env2, sig={"component": "block"})
        lines += [ln for ln in open(out).read().splitlines() if ln.strip() and '"e":"End"' not in ln]
        for key in sorted(set(typed) | set(rt)):
            t, r = typed.get(key), rt.get(key)
            if t is None or r is None:
                lines.append(json.dumps({"e": "missing-%s-side" % ("typed" if t is None else "runtime"), "case": list(key)}))
                continue
            m = dict(r); m["k"] = "equiv"; m["seed"] = c.seed + 1000 * so
            for f in ("threw", "exc", "it", "res_lo", "res_hi", "x_lo", "x_hi", "px_lo", "px_hi", "bytes", "txt_lo", "txt_hi",
                      "rthrew", "rit", "rres_lo", "rres_hi", "rx_lo", "rx_hi", "rpx_lo", "rpx_hi"):
                m[f] = t[f]
            lines.append(json.dumps(m))
    # distributed typed vs run-time compositions on 1, 2 and 3 ranks
    mb = state.get("mpieq") or []
    if len(mb) == 4 and all(b[0] for b in mb):
        menv = {"OMP_NUM_THREADS": 1, "OMPI_MCA_hwloc_base_binding_policy": "none", "OMPI_MCA_mpi_yield_when_idle": 1}
        for np_ in (1, 2, 3):
            typed, rt = {}, {}
            for k in range(4):
                out = c.record(mb[k][0], [], out=c.path("mpieq-%d-%d.ndjson" % (k, np_)), env=menv, mpi=np_, timeout=1800,
                               sig={"component": "mpi-equivalence", "ranks": np_})
                for ln in open(out).read().splitlines():
                    if not ln.startswith("{"):
                        continue
                    r = json.loads(ln)
                    if r.get("k") == "mtyped":
                        typed[(r["idx"], r["mat"], r["cfg"])] = r
                    elif r.get("k") == "mrt":
                        rt[(r["idx"], r["mat"], r["cfg"])] = r
                    elif r.get("e") not in (None, "End"):
                        lines.append(ln)
            for key in sorted(set(typed) | set(rt)):
                t, r = typed.get(key), rt.get(key)
                if t is None or r is None:
                    lines.append(json.dumps({"e": "missing-mpi-%s-side" % ("typed" if t is None else "runtime"), "case": list(key), "np": np_}))
                    continue
                m = dict(r); m["k"] = "mequiv"
                for f in ("threw", "exc", "it", "res_lo", "res_hi", "x_lo", "x_hi", "px_lo", "px_hi", "bytes", "txt_lo", "txt_hi"):
                    m[f] = t[f]
                lines.append(json.dumps(m))
    else:
        c.drift("the MPI typed/run-time recorder did not build offline: distributed compositions not exercised: " +
                " | ".join((b[1] or "")[-200:] for b in mb if not b[0]))
    lines.append('{"e":"End"}')
    trace = c.path("c14.ndjson")
    open(trace, "w").write("\n".join(lines) + "\n")

    # ------------------------------------------------------------------ judgement
    res = c.tlc_trace("C14Trace", trace, label="params+dispatch+equivalence", chunk=1500, timeout=2400)
    kinds = {}
    for ln in res["lines"]:
        try:
            r = json.loads(ln)
        except Exception:
            continue
        kinds[r.get("k", "e")] = kinds.get(r.get("k", "e"), 0) + 1
        if r.get("k") == "tree" and not r["threw"] and (r["t"]["v"] or r["t"]["c"]):
            c.nontrivial.add(hashlib.sha1((r["comp"] + json.dumps(r["t"], sort_keys=True)).encode()).hexdigest()[:12])
        elif r.get("k") in ("equivb", "equivp") and r["it_t"] >= 0 and not r["threw_t"]:
            c.nontrivial.add((r["k"], r.get("c") or r.get("cls"), r.get("what") or r.get("nullspace"), r["mat"], r["px_lo_t"]))
        elif r.get("k") == "mequiv" and r["it"] > 0:
            c.nontrivial.add(("mequiv", r["idx"], r["mat"], r["cfg"], r["np"], r["x_lo"]))
        elif r.get("k") == "equiv" and r["it"] > 0:
            c.nontrivial.add(("equiv", r["idx"], r["mat"], r["cfg"], r.get("seed"), r["x_lo"]))
    for want in ("tree", "schema", "equiv", "enum", "badtype", "unkrt", "equivp", "equivb", "rebuilt", "rtctor", "reimport", "array"):
        if not kinds.get(want):
            raise vcheck.InfraError("no '%s' records were produced" % want)
    if kinds.get("equiv", 0) != scan_ntriples() * (4 if th else 2) * 2 * nseeds:
        raise vcheck.InfraError("expected %d typed/run-time cases, got %d" % (scan_ntriples() * (4 if th else 2) * 2 * nseeds, kinds.get("equiv", 0)))
    c.note("records by kind: " + json.dumps(kinds, sort_keys=True))
    for k in ("tree", "schema", "equiv", "enum", "unkrt"):
        for ln in res["lines"]:
            if '"k":"%s"' % k in ln:
                c.sample(ln, limit=8); break
    # exporters that do not compile: one clearly attributed violation per component
    rest = []
    for ln, clauses in res["bad"]:
        try:
            r = json.loads(res["lines"][ln - 1])
        except Exception:
            r = {}
        if r.get("k") == "compile":
            c.violation("%s::params::get does not compile when instantiated - the parameters of this component cannot be written back (export-compiles)" % r["comp"],
                        {"line": r, "lineno": ln, "clauses": clauses},
                        {"stage": "params", "component": r["comp"], "clause": "export-compiles", "clauses": "export-compiles", "kind": "compile"})
        else:
            rest.append((ln, clauses))
    res["bad"] = rest
    c.judge(res, "run-time configuration differs from compile-time configuration", sigfn=sig, stage="params")
    c.exhaustive = True
    # ------------------------------------------------------------------ drift / notes
    violated = {v[2].get("component") for v in c.violations}
    for comp_id in state.get("scan_diff", []):
        if comp_id not in violated:
            c.drift("header scan of %s disagrees with the behaviour of its constructor/exporter although every predicate holds "
                    "(tools/scan_params.py needs an update)" % comp_id)
    if state.get("dispatch_scan_violated") and not any(v[2].get("kind") in ("enum", "equiv", "equivp", "badtype") for v in c.violations):
        c.drift("DispatchModel on the scanned tables violates %s but the running wrappers satisfy DispatchOK" % state["dispatch_scan_violated"])
    for x in comps:
        if x["id"] not in flat:
            c.drift("component %s of checks/C14.py (%s) was not found by the header scan: not exercised" % (x["id"], x["file"]))
    mapped = {(find_struct(scan, x) or {}).get("file", "") + ":" + str((find_struct(scan, x) or {}).get("line")) for x in comps}
    for s_ in scan["structs"]:
        key = s_["file"] + ":" + str(s_["line"])
        if key not in mapped and s_["file"] not in SCAN_ONLY and not (s_["file"].endswith("ilu_solve.hpp")):
            c.drift("parameter structure %s (%s line %d) is not covered by a component of checks/C14.py" % (s_["class"], s_["file"], s_["line"]))
    so = []
    for s_ in scan["structs"]:
        if s_["file"] in SCAN_ONLY or s_["file"].endswith("ilu_solve.hpp"):
            F = {f["name"] for f in s_["fields"]}
            imp = set(s_["imp_value"]) | set(s_["imp_child"]) | set(s_["imp_custom"])
            exp = set(s_["exp_value"]) | set(s_["exp_child"])
            if not (F <= imp and F <= exp | set(s_["imp_custom"])) and s_["has_ptree_ctor"]:
                so.append("%s:%s fields=%s imported=%s exported=%s" % (s_["file"], s_["class"], sorted(F), sorted(imp), sorted(exp)))
    if so:
        c.note("scan-only structures whose lists differ (not executable offline): " + "; ".join(so))


def scan_ntriples():
    return 36

if __name__ == "__main__":
    sc = scan_params.scan(vcheck.REPO)
    txt, flat = generate(sc, components())
    sys.stdout.write(txt)
