"""C14 - run-time configuration is equivalent to compile-time configuration.

Readings of every parameter structure that are bound together here:
  (i)   docs/components/*.rst        documented members           (tools/scan_params.py)
  (ii)  header scan                   struct members + the import / check / export lists
  (iii) behaviour                     record_params pushes abstract trees through the REAL
                                      params(ptree) constructors, reads every member back, exports
                                      with params::get and records AMGCL_PARAM_UNKNOWN calls
All of it is judged by spec/C14Trace.tla with the predicates of spec/Params.tla /
spec/Dispatch.tla, which are the invariants of ParamsModel / DispatchModel.
"""
import hashlib, json, os, sys

sys.path.insert(0, os.path.join(os.path.dirname(os.path.dirname(os.path.abspath(__file__))), "tools"))
sys.path.insert(0, os.path.join(os.path.dirname(os.path.dirname(os.path.abspath(__file__))), "lib"))
import scan_params
import vcheck

AMG = "amgcl::amg<B, amgcl::coarsening::smoothed_aggregation, amgcl::relaxation::spai0>"
RAMG = "amgcl::amg<B, amgcl::runtime::coarsening::wrapper, amgcl::runtime::relaxation::wrapper>"
CG = "amgcl::solver::cg<B>"
MS = "amgcl::make_solver<%s, %s >" % (AMG, CG)
MPIB = "amgcl::backend::builtin<double>"


def comp(id, file, cls, type, part="serial", idx=0, bases=(), arrays=(), require=None, export=True, struct="params"):
    return dict(id=id, file=file, cls=cls, type=type, part=part, idx=idx, bases=list(bases),
                arrays=list(arrays), require=dict(require or {}), export=export, struct=struct)


def components():
    c = []
    for s in ("cg", "bicgstab", "bicgstabl", "gmres", "lgmres", "fgmres", "idrs", "richardson"):
        c.append(comp("solver." + s, "amgcl/solver/%s.hpp" % s, s, "amgcl::solver::%s<B>::params" % s))
    c.append(comp("relaxation.ilu_solve", "amgcl/relaxation/detail/ilu_solve.hpp", "ilu_solve",
                  "amgcl::relaxation::detail::ilu_solve<B>::params", idx=1))
    for r in ("damped_jacobi", "gauss_seidel", "chebyshev", "ilu0", "iluk", "ilut"):
        # ilut::params::get does not compile on the pinned tree (the ptree argument `p` shadows the member `p`)
        c.append(comp("relaxation." + r, "amgcl/relaxation/%s.hpp" % r, r, "amgcl::relaxation::%s<B>::params" % r,
                      export="probe" if r == "ilut" else True))
    c.append(comp("relaxation.ilup", "amgcl/relaxation/ilup.hpp", "ilup", "amgcl::relaxation::ilup<B>::params",
                  bases=["relaxation.iluk"]))
    c.append(comp("util.empty_params", "amgcl/util.hpp", None, "amgcl::detail::empty_params", struct="empty_params"))
    c.append(comp("coarsening.plain_aggregates", "amgcl/coarsening/plain_aggregates.hpp", "plain_aggregates",
                  "amgcl::coarsening::plain_aggregates::params"))
    c.append(comp("coarsening.pointwise_aggregates", "amgcl/coarsening/pointwise_aggregates.hpp", "pointwise_aggregates",
                  "amgcl::coarsening::pointwise_aggregates::params", bases=["coarsening.plain_aggregates"]))
    # cols and B are one array parameter: cols > 0 without B (and B without cols) is rejected by the constructor
    c.append(comp("coarsening.nullspace", "amgcl/coarsening/tentative_prolongation.hpp", None,
                  "amgcl::coarsening::nullspace_params", arrays=["cols", "B"], struct="nullspace_params"))
    for k in ("ruge_stuben", "aggregation", "smoothed_aggregation", "smoothed_aggr_emin"):
        c.append(comp("coarsening." + k, "amgcl/coarsening/%s.hpp" % k, k, "amgcl::coarsening::%s<B>::params" % k))
    c.append(comp("amg", "amgcl/amg.hpp", "amg", AMG + "::params"))
    c.append(comp("amg.runtime", "amgcl/amg.hpp", "amg", RAMG + "::params"))
    c.append(comp("make_solver", "amgcl/make_solver.hpp", "make_solver", MS + "::params"))
    c.append(comp("make_solver.runtime", "amgcl/make_solver.hpp", "make_solver",
                  "amgcl::make_solver<%s, amgcl::runtime::solver::wrapper<B> >::params" % RAMG))
    c.append(comp("deflated_solver", "amgcl/deflated_solver.hpp", "deflated_solver",
                  "amgcl::deflated_solver<%s, %s >::params" % (AMG, CG), arrays=["vec"], export="probe"))
    ILU = "amgcl::relaxation::as_preconditioner<B, amgcl::relaxation::ilu0>"
    c.append(comp("cpr", "amgcl/preconditioner/cpr.hpp", "cpr", "amgcl::preconditioner::cpr<%s, %s >::params" % (AMG, ILU)))
    c.append(comp("cpr_drs", "amgcl/preconditioner/cpr_drs.hpp", "cpr_drs",
                  "amgcl::preconditioner::cpr_drs<%s, %s >::params" % (AMG, ILU), arrays=["weights"]))
    PS = "amgcl::make_solver<amgcl::relaxation::as_preconditioner<B, amgcl::relaxation::damped_jacobi>, amgcl::solver::bicgstab<B> >"
    c.append(comp("schur_pressure_correction", "amgcl/preconditioner/schur_pressure_correction.hpp", "schur_pressure_correction",
                  "amgcl::preconditioner::schur_pressure_correction<%s, %s >::params" % (MS, PS), arrays=["pmask"],
                  require={"pmask_size": "4", "pmask_pattern": "<2"}))
    c.append(comp("make_solver.asprecond", "amgcl/make_solver.hpp", "make_solver", PS + "::params"))
    # ---- MPI components (compiled with mpicxx, parameter structures only - no communication)
    M = "amgcl::mpi::"
    c.append(comp("mpi.coarsening.aggregation", "amgcl/mpi/coarsening/aggregation.hpp", "aggregation", M + "coarsening::aggregation<B>::params", part="mpi"))
    c.append(comp("mpi.coarsening.smoothed_aggregation", "amgcl/mpi/coarsening/smoothed_aggregation.hpp", "smoothed_aggregation",
                  M + "coarsening::smoothed_aggregation<B>::params", part="mpi"))
    c.append(comp("mpi.coarsening.pmis", "amgcl/mpi/coarsening/pmis.hpp", "pmis", M + "coarsening::pmis<B>::params", part="mpi"))
    c.append(comp("mpi.partition.merge", "amgcl/mpi/partition/merge.hpp", "merge", M + "partition::merge<B>::params", part="mpi"))
    MAMG = M + "amg<B, " + M + "coarsening::smoothed_aggregation<B>, " + M + "relaxation::spai0<B>, " + M + "direct::skyline_lu<double>, " + M + "partition::merge<B> >"
    c.append(comp("mpi.amg", "amgcl/mpi/amg.hpp", "amg", MAMG + "::params", part="mpi"))
    MSOLV = M + "solver::cg<B>"
    c.append(comp("mpi.make_solver", "amgcl/mpi/make_solver.hpp", "make_solver", M + "make_solver<%s, %s >::params" % (MAMG, MSOLV), part="mpi"))
    c.append(comp("mpi.subdomain_deflation", "amgcl/mpi/subdomain_deflation.hpp", "subdomain_deflation",
                  M + "subdomain_deflation<%s, %s, %s >::params" % (AMG, CG, M + "direct::skyline_lu<double>"), part="mpi"))
    c.append(comp("mpi.cpr", "amgcl/mpi/cpr.hpp", "cpr", M + "cpr<%s, %s >::params" % (MAMG, M + "relaxation::as_preconditioner<" + M + "relaxation::spai0<B> >"), part="mpi"))
    c.append(comp("mpi.schur_pressure_correction", "amgcl/mpi/schur_pressure_correction.hpp", "schur_pressure_correction",
                  M + "schur_pressure_correction<%s, %s >::params" % (M + "make_solver<%s, %s >" % (MAMG, MSOLV), M + "make_solver<%s, %s >" % (MAMG, MSOLV)),
                  part="mpi", arrays=["pmask"], require={"pmask_size": "4", "pmask_pattern": "<2"}))
    return c


# parameter structures that cannot be instantiated offline (external libraries / devices): header scan only
SCAN_ONLY = {"amgcl/backend/cuda.hpp", "amgcl/backend/hpx.hpp", "amgcl/backend/vexcl.hpp", "amgcl/backend/block_crs.hpp",
             "amgcl/relaxation/cusparse_ilu0.hpp", "amgcl/mpi/direct_solver/pastix.hpp", "amgcl/mpi/partition/parmetis.hpp",
             "amgcl/mpi/partition/ptscotch.hpp"}


def find_struct(scan, c):
    m = [s for s in scan["structs"] if s["file"] == c["file"] and s["struct"] == c["struct"] and (c["cls"] is None or s["class"] == c["cls"])]
    m.sort(key=lambda s: s["line"])
    return m[c["idx"]] if len(m) > c["idx"] else None


def flatten(scan, comps):
    """Per component: the members (own + chained bases) and the understood extra keys."""
    byid = {c["id"]: c for c in comps}
    out = {}

    def rec(cid):
        c = byid[cid]
        s = find_struct(scan, c)
        if s is None:
            return None
        fields = [f["name"] for f in s["fields"]]
        keys = set(s["checked"]) | set(s["checked_opt"]) | set(s["imp_custom"])
        lists = {k: list(s[k]) for k in ("imp_value", "imp_child", "imp_custom", "checked", "checked_opt", "exp_value", "exp_child")}
        for b in c["bases"]:
            r = rec(b)
            if r:
                fields = r["fields"] + [f for f in fields if f not in r["fields"]]
                keys |= r["keys"]
                for k in lists:
                    lists[k] = r["lists"][k] + [x for x in lists[k] if x not in r["lists"][k]]
        return dict(fields=fields, keys=keys, lists=lists, struct=s)
    for c in comps:
        r = rec(c["id"])
        if r:
            r["xk"] = sorted(k for k in r["keys"] if k not in r["fields"])
            out[c["id"]] = r
    return out


def generate(scan, comps):
    """C++ text of c14_gen.hpp: one c14::desc<T> specialisation per (distinct) parameter type."""
    flat = flatten(scan, comps)
    L = ["// GENERATED by checks/C14.py from the header scan - do not edit", "#pragma once", ""]
    seen = {}
    for part in ("serial", "mpi"):
        L.append("#ifdef C14_PART_%s" % part.upper())
        L.append("namespace c14g { typedef amgcl::backend::builtin<double> B; }")
        ids = []
        for c in comps:
            if c["part"] != part or c["id"] not in flat:
                continue
            ty = c["type"]
            tname = "T_" + c["id"].replace(".", "_")
            L.append("namespace c14g { typedef %s %s; }" % (ty, tname))
            if ty in seen:
                continue
            seen[ty] = c["id"]
            ids.append((c["id"], tname))
            f = flat[c["id"]]
            L.append("namespace c14 { template <> struct desc< c14g::%s > {" % tname)
            L.append("    typedef c14g::%s P; static constexpr bool described = true;" % tname)
            if c["export"] == "probe":
                L.append("#ifdef C14_PROBE_EXPORT\n    static constexpr bool can_export = true;\n#else\n    static constexpr bool can_export = false;\n#endif")
            else:
                L.append("    static constexpr bool can_export = true;")
            L.append("    template <class V> static void visit(V &v) {")
            for name in f["fields"]:
                L.append('        v.%s("%s", &P::%s);' % ("array" if name in c["arrays"] else "field", name, name))
            for k in f["xk"]:
                if k not in c["require"]:
                    L.append('        v.extra("%s");' % k)
            for k, val in c["require"].items():
                L.append('        v.require("%s", "%s");' % (k, val))
            L.append("    }\n}; }")
        L.append("#define C14_COMPONENTS_%s(X) \\" % part.upper())
        for cid, tname in ids:
            L.append('    X("%s", c14g::%s) \\' % (cid, tname))
        L.append("")
        L.append("#endif")
    return "\n".join(L) + "\n", flat


def gen_dir(text):
    h = hashlib.sha1(text.encode()).hexdigest()[:12]
    d = os.path.join(vcheck.BUILD, "c14gen-" + h)
    os.makedirs(d, exist_ok=True)
    p = os.path.join(d, "c14_gen.hpp")
    if not os.path.exists(p) or open(p).read() != text:
        open(p, "w").write(text)
    return d


if __name__ == "__main__":
    sc = scan_params.scan(vcheck.REPO)
    txt, flat = generate(sc, components())
    sys.stdout.write(txt)
