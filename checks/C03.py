"""C03 - every coarse level is the (re-scaled) Galerkin product; rebuild keeps it so."""
import json

def run(c):
    th = c.thorough()
    c.rule = ("model: all hierarchy constructions for finest sizes <= 6 (8 thorough), coarse_enough 0..6, max_levels 1..4, "
              "direct_coarse, allow_rebuild, every size sequence the coarsening oracle can return incl. empty levels, and all "
              "rebuild histories of length <= 3 over 3 matrix versions; code: forced shapes (paths, grids, diagonal, diagonal tail x "
              "coarse_enough x max_levels x direct_coarse), seeded random M-matrices through aggregation (exact integer Galerkin "
              "with the float over-interpolation factor), smoothed aggregation / Ruge-Stuben / emin (exact structure + long-double "
              "values), at 4 and 17 threads (both SpGEMM algorithms), rebuild histories vs fresh hierarchies bitwise. "
              "non-trivial = a hierarchy with >= 2 levels, or a level/rebuild record; distinct by record content")
    c.mechanism = {"hierarchy shape / last-level choice / rebuild touches every part": "M (Hierarchy.tla) + V (real level list via friend accessor)",
                   "coarse = R A P / over_interp (plain aggregation, integers)": "V exact",
                   "coarse = R A P structure (all coarsenings)": "V exact", "coarse = R A P values (real-valued P)": "O (long double dense oracle, 10^-12.5)",
                   "R = adjoint(P)": "V exact (interned values)", "rebuild = fresh hierarchy, restores original, scales exactly by powers of two": "V bitwise digests"}
    c.assumptions = ["the recording coarsening wrapper forwards to the real coarsening classes unchanged",
                     "float(1/over_interp) is what scaled_galerkin multiplies by (read from the parameter by the harness)"]
    c.tlc_model("Hierarchy", constants={"MaxRows": 8 if th else 6})
    c.exhaustive = True
    rh = c.build("record_hierarchy", ["record_hierarchy.cpp"])
    plan = [("shapes", 4), ("galerkin", 4), ("galerkin", 17), ("rebuild", 1), ("rebuild", 17)]
    if th:
        plan += [("shapes", 17), ("galerkin", 1), ("rebuild", 4)]
    def sig(rec, clauses):
        return {"coarsening": rec.get("coarsening"), "record": rec.get("k")}
    for mode, nt in plan:
        t = c.record(rh, [mode], env={"OMP_NUM_THREADS": nt}, out=c.path("h-%s-%d.ndjson" % (mode, nt)), timeout=900)
        res = c.tlc_trace("C03Trace", t, label="%s@%d" % (mode, nt), chunk=1500)
        for ln in res["lines"][1:4000:977]:
            c.sample(ln, limit=6)
        for ln in res["lines"]:
            if '"k":"hier"' in ln:
                if ln.count('"rows"') >= 2:
                    c.nontrivial.add(hash(ln))
            elif '"k":"' in ln:
                c.nontrivial.add(hash(ln))
        c.judge(res, "hierarchy", sigfn=sig, stage="hierarchy")
