"""C06 - every relaxation sweep equals its mathematical definition."""
import hashlib, json

ILU_CLAUSES = {"ilu: (L U)_ij = a_ij on the admitted pattern", "ilu-exact-when-factors-fit", "ilu: x + w (L U)^-1 (f - A x)"}


def sig(rec, clauses):
    s = {"kernel": rec.get("kind"), "value_type": rec.get("vtag"), "tagclass": rec.get("tag"), "threads": rec.get("nt")}
    cl = set(clauses)
    # classification used by known_findings.json signatures (see proposed_fixes/C06-*.md)
    if rec.get("kind") == "iluk" and cl and cl <= ILU_CLAUSES and rec.get("kk", 0) >= 1:
        s["finding"] = "iluk-lost-contribution"
    elif rec.get("kind") == "spai0" and rec.get("vtag") == "complex" and cl == {"spai0-minimiser"}:
        s["finding"] = "spai0-complex-adjoint"
    else:
        s["finding"] = "other"
    return s


def split_drift(c, res):
    """lines rejected only with the pseudo-clause drift:* satisfy every predicate: SPEC-DRIFT, not a violation"""
    keep, n = [], 0
    for ln, clauses in res["bad"]:
        if clauses and all(x.startswith("drift:") for x in clauses):
            n += 1
            if n <= 3:
                c.drift("recorded factors differ from the transcription (predicates hold): line %d %s" % (ln, res["lines"][ln - 1][:300]))
        else:
            keep.append((ln, clauses))
    res["bad"] = keep


def whole_lines(c, path):
    """a crashed recorder (already reported by c.record) may leave a truncated last line / an empty file"""
    lines = [x for x in open(path).read().splitlines() if x.startswith("{") and x.endswith("}")]
    if not lines:
        return False
    open(path, "w").write("\n".join(lines) + "\n")
    return True


def run(c):
    th = c.thorough()
    c.rule = ("model: every N x N pattern with full diagonal (N = 3 quick, 4 thorough) x {raw, dominant, power-of-two-dominant} "
              "integer values through the transcribed damped_jacobi / gauss_seidel / spai0 / spai1 / chebyshev / ilu0 / iluk / "
              "ilup / ilut(no drop) / ilu_solve on exact rationals, plus every 5x5 pattern with exactly 5 (6 thorough) "
              "off-diagonal entries through ILU(1); code: the same spaces (4x4 every 32nd pattern quick / 4th thorough, 5x5 "
              "every 16th / 2nd) and seeded random M-matrix / dominant non-symmetric / complex / block matrices through the "
              "public classes at 1 and 4 threads; a case is non-trivial when the matrix has >= 2 rows and an off-diagonal "
              "entry; distinct by digest of (class, parameters, matrix, vectors) for the enumerated cases and by "
              "(class, value type, family, size, parameters, threads, seed) for the random ones")
    c.mechanism = {"one sweep = x + M^-1 (f - A x) for the documented splitting (Jacobi, Gauss-Seidel, SPAI-0/1, ILU*)": "M (exact) + V (rational definition vs recorded double at 2^-20) + O (dense long double, 1e-12)",
                   "exact solution is a fixed point": "M (exact) + V (bitwise on integer data)",
                   "SPAI-0 / SPAI-1 minimise ||I - M A||_F on their pattern": "M (normal equations, exact) + V (2^-20) + O",
                   "Chebyshev = degree-d Chebyshev polynomial on the Gershgorin / power-method interval": "M (degree <= 3) + V + O (degree <= 6, recorded bounds)",
                   "(L U)_ij = a_ij on the admitted pattern; pattern of A / level of fill <= k / A^(k+1)": "M (exact; patterns symbolic) + V (sweep with the exact factors on the admitted pattern) + O (residual of the real factors)",
                   "ILU exact when the complete factors fit (tridiagonal, arrow, k >= n)": "M + O",
                   "level-scheduled triangular solve = serial": "M (levels independent; ascending / descending order inside a level) + O (parallel instance vs serial instance at 4 threads)",
                   "ILUT": "fixed point; exact when nothing is dropped (M + O)"}
    c.assumptions = ["integer-valued matrices / vectors and dyadic damping: IEEE doubles hold the inputs exactly; TLC recomputes every definition in exact rationals",
                     "recorded doubles are compared with the rational value at 2^-20 absolute (+-2 units); rounding-level accuracy is judged on errors against dense long-double definitions computed by the recorder (1e-12; Chebyshev 3e-11)",
                     "rows are sorted by column (the ILU classes require it; amg / make_solver sort their copy)",
                     "the level-scheduled Gauss-Seidel sweep is compared with the serial definition on every pattern (its anti-dependence defect on non-symmetric patterns, DESIGN 6.1 / C09, is repaired in /repo by 2e16781)",
                     "level of fill follows the rule of iluk.hpp (max of the two levels + 1), a superset of the textbook sum rule (model invariant)",
                     "block-valued SPAI-0 is judged as x + M r with the class's own M (its block formula is a norm-weighted heuristic, not a Frobenius minimiser under any reading)",
                     "the recorder reads the ILU factors / Chebyshev bounds with -fno-access-control (no /repo edit)",
                     "TLC, CommunityModules Json, g++/libgomp are trusted"]
    notes = {}

    def models():
        # coverage=False: TLC's coverage bookkeeping slows the deeply recursive rational evaluation 20x
        ms = [c.tlc_model("RelaxModel", constants={"N": 3}, workers=8, coverage=False, timeout=1500),
              c.tlc_model("IlukModel", constants={"NOff": 5}, workers=8, coverage=False, timeout=1500)]
        if th:
            ms.append(c.tlc_model("RelaxModel", constants={"N": 4}, workers=12, coverage=False, timeout=3000))
            ms.append(c.tlc_model("IlukModel", constants={"NOff": 6, "K": 1}, workers=12, coverage=False, timeout=3000))
            ms.append(c.tlc_model("IlukModel", constants={"NOff": 5, "K": 2}, workers=12, coverage=False, timeout=3000))
        for m in ms:
            if m["violated"]:
                notes[m["module"] + str(m.get("constants", ""))] = m["violated"]
                c.note("model %s %s violated %s" % (m["module"], m.get("constants", ""), m["violated"]))
        # iluk.hpp as it was in the snapshot (fill entries created lazily, Lazy = TRUE): the model must keep
        # showing (L U)_ij # a_ij (fixed in /repo by 0898843); if it stops, the model lost its teeth
        m = c.tlc_model("IlukModel", constants={"Lazy": "TRUE"}, workers=6, coverage=False, timeout=1500)
        if m["violated"]:
            c.note("IlukModel with Lazy = TRUE (iluk.hpp of the snapshot) violates %s as expected (witness found after %d states)" % (m["violated"], m["states"]))
        else:
            c.vacuous.append("IlukModel with Lazy = TRUE (the snapshot's lazy fill) no longer violates IluOK")

    def code():
        rr = c.build("record_relaxation", ["record_relaxation.cpp"], flags=["-fno-access-control"])
        runs = [("small", 1, 1500), ("small", 4, 1500), ("iluk5", 1, 400), ("random", 1, 700), ("random", 4, 700)]
        if th:
            runs += [("random", 16, 700), ("iluk5", 4, 1500)]
        for mode, nt, chunk in runs:
            t = c.record(rr, [mode], env={"OMP_NUM_THREADS": nt, "OMP_WAIT_POLICY": "passive", "GOMP_SPINCOUNT": 0},
                         out=c.path("r-%s-%d.ndjson" % (mode, nt)), timeout=1500)
            if not whole_lines(c, t):
                continue
            res = c.tlc_trace("C06Trace", t, label="%s@%dthreads" % (mode, nt), chunk=chunk)
            for ln in res["lines"][:60000:977]:
                c.sample(ln, limit=8)
            for k, ln in enumerate(res["lines"]):
                if '"k":"relax"' not in ln:
                    continue
                r = json.loads(ln)
                if r.get("rat"):
                    A = r["A"]
                    if A["n"] >= 2 and len(A["col"]) > A["n"]:
                        key = {x: r.get(x) for x in ("kind", "A", "f", "x", "wn", "wd", "kk", "deg", "lown", "lowd", "scale", "nt", "serial")}
                        c.nontrivial.add(hashlib.sha1(json.dumps(key, sort_keys=True).encode()).hexdigest()[:12])
                else:
                    c.nontrivial.add(("rand", mode, nt, c.seed, k))
            split_drift(c, res)
            c.judge(res, "relaxation class differs from its definition", sigfn=sig, stage="relaxation")

    c.parallel([models, code])
    c.exhaustive = True
    if notes and not c.violations:
        c.drift("model invariant(s) %s violated by the transcription but the real code satisfies every predicate on every recorded case" % notes)
