"""C09 - results do not depend on the number of threads or their interleaving."""
import json

def run(c):
    th = c.thorough()
    c.rule = ("model: every off-diagonal pattern of size N (gs: N<=4 all, N=5 symmetric; tri: N<=4) x NT threads x every "
              "interleaving of single memory accesses between barriers; code: schedule tables of the real parallel_sweep / "
              "sptr_solve for the same patterns and random patterns to 120-300 rows at 4,5,8,16,17,24 threads, bitwise "
              "comparison with the serial sweep, observed row execution order; digests of 20 results under 10 thread counts. "
              "non-trivial = a schedule with >= 2 levels or a digest item; distinct by (pattern, direction, threads)")
    c.mechanism = {"no two dependent rows share a level; every interleaving = serial sweep": "M (all interleavings) + V (real tables, real execution order)",
                   "bitwise equality across thread counts (products, transfer operators, hierarchies, GS sweeps, SpMV, vector updates)": "O (digests)",
                   "rounding-class results within a stated relative bound": "O"}
    c.assumptions = ["atomic tickets taken inside the H4 hook order row start/finish events consistently with real time",
                     "omp_set_num_threads() is honoured by every amgcl component (they query omp_get_max_threads at construction)",
                     "thread counts above the 16 cores are oversubscribed, which widens the explored real interleavings but is not exhaustive: exhaustiveness comes from the model"]
    # ---- model: all interleavings
    base = {"N": 4, "NT": 4, "Forward": "TRUE", "AntiDep": "TRUE", "Sym": "FALSE", "Mode": '"gs"'}
    def model(**kw):
        k = dict(base); k.update(kw)
        return c.tlc_model("LevelScheduleModel", constants=k)
    def models():
        asis = model(N=3, AntiDep="FALSE")            # the pinned snapshot's level rule: must be violated (documents the fixed defect)
        if not asis["violated"]:
            c.drift("the snapshot's level rule (AntiDep=FALSE) is no longer violated in the model")
        runs = [dict(N=4), dict(N=3, Forward="FALSE"), dict(N=4, Mode='"tri"'), dict(N=5, Sym="TRUE")]
        if th:
            runs += [dict(N=4, Forward="FALSE"), dict(N=4, NT=5), dict(N=5, Sym="TRUE", Forward="FALSE"), dict(N=4, Mode='"tri"', Forward="FALSE"), dict(N=3, NT=2)]
        for r in runs:
            m = model(**r)
            if m["violated"]:
                # rule 3: a model-level failure is not a verdict; the real tables are judged below
                c.note("model violated %s with %s" % (m["violated"], r))
                c.drift("LevelScheduleModel %s violates %s: transcription of the repaired code is wrong or the design is" % (r, m["violated"]))
    c.exhaustive = True
    def code():
        # ---- code: schedule tables + execution order + bitwise vs serial
        rs, rd = c.build_many([dict(name="record_schedule", sources=["record_schedule.cpp"]),
                               dict(name="record_determinism", sources=["record_determinism.cpp"])])
        plan = [("small", 4), ("small", 5), ("random", 4), ("random", 8), ("random", 17), ("random", 24)]
        if th:
            plan += [("small", 8), ("small", 17), ("random", 5), ("random", 16), ("random", 32)]
        def sig(rec, clauses):
            return {"mode": rec.get("mode"), "sym": rec.get("sym"), "nt": rec.get("nt")}
        for mode, nt in plan:
            t = c.record(rs, [mode], env={"OMP_NUM_THREADS": nt}, out=c.path("s-%s-%d.ndjson" % (mode, nt)), timeout=600)
            res = c.tlc_trace("C09Trace", t, label="%s@%d" % (mode, nt), chunk=4000)
            for ln in res["lines"][:12000:1499]:
                c.sample(ln, limit=5)
            for ln in res["lines"]:
                if '"sched":[[[' in ln:
                    r = json.loads(ln)
                    if len(r["sched"][0]) >= 2:
                        c.nontrivial.add((json.dumps(r["rc"]), r["fwd"], r["nt"], r["mode"]))
            c.judge(res, "level-scheduled sweep", sigfn=sig, stage="schedule")
        # ---- code: digests across thread counts
        def dsig(rec, clauses):
            return {"item": rec.get("name"), "via_product": rec.get("via_product"), "small_spread": rec.get("spread", 10**9) <= 64}
        for order in ("asc", "desc"):
            t = c.record(rd, [], env={"OMP_NUM_THREADS": 1, "VERIF_ORDER": order}, out=c.path("det-%s.ndjson" % order), timeout=1500)
            res = c.tlc_trace("C09Trace", t, label="determinism/" + order)
            for ln in res["lines"][:2]:
                c.sample(ln, limit=8)
            for ln in res["lines"]:
                if '"k":"det"' in ln:
                    c.nontrivial.add(("det", order, json.loads(ln)["name"]))
            c.judge(res, "result depends on the thread count", sigfn=dsig, stage="determinism")
    c.parallel([models, code])
