#!/usr/bin/env python3
"""Regenerate MANIFEST.json from checks/meta.json (one entry per claimed property) and
properties.jsonl (everything not claimed goes to not_applicable with the reason given in meta)."""
import json, os, subprocess
V = os.path.dirname(os.path.dirname(os.path.abspath(__file__)))
meta = json.load(open(os.path.join(V, "checks", "meta.json")))
props = [json.loads(l)["id"] for l in open(os.path.join(V, "properties.jsonl")) if l.strip()]
checks, na = [], []
for pid in props:
    m = meta["checks"].get(pid)
    dm = os.path.join(V, "docs", pid + ".meta.json")
    if m is None and os.path.exists(dm) and pid in meta.get("integrated", []):
        m = json.load(open(dm))          # written by the builder of that check, enabled by the lead in meta["integrated"]
    if m and os.path.exists(os.path.join(V, "checks", pid + ".py")) and not m.get("disabled"):
        checks.append({
            "property_id": pid,
            "quick_cmd": "bin/check %s --tier quick" % pid,
            "thorough_cmd": "bin/check %s --tier thorough" % pid,
            "evidence_file": "evidence/%s.json" % pid,
            "replay_cmd_template": "bin/check %s --replay {path}" % pid,
            "engine": m.get("engine", "tlc+rec"),
            "level_claimed": {"category": "model_checking", "text": m["text"], "design_ref": m.get("design_ref", "DESIGN.md section 5, " + pid)},
            "level_note": m["note"],
            "technique": m["technique"],
        })
    else:
        na.append({"property_id": pid, "reason": (m or {}).get("na_reason", meta["default_na_reason"])})
try:
    commits = subprocess.check_output(["git", "-C", "/repo", "log", "--format=%h %s"]).decode().splitlines()
    hooks = [c.split()[0] for c in commits if c.split(" ", 1)[1].startswith("verif-hook")]
except Exception:
    hooks = []
man = {
    "version": 1,
    "setup_cmd": "bin/check --setup",
    "hooks": {"guard": "AMGCL_VERIF",
              "enable": "recorders are compiled by bin/check with -DAMGCL_VERIF against /repo's working tree (header-only library; nothing is installed)",
              "baseline_off_cmd": "cmake --build /repo/_build -j16 && ctest --test-dir /repo/_build -j8 --timeout 900",
              "source_commits": hooks, "add_only": True},
    "engines": meta["engines"],
    "checks": checks,
    "notes": meta["notes"],
    "not_applicable": na,
}
json.dump(man, open(os.path.join(V, "MANIFEST.json"), "w"), indent=1)
print("MANIFEST.json: %d checks, %d not_applicable" % (len(checks), len(na)))
