#!/usr/bin/env python3
"""Confirm seeded changes produced by an independent sub-agent in its scratch worktree and,
if confirmed, keep them under /verif/seeded/<prop>-<k>/.

usage: tools/confirm_seed.py /tmp/mut-Cxx [k ...]

For each out/<k>/{patch.diff,demo.cpp,meta.json} in the worktree:
  1. worktree clean (git checkout -- .), demo compiled and run  -> must exit 0
  2. git apply patch.diff                                        -> must apply
  3. demo compiled and run again                                 -> must exit non-zero
  4. the repository's test suite rebuilt with the change (cmake --build, all test targets) and run
     (ctest, OMP_NUM_THREADS=4 OMP_WAIT_POLICY=passive)           -> must pass completely
  5. git checkout -- .  (worktree clean again)
Writes seeded/<prop>-<k>/{patch.diff,demo.cpp,meta.json} with a "confirmed" block added to meta.json.
"""
import json, os, re, shutil, subprocess, sys, time

V = os.path.dirname(os.path.dirname(os.path.abspath(__file__)))

def sh(cmd, cwd=None, env=None, timeout=3600):
    e = dict(os.environ)
    e.update(env or {})
    p = subprocess.run(cmd, shell=isinstance(cmd, str), cwd=cwd, env=e, stdout=subprocess.PIPE, stderr=subprocess.STDOUT, timeout=timeout)
    return p.returncode, p.stdout.decode("utf-8", "replace")

def demo_cmd(demo, wt):
    """compile/run command from the comment at the top of demo.cpp; fall back to a default"""
    txt = open(demo).read()[:3000]
    txt = re.sub(r"\\\s*\n\s*//\s*", " ", txt)      # join continuation lines of the commented command
    m = re.search(r"(g\+\+|mpicxx)[^\n]*demo\.cpp[^\n]*", txt)
    threads = re.search(r"OMP_NUM_THREADS=(\d+)", txt)
    comp = m.group(0) if m else "g++ -std=c++17 -O1 -fopenmp -I%s demo.cpp -o demo" % wt
    comp = comp.split("&&")[0].strip().rstrip("\\").strip()
    comp = re.sub(r"\s-o\s+\S+", " -o demo", comp) if " -o " in comp else comp + " -o demo"
    if "-I/usr/include/eigen3" not in comp:
        comp += " -I/usr/include/eigen3"
    mp = re.search(r"mpirun[^\n]*?-np?\s+(\d+)", txt)
    run = "./demo"
    if mp and comp.startswith("mpicxx"):
        run = "mpirun --allow-run-as-root --oversubscribe -n %s ./demo" % mp.group(1)
    env = {"OMP_WAIT_POLICY": "passive", "W": wt, "WT": wt, "WORKTREE": wt}
    if threads:
        env["OMP_NUM_THREADS"] = threads.group(1)
    return comp, run, env

def confirm(wt, k):
    d = os.path.join(wt, "out", str(k))
    meta = json.load(open(os.path.join(d, "meta.json")))
    prop = meta.get("property") or os.path.basename(wt).split("-")[-1]
    res = {"at": time.strftime("%Y-%m-%d %H:%M:%S"), "steps": []}
    def step(name, ok, detail=""):
        res["steps"].append({"step": name, "ok": bool(ok), "detail": detail[-600:]})
        print("  %-34s %s" % (name, "ok" if ok else "FAILED"), flush=True)
        return ok
    sh("git checkout -- .", cwd=wt)
    comp, run, env = demo_cmd(os.path.join(d, "demo.cpp"), wt)
    rc, out = sh(comp, cwd=d, env=env)
    if not step("demo compiles (clean tree)", rc == 0, out): return prop, res, False
    rc, out = sh(run, cwd=d, env=env, timeout=1800)
    if not step("demo passes without the change", rc == 0, out): return prop, res, False
    rc, out = sh("git apply out/%s/patch.diff" % k, cwd=wt)
    if not step("patch applies", rc == 0, out): return prop, res, False
    try:
        rc, out = sh(comp, cwd=d, env=env)
        if not step("demo compiles (changed tree)", rc == 0, out): return prop, res, False
        rc, out = sh(run, cwd=d, env=env, timeout=1800)
        if not step("demo fails with the change", rc != 0, "rc=%s\n%s" % (rc, out)): return prop, res, False
        b = os.path.join(wt, "_build")
        if not os.path.exists(os.path.join(b, "build.ninja")):
            sh("cmake -G Ninja -S %s -B %s -DAMGCL_BUILD_TESTS=ON -DCMAKE_BUILD_TYPE=RelWithDebInfo -DCMAKE_CXX_FLAGS=-Wno-error" % (wt, b))
        rc, out = sh("cmake --build %s -j%s" % (b, os.environ.get("CONFIRM_JOBS", "6")), timeout=7200)
        if not step("test suite builds with the change", rc == 0, out): return prop, res, False
        rc, out = sh("ctest --test-dir %s -j3 --timeout 3000" % b, env={"OMP_NUM_THREADS": "4", "OMP_WAIT_POLICY": "passive"}, timeout=7200)
        m = re.search(r"(\d+)% tests passed, (\d+) tests failed out of (\d+)", out)
        if not step("existing test suite passes with the change", rc == 0 and m and m.group(2) == "0", (m.group(0) if m else "") + out[-300:]): return prop, res, False
        res["suite"] = m.group(0)
    finally:
        sh("git checkout -- .", cwd=wt)
    return prop, res, True

def main():
    wt = sys.argv[1].rstrip("/")
    ks = sys.argv[2:] or sorted(x for x in os.listdir(os.path.join(wt, "out")) if x.isdigit())
    for k in ks:
        print("confirming %s change %s" % (wt, k), flush=True)
        prop, res, ok = confirm(wt, k)
        res["confirmed"] = ok
        d = os.path.join(wt, "out", str(k))
        if ok:
            dst = os.path.join(V, "seeded", "%s-%d" % (prop, int(k) + int(os.environ.get("SEED_OFFSET", "0"))))
            os.makedirs(dst, exist_ok=True)
            for f in ("patch.diff", "demo.cpp"):
                shutil.copy(os.path.join(d, f), os.path.join(dst, f))
            meta = json.load(open(os.path.join(d, "meta.json")))
            meta["confirmed_by_lead"] = res
            json.dump(meta, open(os.path.join(dst, "meta.json"), "w"), indent=1)
            print("  kept as %s" % dst, flush=True)
        else:
            json.dump(res, open(os.path.join(d, "confirm-failed.json"), "w"), indent=1)
            print("  NOT kept (see %s/confirm-failed.json)" % d, flush=True)

if __name__ == "__main__":
    main()
