#!/usr/bin/env python3
"""Header scanner for C14: reads every amgcl header that defines a parameter structure
(a struct with a constructor taking a boost::property_tree::ptree) and extracts, per
structure, four readings of its schema:

  fields    struct data members (name, declared type text)            -> Fields
  imp_value / imp_child / imp_custom   names in AMGCL_PARAMS_IMPORT_VALUE / _IMPORT_CHILD
            lists and keys read by hand (p.get("k", p.get_child("k", p.count("k"))   -> Imported
  checked / checked_opt   names in the check_params(...) brace lists   -> Checked
  exp_value / exp_child   names in AMGCL_PARAMS_EXPORT_VALUE / _EXPORT_CHILD lists  -> Exported
  bases     base classes whose params(p) / ::get(p, path) are chained

and the documentation reading: every `.. cpp:member::` below a `.. cpp:class:: params`
(or *_params) of docs/components/*.rst together with the header the class names.

Usage:  scan_params.py [REPO]   prints JSON.   As a module: scan(repo) -> dict.
"""
import json, os, re, sys


def strip_comments(txt):
    # keep line structure; drop // and /* */ comments and string-free preprocessor noise
    out = []
    i, n = 0, len(txt)
    while i < n:
        c = txt[i]
        if txt.startswith("//", i):
            j = txt.find("\n", i)
            j = n if j < 0 else j
            i = j
        elif txt.startswith("/*", i):
            j = txt.find("*/", i + 2)
            j = n if j < 0 else j + 2
            out.append("".join(ch if ch == "\n" else " " for ch in txt[i:j]))
            i = j
        elif c == '"':
            j = i + 1
            while j < n and txt[j] != '"':
                j += 2 if txt[j] == "\\" else 1
            out.append(txt[i:j + 1])
            i = j + 1
        else:
            out.append(c)
            i += 1
    return "".join(out)


def match_brace(txt, i, open_="{", close="}"):
    """txt[i] == open_; returns index of the matching close (strings respected)."""
    depth = 0
    n = len(txt)
    while i < n:
        c = txt[i]
        if c == '"':
            i += 1
            while i < n and txt[i] != '"':
                i += 2 if txt[i] == "\\" else 1
        elif c == open_:
            depth += 1
        elif c == close:
            depth -= 1
            if depth == 0:
                return i
        i += 1
    return -1


STRUCT_RE = re.compile(r"\bstruct\s+(\w*params)\b\s*(?::\s*([^{;]+?))?\s*\{")
CTOR_RE = r"\b%s\s*\(\s*const\s+boost::property_tree::ptree\s*&\s*(\w+)\s*\)"
MEMBER_RE = re.compile(r"^\s*(?!typedef|using|static|return|friend|template|struct|enum|class)"
                       r"((?:const\s+)?[\w:<>,\s\*&]+?[\s\*&])\s*(\w+(?:\s*,\s*\w+)*)\s*;\s*$")


def depth1_statements(body):
    """Yield the text pieces of `body` (the inside of the struct braces) that are at brace
    depth 0 of the struct, split at ';' and '}' - i.e. member declarations, not code."""
    out, cur, depth, i, n = [], [], 0, 0, len(body)
    while i < n:
        c = body[i]
        if c == "{":
            j = match_brace(body, i)
            # function body or nested struct: drop, statement ends here
            cur = []
            i = j + 1
            # a nested `struct x {...} name;` leaves " name;" - swallow up to ';' if directly following
            m = re.match(r"\s*\w*\s*;", body[i:])
            if m:
                i += m.end()
            continue
        if c == ";":
            out.append("".join(cur) + ";")
            cur = []
        elif c == "#":
            j = body.find("\n", i)
            i = n if j < 0 else j
            continue
        else:
            cur.append(c)
        i += 1
    return out


def enclosing_class(txt, pos):
    """Name of the innermost class/struct whose body contains pos."""
    best = None
    for m in re.finditer(r"\b(?:class|struct)\s+(\w+)\s*(?:<[^{;]*>\s*)?(?:final\s*)?(?::(?!:)[^;{]*)?\{", txt[:pos]):
        o = m.end() - 1
        c = match_brace(txt, o)
        if c > pos:
            best = m.group(1)
    return best


def names(macro, txt):
    return re.findall(r"%s\s*\(\s*\w+\s*,\s*(?:\w+\s*,\s*)?(\w+)\s*\)" % macro, txt)


def scan_struct(txt, m, path):
    sname = m.group(1)
    o = m.end() - 1
    c = match_brace(txt, o)
    body = txt[o + 1:c]
    rec = {"file": path, "struct": sname, "class": enclosing_class(txt, m.start()),
           "line": txt.count("\n", 0, m.start()) + 1,
           "bases": [b.strip() for b in (m.group(2) or "").split(",") if b.strip()]}
    # ---- members
    fields = []
    for st in depth1_statements(body):
        st1 = " ".join(st.split())
        if "(" in st1 or "=" in st1:
            continue
        mm = MEMBER_RE.match(st1)
        if mm:
            ty = mm.group(1).strip()
            for nm in mm.group(2).split(","):
                fields.append({"name": nm.strip(), "type": ty})
    rec["fields"] = fields
    # ---- ptree constructor
    cm = re.search(CTOR_RE % re.escape(sname), body)
    rec["has_ptree_ctor"] = bool(cm)
    imp_v, imp_c, custom, chk, chk_opt, chained = [], [], [], [], [], []
    if cm:
        b0 = body.find("{", cm.end())
        init = body[cm.end():b0]
        b1 = match_brace(body, b0)
        code = body[b0 + 1:b1]
        pv = cm.group(1)
        imp_v = names("AMGCL_PARAMS_IMPORT_VALUE", init)
        imp_c = names("AMGCL_PARAMS_IMPORT_CHILD", init)
        # hand written imports  name( p.get("key", ...) ) in the init list or p.get / count in the body
        for k in re.findall(r"\b%s\s*\.\s*(?:get|get_child|count|get_optional)\s*(?:<[^>]*>)?\s*\(\s*\"([^\"]+)\"" % pv, init + code):
            if k not in custom:
                custom.append(k)
        # chained base constructors  Base(p)
        for b in re.findall(r"([\w:]+)\s*\(\s*%s\s*\)" % pv, init):
            chained.append(b)
        ck = re.search(r"\bcheck_params\s*\(", code)
        if ck:
            e = match_brace(code, ck.end() - 1, "(", ")")
            lists = re.findall(r"\{([^{}]*)\}", code[ck.end():e])
            if lists:
                chk = re.findall(r"\"([^\"]+)\"", lists[0])
            if len(lists) > 1:
                chk_opt = re.findall(r"\"([^\"]+)\"", lists[1])
        rec["has_check"] = bool(ck)
    rec.update(imp_value=imp_v, imp_child=imp_c, imp_custom=custom, chained=chained,
               checked=chk, checked_opt=chk_opt)
    # ---- exporter
    gm = re.search(r"\bvoid\s+get\s*\(\s*boost::property_tree::ptree\s*&\s*(\w*)\s*,[^)]*\)\s*const\s*\{", body)
    exp_v, exp_c, exp_chain = [], [], []
    rec["has_get"] = bool(gm)
    if gm:
        g0 = gm.end() - 1
        g1 = match_brace(body, g0)
        code = body[g0 + 1:g1]
        exp_v = names("AMGCL_PARAMS_EXPORT_VALUE", code)
        exp_c = names("AMGCL_PARAMS_EXPORT_CHILD", code)
        exp_chain = re.findall(r"([\w:]+)::get\s*\(", code)
        for k in re.findall(r"\.\s*put\s*\(\s*(?:std::string\s*\(\s*\w+\s*\)|\w+)\s*\+\s*\"([^\"]+)\"", code):
            exp_v.append(k)
    rec.update(exp_value=exp_v, exp_child=exp_c, exp_chained=exp_chain)
    return rec


def scan_headers(repo):
    res = []
    root = os.path.join(repo, "amgcl")
    for d, _, fs in sorted(os.walk(root)):
        for f in sorted(fs):
            if not f.endswith(".hpp"):
                continue
            p = os.path.join(d, f)
            raw = open(p, errors="replace").read()
            if "property_tree::ptree" not in raw:
                continue
            txt = strip_comments(raw)
            for m in STRUCT_RE.finditer(txt):
                rec = scan_struct(txt, m, os.path.relpath(p, repo))
                if rec["has_ptree_ctor"] or rec["has_get"]:
                    res.append(rec)
    return res


def scan_docs(repo):
    """[{doc, class, include, member, type, default}] for every documented parameter."""
    out = []
    droot = os.path.join(repo, "docs", "components")
    if not os.path.isdir(droot):
        return out
    for f in sorted(os.listdir(droot)):
        if not f.endswith(".rst"):
            continue
        lines = open(os.path.join(droot, f), errors="replace").read().splitlines()
        stack = []   # (indent, kind, name)
        include = {}
        i = 0
        while i < len(lines):
            ln = lines[i]
            ind = len(ln) - len(ln.lstrip())
            s = ln.strip()
            m = re.match(r"\.\. cpp:(class|struct|member|type|function|enum)::\s*(.*)$", s)
            if m:
                decl = m.group(2)
                while decl.endswith("\\") and i + 1 < len(lines):
                    i += 1
                    decl = decl[:-1] + " " + lines[i].strip()
                while stack and stack[-1][0] >= ind:
                    stack.pop()
                kind = m.group(1)
                if kind in ("class", "struct"):
                    d2 = re.sub(r"^template\s*<.*>\s*(?=class |struct |\w)", "", decl).strip()
                    d2 = re.sub(r"^(class|struct)\s+", "", d2)
                    name = re.split(r"[\s<:]", d2.replace("amgcl::", "").strip())
                    full = d2.strip().split()[0] if d2.strip() else ""
                    stack.append((ind, "class", full))
                elif kind == "member":
                    cls = [x[2] for x in stack if x[1] == "class"]
                    d3 = decl.strip().rstrip(";")
                    default = None
                    if "=" in d3:
                        d3, default = [x.strip() for x in d3.split("=", 1)]
                    mm = re.match(r"^(.*?)[\s\*&]+(\w+)$", d3)
                    if mm and cls:
                        ty = d3[:len(d3) - len(mm.group(2))].strip()
                        out.append({"doc": f, "classes": cls, "include": include.get(cls[0], ""),
                                    "member": mm.group(2), "type": ty, "default": default,
                                    "line": i + 1})
            m = re.match(r"\.\. rubric:: Include ``<([^>]+)>``", s)
            if m:
                cls = [x[2] for x in stack if x[1] == "class"]
                if cls:
                    inc = m.group(1)
                    if not inc.endswith(".hpp"):
                        inc += ".hpp"
                    include[cls[0]] = inc
                    # members seen before the rubric cannot exist (rubric comes first)
            i += 1
    return out


def resolve(structs):
    """Flatten inheritance: all_fields / all imports / exports including chained bases.
    A base is matched by the last identifier before ::params (Base -> typedef looked up by
    the caller is not needed: bases live in a header included by the same file and are
    matched by class name; `Base`/`BasePrm` style aliases are matched through the alias table)."""
    by_class = {}
    for s in structs:
        by_class.setdefault(s["class"], []).append(s)
        by_class.setdefault(s["struct"], []).append(s) if s["struct"] != "params" else None
    return by_class


# ----------------------------------------------------------------------------- dispatch tables
def _macro_defs(block):
    """{macro: (param, body)} for '#define M(p) body' with line continuations inside block."""
    defs = {}
    for m in re.finditer(r"#\s*define\s+(\w+)\s*\(\s*(\w+)\s*\)((?:[^\n\\]|\\\n|\\.)*)", block):
        defs[m.group(1)] = (m.group(2), m.group(3).replace("\\\n", " "))
    return defs


def scan_dispatch_file(repo, rel):
    raw = open(os.path.join(repo, rel), errors="replace").read()
    txt = strip_comments(raw)
    out = {"file": rel}
    em = re.search(r"\benum\s+type\s*\{([^}]*)\}", txt)
    if em:
        out["enum"] = [x.strip().split("=")[0].strip() for x in em.group(1).split(",") if x.strip()]
    pm = re.search(r"operator<<\s*\(\s*std::ostream\s*&\s*\w+\s*,\s*type\s+\w+\s*\)\s*\{", txt)
    if pm:
        b = txt[pm.end() - 1:match_brace(txt, pm.end() - 1)]
        out["print"] = dict(re.findall(r"case\s+(\w+)\s*:\s*return\s+\w+\s*<<\s*\"([^\"]*)\"", b))
    qm = re.search(r"operator>>\s*\(\s*std::istream\s*&\s*\w+\s*,\s*type\s*&\s*(\w+)\s*\)\s*\{", txt)
    if qm:
        b = txt[qm.end() - 1:match_brace(txt, qm.end() - 1)]
        out["parse"] = dict(re.findall(r"==\s*\"([^\"]*)\"\s*\)\s*%s\s*=\s*(\w+)\s*;" % qm.group(1), b))
        out["parse_throws"] = bool(re.search(r"else\s+throw\b", b))
    dm = re.search(r"\.get\s*\(\s*\"(type|class)\"\s*,\s*([\w:]+)\s*\)", txt)
    if dm:
        out["key"], out["default"] = dm.group(1), dm.group(2).split("::")[-1]
    # every switch statement: which enumerator reaches which component
    sw = []
    for m in re.finditer(r"\bswitch\s*\(\s*([\w\.>\-]+)\s*\)\s*\{", txt):
        o = m.end() - 1
        c = match_brace(txt, o)
        block = txt[o:c]
        if "operator" in txt[max(0, m.start() - 400):m.start()] and re.search(r"return\s+\w+\s*<<\s*\"", block):
            continue   # the printer
        # enclosing function name: last identifier followed by '(' before the switch at lower depth
        head = txt[:m.start()]
        fm = None
        for fm in re.finditer(r"(~?\w+|operator\s*\(\s*\)|operator<<)\s*\([^;{}]*\)\s*(?:const\s*)?(?::[^;{}]*)?\{", head):
            pass
        fn = re.sub(r"\s+", "", fm.group(1)) if fm else "?"
        cases = {}
        defs = _macro_defs(block)
        for mm in re.finditer(r"^\s*(\w+)\s*\(\s*(\w+)\s*\)\s*;", block, re.M):
            mac, arg = mm.group(1), mm.group(2)
            if mac in defs:
                par, body = defs[mac]
                lab = re.search(r"case\s+((?:\w+::)*)(\w+)\s*:", body)
                tgt = re.findall(r"(?:amgcl::)?((?:\w+::)+)(\w+)\s*(?:<|>|\)|::type)", body)
                label = arg if (lab and lab.group(2) == par) else (lab.group(2) if lab else "?")
                tg = sorted(set(arg if t == par else t for ns, t in tgt if t == par))
                cases[label] = tg[0] if tg else "?"
        for mm in re.finditer(r"case\s+(?:\w+::)*(\w+)\s*:\s*\{?\s*typedef\s+((?:[\w:]+))\s*<", block):
            cases[mm.group(1)] = mm.group(2).split("::")[-1]
        if cases:
            sw.append({"fn": fn, "var": m.group(1), "cases": cases, "has_default_throw": bool(re.search(r"default\s*:\s*throw", block))})
    out["switches"] = sw
    return out


def scan_dispatch(repo):
    res = {}
    for d, _, fs in sorted(os.walk(os.path.join(repo, "amgcl"))):
        for f in fs:
            if f == "runtime.hpp":
                rel = os.path.relpath(os.path.join(d, f), repo)
                res[rel] = scan_dispatch_file(repo, rel)
    return res


def scan(repo):
    return {"structs": scan_headers(repo), "docs": scan_docs(repo), "dispatch": scan_dispatch(repo)}


if __name__ == "__main__":
    repo = sys.argv[1] if len(sys.argv) > 1 else os.environ.get("REPO", "/repo")
    json.dump(scan(repo), sys.stdout, indent=1)
