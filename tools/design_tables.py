#!/usr/bin/env python3
"""Regenerate the generated parts of DESIGN.md (between the BEGIN/END GENERATED markers):
   * the table of genuine defects (from known_findings.json),
   * the table of seeded changes and which check catches them (from seeded/*/meta.json, result.json),
   * the per-property index (from MANIFEST.json / docs/).
"""
import json, os, re, glob
V = os.path.dirname(os.path.dirname(os.path.abspath(__file__)))

def findings():
    k = json.load(open(os.path.join(V, "known_findings.json")))["findings"]
    out = ["| id | property | status | commit | what |", "|---|---|---|---|---|"]
    for f in sorted(k, key=lambda f: (f["property"], f["id"])):
        what = f["what"]
        what = re.sub(r"^fixed: property=\S+ \S+ ", "", what)
        out.append("| %s | %s | %s | %s | %s |" % (f["id"], f["property"], f["status"], f.get("commit", ""), what.replace("|", "\\|")))
    return "\n".join(out)

def seeded():
    out = ["| seeded change | property | what it changes | needs to manifest | caught by |", "|---|---|---|---|---|"]
    n = caught = own = 0
    for d in sorted(glob.glob(os.path.join(V, "seeded", "*"))):
        if not os.path.isdir(d):
            continue
        m = json.load(open(os.path.join(d, "meta.json")))
        rp = os.path.join(d, "result.json")
        res = json.load(open(rp)) if os.path.exists(rp) else None
        n += 1
        by = "(not run)"
        if res:
            hit = [p for p, r in res["results"].items() if r["exit"] == 1]
            if hit:
                caught += 1
                if m.get("property") in hit:
                    own += 1
                first = res["results"][hit[0]]["first"]
                clause = re.search(r"\((.*?);", first)
                by = ", ".join(hit) + (": " + clause.group(1)[:110] if clause else "")
            else:
                by = "**missed**"
        def cell(x):
            return str(x or "").replace("|", "\\|").replace("\n", " ")[:260]
        out.append("| %s | %s | %s | %s | %s |" % (os.path.basename(d), m.get("property", ""), cell(m.get("title") or m.get("what_it_breaks")), cell(m.get("needs_to_manifest")), cell(by)))
    out.append("")
    out.append("%d seeded changes kept (each confirmed by the lead: demo passes without / fails with the change, the repository's suite passes with it); %d are reported by the registered checks: %d by the check of their own property, %d only by the check of a neighbouring property (the property they break in the first place)." % (n, caught, own, caught - own))
    return "\n".join(out)

def index():
    man = json.load(open(os.path.join(V, "MANIFEST.json")))
    out = ["| id | specification / trace modules (see checks/<id>.py) | details |", "|---|---|---|"]
    for c in man["checks"]:
        pid = c["property_id"]
        src = open(os.path.join(V, "checks", pid + ".py")).read()
        mods = sorted(set(re.findall(r'tlc_model\(\s*"(\w+)"', src)) | set(re.findall(r'tlc_trace\(\s*"(\w+)"', src)))
        doc = "docs/%s.md" % pid if os.path.exists(os.path.join(V, "docs", pid + ".md")) else "section 11.5"
        out.append("| %s | %s | %s |" % (pid, ", ".join(mods), doc))
    return "\n".join(out)

def main():
    p = os.path.join(V, "DESIGN.md")
    s = open(p).read()
    for name, fn in (("FINDINGS", findings), ("SEEDED", seeded), ("INDEX", index)):
        b, e = "<!-- BEGIN GENERATED %s -->" % name, "<!-- END GENERATED %s -->" % name
        if b in s and e in s:
            s = s[:s.index(b) + len(b)] + "\n" + fn() + "\n" + s[s.index(e):]
    open(p, "w").write(s)
    print("DESIGN.md tables regenerated")

if __name__ == "__main__":
    main()
