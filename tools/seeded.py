#!/usr/bin/env python3
"""Run the registered checks against the seeded changes kept under /verif/seeded/<id>/.

usage: tools/seeded.py [<id> ...] [--all-checks] [--only=Cxx[,Cyy]] [--tier=thorough]
       (--only: run these checks instead of the seed's own one and MERGE the outcome into result.json)

For every seeded change: copy /repo's working tree to a scratch directory under /tmp,
apply patch.diff there, run `REPO=<scratch> bin/check <property>` (the property named in
meta.json; with --all-checks every claimed check), record which checks alarmed in
seeded/<id>/result.json, delete the scratch copy.  /repo itself is never touched.
Not registered in MANIFEST.json: this is the self-test of the machinery (DESIGN section 7).
"""
import json, os, shutil, subprocess, sys, time

V = os.path.dirname(os.path.dirname(os.path.abspath(__file__)))

def run(sid, all_checks, tier):
    d = os.path.join(V, "seeded", sid)
    meta = json.load(open(os.path.join(d, "meta.json")))
    scratch = "/tmp/seed-%s-%d" % (sid, os.getpid())
    shutil.rmtree(scratch, ignore_errors=True)
    subprocess.check_call(["rsync", "-a", "--exclude", "_build", "--exclude", ".git", "/repo/", scratch + "/"])
    try:
        p = subprocess.run(["patch", "-p1", "-s", "-d", scratch, "-i", os.path.join(d, "patch.diff")], stdout=subprocess.PIPE, stderr=subprocess.STDOUT)
        if p.returncode != 0:
            print("%s: patch does not apply: %s" % (sid, p.stdout.decode()[-300:]))
            return None
        props = [meta["property"]]
        only = [a.split("=", 1)[1].split(",") for a in sys.argv if a.startswith("--only=")]
        if only:
            props = only[0]
        if all_checks:
            man = json.load(open(os.path.join(V, "MANIFEST.json")))
            props = [c["property_id"] for c in man["checks"]]
        res = {}
        for pid in props:
            t = time.time()
            env = dict(os.environ, REPO=scratch, VERIF_TIER=tier)
            q = subprocess.run([os.path.join(V, "bin", "check"), pid, "--tier", tier], env=env, stdout=subprocess.PIPE, stderr=subprocess.PIPE, cwd=V)
            out = q.stdout.decode()
            viol = [l for l in out.splitlines() if l.startswith("VIOLATION")]
            res[pid] = {"exit": q.returncode, "violations": len(viol), "first": viol[0][:300] if viol else "", "wall_s": round(time.time() - t)}
            print("%s: check %s exit=%d violations=%d %s" % (sid, pid, q.returncode, len(viol), viol[0][:160] if viol else ""), flush=True)
        rp = os.path.join(d, "result.json")
        if only and os.path.exists(rp):
            old = json.load(open(rp))["results"]
            old.update(res)
            res = old
        json.dump({"seeded": sid, "tier": tier, "results": res, "caught": any(r["exit"] == 1 for r in res.values())},
                  open(os.path.join(d, "result.json"), "w"), indent=1)
        return res
    finally:
        shutil.rmtree(scratch, ignore_errors=True)

def main():
    args = [a for a in sys.argv[1:] if not a.startswith("--")]
    allc = "--all-checks" in sys.argv
    tier = "thorough" if "--tier=thorough" in sys.argv else "quick"
    ids = args or sorted(os.listdir(os.path.join(V, "seeded")))
    for sid in ids:
        if os.path.isdir(os.path.join(V, "seeded", sid)):
            run(sid, allc, tier)

if __name__ == "__main__":
    main()
