CONSTANTS
  NDim = 2
  NPts = 3
  CMax = 2
  Full = TRUE
SPECIFICATION Spec
INVARIANTS SpanIsRigid
CHECK_DEADLOCK FALSE
