------------------------------ MODULE C18Trace ------------------------------
(* Trace spec for C18: what the real schur_pressure_correction, cpr, cpr_drs and     *)
(* deflated_solver did around harness inner solvers (spec in harness/               *)
(* record_composite.cpp) is judged by the definitions of Schur.tla / Cpr.tla.       *)
(* Scripted runs are exact (integers, or dyadic fixed point with 16 binary digits); *)
(* exact-LU runs are class O (error in units of 1e-12, bound 1e-9).                 *)
EXTENDS TraceKit, FiniteSets

S0 == INSTANCE Schur WITH ColonParse <- FALSE, AdjustFix <- FALSE
S1 == INSTANCE Schur WITH ColonParse <- TRUE, AdjustFix <- TRUE
C0 == INSTANCE Cpr

VARIABLES l, bad, drift, drift1

SH == 16
Tol == 1000                       \* 1e-9 in units of 1e-12
RVi(s) == S0!RV(s)
Fix(s) == [k \in 1..Len(s) |-> S0!Norm(s[k], 2 ^ SH)]
\* a list of columns (each a sequence of integers) as a dense rational matrix with `rows` rows
FromCols(cols, rows) == [i \in 1..rows |-> [j \in 1..Len(cols) |-> S0!R(cols[j][i])]]
FromColsFix(cols, rows) == [i \in 1..rows |-> [j \in 1..Len(cols) |-> S0!Norm(cols[j][i], 2 ^ SH)]]
DenseFix(A) == [i \in 1..A.n |-> [j \in 1..A.m |-> S0!Norm(S0!At(A, i - 1, j - 1), 2 ^ SH)]]

\* ---------------------------------------------------------------------- Schur
AllPDiag(K, pm) == \A i \in 0..(K.n - 1) : pm[i + 1] = 1 => i \in S0!RowCols(K, i)
SchurClauses(r) ==
    LET K  == r.K
        pm == r.pm
        nu == S0!NU(pm)
        np == S0!NP(pm)
        uu == S0!Kuu(K, pm)
        Dup == S0!DenseR(S0!Kup(K, pm))
        Dpu == S0!DenseR(S0!Kpu(K, pm))
        Dpp == S0!DenseR(S0!Kpp(K, pm))
        upObs == FromCols(r.kup, nu)
        puObs == FromCols(r.kpu, np)
        prog == S0!ApplyScripted(Dup, Dpu, pm, r.type, RVi(r.u1), RVi(r.u2), RVi(r.p), RVi(r.f))
        wfuu == S0!WellFormed(r.Kuu) /\ r.Kuu.n = nu /\ r.Kuu.m = nu
    IN  << <<"Kuu-block", wfuu /\ S0!SameOperator(r.Kuu, uu) /\ S0!NNZ(r.Kuu) = S0!NNZ(uu)>>,
           <<"Kup-block", S0!MEq(upObs, Dup)>>,
           <<"Kpu-block", S0!MEq(puObs, Dpu)>>,
           <<"Kpp-block", (r.adjust = 0 /\ r.pexact) => (r.Pmat.n = np /\ r.Pmat.m = np /\ S0!WellFormed(r.Pmat) /\ S0!MEq(DenseFix(r.Pmat), Dpp))>>,
           <<"schur-operator-uses-Kpp", r.bexact => S0!MEq(FromColsFix(r.base, np), Dpp)>>,
           <<"psolver-matrix=adjust_p-definition",
                 (r.pexact /\ AllPDiag(K, pm) /\ S0!DiaDefined(uu, r.simplec)) =>
                     S0!MEq(DenseFix(r.Pmat), S0!Setup(K, pm, r.adjust, r.simplec).Pm)>>,
           <<"apply-program", /\ Len(r.rhsU) = Len(prog.rhsU) /\ Len(r.rhsP) = 1
                              /\ \A q \in 1..Len(prog.rhsU) : S0!VEq(RVi(r.rhsU[q]), prog.rhsU[q])
                              /\ S0!VEq(RVi(r.rhsP[1]), prog.rhsP[1])
                              /\ S0!VEq(RVi(r.x), prog.x)>> >>
SchurDrift(r) == ~S0!SameStorage(r.Kuu, S0!Kuu(r.K, r.pm))

SchurOClauses(r) ==
    IF r.singular THEN <<>>
    ELSE << <<(IF r.type = 1 THEN "type1-exact-inverse" ELSE "type2-solves-upper-triangular-system"), r.err <= Tol>>,
            <<"schur-operator=Kpp-Kpu*Kuu^-1*Kup", r.serr <= Tol>>,
            <<"schur-spmv(alpha,beta)=dense-formula", r.operr <= Tol>>,
            <<"schur-residual=dense-formula", r.reserr <= Tol>> >>
\* exact U, the pressure system solved by restarted GMRES / FGMRES / LGMRES on the matrix-free operator
SchurKClauses(r) ==
    IF r.exc # "" THEN << <<"krylov-pressure-solve-runs", FALSE>> >>
    ELSE IF r.singular THEN <<>>
    ELSE << <<(IF r.type = 1 THEN "type1-exact-inverse(krylov-p-solve)" ELSE "type2-solves-upper-triangular-system(krylov-p-solve)"), r.err <= Tol>> >>

PatternClauses(r) ==
    << <<"pattern-terminates", ~r.hang /\ ~r.crash>>,
       <<"pattern-mask", (~r.hang /\ ~r.crash) => (r.res.st = "ok" /\ r.res.mask = S0!PatternMeaning(r.kind, r.a, r.b, r.n))>> >>
\* the transcription of the parser as written predicts the recorded outcome
PatternDrift(r) == LET t == S0!PatternParse(S0!PatternText(r.kind, r.a, r.b), r.n)
                   IN  ~(t.st = r.res.st /\ (t.st = "ok" => t.mask = r.res.mask))

\* ------------------------------------------------------------------------ CPR
CprClauses(r) ==
    LET K   == r.K
        B   == r.B
        n   == K.n
        np  == C0!NPof(K, B, r.act)
        Fpp == FromCols(r.fpp, np)                 \* np x n
        Sc  == FromCols(r.scat, n)                 \* n x np
        KD  == C0!KD(K)
        App == [i \in 1..np |-> [j \in 1..np |-> C0!R(C0!At(r.App, i - 1, j - 1))]]
        f == RVi(r.f)
        s == RVi(r.s)
        p == RVi(r.p)
        wts == [ip \in 1..np |-> C0!WeightsDef(K, B, ip - 1)]
    IN  << <<"global-matrix", C0!SameOperator(r.Ks, K)>>,
           <<"weights=first-row-of-inverse-diagonal-block",
                 r.variant = "cpr" => \A ip \in 1..np : wts[ip].ok /\ \A j \in 1..n :
                     C0!REq(Fpp[ip][j], IF (j - 1) \div B = ip - 1 /\ j <= C0!Nact(K, r.act) THEN wts[ip].x[((j - 1) % B) + 1] ELSE C0!RZero)>>,
           <<"drs-weights=definition",
                 r.variant = "drs" => \A ip \in 1..np : \A j \in 1..n :
                     C0!REq(Fpp[ip][j], IF (j - 1) \div B = ip - 1 /\ j <= C0!Nact(K, r.act)
                                        THEN C0!R(C0!DrsWeight(K, B, r.act, ip - 1, (j - 1) % B, r.dd64, r.ps64)) ELSE C0!RZero)>>,
           <<"scatter", C0!MEq(Sc, C0!ScatterDense(K, B, r.act))>>,
           <<"App=Fpp*A*Scatter", r.App.n = np /\ r.App.m = np /\ C0!WellFormed(r.App) /\ C0!MEq(App, C0!MM(Fpp, C0!MM(KD, Sc, np), np))>>,
           <<"two-stage-formula", /\ C0!VEq(RVi(r.rp[1]), C0!MV(Fpp, C0!VSubR(f, C0!MV(KD, s))))
                                  /\ C0!VEq(RVi(r.x), C0!VAddR(s, C0!MV(Sc, p)))>>,
           <<"block-input=scalar-input",
                 r.block => /\ r.bfpp = r.fpp /\ r.bscat = r.scat /\ r.brp = r.rp /\ r.bx = r.x
                            /\ C0!WellFormed(r.bApp) /\ C0!SameOperator(r.bApp, r.App)>> >>
CprUpdClauses(r) == << <<"partial-update-no-crash", ~r.crash /\ ~r.hang>>,
                       <<"partial-update-unchanged-transfer", (~r.crash /\ ~r.hang) => r.res.rpsame>>,
                       <<"partial-update-unchanged-action", (~r.crash /\ ~r.hang) => (r.res.same /\ r.res.d0lo = r.res.d1lo /\ r.res.d0hi = r.res.d1hi)>> >>
\* a CPR observation that is not an integer although the data make every quantity one: judged in long double
CprDevClauses(r) == << <<"weights=first-row-of-inverse-diagonal-block", r.variant = "cpr" => r.werr <= Tol>>,
                       <<"two-stage-observation-exact", r.variant = "cpr" /\ r.werr <= Tol>> >>
CprOClauses(r) == IF r.singular THEN <<>> ELSE << <<"two-stage-formula(O)", r.err <= Tol>> >>
DeflClauses(r) == << <<"deflated-solve-runs", r.exc = "">>,
                     <<"solves-original-system", r.exc = "" => r.rel12 <= 1000000>>,                 \* true residual <= 1e-6 (tol 1e-10)
                     <<"residual-orthogonal-to-deflation-vectors", r.exc = "" => r.orth12 <= 100>>,   \* 1e-10
                     <<"re-initialised-object=fresh-object", r.exc = "" => (r.reorth12 <= Tol /\ r.redx12 <= Tol)>> >>

\* multi-threaded set-up and projection (bounds 1e-9)
DeflMtClauses(r) == << <<"deflated-setup-runs", r.exc = "">>,
                       <<"residual-orthogonal-to-deflation-vectors(threads)", r.exc = "" => r.orth12 <= Tol>>,
                       <<"projection-independent-of-thread-count", r.exc = "" => r.dx12 <= Tol>> >>

\* one solver object, asked to solve with another matrix than the one it was built for (1e-6, tol 1e-10)
ReuseClauses(r) == << <<"solve-runs", r.exc = "">>,
                      <<"solves-the-matrix-passed-to-operator()", r.exc = "" => r.rel12 <= 1000000>>,
                      <<"solves-own-matrix", r.exc = "" => r.own12 <= 1000000>> >>

Clauses(r) ==
    CASE r.k = "schur"   -> SchurClauses(r)
      [] r.k = "schurO"  -> SchurOClauses(r)
      [] r.k = "schurK"  -> SchurKClauses(r)
      [] r.k = "pattern" -> PatternClauses(r)
      [] r.k = "cpr"     -> CprClauses(r)
      [] r.k = "cprupd"  -> CprUpdClauses(r)
      [] r.k = "cprdev"  -> CprDevClauses(r)
      [] r.k = "cprO"    -> CprOClauses(r)
      [] r.k = "defl"    -> DeflClauses(r)
      [] r.k = "deflmt"  -> DeflMtClauses(r)
      [] r.k = "reuse"   -> ReuseClauses(r)
      [] OTHER           -> << <<"unknown-record", FALSE>> >>
Failed(r) == IF Has(r, "e") THEN (IF r.e = "End" THEN <<>> ELSE <<"recorder:" \o r.e>>)
             ELSE FailedOf(Clauses(r))
PatternDrift1(r) == LET t == S1!PatternParse(S1!PatternText(r.kind, r.a, r.b), r.n)
                    IN  ~(t.st = r.res.st /\ (t.st = "ok" => t.mask = r.res.mask))
\* drift against the transcription as written (S0) / as repaired (S1)
Drifted(r)  == ~Has(r, "e") /\ ((r.k = "schur" /\ SchurDrift(r)) \/ (r.k = "pattern" /\ PatternDrift(r)))
Drifted1(r) == ~Has(r, "e") /\ ((r.k = "schur" /\ SchurDrift(r)) \/ (r.k = "pattern" /\ PatternDrift1(r)))

TInit == l = 1 /\ bad = <<>> /\ drift = 0 /\ drift1 = 0
TNext == /\ l <= NLog /\ l' = l + 1
         /\ LET f == Failed(Log[l])
            IN  /\ bad' = IF f = <<>> THEN bad ELSE Append(bad, <<l, f>>)
                /\ drift' = IF Drifted(Log[l]) THEN drift + 1 ELSE drift
                /\ drift1' = IF Drifted1(Log[l]) THEN drift1 + 1 ELSE drift1
Verdict == (l = NLog + 1) => VerdictLine(l, bad \o << <<0, <<"drift0=" \o ToString(drift)>>>>, <<0, <<"drift1=" \o ToString(drift1)>>>> >>)
=============================================================================
