------------------------------ MODULE C10Trace ------------------------------
(* Trace spec for C10: outcomes of the complete pipeline on degenerate and regular   *)
(* inputs.  "fill" records carry the digests of the complete outcome under four     *)
(* heap pre-fills (0x00, 0xFF, 0xAA, pseudo-random, each after a heap-dirtying       *)
(* prelude) and of a second construction; "degen" records carry the outcome class    *)
(* (0 converged, 1 exception, 2 reported non-converged, 3 reported non-finite) and   *)
(* the true residual.  Memory errors are observed by the sanitizer build of the      *)
(* same recorder: an abort there is reported by the driver as a crash.               *)
EXTENDS TraceKit

VARIABLES l, bad

FillClauses(r) ==
    << <<"outcome-independent-of-prior-heap-content", \A k \in 1..Len(r.d) : r.d[k] = r.d[1]>>,
       <<"same-outcome-class", \A k \in 1..Len(r.cls) : r.cls[k] = r.cls[1]>>,
       <<"second-call-on-the-object=fresh-object", Has(r, "reuse") => r.reuse>> >>
DegenClauses(r) ==
    << <<"failure-is-exception-or-reported", r.cls \in 0..3>>,
       <<"reported-convergence-is-truthful", r.cls = 0 => r.tru <= -7000>> >>

\* "own" records: one history of a builtin crs changing hands (borrowed from the user via zero_copy / owned; copy and move
\* construction and assignment); foreign or double frees and leaks are the sanitizer's to report
OwnClauses(r) ==
    << <<"user-arrays-unchanged", r.intact>>,
       <<"matrix-is-still-the-operator", r.same>>,
       <<"ownership-follows-the-arrays", r.flags>> >>
Clauses(r) == CASE r.k = "fill" -> FillClauses(r)
                [] r.k = "own" -> OwnClauses(r)
                [] r.k = "degen" -> DegenClauses(r)
                [] OTHER -> << <<"unknown-record", FALSE>> >>
Failed(r) == IF Has(r, "e") THEN (IF r.e = "End" THEN <<>> ELSE <<"recorder:" \o r.e>>) ELSE FailedOf(Clauses(r))

TInit == l = 1 /\ bad = <<>>
TNext == /\ l <= NLog /\ l' = l + 1
         /\ LET f == Failed(Log[l]) IN bad' = IF f = <<>> THEN bad ELSE Append(bad, <<l, f>>)
Verdict == (l = NLog + 1) => VerdictLine(l, bad)
=============================================================================
