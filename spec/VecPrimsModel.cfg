CONSTANTS
  NMax = 3
  BSMax = 3
INIT Init
NEXT Next
INVARIANTS PrimInv NoPoisonRead CleanInv
CHECK_DEADLOCK FALSE
