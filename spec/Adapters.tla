------------------------------ MODULE Adapters ------------------------------
(* amgcl's matrix adapters (amgcl/adapter/*.hpp) as row-iterator VIEWS of a source   *)
(* matrix, shared by C17 and C13.  A view is what the backend interface sees:        *)
(*    [rows, cols, nnz, row]   row[i] = the sequence of <<col, value>> that          *)
(*                              row_begin(A, i-1) enumerates, in iteration order.    *)
(* Materialize(view) is the generic CRS copy constructor of backend/builtin.hpp      *)
(* (count the row widths, scan, fill in iteration order).  Each adapter is           *)
(* transcribed with the granularity of its row iterator; the predicates (…OK)        *)
(* mention the source matrix and the resulting CRS only.                             *)
(*                                                                                   *)
(* Source matrices are Crs records (Crs.tla) with integer values; block-valued       *)
(* results carry one flat row-major sequence of b*b integers per entry, complex      *)
(* sources carry pairs <<re, im>>.                                                   *)
EXTENDS Crs

View(rows, cols, nnz, row) == [rows |-> rows, cols |-> cols, nnz |-> nnz, row |-> row]
SrcRows(A) == [i \in 1..A.n |-> RowSeq(A, i - 1)]

\* crs(const Matrix &A): widths by iteration, scan_row_sizes, fill by iteration
Materialize(v) == FromRows(v.rows, v.cols, v.row)

\* ------------------------------------------------------------------ plain views
\* std::tuple<n, ptr, col, val> (crs_tuple.hpp): square by construction, nnz = ptr[n]
TupleView(A)    == View(A.n, A.n, A.ptr[A.n + 1], SrcRows(A))
\* zero_copy / zero_copy_direct: a backend::crs that borrows the user's arrays
ZeroCopyView(A) == View(A.n, A.m, IF A.n = 0 THEN 0 ELSE A.ptr[A.n + 1], SrcRows(A))
\* Eigen::SparseMatrix<RowMajor> (adapter/eigen.hpp): InnerIterator over a compressed row
EigenView(A)    == View(A.n, A.m, NNZ(A), SrcRows(A))
\* uBlas compressed_matrix -> tuple of its index1/index2/value arrays (adapter/ublas.hpp)
UblasView(A)    == TupleView(A)
\* crs_builder.hpp: rows are produced on demand by the user's functor; nnz is the functor's estimate
BuilderView(A, estimate) == View(A.n, A.n, estimate, SrcRows(A))

\* ------------------------------------------------------------------ reorder.hpp
\* perm / iperm are sequences (index i+1 holds the image of the 0-based index i)
IsPerm(p, n)    == Len(p) = n /\ {p[i] : i \in 1..n} = 0..(n - 1)
InverseOf(p)    == [j1 \in 1..Len(p) |-> (CHOOSE i \in 1..Len(p) : p[i] = j1 - 1) - 1]    \* iperm[perm[i]] = i
\* row i of the view is row perm[i] of A with every column c renamed to iperm[c]
ReorderView(A, perm, iperm) ==
    View(A.n, A.m, NNZ(A),
         [i \in 1..A.n |-> LET r == RowSeq(A, perm[i]) IN [k \in 1..Len(r) |-> <<iperm[r[k][1] + 1], r[k][2]>>]])
\* reordered_vector / reorder::forward: y[i] = x[perm[i]];  reorder::inverse: y[perm[i]] = x[i]
Forward(perm, x)    == [i \in 1..Len(x) |-> x[perm[i] + 1]]
InverseMap(perm, x) == [j \in 1..Len(x) |-> x[(CHOOSE i \in 1..Len(x) : perm[i] = j - 1)]]

\* ------------------------------------------------------------------ scaled_problem.hpp
\* value() = s[i] * a * s[col]
ScaledView(A, s) ==
    View(A.n, A.m, NNZ(A),
         [i \in 1..A.n |-> LET r == RowSeq(A, i - 1) IN [k \in 1..Len(r) |-> <<r[k][1], s[i] * r[k][2] * s[r[k][1] + 1]>>]])

\* ------------------------------------------------------------------ complex.hpp
\* source values are pairs <<re, im>>; every entry becomes two entries of each of two rows
ComplexView(A) ==
    View(2 * A.n, 2 * A.m, 4 * NNZ(A),
         [i1 \in 1..(2 * A.n) |->
            LET rowreal == (i1 - 1) % 2 = 0
                r == RowSeq(A, (i1 - 1) \div 2)
            IN  FlattenSeq([k \in 1..Len(r) |->
                    <<  <<2 * r[k][1],     IF rowreal THEN r[k][2][1]  ELSE r[k][2][2]>>,       \* col_real
                        <<2 * r[k][1] + 1, IF rowreal THEN -r[k][2][2] ELSE r[k][2][1]>> >>])])

\* ------------------------------------------------------------------ block_matrix.hpp
\* row_iterator: b base iterators (the remaining tails of b scalar rows), done, cur_col, cur_val.
\* "scan": the minimum block column over the bases that are not exhausted (done if none)
BlkScan(base, b) ==
    FoldLeft(LAMBDA st, i : IF base[i] = <<>> THEN st
                            ELSE LET col == base[i][1][1] \div b
                                 IN  IF st.done THEN [done |-> FALSE, cur |-> col]
                                     ELSE [done |-> FALSE, cur |-> IF col < st.cur THEN col ELSE st.cur],
             [done |-> TRUE, cur |-> 0], [i \in 1..b |-> i])
\* the prefix of a row that the gather loop consumes: it stops at the FIRST entry with col >= end
RECURSIVE PrefixLen(_, _)
PrefixLen(row, end) == IF row = <<>> \/ row[1][1] >= end THEN 0 ELSE 1 + PrefixLen(Tail(row), end)
\* "gather": cur_val = zero; for each base i: while (base[i] && col < end) cur_val(i, col % b) = value, ++base[i]
BlkGather(base, b, cur) ==
    LET end  == (cur + 1) * b
        zero == [e \in 1..(b * b) |-> 0]
        one(st, i) ==
            LET k   == PrefixLen(st.base[i], end)
                val == FoldLeft(LAMBDA v, e : [v EXCEPT ![(i - 1) * b + (e[1] % b) + 1] = e[2]], st.val, SubSeq(st.base[i], 1, k))
            IN  [val |-> val, base |-> [st.base EXCEPT ![i] = SubSeq(@, k + 1, Len(@))]]
    IN  FoldLeft(one, [val |-> zero, base |-> base], [i \in 1..b |-> i])
RECURSIVE BlkIter(_, _)
BlkIter(base, b) ==
    LET s == BlkScan(base, b)
    IN  IF s.done THEN <<>>
        ELSE LET g == BlkGather(base, b, s.cur)
             IN  <<<<s.cur, g.val>>>> \o BlkIter(g.base, b)
\* rows()/cols() divide by b (precondition: divisible); nonzeros() is "just an estimate"
BlockView(A, b) ==
    View(A.n \div b, A.m \div b, NNZ(A) \div (b * b),
         [ib \in 1..(A.n \div b) |-> BlkIter([i \in 1..b |-> RowSeq(A, (ib - 1) * b + i - 1)], b)])

\* unblock_matrix: every block entry becomes b entries in each of its b scalar rows, in storage order
UnblockRun(B, b) ==
    FromRows(B.n * b, B.m * b,
             [ia1 \in 1..(B.n * b) |->
                LET ib == (ia1 - 1) \div b
                    i  == (ia1 - 1) % b
                    r  == RowSeq(B, ib)
                IN  FlattenSeq([k \in 1..Len(r) |-> [j1 \in 1..b |-> <<r[k][1] * b + j1 - 1, r[k][2][i * b + j1]>>]])])

\* ------------------------------------------------------------------ predicates
\* the backend interface of a view agrees with the source matrix
DimsOK(v, A)  == v.rows = A.n /\ v.cols = A.m /\ v.nnz = NNZ(A)
ViewOK(v, A)  == DimsOK(v, A) /\ SameOperator(Materialize(v), A)
\* a CRS R recorded through rows/cols/row_begin of some adapter of A
SameAs(R, A)  == WellFormed(R) /\ SameOperator(R, A)

\* R = P^T A P:  R[i][j] = A[perm[i]][perm[j]]
ReorderOK(A, perm, R) ==
    /\ R.n = A.n /\ R.m = A.m /\ WellFormed(R) /\ IsPerm(perm, A.n)
    /\ \A i \in Rows(A) :
         LET want == [c \in {InverseOf(perm)[c0 + 1] : c0 \in RowCols(A, perm[i + 1])} |-> At(A, perm[i + 1], perm[c + 1])]
         IN  SameRow(RowFn(R, i), want)
\* R = S A S
ScaledOK(A, s, R) ==
    /\ R.n = A.n /\ R.m = A.m /\ WellFormed(R)
    /\ \A i \in Rows(A) : SameRow(RowFn(R, i), [c \in RowCols(A, i) |-> s[i + 1] * At(A, i, c) * s[c + 1]])

\* block matrix B (values = flat b*b) holds exactly the entries of A, each at (i mod b, j mod b) of block
\* (i div b, j div b), absent entries of a present block are zero, no block is listed twice
BlockWF(B, b) ==
    /\ Len(B.ptr) = B.n + 1 /\ B.ptr[1] = 0 /\ \A i \in 1..B.n : B.ptr[i] <= B.ptr[i + 1]
    /\ Len(B.col) = B.ptr[B.n + 1] /\ Len(B.val) = Len(B.col)
    /\ \A p \in 1..Len(B.col) : B.col[p] >= 0 /\ B.col[p] < B.m /\ Len(B.val[p]) = b * b
BlockOK(A, b, B) ==
    /\ B.n * b = A.n /\ B.m * b = A.m /\ BlockWF(B, b) /\ NoDup(B)
    /\ \A ib \in 0..(B.n - 1) :
        /\ RowCols(B, ib) = UNION {{c \div b : c \in RowCols(A, ib * b + r)} : r \in 0..(b - 1)}
        /\ \A p \in RowPos(B, ib) : \A r \in 0..(b - 1), c \in 0..(b - 1) :
              B.val[p][r * b + c + 1] = At(A, ib * b + r, B.col[p] * b + c)
\* the round trip through both conversions
RoundTripOK(A, b) == SameOperator(UnblockRun(Materialize(BlockView(A, b)), b), A)

\* real-equivalent of a complex matrix: entry a = re + i im at (i, c) -> [[re, -im], [im, re]] at (2i.., 2c..)
ComplexOK(A, R) ==
    /\ R.n = 2 * A.n /\ R.m = 2 * A.m /\ WellFormed(R)
    /\ \A i \in Rows(A) :
        LET re(c) == MapThenSumSet(LAMBDA p : A.val[p][1], {p \in RowPos(A, i) : A.col[p] = c})
            im(c) == MapThenSumSet(LAMBDA p : A.val[p][2], {p \in RowPos(A, i) : A.col[p] = c})
            cs    == UNION {{2 * c, 2 * c + 1} : c \in RowCols(A, i)}
        IN  /\ SameRow(RowFn(R, 2 * i),     [c \in cs |-> IF c % 2 = 0 THEN re(c \div 2) ELSE -im(c \div 2)])
            /\ SameRow(RowFn(R, 2 * i + 1), [c \in cs |-> IF c % 2 = 0 THEN im(c \div 2) ELSE re(c \div 2)])

\* ------------------------------------------------------------------ integer matrix-vector product (definition)
SpmvDef(A, x) == [i \in 1..A.n |-> MapThenSumSet(LAMBDA p : A.val[p] * x[A.col[p] + 1], RowPos(A, i - 1))]
=============================================================================
