CONSTANTS
  NN = 5
  MinNP = 2
  MaxNP = 2
  Sym = TRUE
SPECIFICATION Spec
INVARIANTS GlobalPartitionInv ClosedFormInv CountInv GhostStateInv
PROPERTY Termination
CHECK_DEADLOCK TRUE
