-------------------------------- MODULE CApi --------------------------------
(* The C handle API of amgcl (lib/amgcl.h, lib/amgcl.cpp) as a protocol over opaque  *)
(* handles.  Three kinds of handle:                                                 *)
(*   params  : a boost::property_tree::ptree*            slots "PA", "PS"           *)
(*   precond : an amg<builtin<double>, runtime coarsening, runtime relaxation>*  "A"*)
(*   solver  : a make_solver<that amg, runtime::solver::wrapper>*               "S" *)
(* each in one of the states absent -> live -> destroyed.  "PA" carries parameters  *)
(* in the shape the amg class reads (coarse_enough, coarsening.type, ...), "PS" in  *)
(* the shape make_solver reads (precond.coarse_enough, ..., solver.type, ...).      *)
(*                                                                                  *)
(* Per live precond / solver handle the spec keeps the description of the *shadow*  *)
(* C++ run-time object:  which matrix it was built from, which parameter map, which *)
(* index base the caller used.  The result of apply / solve is a function of        *)
(* (matrix, parameter map, replacement matrix) only - in particular it does not     *)
(* depend on the index base and not on whether the parameters came through the      *)
(* typed setters or through a JSON file.  That is what SameAsCpp / OneBasedOK /     *)
(* ParamsReach say about one recorded call (see the end of the module).             *)
EXTENDS Naturals, Sequences, FiniteSets, TLC

VARIABLES hs,      \* hs[s] \in HStates for every slot s
          pm,      \* pm[p] : the abstract content of the parameter list p  (key -> text)
          ob       \* ob[o] : descriptor of the shadow object behind handle o

cvars == <<hs, pm, ob>>

PSlots  == {"PA", "PS"}
OSlots  == {"A", "S"}
Slots   == PSlots \cup OSlots
HStates == {"absent", "live", "destroyed"}
Matrices == {1, 2}      \* 1: rows sorted by column, 2: rows listed in shuffled column order (same operator)
ParamSets == {1, 2}
Bases == {0, 1}

\* the params slot whose shape fits an object slot
ParamSlotOf(o) == IF o = "A" THEN "PA" ELSE "PS"

NoMap == [x \in {} |-> ""]
Put(map, k, v) == [x \in (DOMAIN map) \cup {k} |-> IF x = k THEN v ELSE map[x]]
NoObj == [m |-> 0, base |-> 0, prm |-> NoMap, dflt |-> TRUE]

(* ------------------------------------------------------------------------------ *)
(* The two parameter sets as lists of typed setter calls <<function, key, text>>.  *)
(* `text` is what must be found in the property tree afterwards: the decimal text  *)
(* of the int, the shortest text that round-trips the float (all floats used are   *)
(* dyadic with at most 9 significant decimal digits, so that text is also the      *)
(* exact value and reads back as the same double), the string itself.              *)
(* The harness has the same table (replay_capi.cpp: amg_calls / solver_calls) and  *)
(* logs what it passed; the trace spec compares the two.                           *)
AmgCalls(k) ==
    IF k = 1
    THEN << <<"seti", "coarse_enough", "10">>,
            <<"seti", "npost", "2">>,
            <<"sets", "coarsening.type", "smoothed_aggregation">>,
            <<"sets", "relax.type", "damped_jacobi">>,
            <<"setf", "relax.damping", "0.75">> >>
    ELSE << <<"seti", "coarse_enough", "6">>,
            <<"seti", "npre", "2">>,
            <<"sets", "coarsening.type", "ruge_stuben">>,
            <<"sets", "relax.type", "ilu0">>,
            <<"setf", "relax.damping", "0.5">> >>

SolverCalls(k) ==
    IF k = 1
    THEN << <<"sets", "solver.type", "bicgstab">>,
            <<"setf", "solver.tol", "0.000244140625">>,      \* 2^-12
            <<"seti", "solver.maxiter", "40">> >>
    ELSE << <<"sets", "solver.type", "cg">>,
            <<"setf", "solver.tol", "0">>,                   \* never converged: iterations = maxiter
            <<"seti", "solver.maxiter", "3">> >>

SetCalls(p, k) ==
    IF p = "PA" THEN AmgCalls(k)
    ELSE [i \in 1..Len(AmgCalls(k)) |-> <<AmgCalls(k)[i][1], "precond." \o AmgCalls(k)[i][2], AmgCalls(k)[i][3]>>]
         \o SolverCalls(k)

RECURSIVE ApplyCalls(_, _)
ApplyCalls(map, calls) ==
    IF calls = <<>> THEN map
    ELSE ApplyCalls(Put(map, calls[1][2], calls[1][3]), Tail(calls))

SetMap(p, k) == ApplyCalls(NoMap, SetCalls(p, k))

(* ------------------------------------------------------------------------------ *)
(* Actions = the functions of lib/amgcl.h.                                         *)
CInit == /\ hs = [s \in Slots |-> "absent"]
         /\ pm = [p \in PSlots |-> NoMap]
         /\ ob = [o \in OSlots |-> NoObj]

\* guards (state predicates), shared by the actions below and by the trace spec
ParamsAbsent(p) == p \in PSlots /\ hs[p] = "absent"
ParamsLive(p)   == p \in PSlots /\ hs[p] = "live"
ObjCreatable(o, m, base, prm) ==
    /\ o \in OSlots /\ hs[o] = "absent"
    /\ m \in Matrices /\ base \in Bases
    /\ prm = "NULL" \/ (prm = ParamSlotOf(o) /\ hs[prm] = "live")
ObjLive(o)      == o \in OSlots /\ hs[o] = "live"

\* amgcl_params_create
ParamsCreate(p) ==
    /\ ParamsAbsent(p)
    /\ hs' = [hs EXCEPT ![p] = "live"]
    /\ pm' = [pm EXCEPT ![p] = NoMap]
    /\ UNCHANGED ob

\* amgcl_params_seti / _setf / _sets : ptree::put(name, value) replaces one entry
ParamsPut(p, key, text) ==
    /\ ParamsLive(p)
    /\ pm' = [pm EXCEPT ![p] = Put(@, key, text)]
    /\ UNCHANGED <<hs, ob>>

\* amgcl_params_read_json : read_json *replaces* the whole tree by the file content
ParamsReadJson(p, k) ==
    /\ ParamsLive(p) /\ k \in ParamSets
    /\ pm' = [pm EXCEPT ![p] = SetMap(p, k)]
    /\ UNCHANGED <<hs, ob>>

\* the setter calls of parameter set k one after the other (model-level grouping)
ParamsApplySetters(p, k) ==
    /\ ParamsLive(p) /\ k \in ParamSets
    /\ pm' = [pm EXCEPT ![p] = ApplyCalls(@, SetCalls(p, k))]
    /\ UNCHANGED <<hs, ob>>

\* amgcl_params_destroy
ParamsDestroy(p) ==
    /\ ParamsLive(p)
    /\ hs' = [hs EXCEPT ![p] = "destroyed"]
    /\ UNCHANGED <<pm, ob>>

\* amgcl_precond_create(_f) / amgcl_solver_create(_f) : prm = "NULL" or the params slot of
\* the right shape; the parameters are *copied* into the object (the params handle may be
\* changed or destroyed afterwards without any effect on the object)
ObjCreate(o, m, base, prm) ==
    /\ ObjCreatable(o, m, base, prm)
    /\ hs' = [hs EXCEPT ![o] = "live"]
    /\ ob' = [ob EXCEPT ![o] = [m |-> m, base |-> base,
                                prm |-> (IF prm = "NULL" THEN NoMap ELSE pm[prm]),
                                dflt |-> (prm = "NULL")]]
    /\ UNCHANGED pm

\* amgcl_precond_apply / _report, amgcl_solver_solve(_f) / _solve_mtx(_f) / _report :
\* no change of the abstract state (the objects are const in these calls)
ObjUse(o) ==
    /\ ObjLive(o)
    /\ UNCHANGED cvars

\* amgcl_precond_destroy / amgcl_solver_destroy
ObjDestroy(o) ==
    /\ ObjLive(o)
    /\ hs' = [hs EXCEPT ![o] = "destroyed"]
    /\ UNCHANGED <<pm, ob>>

(* ------------------------------------------------------------------------------ *)
(* Function names per slot kind                                                    *)
CreateFns(o)  == IF o = "A" THEN {"precond_create", "precond_create_f"} ELSE {"solver_create", "solver_create_f"}
UseFns(o)     == IF o = "A" THEN {"precond_apply", "precond_report"}
                 ELSE {"solver_solve", "solver_solve_f", "solver_solve_mtx", "solver_solve_mtx_f", "solver_report",
                       "solver_solve_mtx_upd", "solver_solve_mtx_upd_f"}
DestroyFn(o)  == IF o = "A" THEN "precond_destroy" ELSE "solver_destroy"
\* "solver_solve_mtx_upd(_f)" is not a function of the API but a history of the caller: the arrays the
\* solver was created from are still alive, their VALUES are updated in place (time stepping) and
\* amgcl_solver_solve_mtx(_f) is called with exactly those three pointers.  The replacement matrix
\* is then the updated matrix (not the copy the handle made at creation).  Needs a solver created
\* through the entry point of the same index base.
UpdFns        == {"solver_solve_mtx_upd", "solver_solve_mtx_upd_f"}
FortranFns    == {"precond_create_f", "solver_create_f", "solver_solve_f", "solver_solve_mtx_f", "solver_solve_mtx_upd_f"}
MtxFns        == {"solver_solve_mtx", "solver_solve_mtx_f"}
ResultFns     == {"precond_apply", "solver_solve", "solver_solve_f", "solver_solve_mtx", "solver_solve_mtx_f"} \cup UpdFns
UpdEnabled(o, f) == f \in UpdFns => ob[o].base = (IF f = "solver_solve_mtx_upd_f" THEN 1 ELSE 0)
SolveFns      == ResultFns \ {"precond_apply"}
BaseOfFn(f)   == IF f \in FortranFns THEN 1 ELSE 0

(* ------------------------------------------------------------------------------ *)
(* LifecycleOK on a history: a sequence of calls [f, h, p] (function, handle slot,  *)
(* params slot or "NULL"/"").  Declarative: every use of a handle lies strictly     *)
(* between its (single) creation and its (at most one) destruction.                 *)
IsCreate(c)  == c.f \in {"params_create", "precond_create", "precond_create_f", "solver_create", "solver_create_f"}
IsDestroy(c) == c.f \in {"params_destroy", "precond_destroy", "solver_destroy"}
\* handles a call reads (beyond the one it creates)
UsedBy(c) == (IF IsCreate(c) THEN {} ELSE {c.h}) \cup (IF c.p \in PSlots THEN {c.p} ELSE {})

LifecycleOK(h) ==
    /\ \A s \in Slots :
          /\ Cardinality({i \in 1..Len(h) : IsCreate(h[i]) /\ h[i].h = s}) <= 1
          /\ Cardinality({i \in 1..Len(h) : IsDestroy(h[i]) /\ h[i].h = s}) <= 1
    /\ \A i \in 1..Len(h) : \A s \in UsedBy(h[i]) :
          /\ \E j \in 1..(i - 1) : IsCreate(h[j]) /\ h[j].h = s
          /\ \A j \in 1..(i - 1) : ~(IsDestroy(h[j]) /\ h[j].h = s)
    /\ \A i \in 1..Len(h) : (h[i].p \in PSlots /\ h[i].h \in OSlots) => h[i].p = ParamSlotOf(h[i].h)

\* the handle states a history leads to
StateAfter(h, s) ==
    IF \E i \in 1..Len(h) : IsDestroy(h[i]) /\ h[i].h = s THEN "destroyed"
    ELSE IF \E i \in 1..Len(h) : IsCreate(h[i]) /\ h[i].h = s THEN "live"
    ELSE "absent"

(* ------------------------------------------------------------------------------ *)
(* Predicates on one recorded call (inputs and outputs only).                      *)
(* A result is <<digest of the vector, iterations, digest of the residual>> with   *)
(* digests as pairs of 30-bit integers; c = through the C handle, sh = the shadow  *)
(* C++ object, c0 = the 0-based C entry point on the 0-based twin handle.          *)
SameAsCpp(c, sh)  == c = sh
OneBasedOK(c, c0) == c = c0

\* the tree behind a params handle holds exactly the abstract map
TreeHolds(map, tree) == tree = map
\* every parameter of the abstract map is found, unchanged, among the effective
\* parameters the created object reports (exported from its params structs)
ParamsEffective(map, eff) == \A k \in DOMAIN map : k \in DOMAIN eff /\ eff[k] = map[k]

\* behavioural part of ParamsReach on a solve: never more than maxiter iterations;
\* tol = 0 is never reached, so exactly maxiter iterations; if fewer than maxiter
\* iterations were made the reported residual is <= tol (rle, compared by the harness
\* in double precision against its own value of tol)
NatOfText(s) == CHOOSE n \in 0..200 : ToString(n) = s
DefaultMaxIter == 100                    \* every Krylov solver's default
MaxIterOf(map) == IF "solver.maxiter" \in DOMAIN map THEN NatOfText(map["solver.maxiter"]) ELSE DefaultMaxIter
TolZero(map)   == "solver.tol" \in DOMAIN map /\ map["solver.tol"] = "0"
IterationsObey(map, it, rle) ==
    /\ it <= MaxIterOf(map)
    /\ TolZero(map) => it = MaxIterOf(map)
    /\ it < MaxIterOf(map) => rle
=============================================================================
