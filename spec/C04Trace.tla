------------------------------ MODULE C04Trace ------------------------------
(* Trace spec for C04: every recorded call of a public amgcl coarsening class       *)
(* (harness/record_coarsening.cpp) is judged by the predicates that are the         *)
(* invariants of AggregatesModel / BlockLiftModel / SmoothedModel / RugeStubenModel.*)
(* `drift` counts enumerated cases (<= 3 nodes) whose recorded output differs from   *)
(* the transcription's Run although every predicate holds; they are listed in `bad` *)
(* with the single pseudo-clause "drift", which the driver reports as SPEC-DRIFT    *)
(* (never a violation).                                                             *)
EXTENDS TraceKit, RugeStuben, CoPatterns

CONSTANTS ObsTol        \* bound for the class-O observations, units of 2^-40
VARIABLES l, bad, drift

Eps(r)   == <<r.en, r.ed>>
Om(r)    == <<r.on, r.od>>
BoolS(s) == [p \in 1..Len(s) |-> s[p] = 1]
SDef(A, eps, bs) == IF bs = 1 THEN StrongFlags(A, eps) ELSE DefBlockFlags(A, eps, bs)
NodeMat(A, bs)   == IF bs = 1 THEN A ELSE DefPointwise(A, bs)
\* the recorder's generator and CoPatterns.tla enumerate the same matrices
GenOK(r) == Has(r, "mask") => r.A = CoMat(r.cn, r.sym, r.mask, r.mode)
AgWF(a, A) == a.empty \/ (Len(a.id) = A.n /\ (Len(a.strong) = NNZ(A) \/ Len(a.strong) = 0))

PartClause(A, eps, bs, minaggr, a) ==
    IF a.empty THEN EmptyOK(NodeMat(A, bs), eps, TRUE)
    ELSE /\ EmptyOK(NodeMat(A, bs), eps, FALSE)
         /\ IF bs = 1 THEN (IF minaggr <= 1 THEN PartitionOK(A, eps, a.id, a.count)
                                            ELSE PartitionMinOK(A, eps, 1, minaggr, a.id, a.count))
            ELSE (IF minaggr <= 1 THEN TravelTogetherOK(A, eps, bs, a.id, a.count)
                                  ELSE TravelMinOK(A, eps, bs, minaggr, a.id, a.count))

PlainClauses(r) ==
    LET wf == AgWF(r.out, r.A)
    IN  << <<"generator", GenOK(r)>>, <<"wellformed", wf>>,
           <<"partition", wf /\ PartClause(r.A, Eps(r), 1, 0, r.out)>>,
           <<"strong-flags", wf /\ (~r.out.empty => StrongFlagsOK(r.A, Eps(r), r.out.strong))>> >>
LiftClauses(r) ==
    LET wf == AgWF(r.out, r.A) /\ AgWF(r.r1, r.base) /\ r.A = Lift(r.base, r.bs)
    IN  << <<"wellformed", wf>>,
           <<"blocklift-ids", wf /\ BlockLiftIdsOK(r.base, r.bs, r.A, r.r1, r.out)>>,
           <<"blocklift-flags", wf /\ BlockLiftFlagsOK(r.base, r.bs, r.A, r.r1, r.out)>>,
           <<"partition", wf /\ PartClause(r.A, Eps(r), r.bs, 0, r.out)>> >>
PwClauses(r) ==
    LET wf == AgWF(r.out, r.A)
    IN  << <<"wellformed", wf>>,
           <<"partition", wf /\ PartClause(r.A, Eps(r), r.bs, r.minaggr, r.out)>>,
           <<"block-flags", wf /\ (~r.out.empty => BlockFlagsOK(r.A, Eps(r), r.bs, r.out.strong))>> >>
AggClauses(r) ==
    IF r.empty THEN << <<"generator", GenOK(r)>>, <<"partition", EmptyOK(NodeMat(r.A, r.bs), Eps(r), TRUE)>> >>
    ELSE LET wf  == WellFormed(r.P) /\ r.P.n = r.A.n
             ids == IdsOf(r.P)
         IN  << <<"generator", GenOK(r)>>, <<"wellformed", wf>>,
                <<"tentative", wf /\ TentativeOK(r.A.n, r.P.m, ids, r.P)>>,
                <<"disjoint-orthogonal", wf /\ DisjointSupportOK(r.P) /\ ColumnsOrthogonalOK(r.P)>>,
                <<"constant-reproduced", wf /\ ConstantReproducedOK(ids, r.P)>>,
                <<"partition", wf /\ PartClause(r.A, Eps(r), r.bs, 0, [count |-> r.P.m, id |-> ids, empty |-> FALSE])>> >>
SaClauses(r) ==
    IF r.empty THEN << <<"generator", GenOK(r)>>, <<"partition", r.ag.empty /\ EmptyOK(NodeMat(r.A, r.bs), Eps(r), TRUE)>> >>
    ELSE LET wf == WellFormed(r.P) /\ Len(r.P.lo) = Len(r.P.val) /\ ~r.ag.empty /\ AgWF(r.ag, r.A)
             S  == SDef(r.A, Eps(r), r.bs)
         IN  << <<"generator", GenOK(r)>>, <<"wellformed", wf>>,
                <<"partition", wf /\ PartClause(r.A, Eps(r), r.bs, 0, r.ag)>>,
                <<"smoothed=formula", wf /\ SmoothedOK(r.A, S, r.ag.id, r.ag.count, Om(r), r.P, FixNear)>>,
                <<"rowsum-one", wf /\ RowSumOneOK(r.A, SARows(r.A, S), r.P, FixNear)>> >>
\* energy-minimising variant: shape and sparsity pattern (= pattern of A_F * P_tent) only
EminClauses(r) ==
    IF r.empty THEN << <<"partition", r.ag.empty>> >>
    ELSE LET wf == WellFormed(r.P) /\ WellFormed(r.R) /\ ~r.ag.empty /\ AgWF(r.ag, r.A)
             S  == BoolS(r.ag.strong)
         IN  << <<"wellformed", wf /\ r.P.n = r.A.n /\ r.P.m = r.ag.count /\ r.R.n = r.ag.count /\ r.R.m = r.A.n>>,
                <<"emin-pattern", wf /\ \A i \in Rows(r.A) :
                      RowCols(r.P, i) \subseteq {r.ag.id[r.A.col[p] + 1] : p \in {q \in RowPos(r.A, i) : r.A.col[q] = i \/ S[q]}}>> >>
RsTrunc(r) == IF r.td = 0 THEN RSTrunc(FALSE, <<1, 1>>) ELSE RSTrunc(TRUE, <<1, r.td>>)
RsClauses(r) ==
    IF r.crashed THEN << <<"rs-no-crash", FALSE>> >>
    ELSE IF r.empty THEN << <<"generator", GenOK(r)>>, <<"rs-empty", RSEmptyOK(r.A, TRUE)>> >>
    ELSE LET wf == WellFormed(r.P) /\ Len(r.P.lo) = Len(r.P.val) /\ r.P.n = r.A.n
         IN  << <<"generator", GenOK(r)>>, <<"wellformed", wf>>,
                <<"rs-empty", RSEmptyOK(r.A, FALSE)>>,
                <<"cf-sanity", wf /\ CFSanityOK(r.A, Eps(r), r.P, FixNear)>>,
                <<"rowsum-one", wf /\ RowSumOneOK(r.A, RSRows(r.A), r.P, FixNear)>> >>
\* near-null space: exact structure + class-O observations measured by the recorder in long double
NsClauses(r) ==
    IF r.ag.empty THEN << <<"partition", EmptyOK(NodeMat(r.A, r.bs), Eps(r), TRUE)>> >>
    ELSE LET wf == WellFormed(r.P) /\ AgWF(r.ag, r.A) /\ ~r.empty
         IN  << <<"wellformed", wf>>,
                <<"partition", wf /\ PartClause(r.A, Eps(r), r.bs, r.cols, r.ag)>>,
                <<"tentative-structure", wf /\ TentStructOK(r.A.n, r.ag.count, r.ag.id, r.bs, r.cols, r.P)>>,
                <<"coarse-nullspace-size", wf /\ r.bc = (r.ag.count \div r.bs) * r.cols * r.cols>>,
                <<"orthonormal", wf /\ r.orth <= ObsTol>>,
                <<"reproduces-B", wf /\ r.repro <= ObsTol>>,
                <<"smoothed=formula", wf /\ r.sashape /\ r.sadiff <= ObsTol>>,
                <<"finite", wf /\ r.finite>> >>

Clauses(r) ==
    CASE r.k = "plain" -> PlainClauses(r)
      [] r.k = "lift"  -> LiftClauses(r)
      [] r.k = "pw"    -> PwClauses(r)
      [] r.k = "agg"   -> AggClauses(r)
      [] r.k = "sa"    -> SaClauses(r)
      [] r.k = "emin"  -> EminClauses(r)
      [] r.k = "rs"    -> RsClauses(r)
      [] r.k = "ns"    -> NsClauses(r)
      [] OTHER         -> << <<"unknown-record", FALSE>> >>

Failed(r) == IF Has(r, "e") THEN (IF r.e = "End" THEN <<>> ELSE <<"recorder:" \o r.e>>)
             ELSE FailedOf(Clauses(r))

\* structural conformance with the transcription (drift only; enumerated cases)
SameFix(P, Q) ==      \* recorded fixed-point P against rational Q, same storage
    /\ P.n = Q.n /\ P.m = Q.m /\ P.ptr = Q.ptr /\ P.col = Q.col
    /\ \A p \in 1..Len(P.col) : FixNear(P, {p}, Q.val[p])
AgSame(a, b) == a.empty = b.empty /\ (~a.empty => a.count = b.count /\ a.id = b.id /\ a.strong = b.strong)
\* the transcription exists in the pinned and the repaired variant (TieBug / LiftBug): a recorded
\* output that equals either of them conforms
SaRunP(r, bug) == LET a == PointwiseAggRun(r.A, Eps(r), r.bs, 0, bug)
                  IN  SARun(r.A, BoolS(a.strong), TentRun(r.A.n, a.count, a.id), Om(r)).P
RsConforms(r, bug) == LET x == RSRun(r.A, Eps(r), RsTrunc(r), bug, FALSE) IN ~x.oob /\ ~x.empty /\ SameFix(r.P, x.P)
Drifted(r) ==
    IF Has(r, "e") \/ r.tag # "enum" \/ r.cn > 3 THEN FALSE
    ELSE CASE r.k = "plain" -> ~AgSame(r.out, AggRun(r.A, Eps(r)))
           [] r.k = "lift"  -> /\ ~AgSame(r.out, PointwiseAggRun(r.A, Eps(r), r.bs, 0, TRUE))
                               /\ ~AgSame(r.out, PointwiseAggRun(r.A, Eps(r), r.bs, 0, FALSE))
           [] r.k = "agg" /\ ~r.empty /\ r.bs = 1 ->
                 LET a == AggRun(r.A, Eps(r)) IN ~SameStorage(r.P, TentRun(r.A.n, a.count, a.id))
           [] r.k = "sa" /\ ~r.empty -> ~SameFix(r.P, SaRunP(r, TRUE)) /\ ~SameFix(r.P, SaRunP(r, FALSE))
           [] r.k = "rs" /\ ~r.empty /\ ~r.crashed -> ~RsConforms(r, TRUE) /\ ~RsConforms(r, FALSE)
           [] OTHER -> FALSE

TInit == l = 1 /\ bad = <<>> /\ drift = 0
TNext == /\ l <= NLog /\ l' = l + 1
         /\ LET f == Failed(Log[l])
                d == f = <<>> /\ Drifted(Log[l])
            IN  /\ bad' = IF f # <<>> THEN Append(bad, <<l, f>>)
                          ELSE IF d THEN Append(bad, <<l, <<"drift">> >>) ELSE bad     \* "drift" is not a violation
                /\ drift' = IF d THEN drift + 1 ELSE drift
Verdict == (l = NLog + 1) => VerdictLine(l, bad) /\ PrintT(<<"DRIFT", drift>>)
=============================================================================
