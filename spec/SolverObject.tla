---------------------------- MODULE SolverObject ----------------------------
(* A solver / preconditioner object with persistent work registers, reused for a    *)
(* history of calls (solver/*.hpp keep their Krylov bases, level vectors, skyline   *)
(* scratch and -- LGMRES -- a ring buffer of outer vectors between calls).          *)
(*                                                                                  *)
(* Each call is a program over OpMachine.  Regular work registers are written       *)
(* before they are read in every call.  LGMRES(M, K): per restart cycle the         *)
(* augmentation vectors in the ring `outer` (pointers to slots of outer_v_data)     *)
(* are READ, then slot (n_outer mod K) is WRITTEN and pushed; n_outer restarts at 0 *)
(* in every call, the ring is cleared at call start only when always_reset is set.  *)
(*                                                                                  *)
(* NoLeak (OpMachine freshness): no call reads a register last written by an        *)
(* earlier call.  With always_reset = FALSE the ring legitimately carries slots     *)
(* over (the documented exception): the model shows the leak and, additionally,     *)
(* that a carried-over slot is overwritten while the ring still points to it        *)
(* (DistinctSlots fails) -- which is why the property excludes that mode.           *)
EXTENDS OpMachine, TLC

CONSTANTS RebuildAll,    \* TRUE: rebuild() renews every part of the hierarchy (the code as it should be)
          K,             \* ring capacity (prm.K)
          MaxRestarts,   \* restart cycles per call <= MaxRestarts
          MaxCalls,
          AlwaysReset,
          Kinds          \* call alphabet

VARIABLES st,            \* OpMachine state
          ring,          \* sequence of slot numbers (oldest first), length <= K
          nouter,        \* n_outer of the running call
          phase,         \* "idle" | "running"
          cycles,        \* restart cycles done in the running call
          hist,          \* history of call kinds (ghost)
          leak, dup,     \* ghost flags
          ver,           \* version of the matrix the object currently stands for (rebuild() switches it)
          parts          \* version each persistent part of the preconditioner was computed from

vars == <<st, ring, nouter, phase, cycles, hist, leak, dup, ver, parts>>

\* persistent parts of an amg hierarchy: level matrices, the smoothers of the levels that have a coarser one,
\* and on the coarsest level either the direct solver or (direct_coarse = false / max_levels reached) a smoother
Parts == {"level-matrices", "smoothers", "coarse-direct-solver", "coarse-smoother"}

Slot(k) == <<"outer", k>>
Work    == {<<"r", 0>>, <<"v", 0>>, <<"v", 1>>}
RHS == <<"rhs", 0>>
X   == <<"x", 0>>

Init == /\ st = Machine0 /\ ring = <<>> /\ nouter = 0 /\ phase = "idle" /\ cycles = 0
        /\ hist = <<>> /\ leak = FALSE /\ dup = FALSE
        /\ ver = 0 /\ parts = [q \in Parts |-> 0]

\* a call starts: zero right-hand side returns at once (x cleared), otherwise the iteration runs
Begin(kind) ==
    /\ kind # "rebuild"
    /\ UNCHANGED <<ver, parts>>
    /\ phase = "idle" /\ Len(hist) < MaxCalls
    /\ hist' = Append(hist, kind)
    /\ LET s1 == BeginCall(st, {RHS, X})
       IN  /\ ring' = IF AlwaysReset THEN <<>> ELSE ring
           /\ nouter' = 0 /\ cycles' = 0
           /\ IF kind = "zero_rhs"
              THEN /\ st' = Exec(s1, [name |-> "clear", a |-> <<X>>, z |-> <<>>]) /\ phase' = "idle"
              ELSE /\ st' = s1 /\ phase' = "running"
    /\ UNCHANGED <<leak, dup>>

\* one restart cycle: residual into r, basis from r, augmentation vectors read, x updated, slot stored
Restart ==
    /\ phase = "running" /\ cycles < MaxRestarts
    /\ LET ops == << [name |-> "residual", a |-> <<RHS, <<"A", 0>>, X, <<"r", 0>>>>, z |-> <<>>],
                     [name |-> "axpby", a |-> <<<<"r", 0>>, <<"v", 0>>>>, z |-> <<0, 1>>],
                     [name |-> "spmv", a |-> <<<<"A", 0>>, <<"v", 0>>, <<"v", 1>>>>, z |-> <<0, 1>>] >>   \* Krylov vector
                  \o [k \in 1..Len(ring) |-> [name |-> "spmv", a |-> <<<<"A", 0>>, Slot(ring[k]), <<"v", 1>>>>, z |-> <<0, 1>>]]
                  \o << [name |-> "axpby", a |-> <<<<"v", 1>>, <<"r", 0>>>>, z |-> <<0, 1>>],           \* dx = lin_comb(...)
                        [name |-> "axpby", a |-> <<<<"r", 0>>, X>>, z |-> <<0, 0>>],                    \* x += dx
                        [name |-> "axpby", a |-> <<<<"r", 0>>, Slot(nouter % K)>>, z |-> <<0, 1>>] >>   \* store dx / |dx|
           RECURSIVE Run(_, _, _)
           Run(s, k, lk) == IF k > Len(ops) THEN [s |-> s, lk |-> lk]
                            ELSE Run(Exec(s, ops[k]), k + 1, lk \/ StaleReads(s, ops[k]) # {})
           r == Run(st, 1, FALSE)
           slot == nouter % K
           pushed == IF Len(ring) = K THEN Append(Tail(ring), slot) ELSE Append(ring, slot)
       IN  /\ st' = r.s /\ leak' = (leak \/ r.lk)
           \* the slot about to be overwritten must not still be referenced by the ring
           /\ dup' = (dup \/ (\E k \in 1..Len(ring) : ring[k] = slot /\ ~(Len(ring) = K /\ k = 1)))
           /\ ring' = pushed /\ nouter' = nouter + 1 /\ cycles' = cycles + 1
    /\ UNCHANGED <<phase, hist, ver, parts>>

\* rebuild(A'): the object now stands for A'; every persistent part is recomputed from it (the transfer
\* operators are kept, which is why only matrices with the same transfer operators are legal arguments).
\* RebuildAll = FALSE documents the seeded fault "the smoother of a relaxed coarsest level is not renewed".
Rebuild ==
    /\ "rebuild" \in Kinds /\ phase = "idle" /\ Len(hist) < MaxCalls
    /\ hist' = Append(hist, "rebuild")
    /\ ver' = 1 - ver
    /\ parts' = [q \in Parts |-> IF RebuildAll \/ q # "coarse-smoother" THEN 1 - ver ELSE parts[q]]
    /\ UNCHANGED <<st, ring, nouter, phase, cycles, leak, dup>>

\* the call returns (converged, budget exhausted, diverged, NaN, or an exception unwound it)
Return == /\ phase = "running" /\ phase' = "idle" /\ UNCHANGED <<st, ring, nouter, cycles, hist, leak, dup, ver, parts>>

Next == (\E kind \in Kinds : Begin(kind)) \/ Rebuild \/ Restart \/ Return
Spec == Init /\ [][Next]_vars

NoLeak        == ~leak
DistinctSlots == ~dup
RingBounded   == Len(ring) <= K /\ \A k \in 1..Len(ring) : ring[k] \in 0..(K - 1)
ResetClears   == (AlwaysReset /\ phase = "running" /\ cycles = 0) => ring = <<>>
\* whatever a call uses was computed from the matrix the object currently stands for
OneVersion    == \A q \in Parts : parts[q] = ver
\* export every complete history (for the replay against the real objects)
EmitHistories == (phase = "idle" /\ Len(hist) = MaxCalls) => PrintT("HIST " \o ToString(hist))
=============================================================================
