------------------------------ MODULE DenseQR ------------------------------
(* amgcl/detail/qr.hpp.  The numerics of Householder QR are class O (observed by    *)
(* the recorder in long double / against Eigen, quantised to millidecades =         *)
(* round(1000 log10 err)); QrOK is the acceptance predicate.  What *is* modelled    *)
(* [M] is the stride arithmetic shared by compute / factorize / Q / R / solve:      *)
(* element (i,j) lives at i*row_stride + j*col_stride with                          *)
(*   row major: row_stride = cols, col_stride = 1;  col major: 1, rows              *)
(* and the wide-system solve factorises A^H *in place* by swapping the two strides. *)
EXTENDS Integers, FiniteSets, Sequences

RowStride(rows, cols, order) == IF order = 0 THEN cols ELSE 1
ColStride(rows, cols, order) == IF order = 0 THEN 1 ELSE rows
Offset(rows, cols, order, i, j) == i * RowStride(rows, cols, order) + j * ColStride(rows, cols, order)

\* the offsets of an rows x cols matrix are a bijection onto 0..rows*cols-1
StrideBijective(rows, cols, order) ==
    LET offs == {Offset(rows, cols, order, i, j) : i \in 0..(rows - 1), j \in 0..(cols - 1)}
    IN  offs = 0..(rows * cols - 1) /\ Cardinality(offs) = rows * cols
\* compute(cols, rows, col_stride, row_stride, A) addresses element (i,j) of the cols x rows
\* matrix A^T at the place where A keeps (j,i)
TransposeBySwap(rows, cols, order) ==
    \A i \in 0..(cols - 1), j \in 0..(rows - 1) :
        i * ColStride(rows, cols, order) + j * RowStride(rows, cols, order) = Offset(rows, cols, order, j, i)
\* the diagonal walk  ii += row_stride + col_stride  used by compute()/factorize()
DiagonalWalk(rows, cols, order) ==
    \A i \in 0..((IF rows < cols THEN rows ELSE cols) - 1) :
        i * (RowStride(rows, cols, order) + ColStride(rows, cols, order)) = Offset(rows, cols, order, i, i)
\* the static_matrix specialisation copies block (i,j), element (ii,jj) of an rows x cols
\* matrix of N x N blocks to a column-major scalar buffer with rows*N scalar rows
BlockCopyIndex(rows, N, i, ii, j, jj) == (i * N + ii) + (j * N + jj) * (rows * N)
BlockCopyBijective(rows, cols, N) ==
    {BlockCopyIndex(rows, N, i, ii, j, jj) : i \in 0..(rows - 1), ii \in 0..(N - 1), j \in 0..(cols - 1), jj \in 0..(N - 1)}
        = 0..(rows * cols * N * N - 1)

\* ---- sub-matrix views through the strided entry point: element (i,j) at i*rs + j*cs with
\* row major rs = ld, cs = 1, column major rs = 1, cs = ld, leading dimension ld >= cols (rows)
ViewOffset(order, ld, i, j) == IF order = 0 THEN i * ld + j ELSE i + j * ld
ViewOffsets(rows, cols, order, ld) == {ViewOffset(order, ld, i, j) : i \in 0..(rows - 1), j \in 0..(cols - 1)}
\* the view addresses rows*cols distinct elements ...
ViewInjective(rows, cols, order, ld) == Cardinality(ViewOffsets(rows, cols, order, ld)) = rows * cols
\* ... which are the first rows*cols elements of the array exactly when the storage is packed (or a single line):
\* a loop over A[0 .. rows*cols-1] (as the wide branch of solve() used for the conjugation) is a loop over the
\* matrix only then
PrefixIsView(rows, cols, order, ld) == ViewOffsets(rows, cols, order, ld) = 0..(rows * cols - 1)
Packed(rows, cols, order, ld) == ld = (IF order = 0 THEN cols ELSE rows) \/ (IF order = 0 THEN rows ELSE cols) = 1

\* thresholds in millidecades (-12000 <-> 1e-12): >= 10x above the worst value seen on the
\* unchanged tree over 40 seeds (about -14700, see docs/C16.md)
QrTol == -12000
QrOK(r) ==
    /\ r.e_fact <= QrTol                      \* A = Q R
    /\ r.e_orth <= QrTol                      \* Q^H Q = I (leading min(rows,cols) columns)
    /\ r.lowzero                              \* R(i,j) = 0 exactly for j < i
    /\ r.qtail                                \* wide case: the columns of Q beyond min(rows,cols) are zero
    /\ (r.solved = 1 => r.e_opt <= QrTol /\ r.e_x <= QrTol)     \* least squares / minimum norm
\* a call on a REUSED QR object (any earlier history of factorize / compute / solve calls of other shapes, orders):
\* bitwise the result of a fresh object, and the definition as for a fresh one
QrReuseOK(r) ==
    /\ r.fresh
    /\ r.e_fact <= QrTol /\ r.e_orth <= QrTol /\ r.lowzero /\ r.qtail
    /\ (r.solved = 1 => r.e_opt <= QrTol /\ r.e_x <= QrTol)
\* solve() on a sub-matrix view (leading dimension ld, pad = ld - packed size): the least-squares (tall, square) /
\* minimum-norm (wide) solution of the view, and nothing outside the view is written
QrViewOK(r) ==
    r.solved = 1 => /\ r.e_opt <= QrTol /\ r.e_x <= QrTol
                    /\ r.outside
=============================================================================
