CONSTANTS
  N = 3
INIT Init
NEXT Next
INVARIANTS PermInv ProfileInv PivotInv DomInv SolveInv RefInv
CHECK_DEADLOCK FALSE
