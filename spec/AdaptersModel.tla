--------------------------- MODULE AdaptersModel ---------------------------
(* Exhaustive small-scope model of the matrix adapters (C17, C13): every R x C       *)
(* pattern, EVERY permutation of the entries within each row (ORD = "all"; "two" =   *)
(* sorted and reversed only, for the bigger thorough scope), every permutation of    *)
(* the unknowns for the reorder adapter, two scaling vectors.  One step per adapter  *)
(* materialises the view with the transcribed generic CRS constructor; the           *)
(* invariants are the predicates of Adapters.tla.                                    *)
EXTENDS Adapters, Patterns, TLC

CONSTANTS R, C, ORD,
          SAMPLE,   \* 1: every pattern; k: every k-th mask (thorough 4x4 scope)
          PSTEP     \* 1: every permutation of the unknowns for reorder; k: every k-th
VARIABLES mask, ord, pi, pc, out
vars == <<mask, ord, pi, pc, out>>

RECURSIVE Fact(_)
Fact(n) == IF n <= 1 THEN 1 ELSE n * Fact(n - 1)
RECURSIVE NthPerm(_, _)
NthPerm(s, k) == IF s = <<>> THEN <<>>
                 ELSE LET f == Fact(Len(s) - 1)
                          idx == (k \div f) + 1
                      IN  <<s[idx]>> \o NthPerm(RemoveAt(s, idx), k % f)
RowCount(m, i) == Cardinality({j \in 0..(C - 1) : Bit(m, i * C + j)})
OrdsOf(m, i) == IF ORD = "all" THEN 0..(Fact(RowCount(m, i)) - 1)
                ELSE IF RowCount(m, i) <= 1 THEN {0} ELSE {0, Fact(RowCount(m, i)) - 1}

\* all choices of one order index per row (built row by row: enumerating [1..R -> 0..C!-1] and filtering is far too slow)
RECURSIVE OrdSeqs(_, _)
OrdSeqs(m, n) == IF n = 0 THEN {<<>>} ELSE {Append(f, o) : f \in OrdSeqs(m, n - 1), o \in OrdsOf(m, n - 1)}

\* the source matrix: pattern `mask`, row i listed in its ord[i]-th order
A == FromRows(R, C, [i \in 1..R |-> NthPerm(PatRow(R, C, mask, 0, FALSE, i - 1), ord[i])])
Sorted0 == MkCrs(R, C, mask, 0, FALSE)
Perm == NthPerm([i \in 1..R |-> i - 1], pi)          \* a permutation of 0..R-1
Scale == [i \in 1..R |-> IF i % 2 = 1 THEN 2 ELSE -1]

Init == /\ mask \in {m \in Masks(R, C) : m % SAMPLE = 0}
        /\ ord \in OrdSeqs(mask, R)
        /\ pi = 0
        /\ pc = "in" /\ out = <<>>

Step(from, to, val) == pc = from /\ pc' = to /\ out' = val /\ UNCHANGED <<mask, ord, pi>>
Tuple    == Step("in", "tuple", TupleView(A))
ZeroCopy == Step("tuple", "zerocopy", ZeroCopyView(A))
Builder  == Step("zerocopy", "builder", BuilderView(A, 5 * R))
\* the permutation of the unknowns is chosen when the reorder adapter is applied
Reorder  == /\ R = C /\ pc = "builder" /\ pc' = "reorder" /\ UNCHANGED <<mask, ord>>
            /\ \E p \in {q \in 0..(Fact(R) - 1) : q % PSTEP = 0} : pi' = p /\ LET P == NthPerm([i \in 1..R |-> i - 1], p) IN out' = ReorderView(A, P, InverseOf(P))
Scaled   == R = C /\ Step("builder", "scaled", ScaledView(A, Scale))
Next == Tuple \/ ZeroCopy \/ Builder \/ Reorder \/ Scaled
NextRect == Tuple \/ ZeroCopy \/ Builder          \* rectangular scopes (AdaptersRect.cfg): no reorder / scaling

X == [j \in 1..C |-> j * j - 2]
TupleInv    == pc = "tuple" => /\ out.rows = R /\ out.nnz = NNZ(A) /\ (R = C => ViewOK(out, A))
                               /\ SameStorage(Materialize(out), [A EXCEPT !.m = R])
ZeroCopyInv == pc = "zerocopy" => ViewOK(out, A) /\ SameStorage(Materialize(out), A)
BuilderInv  == pc = "builder" => out.rows = R /\ (R = C => SameOperator(Materialize(out), A))
\* row order does not matter: every adapter of A is the operator of the sorted matrix
OrderInv    == pc \in {"tuple", "zerocopy", "builder"} /\ R = C => SameOperator(Materialize(out), Sorted0)
ReorderInv  == pc = "reorder" =>
                 /\ ReorderOK(A, Perm, Materialize(out)) /\ DimsOK(out, A)
                 /\ \A i \in 1..R : InverseOf(Perm)[Perm[i] + 1] = i - 1                         \* iperm o perm = id
                 \* the permuted product is the product permuted: back-permuted solutions solve the original system
                 /\ SpmvDef(Materialize(out), Forward(Perm, X)) = Forward(Perm, SpmvDef(A, X))
                 /\ InverseMap(Perm, Forward(Perm, X)) = X
ScaledInv   == pc = "scaled" =>
                 /\ ScaledOK(A, Scale, Materialize(out)) /\ DimsOK(out, A)
                 \* (S A S) y = S (A (S y)):  x = S y solves A x = f  iff  y solves (S A S) y = S f
                 /\ SpmvDef(Materialize(out), X) = [i \in 1..R |-> Scale[i] * SpmvDef(A, [j \in 1..C |-> Scale[j] * X[j]])[i]]
=============================================================================
