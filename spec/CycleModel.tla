----------------------------- MODULE CycleModel -----------------------------
(* Two consecutive apply() calls of one hierarchy, stepped primitive by primitive   *)
(* on OpMachine, for every parameter combination within the bounds.  Between the    *)
(* calls the caller scribbles over x.  SkipClear models the defect class "a level   *)
(* vector is not cleared before the recursive call" and must violate NoStaleRead.   *)
EXTENDS Cycle, TLC

CONSTANTS MaxLevels, SkipClear
VARIABLES p, prog, pc, st, stale, lastAct

vars == <<p, prog, pc, st, stale, lastAct>>

Params == [levels : 1..MaxLevels, ncycle : 1..2, npre : 0..3, npost : 0..3, pre_cycles : 0..2, direct : BOOLEAN]
Filter(pr) == IF SkipClear THEN SelectSeq(pr, LAMBDA e : e.kind # "clearu") ELSE pr

Init == /\ p \in {q \in Params : q.npre + q.npost >= 1}
        /\ prog = Filter(Program(p))
        /\ pc = 1
        /\ st = BeginCall(Machine0, {RHS})
        /\ stale = {} /\ lastAct = "init"

Step == /\ pc <= Len(prog)
        /\ stale' = stale \cup StaleReads(st, prog[pc])
        /\ st' = Exec(st, prog[pc])
        /\ pc' = pc + 1 /\ lastAct' = prog[pc].kind
        /\ UNCHANGED <<p, prog>>

NextCall == /\ pc = Len(prog) + 1 /\ st.call < 2
            /\ st' = BeginCall(Clobber(st, {X}), {RHS})
            /\ pc' = 1 /\ lastAct' = "nextcall"
            /\ UNCHANGED <<p, prog, stale>>

Next == Step \/ NextCall
Spec == Init /\ [][Next]_vars /\ WF_vars(Next)

NoStaleRead == stale = {}
\* the caller's x is always defined by the call itself when apply returns
ResultDefined == (pc = Len(prog) + 1) => Tag(st.def, X) = st.call
\* B is symmetric exactly for the palindromic cycles: npre = npost (or a single direct level)
SymmetryTheorem == Palindrome(p) = (p.npre = p.npost \/ (p.levels = 1 /\ p.direct))
\* the program never writes its right-hand side
RhsUntouched == Tag(st.def, RHS) = -1
Terminates == <>(pc = Len(prog) + 1 /\ st.call = 2)
=============================================================================
