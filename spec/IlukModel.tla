------------------------------ MODULE IlukModel ------------------------------
(* ILU(k) on every N x N pattern with a full diagonal and exactly NOff off-diagonal  *)
(* entries (dominant integer values): (L U)_ij = a_ij on the admitted pattern.       *)
(* With N = 5, NOff = 5, K = 1 and Lazy = TRUE (iluk.hpp as it was found) TLC        *)
(* reports the violation, e.g. entries (0,1) (1,4) (2,4) (3,0) (3,2): the fill (3,4) *)
(* is refused at level 2 when pivot 1 is processed and created at level 1 by pivot   *)
(* 2, without the contribution of pivot 1.  Lazy = FALSE (Saad's ILU(k)) passes.     *)
EXTENDS IluNumeric, DirectVals, TLC
CONSTANTS N, NOff, K, Lazy
VARIABLES offs, pc, A
OffPos == {p \in 0..(N * N - 1) : p \div N # p % N}
DiagBits == MapThenSumSet(LAMBDA i : Pow2(i * N + i), 0..(N - 1))
Init == /\ offs \in kSubset(NOff, OffPos) /\ pc = "in"
        /\ A = MkMatrix(N, DiagBits + MapThenSumSet(LAMBDA p : Pow2(p), offs), 0, "dom")
Next == pc = "in" /\ pc' = "iluk" /\ UNCHANGED <<offs, A>>
IlukInv == pc = "iluk" =>
    LET Fct == IlukRun(A, K, Lazy)
        S   == IlukPattern(A, K)
    IN  ~Fct.zero /\ IluOK(A, S, Fct) /\ S = PatternDef(A, K)
\* the repaired row loop is the elimination on the admitted pattern
SameAsDefinition == pc = "iluk" /\ ~Lazy =>
    LET Fct == IlukRun(A, K, FALSE)
        Def == IluOnPattern(A, PatternDef(A, K), FALSE)
    IN  Fct.L = Def.L /\ Fct.U = Def.U /\ Fct.D = Def.D
=============================================================================
