--------------------------- MODULE ProfilerModel ---------------------------
(* All behaviours of one profiler object up to MaxSteps calls; every complete       *)
(* history is exported (EmitHistories) and replayed step by step on the real class. *)
EXTENDS Profiler, FiniteSets
CONSTANTS Order, MaxSteps, MaxDepth, Steps      \* Order: sorted names; Steps: counter increments tried

OrderAB == <<"a", "b">>
OrderABC == <<"a", "b", "c">>
VARIABLES st, hist
vars == <<st, hist>>

Init == st = P0 /\ hist = <<>>

Adv(d)  == st' = PAdv(st, d)  /\ hist' = Append(hist, "adv:" \o ToString(d))
Tic(n)  == Len(st.stack) < MaxDepth /\ st' = PTic(st, n) /\ hist' = Append(hist, "tic:" \o n)
Toc     == CanToc(st) /\ st' = PToc(st) /\ hist' = Append(hist, "toc")
Reset   == st' = PReset(st) /\ hist' = Append(hist, "reset")
Scoped(n, d) == Len(st.stack) < MaxDepth /\ st' = PScoped(st, n, d)
                /\ hist' = Append(hist, "scoped:" \o n \o ":" \o ToString(d))

Next == /\ Len(hist) < MaxSteps
        /\ \/ \E d \in Steps : Adv(d)
           \/ \E k \in 1..Len(Order) : Tic(Order[k])
           \/ Toc
           \/ Reset
           \/ \E k \in 1..Len(Order) : Scoped(Order[k], 1)

Spec == Init /\ [][Next]_vars

SelfTime  == SelfTimeNonNegative(st, Order)
Root      == RootCovers(st, Order)
Shape     == TreeShape(st)
Delta     == DeltaOK(st)
\* the report lists every known unit exactly once (plus the root and the self lines)
ReportComplete ==
    LET rep == Report(st, Order, "Profile")
        named == {k \in 1..Len(rep) : rep[k].name # "self"}
    IN  Cardinality(named) = 1 + Cardinality(DOMAIN st.units)
\* vacuity guards: these must be VIOLATED (a self line and an incomplete nested profile are reachable)
NoSelfLine == \A k \in 1..Len(Report(st, Order, "Profile")) : Report(st, Order, "Profile")[k].name # "self"

EmitHistories == (Len(hist) = MaxSteps) => PrintT("HIST " \o ToString(hist))
=============================================================================
