---------------------------- MODULE CuthillMcKee ----------------------------
(* amgcl/reorder/cuthill_mckee.hpp transcribed as written: per-degree singly       *)
(* linked lists (firstWithDegree / nextSameDegree), level sets, the fallback that   *)
(* starts a new component when a level set comes out empty, `reverse` = visit the  *)
(* degree buckets from the largest to the smallest.  Kept on purpose: the loop      *)
(* condition `while (node > 0)` (node 0 is never expanded: its level set is always *)
(* "empty" and the search restarts at the first unlabelled node), the partial      *)
(* refresh of firstWithDegree (only entries 0..nMDICLS are overwritten, entries    *)
(* above keep *stale* heads of older level sets, which the fallback may make       *)
(* reachable again).  The property only promises a permutation of 0..n-1.          *)
EXTENDS Crs

IsPermutation(perm, n) == /\ Len(perm) = n
                          /\ \A k \in 1..n : perm[k] \in 0..(n - 1)
                          /\ \A k, m \in 1..n : k # m => perm[k] # perm[m]

\* the same predicate in O(n log n) for recorded orderings of graphs with thousands of nodes
IsPermutationFast(perm, n) == /\ Len(perm) = n
                              /\ \A k \in 1..n : perm[k] \in 0..(n - 1)
                              /\ Cardinality({perm[k] : k \in 1..n}) = n

\* st = [perm (0-based function), ls (levelSet), nsd (nextSameDegree), next,
\*       nf (nFirstWithDegree), nM (nMDICLS), empty]
CMVisitRow(A, deg, st, node, cls) ==
    FoldLeft(LAMBDA s, e :
                LET c == e[1]
                IN  IF s.ls[c] = 0
                    THEN [s EXCEPT !.ls[c]   = cls + 1,
                                   !.perm[s.next] = c,
                                   !.next    = s.next + 1,
                                   !.empty   = FALSE,
                                   !.nsd[c]  = s.nf[deg[c]],
                                   !.nf[deg[c]] = c,
                                   !.nM      = IF deg[c] > s.nM THEN deg[c] ELSE s.nM]
                    ELSE s,
             st, RowSeq(A, node))

RECURSIVE CMChain(_, _, _, _, _)
CMChain(A, deg, st, node, cls) ==            \* while (node > 0) { visit; node = nextSameDegree[node]; }
    IF node > 0
    THEN LET s == CMVisitRow(A, deg, st, node, cls)
         IN  CMChain(A, deg, s, s.nsd[node], cls)
    ELSE st

RECURSIVE CMMain(_, _, _, _, _, _, _)
CMMain(A, deg, reverse, st, fwd, cls, mdicls) ==
    IF st.next >= A.n THEN [perm |-> st.perm, exc |-> FALSE, levels |-> cls]
    ELSE
      LET maxDeg == Len(fwd) - 1
          s0     == [st EXCEPT !.nf = [d \in 0..maxDeg |-> -1], !.nM = 0, !.empty = TRUE]
          degs   == IF reverse THEN [k \in 1..(mdicls + 1) |-> mdicls - k + 1]
                               ELSE [k \in 1..(mdicls + 1) |-> k - 1]
          s1     == FoldLeft(LAMBDA s, d : CMChain(A, deg, s, fwd[d + 1], cls), s0, degs)
          cls1   == cls + 1
          fwd1   == [d1 \in 1..(maxDeg + 1) |-> IF d1 - 1 <= s1.nM THEN s1.nf[d1 - 1] ELSE fwd[d1]]
      IN  IF ~s1.empty THEN CMMain(A, deg, reverse, s1, fwd1, cls1, s1.nM)
          ELSE LET free == {i \in 0..(A.n - 1) : s1.ls[i] = 0}
               IN  IF free = {} THEN [perm |-> s1.perm, exc |-> TRUE, levels |-> cls1]
                   ELSE LET i  == MinOf(free)
                            s2 == [s1 EXCEPT !.perm[s1.next] = i, !.next = s1.next + 1, !.ls[i] = cls1]
                        IN  CMMain(A, deg, reverse, s2, [fwd1 EXCEPT ![deg[i] + 1] = i], cls1, deg[i])

\* -> [perm (sequence, perm[k+1] = old index placed at new position k), exc, levels]
CMRun(A, reverse) ==
    LET n      == A.n
        deg    == [i \in 0..(n - 1) |-> RowLen(A, i)]
        maxDeg == MaxOf({deg[i] : i \in 0..(n - 1)} \cup {0})
        st0    == [perm |-> [k \in 0..(n - 1) |-> IF k = 0 THEN 0 ELSE -1],
                   ls   |-> [i \in 0..(n - 1) |-> IF i = 0 THEN 1 ELSE 0],
                   nsd  |-> [i \in 0..(n - 1) |-> -1],
                   next |-> 1, nf |-> [d \in 0..maxDeg |-> -1], nM |-> 0, empty |-> TRUE]
        fwd0   == [d1 \in 1..(maxDeg + 1) |-> IF d1 - 1 = deg[0] THEN 0 ELSE -1]
        r      == CMMain(A, deg, reverse, st0, fwd0, 1, deg[0])
    IN  [perm |-> [k \in 1..n |-> r.perm[k - 1]], exc |-> r.exc, levels |-> r.levels]

\* what a Cuthill-McKee ordering is for: for a *connected symmetric* pattern every node
\* except the first has an earlier neighbour (not promised by the property; reported
\* by the model as an observation only, see docs/C16.md)
EarlierNeighbour(A, perm) ==
    \A k \in 2..A.n : \E m \in 1..(k - 1) : perm[m] \in RowCols(A, perm[k]) \/ perm[k] \in RowCols(A, perm[m])
=============================================================================
