------------------------------ MODULE X01Trace ------------------------------
(* Trace spec for the utility state machines (extra coverage, no listed property):  *)
(* every step the real amgcl::profiler / circular_buffer took along a TLC-generated *)
(* history is re-taken by the specification (Profiler.tla, Ring.tla) and the        *)
(* projected state the real object showed after the step must be the one the        *)
(* specification reaches.  multi_array / human_readable_memory records are judged   *)
(* against their closed-form definitions.                                           *)
EXTENDS TraceKit, Profiler, Ring

VARIABLES l, bad, ps, rs, pushed

Order == <<"a", "b", "c">>

Strip(rep) == [k \in 1..Len(rep) |-> [lvl |-> rep[k].lvl, name |-> rep[k].name, len |-> rep[k].len]]
PctOK(rep, total) ==
    \A k \in 1..Len(rep) : total > 0 =>
        /\ rep[k].p100 * total - 10000 * rep[k].len <= total
        /\ 10000 * rep[k].len - rep[k].p100 * total <= total

ProfStep(s, r) ==
    CASE r.a = "adv"    -> PAdv(s, r.d)
      [] r.a = "tic"    -> PTic(s, r.n)
      [] r.a = "toc"    -> PToc(s)
      [] r.a = "reset"  -> PReset(s)
      [] r.a = "scoped" -> PScoped(s, r.n, r.d)

ProfClauses(s2, r) ==
    << <<"report-parses", r.parsed>>,
       <<"report=tree-of-the-specification", Strip(r.rep) = Report(s2, Order, "Profile")>>,
       <<"toc-returns-elapsed", r.a = "toc" => r.delta = s2.delta>>,
       <<"incomplete-warning-iff-open-units", r.warn = Incomplete(s2)>>,
       <<"percentages=length/total", PctOK(r.rep, s2.rl)>>,
       <<"closed-units-cover-their-children", SelfTimeNonNegative(s2, Order) /\ RootCovers(s2, Order)>> >>

RingStep(s, r) == IF r.a = "push" THEN RPush(s, r.v) ELSE RClear(s)
RingClauses(s2, p2, r) ==
    << <<"window=last-cap-pushed-values", r.win = s2.win /\ r.size = RSize(s2)>>,
       <<"window-invariant", WindowOK(s2, p2)>>,
       <<"const-and-mutable-access-agree", r.constsame>> >>

RECURSIVE RowMajor(_, _, _)
RowMajor(dims, idx, k) == IF k > Len(dims) THEN 0
                          ELSE idx[k] * (LET RECURSIVE Prod(_)
                                             Prod(j) == IF j > Len(dims) THEN 1 ELSE dims[j] * Prod(j + 1)
                                         IN  Prod(k + 1)) + RowMajor(dims, idx, k + 1)
RECURSIVE ProdAll(_, _)
ProdAll(dims, k) == IF k > Len(dims) THEN 1 ELSE dims[k] * ProdAll(dims, k + 1)
MaClauses(r) ==
    << <<"offset=row-major-index", r.off = RowMajor(r.dims, r.idx, 1)>>,
       <<"size=product-of-extents", r.size = ProdAll(r.dims, 1)>>,
       <<"stride(k)=product-of-later-extents", \A k \in 1..Len(r.dims) : r.strides[k] = ProdAll(r.dims, k + 1)>>,
       <<"element-read-back", Has(r, "readback") => r.readback = r.expect>> >>

\* human_readable_memory: bytes = sum dig[k] 1024^(k-1); suffix = min(#digits - 1, 4); mantissa = bytes / 1024^suffix
HrmClauses(r) ==
    LET D == Len(r.dig)
        sfx == IF D - 1 < 4 THEN D - 1 ELSE 4
        whole == IF D = 6 THEN r.dig[6] * 1024 + r.dig[5] ELSE r.dig[D]
        frac == IF D = 6 THEN r.dig[4] ELSE (IF D > 1 THEN r.dig[D - 1] ELSE 0)
        lo == 100 * whole + (100 * frac) \div 1024 - 1
        hi == 100 * whole + (100 * frac + 100) \div 1024 + 2
    IN  << <<"suffix=power-of-1024", r.suffix = sfx>>,
           <<"mantissa=bytes/1024^suffix", r.m100 >= lo /\ r.m100 <= hi>>,
           <<"two-decimals-and-one-letter", r.shape>> >>

TInit == l = 1 /\ bad = <<>> /\ ps = P0 /\ rs = R0(1) /\ pushed = <<>>

Add(f) == bad' = (IF f = <<>> THEN bad ELSE Append(bad, <<l, f>>))

Consume(r) ==
    CASE r.e = "Reset" /\ r.k = "prof" -> ps' = P0 /\ UNCHANGED <<bad, rs, pushed>>
      [] r.e = "Reset" /\ r.k = "ring" -> rs' = R0(r.cap) /\ pushed' = <<>> /\ UNCHANGED <<bad, ps>>
      [] r.e = "step" /\ r.k = "prof" ->
            IF r.a = "toc" /\ ~CanToc(ps)
            THEN Add(<<"recorder: toc with nothing open">>) /\ UNCHANGED <<ps, rs, pushed>>
            ELSE LET s2 == ProfStep(ps, r)
                 IN  ps' = s2 /\ Add(FailedOf(ProfClauses(s2, r))) /\ UNCHANGED <<rs, pushed>>
      [] r.e = "step" /\ r.k = "ring" ->
            LET s2 == RingStep(rs, r)
                p2 == IF r.a = "push" THEN Append(pushed, r.v) ELSE <<>>
            IN  rs' = s2 /\ pushed' = p2 /\ Add(FailedOf(RingClauses(s2, p2, r))) /\ UNCHANGED ps
      [] r.e = "step" /\ r.k = "ringw" ->
            Add(FailedOf(<< <<"write-through-index-0-reaches-the-oldest-element", r.got = -7 /\ r.size = RSize(rs)>> >>))
            /\ UNCHANGED <<ps, rs, pushed>>
      [] r.e = "ma"  -> Add(FailedOf(MaClauses(r))) /\ UNCHANGED <<ps, rs, pushed>>
      [] r.e = "hrm" -> Add(FailedOf(HrmClauses(r))) /\ UNCHANGED <<ps, rs, pushed>>
      [] OTHER -> Add(<<"recorder:" \o r.e>>) /\ UNCHANGED <<ps, rs, pushed>>

TNext == l <= NLog /\ l' = l + 1 /\ Consume(Log[l])
Verdict == (l = NLog + 1) => VerdictLine(l, bad)
=============================================================================
