-------------------------- MODULE DistMatrixModel --------------------------
(* State machine: np ranks build the communication pattern of a distributed N x M      *)
(* matrix and run two consecutive distributed products y = alpha A x + beta y0 with    *)
(* different vectors over MpiChan.  Every rank is a sequential program (pc); the       *)
(* network moves messages on its own (Transmit / Deliver) in any order the MPI         *)
(* semantics allows, so TLC explores every interleaving of ranks and every arrival     *)
(* order.  Init enumerates every pattern mask, every contiguous row and column         *)
(* partition (empty ranks included) and np in MinNP..MaxNP.                             *)
EXTENDS DistMatrix, MpiChan, Patterns

CONSTANTS N, M, MinNP, MaxNP, SamePart, MaskStride, MaskOff
VARIABLES inp, D, net, pc, mem, err

vars == <<inp, D, net, pc, mem, err>>

Parts(n, np) == {s \in [1..(np + 1) -> 0..n] : s[1] = 0 /\ s[np + 1] = n /\ \A k \in 1..np : s[k] <= s[k + 1]}

np    == inp.np
A     == MkCrs(N, M, inp.mask, inp.mask % 3, FALSE)
Alpha == 2
Beta  == -1
X(e)  == [j \in 1..M |-> IF e = 1 THEN j ELSE 10 + 3 * j]
Y0    == [i \in 1..N |-> i]
XLoc(e, r) == Slice(X(e), Lo(inp.cp, r), Hi(inp.cp, r))
YLoc(r)    == Slice(Y0, Lo(inp.rp, r), Hi(inp.rp, r))

Init == /\ \E k \in MinNP..MaxNP : \E a \in Parts(N, k) : \E b \in (IF SamePart THEN {a} ELSE Parts(M, k)) :
             \E mk \in {x \in Masks(N, M) : x % MaskStride = MaskOff} :
                inp = [np |-> k, mask |-> mk, rp |-> a, cp |-> b]
        /\ D = SplitRun(A, inp.np, inp.rp, inp.cp)
        /\ net = NewNet(inp.np)
        /\ pc = [r \in Ranks(inp.np) |-> "gather"]
        /\ mem = [r \in Ranks(inp.np) |-> [dom |-> <<>>, rcol |-> <<>>, rdom |-> <<>>, rcounts |-> <<>>, rnbr |-> <<>>, rptr |-> <<0>>,
                                           snbr |-> <<>>, sptr |-> <<0>>, scol |-> <<>>, sendval |-> <<>>, recvval |-> <<>>,
                                           xrem |-> <<>>, y |-> <<>>, y1 |-> <<>>, first |-> 1]]
        /\ err = {}

\* ---- posting helpers
RECURSIVE PostRecvs(_, _, _, _, _, _, _)
PostRecvs(nt, r, nbr, ptr, name, tag, k) ==
    IF k > Len(nbr) THEN nt
    ELSE PostRecvs(PostRecv(nt, r, nbr[k], tag, <<name, ptr[k] + 1, ptr[k + 1]>>), r, nbr, ptr, name, tag, k + 1)
RECURSIVE PostSends(_, _, _, _, _, _, _)
PostSends(nt, r, nbr, ptr, name, tag, k) ==
    IF k > Len(nbr) THEN nt
    ELSE PostSends(PostSend(nt, r, nbr[k], tag, <<name, ptr[k] + 1, ptr[k + 1]>>), r, nbr, ptr, name, tag, k + 1)
Zeros(n) == [i \in 1..n |-> 0]
PatOf(q) == [snbr |-> mem[q - 1].snbr, sptr |-> mem[q - 1].sptr, scol |-> mem[q - 1].scol,
             rnbr |-> mem[q - 1].rnbr, rptr |-> mem[q - 1].rptr, rcol |-> mem[q - 1].rcol, rdom |-> mem[q - 1].rdom]
Pat == [q \in 1..np |-> PatOf(q)]
NewReqs(r) == {i \in 1..Len(net.req[r]) : i >= mem[r].first}

\* ---- the program of rank r
Gather(r) == /\ pc[r] = "gather"
             /\ net' = Arrive(net, r, EvAllgather, Hi(inp.cp, r) - Lo(inp.cp, r), 8)
             /\ pc' = [pc EXCEPT ![r] = "gather_w"]
             /\ UNCHANGED <<inp, D, mem, err>>
GatherW(r) == /\ pc[r] = "gather_w" /\ CollDone(net, np, r)
              /\ LET v   == CollValue(net, r)
                     ps[k \in 0..np] == IF k = 0 THEN 0 ELSE ps[k - 1] + v[k - 1]          \* partial_sum
                     dom == [k \in 1..(np + 1) |-> ps[k - 1]]
                     L   == PatLocal(np, dom, D.rem[r + 1].col)
                 IN  /\ mem' = [mem EXCEPT ![r] = [@ EXCEPT !.dom = dom, !.rcol = L.rcol, !.rdom = L.rdom, !.rcounts = L.rcounts,
                                                             !.rnbr = L.rnbr, !.rptr = L.rptr, !.recvval = Zeros(Len(L.rcol))]]
                     /\ net' = Arrive(net, r, EvAlltoall, L.rcounts, 4)
              /\ pc' = [pc EXCEPT ![r] = "a2a_w"]
              /\ UNCHANGED <<inp, D, err>>
AlltoallW(r) == /\ pc[r] = "a2a_w" /\ CollDone(net, np, r)
                /\ LET v  == CollValue(net, r)
                       sc == [d \in Ranks(np) |-> v[d][r]]
                       sn == NbrOf(np, sc)
                       sp == PtrOf(sc, sn)
                       n1 == PostRecvs(net, r, sn, sp, "scol", TagCols, 1)
                   IN  /\ mem' = [mem EXCEPT ![r] = [@ EXCEPT !.snbr = sn, !.sptr = sp, !.scol = Zeros(sp[Len(sp)]),
                                                               !.sendval = Zeros(sp[Len(sp)]), !.first = Len(net.req[r]) + 1]]
                       /\ net' = PostSends(n1, r, mem[r].rnbr, mem[r].rptr, "rcol", TagCols, 1)
                /\ pc' = [pc EXCEPT ![r] = "cols_w"]
                /\ UNCHANGED <<inp, D, err>>
ColsW(r) == /\ pc[r] = "cols_w" /\ AllDone(net, r, NewReqs(r))
            /\ net' = WaitAll(net, r, NewReqs(r))
            /\ mem' = [mem EXCEPT ![r] = [@ EXCEPT !.scol = [i \in 1..Len(@) |-> @[i] - mem[r].dom[r + 1]]]]     \* shift to local numbering
            /\ pc' = [pc EXCEPT ![r] = "ex1"]
            /\ UNCHANGED <<inp, D, err>>
\* start_exchange(x) of epoch e
Start(r, e) == /\ pc[r] = (IF e = 1 THEN "ex1" ELSE "ex2")
               /\ LET sv == GatherSend(PatOf(r + 1), XLoc(e, r))
                      n1 == PostRecvs(net, r, mem[r].rnbr, mem[r].rptr, "recvval", TagVals, 1)
                  IN  /\ mem' = [mem EXCEPT ![r] = [@ EXCEPT !.sendval = sv, !.first = Len(net.req[r]) + 1]]
                      /\ net' = IF Len(sv) > 0 THEN PostSends(n1, r, mem[r].snbr, mem[r].sptr, "sendval", TagVals, 1) ELSE n1
               /\ pc' = [pc EXCEPT ![r] = IF e = 1 THEN "loc1" ELSE "loc2"]
               /\ UNCHANGED <<inp, D, err>>
\* the local product overlaps the exchange
Local(r, e) == /\ pc[r] = (IF e = 1 THEN "loc1" ELSE "loc2")
               /\ mem' = [mem EXCEPT ![r].y = MulLocal(Alpha, D.loc[r + 1], XLoc(e, r), Beta, YLoc(r))]
               /\ pc' = [pc EXCEPT ![r] = IF e = 1 THEN "fin1" ELSE "fin2"]
               /\ UNCHANGED <<inp, D, net, err>>
\* finish_exchange + remote product
Finish(r, e) == /\ pc[r] = (IF e = 1 THEN "fin1" ELSE "fin2") /\ AllDone(net, r, NewReqs(r))
                /\ net' = WaitAll(net, r, NewReqs(r))
                /\ LET xr == mem[r].recvval
                       y  == IF Len(xr) > 0 THEN MulRemote(Alpha, D.rem[r + 1], PatOf(r + 1), xr, mem[r].y) ELSE mem[r].y
                   IN  mem' = [mem EXCEPT ![r] = [@ EXCEPT !.xrem = xr, !.y = y, !.y1 = IF e = 1 THEN y ELSE @]]
                /\ pc' = [pc EXCEPT ![r] = IF e = 1 THEN "ex2" ELSE "done"]
                /\ UNCHANGED <<inp, D, err>>

\* ---- the network
BufOf(r, buf) == [i \in 1..BufLen(buf) |-> mem[r][buf[1]][buf[2] + i - 1]]
TransmitAct(r, i) == /\ SendReady(net, r, i)
                     /\ net' = Transmit(net, r, i, BufOf(r, net.req[r][i].buf))
                     /\ UNCHANGED <<inp, D, pc, mem, err>>
DeliverAct(r, i) == /\ RecvReady(net, r, i)
                    /\ LET p   == DeliverPayload(net, r, i)
                           buf == net.req[r][i].buf
                       IN  /\ err' = IF Len(p) = BufLen(buf) THEN err ELSE err \cup {"size"}
                           /\ mem' = [mem EXCEPT ![r][buf[1]] = [k \in 1..Len(@) |->
                                        IF k >= buf[2] /\ k <= buf[3] /\ k - buf[2] + 1 <= Len(p) THEN p[k - buf[2] + 1] ELSE @[k]]]
                    /\ net' = Deliver(net, r, i)
                    /\ UNCHANGED <<inp, D, pc>>

AllAt(s) == \A r \in Ranks(np) : pc[r] = s
Finished == AllAt("done") /\ UNCHANGED vars
Next == \/ \E r \in Ranks(np) : \/ Gather(r) \/ GatherW(r) \/ AlltoallW(r) \/ ColsW(r)
                                \/ Start(r, 1) \/ Local(r, 1) \/ Finish(r, 1)
                                \/ Start(r, 2) \/ Local(r, 2) \/ Finish(r, 2)
                                \/ \E i \in 1..Len(net.req[r]) : TransmitAct(r, i) \/ DeliverAct(r, i)
        \/ Finished

\* ---------------------------------------------------------------- invariants
PatReady == \A r \in Ranks(np) : pc[r] \notin {"gather", "gather_w", "a2a_w", "cols_w"}
\* (the pattern fields never change after "cols_w" and D never changes: evaluated once per behaviour)
PatternInv == AllAt("done") => /\ PatternOK(np, inp.cp, NeedOf(np, D), Pat)
                               /\ Pat = PatternRun(np, inp.cp, [r \in Ranks(np) |-> D.rem[r + 1].col])
SplitInv   == AllAt("gather") => DistOf(np, inp.rp, inp.cp, D, A)
\* after finish_exchange the ghosts are the owners' values of *that* exchange, whatever the schedule
GhostInv   == \A r \in Ranks(np) : /\ pc[r] = "ex2"  => GhostOK(PatOf(r + 1), mem[r].xrem, X(1))
                                   /\ pc[r] = "done" => GhostOK(PatOf(r + 1), mem[r].xrem, X(2))
DistSpmvInv == AllAt("done") =>
                  /\ FlattenSeq([q \in 1..np |-> mem[q - 1].y1]) = SpmvDef(Alpha, A, X(1), Beta, Y0)
                  /\ FlattenSeq([q \in 1..np |-> mem[q - 1].y])  = SpmvDef(Alpha, A, X(2), Beta, Y0)
                  /\ FlattenSeq([q \in 1..np |-> mem[q - 1].y])  = DistMulRun(np, inp.rp, inp.cp, D, Pat, Alpha, X(2), Beta, Y0)
\* collective results identical on all ranks
ScalarsInv == \A r \in Ranks(np) : pc[r] \notin {"gather", "gather_w"} => mem[r].dom = inp.cp
NoErrInv   == err = {} /\ CollKindsOK(net)
\* the log of every finished run is accepted by the predicate used on the real logs
LogInv     == (AllAt("done") /\ ~InFlight(net)) => MsgLogOK(HistOf(net, np))
=============================================================================
