CONSTANTS
  N = 2
  M = 3
  MinNP = 1
  MaxNP = 2
  SamePart = FALSE
  MaskStride = 2
  MaskOff = 0
INIT Init
NEXT Next
INVARIANTS SplitInv PatternInv GhostInv DistSpmvInv ScalarsInv NoErrInv LogInv
CHECK_DEADLOCK TRUE
