INIT Init
NEXT Next
INVARIANTS TablesOK ReachOK BadThrows
CHECK_DEADLOCK FALSE
