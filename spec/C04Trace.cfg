CONSTANTS
  PinnedTieBug = TRUE
  PinnedLiftBug = TRUE
  ObsTol = 4096
INIT TInit
NEXT TNext
INVARIANT Verdict
CHECK_DEADLOCK FALSE
