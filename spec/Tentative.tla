------------------------------ MODULE Tentative ------------------------------
(* amgcl/coarsening/tentative_prolongation.hpp.                                     *)
(* Without a near-null space: P is n x naggr, row i holds the single entry           *)
(* (aggr[i], 1) when aggr[i] >= 0 and nothing otherwise  (TentRun).                  *)
(* With a near-null space (cols vectors) only the *structure* is transcribed: row i  *)
(* of an aggregated variable has exactly `cols` entries in the columns               *)
(* (aggr[i] div block_size) * cols + 0..cols-1 in this order, P is n x cols*nba with *)
(* nba = naggr div block_size; the values (Householder QR per aggregate) are judged  *)
(* by class-O observations of the recorder (orthonormality, P * B_coarse = B).       *)
EXTENDS Aggregates

\* `id` is a sequence 1..n
TentRun(n, naggr, id) ==
    FromRows(n, naggr, [i1 \in 1..n |-> IF id[i1] >= 0 THEN << <<id[i1], 1>> >> ELSE <<>>])

\* P(i, id_i) = 1 and nothing else in row i; non-aggregated rows are empty.
\* Consequences stated separately: disjoint column supports, mutually orthogonal columns,
\* P * 1 = 1 on aggregated rows (the constant vector is reproduced).
TentativeOK(n, naggr, id, P) ==
    /\ P.n = n /\ P.m = naggr /\ WellFormed(P)
    /\ \A i \in 0..(n - 1) :
         IF id[i + 1] >= 0 THEN RowSeq(P, i) = << <<id[i + 1], 1>> >> ELSE RowLen(P, i) = 0
DisjointSupportOK(P) ==         \* every row meets at most one column => supports of two columns are disjoint
    \A i \in Rows(P) : Cardinality({P.col[p] : p \in {q \in RowPos(P, i) : P.val[q] # 0}}) <= 1
ColumnsOrthogonalOK(P) ==       \* (P^T P)(c1, c2) = 0 for c1 # c2, exact on integers
    \A i \in Rows(P) : \A p, q \in RowPos(P, i) : P.col[p] # P.col[q] => P.val[p] * P.val[q] = 0
ConstantReproducedOK(id, P) ==
    \A i \in Rows(P) : id[i + 1] >= 0 => MapThenSumSet(LAMBDA p : P.val[p], RowPos(P, i)) = 1
\* the aggregate ids read back from a tentative prolongation (-2 for an empty row)
IdsOf(P) == [i1 \in 1..P.n |-> IF RowLen(P, i1 - 1) = 0 THEN Removed ELSE P.col[Ptr(P, i1 - 1) + 1]]

\* structure with a near-null space of `cols` vectors (values not judged here)
TentStructOK(n, naggr, id, bs, cols, P) ==
    LET nba == naggr \div bs
    IN  /\ P.n = n /\ P.m = cols * nba /\ WellFormed(P)
        /\ \A i \in 0..(n - 1) :
             IF id[i + 1] >= 0
             THEN /\ RowLen(P, i) = cols
                  /\ \A k \in 1..cols : P.col[Ptr(P, i) + k] = (id[i + 1] \div bs) * cols + (k - 1)
             ELSE RowLen(P, i) = 0
=============================================================================
