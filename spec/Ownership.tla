------------------------------ MODULE Ownership ------------------------------
(* Ownership of the three CRS arrays of amgcl::backend::crs (backend/builtin.hpp:    *)
(* own_data, free_data, copy / move constructors and assignments, destructor) and    *)
(* of the zero-copy adapters (adapter/zero_copy.hpp: own_data = false, pointers to   *)
(* the USER's arrays).  The three arrays always travel together, so they are one     *)
(* memory block here:  0 = null, -1 = the user's arrays, k > 0 = the k-th block      *)
(* obtained from new[].                                                              *)
(*                                                                                   *)
(* A state is  [hs, frees, ufreed, uwritten]:  hs[h] = [alive, mem, own] for handle  *)
(* h, frees[k] = how often heap block k was passed to delete[], ufreed / uwritten =  *)
(* the user's arrays were deleted / written.  Apply(st, o) transcribes one operation *)
(* o = [op, h, g]; the model (OwnershipModel) explores all operation sequences, the  *)
(* trace spec folds Apply over a recorded sequence.                                  *)
EXTENDS Naturals, Integers, Sequences, FiniteSets

Null == 0
User == -1
Dead == [alive |-> FALSE, mem |-> Null, own |-> FALSE]
Init0(H) == [hs |-> [h \in 1..H |-> Dead], frees |-> <<>>, ufreed |-> FALSE, uwritten |-> FALSE]

\* delete[] of block m
Delete(st, m) == IF m = Null THEN st
                 ELSE IF m = User THEN [st EXCEPT !.ufreed = TRUE]
                 ELSE [st EXCEPT !.frees[m] = @ + 1]
\* new[]: a fresh block (the copy loops write only into it)
Alloc(st) == [st |-> [st EXCEPT !.frees = Append(@, 0)], blk |-> Len(st.frees) + 1]

\* void free_data() { if (own_data) { delete[] ptr; ptr = 0; ... } }  -- a borrowed matrix keeps its pointers
FreeData(st, h) == IF st.hs[h].own THEN [Delete(st, st.hs[h].mem) EXCEPT !.hs[h].mem = Null] ELSE st

Apply(st, o) ==
    LET h == o.h
        g == o.g
    IN  CASE o.op = "empty"    -> [st EXCEPT !.hs[h] = [alive |-> TRUE, mem |-> Null, own |-> TRUE]]           \* crs()
          [] o.op = "borrowed" -> [st EXCEPT !.hs[h] = [alive |-> TRUE, mem |-> User, own |-> FALSE]]          \* zero_copy(...)
          [] o.op = "owned"    -> LET a == Alloc(st)                                                            \* crs(tuple) etc.
                                  IN  [a.st EXCEPT !.hs[h] = [alive |-> TRUE, mem |-> a.blk, own |-> TRUE]]
          \* crs(const crs &other): own_data(true); arrays copied iff other has them
          [] o.op = "copy"     -> IF st.hs[g].mem = Null THEN [st EXCEPT !.hs[h] = [alive |-> TRUE, mem |-> Null, own |-> TRUE]]
                                  ELSE LET a == Alloc(st) IN [a.st EXCEPT !.hs[h] = [alive |-> TRUE, mem |-> a.blk, own |-> TRUE]]
          \* crs(crs &&other): pointers and own_data taken over, other's pointers zeroed
          [] o.op = "move"     -> [st EXCEPT !.hs[h] = [alive |-> TRUE, mem |-> st.hs[g].mem, own |-> st.hs[g].own],
                                             !.hs[g].mem = Null]
          \* operator=(const crs &other): free_data(); then new arrays iff other has them; own_data is NOT touched
          [] o.op = "assign"   -> LET s1 == FreeData(st, h)
                                  IN  IF s1.hs[g].mem = Null THEN s1
                                      ELSE LET a == Alloc(s1) IN [a.st EXCEPT !.hs[h].mem = a.blk]
          \* operator=(crs &&other): swap of everything
          [] o.op = "moveassign" -> [st EXCEPT !.hs[h] = [@ EXCEPT !.mem = st.hs[g].mem, !.own = st.hs[g].own],
                                               !.hs[g] = [@ EXCEPT !.mem = st.hs[h].mem, !.own = st.hs[h].own]]
          \* ~crs() { free_data(); }
          [] o.op = "destroy"  -> [FreeData(st, h) EXCEPT !.hs[h] = Dead]

\* which operations are legal C++ in a state (constructors on dead handles, the rest on live ones)
Enabled(st, o) ==
    CASE o.op \in {"empty", "borrowed", "owned"} -> ~st.hs[o.h].alive
      [] o.op \in {"copy", "move"}                -> ~st.hs[o.h].alive /\ st.hs[o.g].alive /\ o.h # o.g
      [] o.op \in {"assign", "moveassign"}        -> st.hs[o.h].alive /\ st.hs[o.g].alive /\ o.h # o.g
      [] o.op = "destroy"                         -> st.hs[o.h].alive

RECURSIVE Run(_, _)
Run(st, ops) == IF ops = <<>> THEN st ELSE Run(Apply(st, ops[1]), Tail(ops))

\* ------------------------------------------------------------------ predicates
UserSafe(st)     == ~st.ufreed /\ ~st.uwritten                                   \* user memory never freed or written
NoDoubleFree(st) == \A k \in 1..Len(st.frees) : st.frees[k] <= 1
NoDangling(st)   == \A h \in DOMAIN st.hs : st.hs[h].alive /\ st.hs[h].mem > 0 => st.frees[st.hs[h].mem] = 0
AllDead(st)      == \A h \in DOMAIN st.hs : ~st.hs[h].alive
\* owned memory is freed exactly once: when every handle is gone nothing is left
NoLeak(st)       == AllDead(st) => \A k \in 1..Len(st.frees) : st.frees[k] = 1
LiveBlocks(st)   == Cardinality({k \in 1..Len(st.frees) : st.frees[k] = 0})
=============================================================================
