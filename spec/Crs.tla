------------------------------- MODULE Crs -------------------------------
(* Sparse matrices in compressed-row storage exactly as amgcl keeps them           *)
(* (backend::crs): record [n, m, ptr, col, val] with 0-based ptr/col contents held  *)
(* in 1-based TLA+ sequences.  Values are integers (doubles that are exactly        *)
(* integral; complex and block values are expanded to real scalar form by the       *)
(* recorders).  `Dense meaning' is expressed through sparse row functions so that   *)
(* matrices with a few hundred rows can be judged by TLC.                           *)
EXTENDS Naturals, Integers, Sequences, FiniteSets, FiniteSetsExt, SequencesExt

Ptr(A, i)    == A.ptr[i + 1]                       \* i is a 0-based row number
RowLen(A, i) == Ptr(A, i + 1) - Ptr(A, i)
RowPos(A, i) == (Ptr(A, i) + 1) .. Ptr(A, i + 1)    \* 1-based positions in col/val
Rows(A)      == 0 .. (A.n - 1)
NNZ(A)       == Len(A.col)

WellFormed(A) ==
    /\ Len(A.ptr) = A.n + 1
    /\ A.ptr[1] = 0
    /\ \A i \in 1..A.n : A.ptr[i] <= A.ptr[i + 1]
    /\ Len(A.col) = A.ptr[A.n + 1]
    /\ Len(A.val) = Len(A.col)
    /\ \A p \in 1..Len(A.col) : A.col[p] >= 0 /\ A.col[p] < A.m

RowCols(A, i) == {A.col[p] : p \in RowPos(A, i)}
At(A, i, c)   == MapThenSumSet(LAMBDA p : A.val[p], {p \in RowPos(A, i) : A.col[p] = c})
RowFn(A, i)   == [c \in RowCols(A, i) |-> At(A, i, c)]   \* duplicates add up

\* the row as a sequence of <<col, val>> in storage order
RowSeq(A, i)  == [k \in 1..RowLen(A, i) |-> <<A.col[Ptr(A, i) + k], A.val[Ptr(A, i) + k]>>]

SortedRow(A, i) == \A p \in RowPos(A, i) : (p + 1) \in RowPos(A, i) => A.col[p] < A.col[p + 1]
Sorted(A)       == \A i \in Rows(A) : SortedRow(A, i)
NoDup(A)        == \A i \in Rows(A) : Cardinality(RowCols(A, i)) = RowLen(A, i)

\* equality of operators: explicit zeros and the order inside a row do not matter
NZ(f)         == {c \in DOMAIN f : f[c] # 0}
SameRow(f, g) == NZ(f) = NZ(g) /\ \A c \in NZ(f) : f[c] = g[c]
SameOperator(A, B) ==
    /\ A.n = B.n /\ A.m = B.m
    /\ \A i \in Rows(A) : SameRow(RowFn(A, i), RowFn(B, i))
\* identical storage
SameStorage(A, B) == A.n = B.n /\ A.m = B.m /\ A.ptr = B.ptr /\ A.col = B.col /\ A.val = B.val

\* assemble a CRS record from a sequence (index 1..n) of rows, each a sequence of <<col,val>>
FromRows(n, m, rows) ==
    LET ptrf[i \in 0..n] == IF i = 0 THEN 0 ELSE ptrf[i - 1] + Len(rows[i])
        flat == FlattenSeq(rows)
    IN  [n |-> n, m |-> m,
         ptr |-> [i \in 1..(n + 1) |-> ptrf[i - 1]],
         col |-> [p \in 1..Len(flat) |-> flat[p][1]],
         val |-> [p \in 1..Len(flat) |-> flat[p][2]]]

\* ---- dense definitions, row by row (sparse row functions) ----
Abs(x) == IF x < 0 THEN -x ELSE x
MaxOf(S) == CHOOSE x \in S : \A y \in S : y <= x
MinOf(S) == CHOOSE x \in S : \A y \in S : x <= y

DefProductRow(A, B, i) ==
    LET ks == RowCols(A, i)
        cs == UNION {RowCols(B, k) : k \in ks}
    IN  [c \in cs |-> MapThenSumSet(LAMBDA k : At(A, i, k) * At(B, k, c),
                                    {k \in ks : c \in RowCols(B, k)})]
DefSumRow(alpha, A, beta, B, i) ==
    [c \in RowCols(A, i) \cup RowCols(B, i) |-> alpha * At(A, i, c) + beta * At(B, i, c)]

ProductOK(A, B, C) ==
    /\ C.n = A.n /\ C.m = B.m /\ WellFormed(C)
    /\ \A i \in Rows(A) : SameRow(RowFn(C, i), DefProductRow(A, B, i))
SumOK(alpha, A, beta, B, C) ==
    /\ C.n = A.n /\ C.m = A.m /\ WellFormed(C)
    /\ \A i \in Rows(A) : SameRow(RowFn(C, i), DefSumRow(alpha, A, beta, B, i))
\* T is the transpose of A entry for entry (no entry lost, none invented)
TransposeOK(A, T) ==
    /\ T.n = A.m /\ T.m = A.n /\ WellFormed(T) /\ NNZ(T) = NNZ(A)
    /\ \A i \in Rows(A) : \A c \in RowCols(A, i) : At(T, c, i) = At(A, i, c)
    /\ \A j \in Rows(T) : \A r \in RowCols(T, j) : j \in RowCols(A, r)
ScaleOK(A, s, C) ==
    /\ C.n = A.n /\ C.m = A.m /\ C.ptr = A.ptr /\ C.col = A.col
    /\ \A p \in 1..NNZ(A) : C.val[p] = s * A.val[p]
\* S holds the rows of A, each sorted by column, duplicates kept, values travelling along
SortOK(A, S) ==
    /\ S.n = A.n /\ S.m = A.m /\ S.ptr = A.ptr /\ WellFormed(S)
    /\ \A i \in Rows(A) :
        /\ \A p \in RowPos(S, i) : (p + 1) \in RowPos(S, i) => S.col[p] <= S.col[p + 1]
        /\ ToBag(RowSeq(S, i)) = ToBag(RowSeq(A, i))
=============================================================================
