------------------------------ MODULE C05Trace ------------------------------
(* Trace spec for C05: the iterates x_k returned by the real solvers with maxiter = k *)
(* (harness/record_krylov.cpp) are judged                                             *)
(*   tiny    against the exact-rational definitions of KrylovRef (the same operators   *)
(*           the model KrylovProgModel uses as the invariant ProgMatchesRef);          *)
(*   ref     by the recorded distance to an independent long-double reference run;     *)
(*   cgopt / minres / term   by the measured defining properties.                      *)
(* Distances are millidecades (round(1000 log10)); `cond` is the 2-norm condition      *)
(* number of the (preconditioned) operator in millidecades: bounds scale with it.      *)
EXTENDS TraceKit, KrylovRef

\* bounds are given as positive magnitudes XNeg (TLC configuration files have no negative literals): X = -XNeg
CONSTANTS TinyErrNeg,      \* rational reconstruction error of a tiny-system iterate
          QMax,         \* denominators the recorder can reconstruct
          BiBound,      \* size guard of the BiCGStab reference recurrence (32-bit integers)
          RefBoundNeg,     \* ||x_k - xref_k|| / ||x*||  <= 10^(RefBoundNeg/1000) * cond
          OptBoundNeg,     \* optimality / orthogonality defects
          TermBoundNeg     \* residual after n (+ n/s) iterations

VARIABLES l, bad

\* ---------------------------------------------------------------- tiny systems
Mat2(v) == << <<v[1], v[2]>>, <<v[3], v[4]>> >>
TSide(m) == IF m \in {"bicgstab.left", "gmres.left.1", "gmres.left.K"} THEN "left" ELSE "right"
TinyRef(r) ==
    LET A == RMat(Mat2(r.A))  P == RMat(Mat2(r.P))  f == RVec(r.f)  x0 == RVec(r.x0)
    IN  CASE r.m = "cg" -> [x |-> CGRef(A, P, f, x0, r.kk), def |-> TRUE, big |-> FALSE]
          [] r.m \in {"bicgstab.left", "bicgstab.right"} -> BiCGStabRef(A, P, f, x0, r.kk, TSide(r.m), BiBound)
          [] r.m = "richardson" -> [x |-> RichardsonRef(A, P, f, x0, r.kk, ROne), def |-> TRUE, big |-> FALSE]
          [] r.m = "richardson.half" -> [x |-> RichardsonRef(A, P, f, x0, r.kk, <<1, 2>>), def |-> TRUE, big |-> FALSE]
          [] OTHER -> [x |-> GmresRef(A, P, f, x0, r.kk, r.M, TSide(r.m)), def |-> TRUE, big |-> FALSE]
TinyMethods == {"cg", "bicgstab.left", "bicgstab.right", "richardson", "richardson.half", "gmres.left.K", "gmres.right.1",
                "gmres.left.1", "gmres.right.K", "fgmres.K", "fgmres.1"}
TinyClauses(r) ==
    LET wf  == /\ \A f \in {"m", "kk", "M", "A", "P", "f", "x0"} : Has(r, f)
               /\ r.m \in TinyMethods /\ Len(r.A) = 4 /\ Len(r.P) = 4 /\ Len(r.f) = 2 /\ Len(r.x0) = 2
        ref == TinyRef(r)
        judged == wf /\ ~ref.big /\ ref.def /\ VSize(ref.x) <= QMax
        got == wf /\ ~Has(r, "exc") /\ Has(r, "nan") /\ r.nan = 0 /\ Has(r, "xp") /\ Has(r, "xq") /\ Has(r, "err")
    IN  <<  <<"wellformed", wf>>,
            \* where the definition has an iterate the solver must deliver one (no exception, no NaN) ...
            <<"iterate-exists", judged => got>>,
            \* ... and it is the defined rational (reconstructed from the double within (-TinyErrNeg))
            <<"iterate=definition", (judged /\ got) =>
                  /\ r.err <= (-TinyErrNeg)
                  /\ \A i \in 1..2 : Norm(r.xp[i], r.xq[i]) = ref.x[i]>> >>

\* ------------------------------------------------------- reference comparison
AllLe(s, b)  == \A i \in 1..Len(s) : s[i] <= b
RefClauses(r) ==
    LET wf == \A f \in {"method", "side", "vt", "n", "cond", "err", "it", "nref", "nexc", "nnan",
                         "errA", "errB", "nref2", "rexc", "rnan"} : Has(r, f)
    IN  <<  <<"wellformed", wf>>,
            <<"an-iterate-for-every-k", wf => (r.nexc = 0 /\ r.nnan = 0 /\ Len(r.err) = r.nref)>>,
            <<"iterates=reference", wf => AllLe(r.err, (-RefBoundNeg) + r.cond)>>,
            \* one solver object used for every k and for two systems in turn: errA = the system above,
            \* errB = a second right-hand side and initial guess (own reference run)
            <<"reused-object-an-iterate-for-every-k", wf => (r.rexc = 0 /\ r.rnan = 0 /\ Len(r.errA) = r.nref2 /\ Len(r.errB) = r.nref2)>>,
            <<"reused-object-iterates=reference", wf => (AllLe(r.errA, (-RefBoundNeg) + r.cond) /\ AllLe(r.errB, (-RefBoundNeg) + r.cond))>>,
            <<"maxiter-honoured", wf => \A i \in 1..Len(r.it) : r.it[i] <= i>> >>

\* BiCGStab(L) with reliable updates (delta > 0) against the same solver with delta = 0
DeltaClauses(r) ==
    LET wf == \A f \in {"method", "side", "vt", "cond", "err", "want", "nexc", "nnan", "delta"} : Has(r, f)
    IN  <<  <<"wellformed", wf>>,
            <<"reliable-update-an-iterate-for-every-k", wf => (r.nexc = 0 /\ r.nnan = 0 /\ Len(r.err) = r.want)>>,
            <<"reliable-update-iterates=plain-iterates", wf => AllLe(r.err, (-RefBoundNeg) + r.cond)>> >>

\* one object: a call ended by the method's own breakdown exception, then x_k against fresh objects
AfterBrkClauses(r) ==
    LET wf == \A f \in {"method", "vt", "cond", "err", "want", "nexc", "nnan", "thrown"} : Has(r, f)
    IN  <<  <<"wellformed", wf>>,
            <<"after-own-breakdown-an-iterate-for-every-k", wf => (r.nexc = 0 /\ r.nnan = 0 /\ Len(r.err) = r.want)>>,
            <<"iterates-after-own-breakdown=fresh-object-iterates", wf => AllLe(r.err, (-RefBoundNeg) + r.cond)>> >>

CgClauses(r) ==
    LET wf == \A f \in {"gap", "orth", "cond", "dim"} : Has(r, f)
    IN  <<  <<"wellformed", wf>>,
            <<"cg-every-k", wf => Len(r.gap) = r.dim>>,
            <<"cg=A-norm-minimiser", wf => AllLe(r.gap, (-OptBoundNeg) + r.cond)>>,
            <<"cg-galerkin-orthogonality", wf => AllLe(r.orth, (-OptBoundNeg) + r.cond)>> >>

MinresClauses(r) ==
    LET wf == \A f \in {"gap", "orth", "inc", "cond", "dim", "nbad"} : Has(r, f)
    IN  <<  <<"wellformed", wf>>,
            <<"minres-every-k", wf => (r.nbad = 0 /\ Len(r.gap) = r.dim)>>,
            <<"residual-minimal", wf => AllLe(r.gap, (-OptBoundNeg) + r.cond)>>,
            <<"residual-orthogonal-to-B-K", wf => AllLe(r.orth, (-OptBoundNeg) + r.cond)>>,
            <<"reported-residual-non-increasing", wf => r.inc <= (-OptBoundNeg)>> >>

TermClauses(r) ==
    LET wf == \A f \in {"method", "vt", "prec", "budget", "cond", "L"} : Has(r, f)
        got == wf /\ ~Has(r, "exc") /\ Has(r, "nan") /\ r.nan = 0 /\ Has(r, "tru") /\ Has(r, "it")
        bnd == (-TermBoundNeg)
    IN  <<  <<"wellformed", wf>>,
            <<"terminates-without-failure", wf => got>>,
            <<"solution-within-n-iterations", got => r.tru <= bnd + r.cond>>,
            <<"budget", got => r.it <= r.budget + (IF r.method = "bicgstabl" THEN r.L - 1 ELSE 0)>> >>

Failed(r) == IF Has(r, "e") THEN (IF r.e = "End" THEN <<>> ELSE <<"recorder:" \o r.e>>)
             ELSE IF ~Has(r, "k") THEN <<"unknown-record">>
             ELSE CASE r.k = "tiny"   -> FailedOf(TinyClauses(r))
                    [] r.k = "ref"    -> FailedOf(RefClauses(r))
                    [] r.k = "delta"  -> FailedOf(DeltaClauses(r))
                    [] r.k = "afterbrk" -> FailedOf(AfterBrkClauses(r))
                    [] r.k = "cgopt"  -> FailedOf(CgClauses(r))
                    [] r.k = "minres" -> FailedOf(MinresClauses(r))
                    [] r.k = "term"   -> FailedOf(TermClauses(r))
                    [] r.k = "tinycount" -> <<>>
                    [] OTHER -> <<"unknown-record">>

TInit == l = 1 /\ bad = <<>>
TNext == /\ l <= NLog /\ l' = l + 1
         /\ LET f == Failed(Log[l]) IN bad' = IF f = <<>> THEN bad ELSE Append(bad, <<l, f>>)
Verdict == (l = NLog + 1) => VerdictLine(l, bad)
=============================================================================
