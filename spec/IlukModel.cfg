CONSTANTS
  N = 5
  NOff = 5
  K = 1
  Lazy = FALSE
INIT Init
NEXT Next
INVARIANTS IlukInv SameAsDefinition
CHECK_DEADLOCK FALSE
