CONSTANTS
  N = 3
  M = 3
  MinNP = 1
  MaxNP = 2
  SamePart = TRUE
  MaskStride = 1
  MaskOff = 0
INIT Init
NEXT Next
INVARIANTS SplitInv PatternInv GhostInv DistSpmvInv ScalarsInv NoErrInv LogInv
CHECK_DEADLOCK TRUE
