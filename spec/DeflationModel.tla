--------------------------- MODULE DeflationModel ---------------------------
(* 3 x 3 matrices (diagonal 3/4, PatVal elsewhere, every pattern with a full        *)
(* diagonal), every pair / single of deflation vectors with entries in {0, 1, -1}   *)
(* taken from a fixed family, right-hand sides and start vectors unit vectors.      *)
EXTENDS Deflation, Patterns, TLC
CONSTANTS KStride,         \* every KStride-th matrix pattern (1 = all 64 patterns with a full diagonal)
          MirrorE          \* FALSE: E as the code builds it; TRUE: upper triangle mirrored (must violate EInv)
VARIABLES km, zs, aa, zz, ee, ei, pc
Zfam == << <<1, 1, 1>>, <<1, 0, 0>>, <<0, 1, -1>>, <<1, -1, 0>>, <<0, 0, 1>> >>
AOf(m) == [i \in 1..3 |-> [j \in 1..3 |-> IF i = j THEN R(3 + (i % 2)) ELSE IF Bit(m, (i - 1) * 3 + j - 1) THEN R(PatVal(i - 1, j - 1, 1)) ELSE RZero]]
ZOf(s) == [k \in 1..Len(s) |-> RV(Zfam[s[k]])]
\* the matrix, the vectors, E and its inverse are computed once per configuration
Init == /\ km \in {k \in Masks(3, 3) : HasDiag(3, k) /\ (k \div 2) % KStride = 0}
        /\ zs \in {<<a>> : a \in 1..5} \cup {<<a, b>> : a \in 1..5, b \in 1..5} \cup {<<1, 2, 3>>, <<2, 3, 5>>}
        /\ aa = AOf(km) /\ zz = ZOf(zs) /\ ee = (IF MirrorE THEN EMirrored(aa, zz) ELSE ERun(aa, zz))
        /\ ei = IF Regular(ee) /\ Regular(aa) THEN InverseM(ee) ELSE <<>>
        /\ pc = "init"
Next == pc = "init" /\ pc' = "project" /\ UNCHANGED <<km, zs, aa, zz, ee, ei>>
EInv == pc = "init" => MEq(ee, EDef(aa, zz))
ProjInv == (pc = "project" /\ ei # <<>>) =>
    /\ \A jb \in 1..3 : \A jx \in 0..3 :
          DeflationOrthogonalOK(aa, zz, UnitV(3, jb), ProjectRun(aa, zz, ei, UnitV(3, jb), IF jx = 0 THEN ZeroV(3) ELSE UnitV(3, jx)))
    /\ \A jb \in 1..3 : SolutionFixedOK(aa, zz, ei, UnitV(3, jb))
    \* apply = P then project, for a diagonal scaling as P
    /\ \A jb \in 1..3 : DeflationOrthogonalOK(aa, zz, UnitV(3, jb), DeflApply(aa, zz, ei, LAMBDA v : VScaleR(<<1, 3>>, v), UnitV(3, jb)))
=============================================================================
