--------------------------- MODULE DeflationModel ---------------------------
(* 3 x 3 matrices (diagonal 3/4, PatVal elsewhere, every pattern with a full        *)
(* diagonal), every pair / single of deflation vectors with entries in {0, 1, -1}   *)
(* taken from a fixed family, right-hand sides and start vectors unit vectors.      *)
EXTENDS Deflation, Patterns, TLC
VARIABLES km, zs, pc
Zfam == << <<1, 1, 1>>, <<1, 0, 0>>, <<0, 1, -1>>, <<1, -1, 0>>, <<0, 0, 1>> >>
A == [i \in 1..3 |-> [j \in 1..3 |-> IF i = j THEN R(3 + (i % 2)) ELSE IF Bit(km, (i - 1) * 3 + j - 1) THEN R(PatVal(i - 1, j - 1, 1)) ELSE RZero]]
Z == [k \in 1..Len(zs) |-> RV(Zfam[zs[k]])]
Init == /\ km \in {k \in Masks(3, 3) : HasDiag(3, k)}
        /\ zs \in {<<a>> : a \in 1..5} \cup {<<a, b>> : a \in 1..5, b \in 1..5} \cup {<<1, 2, 3>>, <<2, 3, 5>>}
        /\ pc = "init"
Next == pc = "init" /\ pc' = "project" /\ UNCHANGED <<km, zs>>
E == ERun(A, Z)
Ok == Regular(E) /\ Regular(A)
EInv == pc = "init" => EOK(A, Z)
ProjInv == (pc = "project" /\ Ok) =>
    LET Ei == InverseM(E)
    IN  /\ \A jb \in 1..3 : \A jx \in 0..3 :
              DeflationOrthogonalOK(A, Z, UnitV(3, jb), ProjectRun(A, Z, Ei, UnitV(3, jb), IF jx = 0 THEN ZeroV(3) ELSE UnitV(3, jx)))
        /\ \A jb \in 1..3 : SolutionFixedOK(A, Z, Ei, UnitV(3, jb))
        \* apply = P then project, for P = 0 and P = a diagonal scaling
        /\ \A jb \in 1..3 : DeflationOrthogonalOK(A, Z, UnitV(3, jb), DeflApply(A, Z, Ei, LAMBDA v : VScaleR(<<1, 3>>, v), UnitV(3, jb)))
=============================================================================
