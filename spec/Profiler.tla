------------------------------ MODULE Profiler ------------------------------
(* amgcl::profiler<Counter> (amgcl/profiler.hpp) as a state machine.                 *)
(* The object keeps a tree of named intervals ("units"); tic(name) opens the child  *)
(* `name` of the innermost open unit, toc() closes the innermost open unit and adds *)
(* the elapsed counter value to its length, reset() forgets everything.  The only   *)
(* observations the class offers are the value returned by toc() and the printed    *)
(* report (operator<<), so the report is the projection the conformance check       *)
(* compares after every step.                                                       *)
(*                                                                                  *)
(* State (a record, so that the same operators serve the model and the trace spec): *)
(*   clock  the counter (the harness uses an integer counter it controls)           *)
(*   rb,rl  begin and length of the root unit                                       *)
(*   units  path (sequence of names) -> [b |-> begin, len |-> accumulated length]   *)
(*   stack  path of the innermost open unit (<<>> = only the root is open)          *)
(*   delta  value returned by the last toc(), -1 if the last step was not a toc     *)
EXTENDS Naturals, Integers, Sequences, TLC

Front(s) == SubSeq(s, 1, Len(s) - 1)
Last(s)  == s[Len(s)]

P0 == [clock |-> 0, rb |-> 0, rl |-> 0, units |-> <<>>, stack |-> <<>>, delta |-> -1]
\* `units` is a function whose domain is a set of paths; the empty function is <<>>.

Known(s, p) == p \in DOMAIN s.units

PAdv(s, d) == [s EXCEPT !.clock = @ + d, !.delta = -1]

PTic(s, n) ==
    LET p == Append(s.stack, n)
    IN  [s EXCEPT !.units = IF Known(s, p) THEN [@ EXCEPT ![p].b = s.clock]
                                           ELSE @ @@ (p :> [b |-> s.clock, len |-> 0]),
                  !.stack = p, !.delta = -1]

CanToc(s) == s.stack # <<>>
PToc(s) ==
    LET p == s.stack
        d == s.clock - s.units[p].b
    IN  [s EXCEPT !.units = [@ EXCEPT ![p].len = @ + d],
                  !.rl = s.clock - s.rb, !.stack = Front(p), !.delta = d]

PReset(s) == [s EXCEPT !.units = <<>>, !.stack = <<>>, !.rl = 0, !.rb = s.clock, !.delta = -1]

\* scoped_tic(name): a tic, whatever the scope does (here: d ticks of the counter), toc in the destructor
PScoped(s, n, d) == PToc(PAdv(PTic(s, n), d))

--------------------------------------------------------------------------------
(* The report.  Children are printed in the order of std::map<std::string,...>,     *)
(* i.e. sorted by name: Order is the sorted sequence of all names in use.           *)
RECURSIVE ChildTimeFrom(_, _, _, _)
ChildTimeFrom(s, p, Order, k) ==
    IF k > Len(Order) THEN 0
    ELSE (IF Known(s, Append(p, Order[k])) THEN s.units[Append(p, Order[k])].len ELSE 0)
         + ChildTimeFrom(s, p, Order, k + 1)
ChildTime(s, p, Order) == ChildTimeFrom(s, p, Order, 1)
HasChild(s, p, Order)  == \E k \in 1..Len(Order) : Known(s, Append(p, Order[k]))

LenOf(s, p) == IF p = <<>> THEN s.rl ELSE s.units[p].len

\* "self" line: printed iff the unit has children and 100*(len - children)/total > 0.1
SelfShown(s, p, Order) == HasChild(s, p, Order) /\ 1000 * (LenOf(s, p) - ChildTime(s, p, Order)) > s.rl

RECURSIVE RepUnit(_, _, _, _), RepKids(_, _, _, _, _)
RepUnit(s, p, Order, title) ==
    <<[lvl |-> 2 * Len(p), name |-> IF p = <<>> THEN title ELSE Last(p), len |-> LenOf(s, p)]>>
    \o (IF SelfShown(s, p, Order)
        THEN <<[lvl |-> 2 * Len(p) + 1, name |-> "self", len |-> LenOf(s, p) - ChildTime(s, p, Order)]>>
        ELSE <<>>)
    \o RepKids(s, p, Order, title, 1)
RepKids(s, p, Order, title, k) ==
    IF k > Len(Order) THEN <<>>
    ELSE (IF Known(s, Append(p, Order[k])) THEN RepUnit(s, Append(p, Order[k]), Order, title) ELSE <<>>)
         \o RepKids(s, p, Order, title, k + 1)

Report(s, Order, title) == RepUnit(s, <<>>, Order, title)
Incomplete(s) == s.stack # <<>>                     \* "Warning! Profile is incomplete."

--------------------------------------------------------------------------------
(* What a user relies on.                                                            *)
Closed(s, p) == ~(\E k \in 1..Len(s.stack) : SubSeq(s.stack, 1, k) = p)
\* a closed unit never reports less time than its children together (self time >= 0)
SelfTimeNonNegative(s, Order) ==
    \A p \in DOMAIN s.units : Closed(s, p) => s.units[p].len >= ChildTime(s, p, Order)
\* once everything is closed, the root covers all top-level units
RootCovers(s, Order) == (s.stack = <<>>) => s.rl >= ChildTime(s, <<>>, Order)
\* the open path exists, and every known unit's parent is known
TreeShape(s) == /\ (s.stack # <<>> => Known(s, s.stack))
                /\ \A p \in DOMAIN s.units : Len(p) > 1 => Known(s, Front(p))
DeltaOK(s) == s.delta >= -1
=============================================================================
