------------------------------ MODULE Deflation ------------------------------
(* amgcl/deflated_solver.hpp transcribed: E = Z^T A Z accumulated row by row,       *)
(* inverted once, and the projection  x += Z E^-1 Z^T (b - A x)  applied before the *)
(* Krylov solve and after every preconditioner application.                         *)
(* A: dense rational n x n, Z: sequence of nvec vectors of length n.                *)
EXTENDS BlockLin

\* init(): AZ[j] = (A z_j)[i] per row i; E[ii][jj] += z_ii[i] * AZ[jj]
ERun(A, Z) ==
    LET nv == Len(Z)
        n  == Len(A)
        row(i) == [jj \in 1..nv |-> Dot(A[i], Z[jj])]
    IN  [ii \in 1..nv |-> [jj \in 1..nv |-> SumTo([i \in 1..n |-> RMul(Z[ii][i], row(i)[jj])], n)]]
\* a variant that only accumulates the upper triangle and mirrors it (right for symmetric A only);
\* not what the code does - DeflationModel uses it to show that EInv / ProjInv tell the difference
EMirrored(A, Z) == LET E == ERun(A, Z) IN [ii \in 1..Len(Z) |-> [jj \in 1..Len(Z) |-> IF jj >= ii THEN E[ii][jj] ELSE E[jj][ii]]]
EDef(A, Z) == LET nv == Len(Z) IN [ii \in 1..nv |-> [jj \in 1..nv |-> Dot(Z[ii], MV(A, Z[jj]))]]       \* Z^T A Z
\* project(b, x):  r = b - A x;  d[i] = sum_j Einv[i][j] * <z_j, r>;  x += sum_i d[i] z_i
ProjectRun(A, Z, Einv, b, x) ==
    LET nv == Len(Z)
        r  == VSubR(b, MV(A, x))
        f  == [j \in 1..nv |-> Dot(Z[j], r)]
        d  == MV(Einv, f)
    IN  [k \in 1..Len(x) |-> RAdd(x[k], SumTo([i \in 1..nv |-> RMul(d[i], Z[i][k])], nv))]
\* apply(rhs, x): x = P rhs, then project
DeflApply(A, Z, Einv, papply(_), rhs) == ProjectRun(A, Z, Einv, rhs, papply(rhs))

EOK(A, Z) == MEq(ERun(A, Z), EDef(A, Z))
\* after the projection the residual is orthogonal to every deflation vector
DeflationOrthogonalOK(A, Z, b, x1) == \A j \in 1..Len(Z) : IsZero(Dot(Z[j], VSubR(b, MV(A, x1))))
\* the projection leaves the solution of the original system where it is
SolutionFixedOK(A, Z, Einv, b) == LET xs == Solve(A, b).x IN VEq(ProjectRun(A, Z, Einv, b, xs), xs)
=============================================================================
