CONSTANTS
  Order <- OrderAB
  MaxSteps = 6
  MaxDepth = 3
  Steps = {1, 3, 1200}
SPECIFICATION Spec
INVARIANTS NoSelfLine
CHECK_DEADLOCK FALSE
