-------------------------------- MODULE Schur --------------------------------
(* amgcl/preconditioner/schur_pressure_correction.hpp transcribed:                  *)
(*  - pmask -> index maps (idx[i] = np++ / nu++) and the four sub-blocks Kuu, Kup,  *)
(*    Kpu, Kpp in the order the code fills them (rows in order, entries in row      *)
(*    order), the gather / scatter maps x2u, x2p, u2x, p2x;                          *)
(*  - Kuu_dia (simplec_dia or inverted diagonal), the adjust_p variants of the      *)
(*    matrix handed to PSolver, Ld / Lm;                                            *)
(*  - the matrix-free Schur complement  spmv  exactly as written;                   *)
(*  - apply() for type 1 and type 2 as the sequence of operations of the code, with *)
(*    the inner solves as parameters (operators USolve(rhs), PSolve(rhs));          *)
(*  - the pmask_pattern mini-parser "%start:stride", "<m", ">m" as written          *)
(*    (ColonParse = FALSE: fixed substring offsets) or repaired (TRUE).             *)
(* K is a CRS record of integers (Crs.tla), pm a sequence of 0/1, vectors are       *)
(* sequences of rationals (BlockLin.tla).                                           *)
EXTENDS Crs, BlockLin

CONSTANTS ColonParse,     \* pmask_pattern: FALSE = as written (fixed offsets), TRUE = parse at the colon
          AdjustFix       \* adjust_p = 1: FALSE = as written (Ld kept although Kpp has no stored diagonal entry), TRUE = repaired

\* ------------------------------------------------------------ partition of unknowns
N(pm)   == Len(pm)
IsP(pm, i) == pm[i + 1] = 1                                       \* i 0-based
Cnt(pm, c) == Cardinality({k \in 1..Len(pm) : pm[k] = c})
NP(pm)  == Cnt(pm, 1)
NU(pm)  == Cnt(pm, 0)
Idx(pm, i) == Cardinality({k \in 1..i : pm[k] = pm[i + 1]})       \* idx[i], 0-based i
\* the rows of one class in order: sequence of the 0-based global indices
Members(pm, c) == SelectSeq([k \in 1..Len(pm) |-> k - 1], LAMBDA i : pm[i + 1] = c)

\* Sub-block of rows of class ci and columns of class cj, filled as the second pass does
Block(K, pm, ci, cj) ==
    LET rows == Members(pm, ci)
    IN  FromRows(Len(rows), Cnt(pm, cj),
                 [r \in 1..Len(rows) |->
                     LET sel == SelectSeq(RowSeq(K, rows[r]), LAMBDA e : pm[e[1] + 1] = cj)
                     IN  [q \in 1..Len(sel) |-> <<Idx(pm, sel[q][1]), sel[q][2]>>]])
Kuu(K, pm) == Block(K, pm, 0, 0)
Kup(K, pm) == Block(K, pm, 0, 1)
Kpu(K, pm) == Block(K, pm, 1, 0)
Kpp(K, pm) == Block(K, pm, 1, 1)

\* gather / scatter
X2U(pm, x) == [r \in 1..NU(pm) |-> x[Members(pm, 0)[r] + 1]]
X2P(pm, x) == [r \in 1..NP(pm) |-> x[Members(pm, 1)[r] + 1]]
UP2X(pm, u, p) == [k \in 1..Len(pm) |-> IF pm[k] = 1 THEN p[Idx(pm, k - 1) + 1] ELSE u[Idx(pm, k - 1) + 1]]

\* the u/p blocks put back give K (entry for entry, nothing lost, nothing invented)
ReassembleOK(K, pm, uu, up, pu, pp) ==
    LET blk(ci, cj) == IF ci = 0 THEN (IF cj = 0 THEN uu ELSE up) ELSE (IF cj = 0 THEN pu ELSE pp)
    IN  /\ WellFormed(uu) /\ WellFormed(up) /\ WellFormed(pu) /\ WellFormed(pp)
        /\ uu.n = NU(pm) /\ uu.m = NU(pm) /\ up.n = NU(pm) /\ up.m = NP(pm)
        /\ pu.n = NP(pm) /\ pu.m = NU(pm) /\ pp.n = NP(pm) /\ pp.m = NP(pm)
        /\ NNZ(uu) + NNZ(up) + NNZ(pu) + NNZ(pp) = NNZ(K)
        /\ \A i \in Rows(K) : \A j \in 0..(K.m - 1) :
              At(K, i, j) = At(blk(pm[i + 1], pm[j + 1]), Idx(pm, i), Idx(pm, j))

\* ---------------------------------------------------------------- dense views
DenseR(A) == [i \in 1..A.n |-> [j \in 1..A.m |-> R(At(A, i - 1, j - 1))]]
HasDiag(A, i) == i \in RowCols(A, i)

\* Kuu_dia: 1 / sum_j |Kuu_ij| (simplec_dia) or the inverted diagonal (zero -> 1)
RowAbsSum(A, i) == FoldLeft(LAMBDA acc, p : acc + Abs(A.val[p]), 0, [q \in 1..RowLen(A, i) |-> Ptr(A, i) + q])
UDia(uu, simplec) ==
    [r \in 1..uu.n |-> IF simplec THEN RInv(R(RowAbsSum(uu, r - 1)))
                       ELSE IF At(uu, r - 1, r - 1) = 0 THEN ROne ELSE RInv(R(At(uu, r - 1, r - 1)))]
\* the diagonal has to be meaningful for the variant in use
DiaDefined(uu, simplec) ==
    \A r \in 0..(uu.n - 1) : IF simplec THEN RowAbsSum(uu, r) # 0 ELSE HasDiag(uu, r)

\* L[i] = sum over j in row i of Kpu of  Kpu_ij * dia_j * Kup_ji  (first stored Kup_ji)
LdOf(up, pu, dia) ==
    [i \in 1..pu.n |->
        SumTo([q \in 1..RowLen(pu, i - 1) |->
                  LET k == pu.col[Ptr(pu, i - 1) + q]
                      v == pu.val[Ptr(pu, i - 1) + q]
                      hits == SelectSeq(RowSeq(up, k), LAMBDA e : e[1] = i - 1)
                  IN  IF hits = <<>> THEN RZero ELSE RMul(RMul(R(v), dia[k + 1]), R(hits[1][2]))],
              RowLen(pu, i - 1))]

\* state built by init():  the dense matrix handed to PSolver (Pm), Ld, Lm
\* adjust_p = 1: the stored diagonal entry of Kpp is reduced by L[i] -- only if it is stored
Setup(K, pm, adjust, simplec) ==
    LET uu == Kuu(K, pm)
        up == Kup(K, pm)
        pu == Kpu(K, pm)
        pp == Kpp(K, pm)
        dia == UDia(uu, simplec)
        L0  == LdOf(up, pu, dia)
        L   == [i \in 1..pp.n |-> IF AdjustFix /\ ~HasDiag(pp, i - 1) THEN RZero ELSE L0[i]]
        Dpp == DenseR(pp)
        np  == pp.n
        Pm  == IF adjust = 1
               THEN [i \in 1..np |-> [j \in 1..np |-> IF i = j /\ HasDiag(pp, i - 1) THEN RSub(Dpp[i][j], L[i]) ELSE Dpp[i][j]]]
               ELSE IF adjust = 2
               THEN MSubR(Dpp, MM(DenseR(pu), [r \in 1..uu.n |-> VScaleR(dia[r], DenseR(up)[r])], np))
               ELSE Dpp
    IN  [uu |-> uu, up |-> up, pu |-> pu, pp |-> pp, dia |-> dia, Ld |-> L, Lm |-> Dpp, Pm |-> Pm,
         Duu |-> DenseR(uu), Dup |-> DenseR(up), Dpu |-> DenseR(pu), Dpp |-> Dpp, adjust |-> adjust]

\* spmv(alpha = 1, x, beta = 0, y): y = S x as written; usolve(v) is what (*U)(tmp, u) returns
SpmvRun(st, approx, usolve(_), x) ==
    LET base == IF st.adjust = 1 THEN VAddR(MV(st.Pm, x), VMulR(st.Ld, x))
                ELSE IF st.adjust = 2 THEN MV(st.Lm, x)
                ELSE MV(st.Pm, x)
        tmp  == MV(st.Dup, x)
        u    == IF approx THEN VMulR(st.dia, tmp) ELSE usolve(tmp)
    IN  VSubR(base, MV(st.Dpu, u))

\* apply(rhs, x) as the sequence of operations of the code; returns the op record
ApplyRun(st, pm, type, usolve(_), psolve(_), rhs) ==
    LET fu == X2U(pm, rhs)
        fp == X2P(pm, rhs)
    IN  IF type = 1
        THEN LET u1  == usolve(fu)
                 rp  == VSubR(fp, MV(st.Dpu, u1))
                 p   == psolve(rp)
                 ru  == VSubR(fu, MV(st.Dup, p))
                 u2  == usolve(ru)
             IN  [rhsU |-> <<fu, ru>>, rhsP |-> <<rp>>, x |-> UP2X(pm, u2, p)]
        ELSE LET p   == psolve(fp)
                 ru  == VSubR(fu, MV(st.Dup, p))
                 u   == usolve(ru)
             IN  [rhsU |-> <<ru>>, rhsP |-> <<fp>>, x |-> UP2X(pm, u, p)]

\* the same program when the inner solves answer u1, u2 (type 2: u2 only) and p, whatever they are asked
ApplyScripted(Dup, Dpu, pm, type, u1, u2, p, rhs) ==
    LET fu == X2U(pm, rhs)
        fp == X2P(pm, rhs)
    IN  IF type = 1 THEN [rhsU |-> <<fu, VSubR(fu, MV(Dup, p))>>, rhsP |-> <<VSubR(fp, MV(Dpu, u1))>>, x |-> UP2X(pm, u2, p)]
        ELSE [rhsU |-> <<VSubR(fu, MV(Dup, p))>>, rhsP |-> <<fp>>, x |-> UP2X(pm, u2, p)]

\* ---------------------------------------------------------------- exact inner solves
ExactU(st, v) == Solve(st.Duu, v).x
\* the Schur operator as a dense matrix (column j = spmv of the j-th unit vector)
SDense(st, approx) == LET np == Len(st.Dpp) IN Transp([j \in 1..np |-> SpmvRun(st, approx, LAMBDA v : ExactU(st, v), UnitV(np, j))], np)
\* definition of the Schur complement:  Kpp - Kpu Kuu^-1 Kup,  or with dia(Kuu)^-1 when approx_schur
SDef(st, approx) ==
    LET np == Len(st.Dpp)
        nu == Len(st.Duu)
        inv == IF approx THEN [r \in 1..nu |-> [c \in 1..nu |-> IF r = c THEN st.dia[r] ELSE RZero]] ELSE InverseM(st.Duu)
    IN  IF nu = 0 THEN st.Dpp ELSE MSubR(st.Dpp, MM(st.Dpu, MM(inv, st.Dup, np), np))
\* the operator spmv realises is the Schur complement, whatever adjust_p is
SchurOpOK(st, approx) == MEq(SDense(st, approx), SDef(st, approx))

KDense(K) == DenseR(K)
\* type 1 with exact inner solves is the exact inverse: apply(K e_j) = e_j for every j
Type1ExactInverse(K, pm, st) ==
    LET S == SDense(st, FALSE)
    IN  \A j \in 1..K.n : VEq(ApplyRun(st, pm, 1, LAMBDA v : ExactU(st, v), LAMBDA v : Solve(S, v).x, Col(KDense(K), j)).x, UnitV(K.n, j))
\* type 2 solves  [Kuu Kup; 0 S] (u, p) = (fu, fp)  exactly
Type2UpperOK(K, pm, st) ==
    LET S == SDense(st, FALSE)
    IN  \A j \in 1..K.n :
           LET f == UnitV(K.n, j)
               x == ApplyRun(st, pm, 2, LAMBDA v : ExactU(st, v), LAMBDA v : Solve(S, v).x, f).x
               u == X2U(pm, x)
               p == X2P(pm, x)
           IN  /\ VEq(VAddR(MV(st.Duu, u), MV(st.Dup, p)), X2U(pm, f))
               /\ VEq(MV(SDef(st, FALSE), p), X2P(pm, f))
Solvable(st) == (Len(st.Duu) = 0 \/ Regular(st.Duu)) /\ Regular(SDef(st, FALSE))

\* ------------------------------------------------------------------ pmask_pattern
\* a pattern is a sequence of character codes; Digit / Atoi as in the C library
IsDigit(c) == c >= 48 /\ c <= 57
RECURSIVE AtoiFrom(_, _, _)
AtoiFrom(s, k, acc) == IF k <= Len(s) /\ IsDigit(s[k]) THEN AtoiFrom(s, k + 1, acc * 10 + (s[k] - 48)) ELSE acc
Atoi(s, k) == AtoiFrom(s, k, 0)                 \* atoi(s.c_str() + (k - 1)); no sign, no blanks in our patterns
PosOf(s, c) == IF \E k \in 1..Len(s) : s[k] = c THEN CHOOSE k \in 1..Len(s) : s[k] = c /\ \A q \in 1..(k - 1) : s[q] # c ELSE 0
\* result: [st |-> "ok", mask] | [st |-> "hang"] | [st |-> "exc"]
MaskOf(n, set) == [k \in 1..n |-> IF (k - 1) \in set THEN 1 ELSE 0]
PatternParse(s, n) ==
    IF Len(s) = 0 THEN [st |-> "exc", mask |-> <<>>]
    ELSE IF s[1] = 37 THEN                                          \* '%'
        IF ~ColonParse /\ Len(s) < 3 THEN [st |-> "exc", mask |-> <<>>]          \* substr(3): out_of_range
        ELSE LET start  == Atoi(s, 2)                               \* substr(1)
                 stride == IF ColonParse THEN (IF PosOf(s, 58) = 0 THEN 0 ELSE Atoi(s, PosOf(s, 58) + 1))
                           ELSE Atoi(s, 4)                          \* substr(3)
             IN  IF ColonParse /\ stride <= 0 THEN [st |-> "exc", mask |-> <<>>]
                 ELSE IF stride = 0 /\ start < n THEN [st |-> "hang", mask |-> <<>>]
                 ELSE [st |-> "ok", mask |-> MaskOf(n, {i \in 0..(n - 1) : i >= start /\ (stride > 0 => (i - start) % stride = 0)})]
    ELSE IF s[1] = 60 THEN [st |-> "ok", mask |-> MaskOf(n, {i \in 0..(n - 1) : i < Atoi(s, 2)})]        \* '<'
    ELSE IF s[1] = 62 THEN [st |-> "ok", mask |-> MaskOf(n, {i \in 0..(n - 1) : i >= Atoi(s, 2)})]       \* '>'
    ELSE [st |-> "exc", mask |-> <<>>]
\* documented meaning of "%n:m": every (n + i*m)-th variable is a pressure;  "<m": the first m;  ">m": from m on
PatternMeaning(kind, a, b, n) ==
    IF kind = 37 THEN MaskOf(n, {i \in 0..(n - 1) : i >= a /\ (i - a) % b = 0})
    ELSE IF kind = 60 THEN MaskOf(n, {i \in 0..(n - 1) : i < a})
    ELSE MaskOf(n, {i \in 0..(n - 1) : i >= a})
RECURSIVE Digits(_)
Digits(v) == IF v < 10 THEN <<48 + v>> ELSE Digits(v \div 10) \o <<48 + (v % 10)>>
PatternText(kind, a, b) == IF kind = 37 THEN <<37>> \o Digits(a) \o <<58>> \o Digits(b) ELSE <<kind>> \o Digits(a)
PatternOK(kind, a, b, n, res) == res.st = "ok" /\ res.mask = PatternMeaning(kind, a, b, n)
=============================================================================
