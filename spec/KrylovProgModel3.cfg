CONSTANTS
  N = 3
  AMax = 1
  AMaxCG = 2
  KMax = 3
  Wide = FALSE
  BsBound = 20
  Methods = {"cg", "bicgstab.right", "richardson", "gmres.right.K", "gmres.left.1"}
INIT Init
NEXT Next
INVARIANTS ProgMatchesRef TerminatesAtN CarriedResidual GmresMonotone
CHECK_DEADLOCK FALSE
