CONSTANTS
  N = 3
  AMax = 1
  AMaxCG = 1
  AMaxBs = 1
  KMax = 3
  Thin = 2
  Wide = FALSE
  BsBound = 8
  Methods = {"cg", "richardson", "richardson.half"}
INIT Init
NEXT Next
INVARIANTS ProgMatchesRef TerminatesAtN CarriedResidual GmresMonotone
CHECK_DEADLOCK FALSE
