CONSTANTS
  N = 3
  AMax = 1
  AMaxCG = 1
  KMax = 3
  Thin = 12
  Wide = FALSE
  BsBound = 8
  Methods = {"cg", "gmres.right.K", "richardson"}
INIT Init
NEXT Next
INVARIANTS ProgMatchesRef TerminatesAtN CarriedResidual GmresMonotone
CHECK_DEADLOCK FALSE
