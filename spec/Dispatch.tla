------------------------------ MODULE Dispatch ------------------------------
(* C14 - the run-time wrappers  runtime::solver::wrapper, runtime::relaxation::    *)
(* wrapper, runtime::coarsening::wrapper and runtime::preconditioner select a       *)
(* compile-time component by the string under the key "type" / "class".  Each      *)
(* wrapper is three hand-written tables that must stay in step:                     *)
(*    print   enumerator -> name            (operator<<)                            *)
(*    parse   name -> enumerator | throw    (operator>>)                            *)
(*    cases   per method (constructor, destructor, apply..., bytes, operator<<):    *)
(*            enumerator -> the component type that is constructed / called         *)
(* Expected(w) is the specification's own table: the documented component names in  *)
(* enumeration order and the type each one stands for.  A table W (scanned from the *)
(* header by tools/scan_params.py, or observed from the running code) is judged by  *)
(* DispatchOK.  Walk(W, name) is the path one configuration string takes through    *)
(* the tables: parse, construct, call every method, destroy.                        *)
EXTENDS Naturals, Sequences, FiniteSets, TLC

Range(s) == {s[i] : i \in DOMAIN s}
Ident(names) == [n \in Range(names) |-> n]

Expected ==
  [solver     |-> [names  |-> <<"cg", "bicgstab", "bicgstabl", "gmres", "lgmres", "fgmres",
                                "idrs", "richardson", "preonly">>,
                   key |-> "type", default |-> "bicgstab",
                   target |-> Ident(<<"cg", "bicgstab", "bicgstabl", "gmres", "lgmres", "fgmres",
                                      "idrs", "richardson", "preonly">>),
                   partial |-> {}],
   relaxation |-> [names  |-> <<"gauss_seidel", "ilu0", "iluk", "ilup", "ilut", "damped_jacobi",
                                "spai0", "spai1", "chebyshev">>,
                   key |-> "type", default |-> "spai0",
                   target |-> Ident(<<"gauss_seidel", "ilu0", "iluk", "ilup", "ilut",
                                      "damped_jacobi", "spai0", "spai1", "chebyshev">>),
                   partial |-> {}],
   coarsening |-> [names  |-> <<"ruge_stuben", "aggregation", "smoothed_aggregation",
                                "smoothed_aggr_emin">>,
                   key |-> "type", default |-> "smoothed_aggregation",
                   target |-> Ident(<<"ruge_stuben", "aggregation", "smoothed_aggregation",
                                      "smoothed_aggr_emin">>),
                   partial |-> {}],
   precond    |-> [names  |-> <<"amg", "relaxation", "dummy", "nested">>,
                   key |-> "class", default |-> "amg",
                   target |-> [amg |-> "amg", relaxation |-> "as_preconditioner",
                               dummy |-> "dummy", nested |-> "make_solver"],
                   \* rebuild() is documented as a no-op unless the class is amg
                   partial |-> {"rebuild"}]]

WrapperIds == DOMAIN Expected

\* the table a correct header has
IdealTable(w) ==
    LET E == Expected[w] IN
    [w |-> w, enum |-> E.names, print |-> Ident(E.names), parse |-> Ident(E.names),
     parse_throws |-> TRUE, key |-> E.key, default |-> E.default,
     switches |-> << [fn |-> "wrapper", cases |-> E.target, dflt |-> TRUE],
                     [fn |-> "apply",   cases |-> E.target, dflt |-> TRUE] >>]

WellFormedTable(W) ==
    /\ {"w", "enum", "print", "parse", "parse_throws", "switches", "key", "default"} \subseteq DOMAIN W
    /\ W.w \in WrapperIds

\* parse(print(e)) = e for every enumerator, names are the documented ones
PrintParseOK(W) ==
    LET E == Expected[W.w] IN
    /\ W.enum = E.names
    /\ \A e \in Range(W.enum) :
          /\ e \in DOMAIN W.print /\ W.print[e] = e
          /\ W.print[e] \in DOMAIN W.parse /\ W.parse[W.print[e]] = e
    /\ DOMAIN W.parse = Range(E.names)        \* no alias, nothing else accepted
    /\ W.parse_throws                          \* anything else raises
    /\ W.key = E.key /\ W.default = E.default

\* every method of every enumerator reaches the same-named component
SwitchOK(W, sw) ==
    LET E == Expected[W.w] IN
    /\ \A e \in DOMAIN sw.cases : e \in Range(E.names) /\ sw.cases[e] = E.target[e]
    /\ sw.fn \notin E.partial => DOMAIN sw.cases = Range(E.names)

DispatchOK(W) == /\ WellFormedTable(W) /\ PrintParseOK(W)
                 /\ \A i \in DOMAIN W.switches : SwitchOK(W, W.switches[i])
                 /\ Len(W.switches) > 0

------------------------------------------------------------------------------
\* one configuration string walking through the tables
ParseStr(W, s)  == IF s \in DOMAIN W.parse THEN W.parse[s]
                   ELSE IF W.parse_throws THEN "#throw" ELSE "#garbage"
Reach(W, i, e)  == LET sw == W.switches[i] IN
                   IF e \in DOMAIN sw.cases THEN sw.cases[e]
                   ELSE IF sw.dflt THEN "#throw" ELSE "#nothing"
=============================================================================
