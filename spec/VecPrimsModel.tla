--------------------------- MODULE VecPrimsModel ---------------------------
(* Exhaustive small-scope model for C07: every primitive of VecPrims.tla on every    *)
(* coefficient class {0, 1, -1, 2} (and two genuinely complex ones for Gaussian      *)
(* kinds) x output content class {finite, poison} x shape (empty vectors, empty      *)
(* rows, rectangular matrices, sizes not divisible by the block size) x value kind   *)
(* (integers, Gaussian integers, 2x2 integer blocks, 2x2 Gaussian blocks).           *)
(* Invariants: the transcription's result satisfies PrimOK against the defining      *)
(* formula, and an output whose coefficient is zero is never read (~poisonRead).     *)
EXTENDS VecPrims, Patterns, TLC

CONSTANTS NMax,      \* vector lengths 0..NMax, matrices up to NMax x NMax values
          BSMax      \* block_crs block sizes 1..BSMax
VARIABLES cs, pc, out
vars == <<cs, pc, out>>

KInt   == [b |-> 1, cx |-> FALSE]
KGauss == [b |-> 1, cx |-> TRUE]
KBlk   == [b |-> 2, cx |-> FALSE]
KCBlk  == [b |-> 2, cx |-> TRUE]
Kinds  == {KInt, KGauss, KBlk, KCBlk}
CoefsReal == {<<0, 0>>, <<1, 0>>, <<-1, 0>>, <<2, 0>>}
Coefs(K)  == IF K.cx THEN CoefsReal \cup {<<0, 1>>, <<1, -1>>} ELSE CoefsReal

G(i, r, s) == ((i * 3 + r * 5 + s * 7) % 5) - 2
GenP(K, n, salt, poison) ==
    [i \in 1..n |-> <<IF poison THEN 1 ELSE 0,
                      [r \in 1..K.b |-> <<G(i, r, salt), IF K.cx THEN G(i, r, salt + 1) ELSE 0>>]>>]
GenPM(K, n, salt) ==
    [i \in 1..n |-> <<0, [e \in 1..(K.b * K.b) |-> <<G(i, e, salt), IF K.cx THEN G(i, e, salt + 2) ELSE 0>>]>>]
\* flat scalar vector (for the reinterpret overloads)
GenFlat(K, n, salt, poison) ==
    [n |-> n, p |-> [i \in 1..n |-> IF poison THEN 1 ELSE 0],
     v |-> FlattenSeq([i \in 1..n |-> IF K.cx THEN <<G(i, 1, salt), G(i, 2, salt)>> ELSE <<G(i, 1, salt)>>])]
AsBlocks(K, xs) == PVec(K, [n |-> xs.n \div K.b, v |-> xs.v,
                            p |-> [i \in 1..(xs.n \div K.b) |-> IF \E r \in 1..K.b : xs.p[(i - 1) * K.b + r] = 1 THEN 1 ELSE 0]])
GenMat(K, r, c, mask, salt, rev) ==
    LET P == MkCrs(r, c, mask, salt, rev)
    IN  [n |-> r, m |-> c, ptr |-> P.ptr, col |-> P.col,
         val |-> FlattenSeq([p \in 1..NNZ(P) |-> [t \in 1..MW(K) |-> PatVal(p, t, salt + P.col[p])]])]

Case(op, impl, K, a, b, c, n, r, m, mask, rev, bs, poison) ==
    [op |-> op, impl |-> impl, K |-> K, a |-> a, b |-> b, c |-> c, n |-> n, r |-> r, m |-> m,
     mask |-> mask, rev |-> rev, bs |-> bs, poison |-> poison]

\* the case space, as existential choices (TLC enumerates them without building the set)
ElemInit ==
    \/ \E K \in Kinds : \E op \in {"axpby", "vmul"}, a \in Coefs(K), b \in Coefs(K), n \in 0..NMax, po \in BOOLEAN :
            cs = Case(op, "builtin", K, a, b, <<2, 0>>, n, 0, 0, 0, FALSE, 1, po)
    \/ \E K \in Kinds : \E b \in Coefs(K), c \in Coefs(K), n \in 0..NMax, po \in BOOLEAN :
            cs = Case("axpbypcz", "builtin", K, <<2, 0>>, b, c, n, 0, 0, 0, FALSE, 1, po)
    \/ \E op \in {"copy", "clear"}, K \in Kinds, n \in 0..NMax, po \in BOOLEAN :
            cs = Case(op, "builtin", K, SOne, SOne, SOne, n, 0, 0, 0, FALSE, 1, po)
    \/ \E impl \in {"serial", "parallel", "eigen"}, K \in Kinds, n \in 0..(NMax + 4), bs \in 1..7 :      \* bs = number of threads
            cs = Case("inner", impl, K, SOne, SOne, SOne, n, 0, 0, 0, FALSE, bs, FALSE)
    \* lin_comb with n = 1..5 vectors (field n), vectors of length 2; alpha in b
    \/ \E K \in {KInt, KGauss, KBlk} : \E a \in Coefs(K), b \in Coefs(K), n \in 1..5, po \in BOOLEAN :
            cs = Case("lincomb", "builtin", K, a, b, <<-1, 0>>, n, 0, 0, 0, FALSE, 1, po)

MatInit ==
    \/ \E r \in 1..(NMax - 1), m \in 1..NMax, K \in {KInt, KGauss, KBlk} :
        \E impl \in (IF K.b > 1 THEN {"builtin", "mixed"} ELSE {"builtin"}), a \in Coefs(K), b \in CoefsReal,
           mask \in Masks(r, m), rev \in (IF K = KInt THEN BOOLEAN ELSE {FALSE}), po \in BOOLEAN :
            cs = Case("spmv", impl, K, a, b, SOne, 0, r, m, mask, rev, 1, po)
    \/ \E r \in 1..(NMax - 1), m \in 1..NMax, K \in {KInt, KGauss, KBlk} :
        \E impl \in (IF K.b > 1 THEN {"builtin", "mixed"} ELSE {"builtin"}),
           mask \in Masks(r, m), rev \in (IF K = KInt THEN BOOLEAN ELSE {FALSE}), po \in BOOLEAN :
            cs = Case("residual", impl, K, SOne, SOne, SOne, 0, r, m, mask, rev, 1, po)
    \/ \E r \in 1..NMax, m \in 1..NMax : \E a \in CoefsReal, b \in CoefsReal, mask \in Masks(r, m), bs \in 1..BSMax, po \in BOOLEAN :
            cs = Case("spmv", "bcrs", KInt, a, b, SOne, 0, r, m, mask, FALSE, bs, po)
    \/ \E r \in 1..NMax, m \in 1..NMax : \E mask \in Masks(r, m), bs \in 1..BSMax, po \in BOOLEAN :
            cs = Case("residual", "bcrs", KInt, SOne, SOne, SOne, 0, r, m, mask, FALSE, bs, po)

Init == (ElemInit \/ MatInit) /\ pc = "in" /\ out = <<>>

\* ---- inputs of a case
K0   == cs.K
X    == GenP(K0, cs.n, 1, FALSE)
Y    == GenP(K0, cs.n, 2, FALSE)
XM   == GenPM(K0, cs.n, 3)
ZOut == GenP(K0, cs.n, 4, cs.poison)                 \* an output with old content
A    == GenMat(K0, cs.r, cs.m, cs.mask, 1, cs.rev)
XsF  == GenFlat(K0, cs.m * K0.b, 5, FALSE)            \* scalar vectors for the mixed overloads
YsF  == GenFlat(K0, cs.r * K0.b, 6, cs.poison)
MX   == IF cs.impl = "mixed" THEN AsBlocks(K0, XsF) ELSE GenP(K0, cs.m, 5, FALSE)
MY   == IF cs.impl = "mixed" THEN AsBlocks(K0, YsF) ELSE GenP(K0, cs.r, 6, cs.poison)
MXrun == IF cs.impl = "mixed" THEN Reinterpret(K0, XsF) ELSE MX
MYrun == IF cs.impl = "mixed" THEN Reinterpret(K0, YsF) ELSE MY
LCn  == cs.n
LCcs == [k \in 1..LCn |-> IF k = 1 THEN cs.a ELSE IF k % 2 = 0 THEN cs.c ELSE <<2, 0>>]
LCvs == [k \in 1..LCn |-> GenP(K0, 2, k, FALSE)]
LCy  == GenP(K0, 2, 9, cs.poison)
IY   == GenP(K0, cs.n, 2, FALSE)

Def ==
    CASE cs.op = "axpby"    -> DefAxpby(K0, cs.a, X, cs.b, ZOut)
      [] cs.op = "axpbypcz" -> DefAxpbypcz(K0, cs.a, X, cs.b, Y, cs.c, ZOut)
      [] cs.op = "vmul"     -> DefVmul(K0, cs.a, XM, Y, cs.b, ZOut)
      [] cs.op = "copy"     -> DefCopy(K0, X)
      [] cs.op = "clear"    -> DefClear(K0, cs.n)
      [] cs.op = "lincomb"  -> DefLinComb(K0, LCcs, LCvs, cs.b, LCy)
      [] cs.op = "spmv"     -> DefSpmv(K0, cs.a, A, MX, cs.b, MY)
      [] cs.op = "residual" -> DefResidual(K0, MY, A, MX)      \* f = the finite copy below
      [] cs.op = "inner"    -> DefInner(K0, X, IY)

\* residual: f is an input (finite); r is the poisoned output and is never read
FRes == GenP(K0, cs.r, 7, FALSE)
DefR == IF cs.op = "residual" THEN DefResidual(K0, FRes, A, MX) ELSE Def

Run ==
    CASE cs.op = "axpby"    -> AxpbyRun(K0, cs.a, X, cs.b, ZOut)
      [] cs.op = "axpbypcz" -> AxpbypczRun(K0, cs.a, X, cs.b, Y, cs.c, ZOut)
      [] cs.op = "vmul"     -> VmulRun(K0, cs.a, XM, Y, cs.b, ZOut)
      [] cs.op = "copy"     -> [res |-> X, readOld |-> FALSE]
      [] cs.op = "clear"    -> [res |-> [i \in 1..cs.n |-> PZero(K0)], readOld |-> FALSE]
      [] cs.op = "lincomb"  -> LinCombRun(K0, LCcs, LCvs, cs.b, LCy)
      [] cs.op = "spmv" /\ cs.impl = "bcrs"     -> BcrsSpmvRun(cs.a, BcrsBuild(A, cs.bs), MX, cs.b, MY)
      [] cs.op = "residual" /\ cs.impl = "bcrs" -> BcrsResidualRun(FRes, BcrsBuild(A, cs.bs), MX)
      [] cs.op = "spmv"     -> SpmvRun(K0, cs.a, A, MXrun, cs.b, MYrun)
      [] cs.op = "residual" -> ResidualRun(K0, FRes, A, MXrun)
      [] cs.op = "inner"    -> [res |-> IF cs.impl = "serial" THEN InnerSerialRun(K0, X, IY)
                                        ELSE IF cs.impl = "parallel" THEN InnerParallelRun(K0, X, IY, cs.bs)
                                        ELSE InnerEigenRun(K0, X, IY), readOld |-> FALSE]

Next == pc = "in" /\ pc' = "done" /\ out' = Run /\ UNCHANGED cs

\* the coefficient that scales the output's own old content
OutCoef == CASE cs.op \in {"axpby", "vmul", "spmv", "lincomb"} -> cs.b
             [] cs.op = "axpbypcz" -> cs.c
             [] OTHER -> SZero

PrimInv   == pc = "done" => IF cs.op = "inner" THEN out.res = Def ELSE PrimOK(DefR, out.res)
\* ~poisonRead: a zero coefficient makes the output write-only
NoPoisonRead == pc = "done" => (IsZeroC(OutCoef) => ~out.readOld)
\* with a zero coefficient and a poisoned old content the result is nevertheless clean
CleanInv  == pc = "done" /\ cs.op # "inner" /\ IsZeroC(OutCoef) => \A i \in 1..Len(out.res) : out.res[i][1] = 0
=============================================================================
