------------------------------- MODULE RatMat -------------------------------
(* Dense linear algebra on exact rationals (Rat.tla) for the direct-kernel (C16)   *)
(* and relaxation (C06) specifications, plus the bridge between exact rationals     *)
(* and what a recorder can log: doubles quantised to fixed point  q = rint(v*2^sh). *)
(* Vectors are functions on 0..n-1 (the code's indices), dense matrices functions   *)
(* on 0..n-1 of such vectors.  32-bit TLC integers: all models / recorded small     *)
(* cases keep |entries| <= 4 and n <= 5 so that no numerator or denominator comes   *)
(* near 2^31 (an overflow would be a TLC error, never a wrong verdict).             *)
EXTENDS Crs, Rat

Idx(n)        == 0 .. (n - 1)
RVecOf(s)     == [i \in Idx(Len(s)) |-> R(s[i + 1])]          \* sequence of ints -> vector
RZeroVec(n)   == [i \in Idx(n) |-> RZero]
DenseOf(A)    == [i \in Idx(A.n) |-> [j \in Idx(A.m) |-> R(At(A, i, j))]]
Rng(lo, hi) == [k \in 1..(IF hi >= lo THEN hi - lo + 1 ELSE 0) |-> lo + k - 1]
RngDown(hi, lo) == [k \in 1..(IF hi >= lo THEN hi - lo + 1 ELSE 0) |-> hi - k + 1]

\* ---- overflow-lean arithmetic (same values as Rat's RAdd / RMul): common factors are
\* cancelled *before* multiplying, so that vectors sharing a denominator D stay near D
\* instead of D^2 (TLC integers are 32-bit)
QAdd(a, b) == LET g == GCD(a[2], b[2]) IN Norm(a[1] * (b[2] \div g) + b[1] * (a[2] \div g), (a[2] \div g) * b[2])
QSub(a, b) == QAdd(a, RNeg(b))
QMul(a, b) == IF a[1] = 0 \/ b[1] = 0 THEN RZero
              ELSE LET g1 == GCD(RAbsI(a[1]), b[2])
                       g2 == GCD(RAbsI(b[1]), a[2])
                   IN  <<(a[1] \div g1) * (b[1] \div g2), (a[2] \div g2) * (b[2] \div g1)>>
QDiv(a, b) == QMul(a, RInv(b))
QEq(a, b)  == a = b                  \* lowest terms on both sides
QSumRange(t(_), lo, hi) == FoldLeft(LAMBDA acc, k : QAdd(acc, t(k)), RZero, Rng(lo, hi))
QSumSeq(s) == FoldLeft(LAMBDA acc, v : QAdd(acc, v), RZero, s)

\* sum_{k = lo}^{hi} t(k)
RSumRange(t(_), lo, hi) == QSumRange(t, lo, hi)
RDot(u, v, n)    == QSumRange(LAMBDA k : QMul(u[k], v[k]), 0, n - 1)
MatVecR(M, v, n) == [i \in Idx(n) |-> RDot(M[i], v, n)]
MatMulR(X, Y, n) == [i \in Idx(n) |-> [j \in Idx(n) |-> QSumRange(LAMBDA k : QMul(X[i][k], Y[k][j]), 0, n - 1)]]
IdentR(n)        == [i \in Idx(n) |-> [j \in Idx(n) |-> IF i = j THEN ROne ELSE RZero]]
\* every operator here returns rationals in lowest terms: equality is equality of the pairs
VecEq(u, v, n)   == \A i \in Idx(n) : u[i] = v[i]
MatEq(X, Y, n)   == \A i \in Idx(n) : \A j \in Idx(n) : X[i][j] = Y[i][j]
VAdd(u, v, n)    == [i \in Idx(n) |-> QAdd(u[i], v[i])]
VSub(u, v, n)    == [i \in Idx(n) |-> QSub(u[i], v[i])]
VScale(a, u, n)  == [i \in Idx(n) |-> QMul(a, u[i])]
\* sparse residual f - A x with A a CRS record of integers
ResidualR(A, f, x) ==
    [i \in Idx(A.n) |-> QSub(f[i], FoldLeft(LAMBDA acc, p : QAdd(acc, QMul(R(A.val[p]), x[A.col[p]])),
                                             RZero, Rng(Ptr(A, i) + 1, Ptr(A, i + 1))))]

\* ---- reference solve: Gauss-Jordan with row exchanges (first non-zero pivot); the
\* meaning of "x = A^-1 f", independent of every transcribed algorithm.
\* Works on the augmented rows  M[i] = <row i | f_i>  (functions on 0..n).
RECURSIVE GJ(_, _, _)
GJ(M, n, c) ==
    IF c = n THEN [ok |-> TRUE, M |-> M]
    ELSE LET cand == {i \in c..(n - 1) : ~IsZero(M[i][c])}
         IN  IF cand = {} THEN [ok |-> FALSE, M |-> M]
             ELSE LET p   == MinOf(cand)
                      Ms  == [M EXCEPT ![c] = M[p], ![p] = M[c]]
                      piv == Ms[c][c]
                      rc  == [j \in 0..n |-> QDiv(Ms[c][j], piv)]
                      Me  == [i \in Idx(n) |-> IF i = c THEN rc
                                               ELSE [j \in 0..n |-> QSub(Ms[i][j], QMul(Ms[i][c], rc[j]))]]
                  IN  GJ(Me, n, c + 1)
\* solution of D x = f (D dense rational n x n); [ok, x]
RefSolve(D, f, n) ==
    LET r == GJ([i \in Idx(n) |-> [j \in 0..n |-> IF j < n THEN D[i][j] ELSE f[i]]], n, 0)
    IN  [ok |-> r.ok, x |-> [i \in Idx(n) |-> r.M[i][n]]]
Nonsingular(D, n) == RefSolve(D, RZeroVec(n), n).ok

\* ---- rational vs recorded fixed point
\* floor(a * 2^sh) for a >= 0 or a < 0 alike (TLC's \div floors), 4 bits at a time;
\* needs a[2] < 2^27 and |a| * 2^sh < 2^31
RECURSIVE FracNib(_, _, _)
FracNib(r, q, k) == IF k = 0 THEN 0
                    ELSE ((16 * r) \div q) * (2 ^ (4 * (k - 1))) + FracNib((16 * r) % q, q, k - 1)
RFix(a, sh) == (a[1] \div a[2]) * (2 ^ sh) + FracNib(a[1] % a[2], a[2], sh \div 4)   \* sh multiple of 4
FixSafe(a, sh) == a[2] < 134217728 /\ RAbsI(a[1]) \div a[2] < 2 ^ (30 - sh)
\* recorded q = rint(v * 2^sh) of a double v that should equal the rational a
CloseFix(q, a, sh, tol) == LET f == RFix(a, sh) IN q - f <= tol + 1 /\ f - q <= tol
VecCloseFix(qs, v, n, sh, tol) ==
    /\ Len(qs) = n
    /\ \A i \in Idx(n) : FixSafe(v[i], sh) => CloseFix(qs[i + 1], v[i], sh, tol)
=============================================================================
