CONSTANTS
  Caps = {1, 2, 3, 4}
  MaxSteps = 8
SPECIFICATION Spec
INVARIANTS Window EmitHistories
CHECK_DEADLOCK FALSE
