CONSTANTS
  ClearScratch = TRUE
  AdjointInUpdate = TRUE
INIT Init
NEXT Next
INVARIANTS WeightsInv AppInv SameInv UpdateInv ScratchInv BlockUpdateInv FormulaInv
CHECK_DEADLOCK FALSE
