INIT Init
NEXT Next
INVARIANTS WeightsInv AppInv SameInv UpdateInv FormulaInv
CHECK_DEADLOCK FALSE
