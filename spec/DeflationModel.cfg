CONSTANTS
  KStride = 4
INIT Init
NEXT Next
INVARIANTS EInv ProjInv
CHECK_DEADLOCK FALSE
