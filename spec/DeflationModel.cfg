CONSTANTS
  KStride = 4
  MirrorE = FALSE
INIT Init
NEXT Next
INVARIANTS EInv ProjInv
CHECK_DEADLOCK FALSE
