------------------------------ MODULE C02Trace ------------------------------
(* Trace spec for C02.                                                              *)
(*  (a) op streams (hooks H2/H3) of amg construction and of two apply() calls are   *)
(*      replayed on OpMachine: the freshness monitor rejects any read of a vector   *)
(*      that was not defined by the current call, its input, or a never-rewritten   *)
(*      constant of the object -- the discrete reason why B is a fixed operator.    *)
(*      The shape of each recorded cycle (relax / coarse / restrict / prolong) must *)
(*      equal Shape(Program(p)) of Cycle.tla (drift only).                          *)
(*  (b) "cycobs" records: dense observations of B judged by CycleObsOK.             *)
EXTENDS TraceKit, Cycle

VARIABLES l, bad, st, nm, shape, drift

Names0 == [f |-> <<>>, u |-> <<>>, t |-> <<>>, A |-> <<>>, P |-> <<>>, R |-> <<>>]

\* ---------------------------------------------------------------- observations
Smooth(r)  == r.npre >= 1 /\ r.npost >= 1
Palin(r)   == r.npre = r.npost /\ r.symsm /\ r.adjR
CycleObsClauses(r) ==
    << <<"finite", r.finite>>,
       <<"linear", r.finite => r.lin <= -11000>>,
       <<"independent-of-earlier-applications", r.finite => r.hist>>,
       \* (energy-minimising aggregation accumulates in an unordered critical section: two set-ups by several
       \*  threads differ by rounding, so bit-exact covariance can only be asked of it single-threaded)
       <<"power-of-two-scaling-exact", r.finite => (r.ilut \/ r.scaled \/ (r.coarsening = "smoothed_aggr_emin" /\ r.nt > 1))>>,
       <<"symmetric", (r.finite /\ Palin(r) /\ r.mmat) => r.sym <= -9000>>,
       <<"positive-definite", (r.finite /\ Palin(r) /\ r.mmat) => r.posdef>>,
       <<"contraction", (r.finite /\ r.mmat /\ r.symsm /\ Smooth(r)) => r.rho < 1048576>> >>

\* ---------------------------------------------------------------- op stream
IsOp(r)  == Has(r, "e") /\ r.e = "op"
AsOp(r)  == [name |-> r.name, a |-> r.a, z |-> r.z]
Idx(s, x) == IF \E k \in 1..Len(s) : s[k] = x THEN CHOOSE k \in 1..Len(s) : s[k] = x ELSE 0
\* classify a recorded op for the cycle shape
ShapeTok(r) ==
    IF r.name = "relax" THEN <<<<r.kind, r.lvl>>>>
    ELSE IF r.name = "coarse" THEN <<<<"direct", r.lvl>>>>
    ELSE IF r.name = "spmv" /\ Idx(nm.R, r.a[1]) > 0 THEN <<<<"restrict", Idx(nm.R, r.a[1])>>>>
    ELSE IF r.name = "spmv" /\ Idx(nm.P, r.a[1]) > 0 THEN <<<<"prolong", Idx(nm.P, r.a[1])>>>>
    ELSE <<>>
PrmOf(r) == [levels |-> r.levels, ncycle |-> r.ncycle, npre |-> r.npre, npost |-> r.npost,
             pre_cycles |-> r.pre_cycles, direct |-> r.direct]

TInit == l = 1 /\ bad = <<>> /\ st = Machine0 /\ nm = Names0 /\ shape = <<>> /\ drift = 0

Consume(r) ==
    IF Has(r, "k") THEN        \* stateless observation record
        LET f == FailedOf(CycleObsClauses(r))
        IN  /\ bad' = IF f = <<>> THEN bad ELSE Append(bad, <<l, f>>)
            /\ UNCHANGED <<st, nm, shape, drift>>
    ELSE CASE r.e = "Reset" -> /\ st' = Machine0 /\ nm' = Names0 /\ shape' = <<>> /\ UNCHANGED <<bad, drift>>
           [] r.e = "names" -> /\ nm' = [f |-> r.f, u |-> r.u, t |-> r.t, A |-> r.A, P |-> r.P, R |-> r.R]
                               /\ UNCHANGED <<bad, st, shape, drift>>
           [] r.e = "begin" -> /\ st' = BeginCall(Clobber(st, {r.clob[k] : k \in 1..Len(r.clob)}), {r.ins[k] : k \in 1..Len(r.ins)})
                               /\ shape' = <<>> /\ UNCHANGED <<bad, nm, drift>>
           [] r.e = "op" ->
                LET e == AsOp(r)
                    stale == IF st.call = 0 THEN {} ELSE StaleReads(st, e)
                IN  /\ bad' = IF stale = {} THEN bad ELSE Append(bad, <<l, <<"stale-read-" \o r.name>>>>)
                    /\ st' = Exec(st, e)
                    /\ shape' = shape \o ShapeTok(r)
                    /\ UNCHANGED <<nm, drift>>
           [] r.e = "end" ->
                LET undefined == Tag(st.def, r.x[1]) # st.call
                    f == (IF undefined THEN <<"result-not-defined-by-this-call">> ELSE <<>>)
                         \o (IF r.finite THEN <<>> ELSE <<"result-depends-on-garbage-in-x">>)
                IN  /\ bad' = IF f = <<>> THEN bad ELSE Append(bad, <<l, f>>)
                    /\ drift' = IF shape = Shape(Program(PrmOf(r))) THEN drift ELSE drift + 1
                    /\ UNCHANGED <<st, nm, shape>>
           [] r.e \in {"End", "Exception"} -> UNCHANGED <<bad, st, nm, shape, drift>>
           [] OTHER -> /\ bad' = Append(bad, <<l, <<"recorder:" \o r.e>>>>) /\ UNCHANGED <<st, nm, shape, drift>>

TNext == l <= NLog /\ l' = l + 1 /\ Consume(Log[l])
Verdict == (l = NLog + 1) => VerdictLine(l, bad) /\ PrintT(<<"DRIFT", drift>>)
=============================================================================
