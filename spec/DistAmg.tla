------------------------------- MODULE DistAmg -------------------------------
(* Predicates on what the distributed hierarchy construction of amgcl::mpi::amg        *)
(* (amgcl/mpi/amg.hpp step_down, coarsening/{pmis,aggregation}.hpp,                    *)
(* partition/merge.hpp) produces.  A distributed matrix M is the record the recorder   *)
(* logs: [rp, cp, n, m, loc, rem] (row / column partition boundaries, global sizes,    *)
(* per-rank local and remote CRS parts, remote columns global).                        *)
EXTENDS DistMatrix, Pmis

NpOf(M)   == Len(M.loc)
DMWF(M, np) == /\ Len(M.loc) = np /\ Len(M.rem) = np
               /\ IsPartition(M.rp, np, M.n) /\ IsPartition(M.cp, np, M.m)
               /\ PartsOK(np, M.rp, M.cp, M, M.m)
GD(M) == Assemble(NpOf(M), M.rp, M.cp, M, M.n, M.m)

\* ---------------------------------------------------------------- strength of connection (pmis::conn_strength)
\* S(i,c)  <=>  c = i  \/  eps^2 * a_ii * a_cc < a_ic^2   with eps = en / ed (exact in integers)
StrengthGraph(A, en, ed) ==
    [n |-> A.n,
     adj |-> [i \in Rows(A) |-> {i} \cup {A.col[p] : p \in {q \in RowPos(A, i) :
                  A.col[q] # i /\ en * en * At(A, i, i) * At(A, A.col[q], A.col[q]) < ed * ed * A.val[q] * A.val[q]}}]]

\* ---------------------------------------------------------------- aggregates read from the tentative prolongation
\* row i of P: empty (unknown not aggregated) or a single 1 in global coarse column g;
\* the owner of g in P's column partition owns the aggregate, its local number is the id
FinOfP(P, np) ==
    LET GP == GD(P)
        colOf(i) == GP.col[Ptr(GP, i) + 1]
    IN  [state |-> [i \in Rows(GP) |-> IF RowLen(GP, i) = 0 THEN Deleted
                                        ELSE colOf(i) - Lo(P.cp, OwnerOf(P.cp, np, colOf(i)))],
         owner |-> [i \in Rows(GP) |-> IF RowLen(GP, i) = 0 THEN -1 ELSE OwnerOf(P.cp, np, colOf(i))],
         naggr |-> [r \in PRanks(np) |-> Hi(P.cp, r) - Lo(P.cp, r)]]
TentativeShapeOK(P, np, rp) ==
    /\ DMWF(P, np) /\ P.rp = rp
    /\ LET GP == GD(P) IN \A i \in Rows(GP) : RowLen(GP, i) <= 1 /\ \A p \in RowPos(GP, i) : GP.val[p] = 1
SameFin(a, b) == a.state = b.state /\ a.owner = b.owner /\ a.naggr = b.naggr

\* ---------------------------------------------------------------- Galerkin
DefProductCrs(A, B) ==
    FromRows(A.n, B.m, [i \in 1..A.n |->
        LET f  == DefProductRow(A, B, i - 1)
            cs == SetToSortSeq(DOMAIN f, LAMBDA a, b : a < b)
        IN  [k \in 1..Len(cs) |-> <<cs[k], f[cs[k]]>>]])
\* k1 * X = k2 * Y as operators
ScaledSame(k1, X, k2, Y) ==
    /\ X.n = Y.n /\ X.m = Y.m
    /\ \A i \in Rows(X) : SameRow([c \in RowCols(X, i) |-> k1 * At(X, i, c)], [c \in RowCols(Y, i) |-> k2 * At(Y, i, c)])
\* As = 2^sA A, Acs = 2^sC Ac (integers):  Ac = (1/over) R A P   <=>   over 2^sA Acs = 2^sC R As P
LevelShapesOK(np, A, P, R, Ac) ==
    /\ DMWF(A, np) /\ DMWF(P, np) /\ DMWF(R, np) /\ DMWF(Ac, np)
    /\ A.rp = A.cp /\ P.rp = A.rp /\ R.cp = A.rp /\ R.rp = P.cp /\ Ac.rp = P.cp /\ Ac.cp = P.cp
RestrictionOK(P, R) == TransposeOK(GD(P), GD(R))
GalerkinOK(A, P, R, Ac, over, sA, sC) ==
    ScaledSame(over * (2 ^ sA), GD(Ac), 2 ^ sC, DefProductCrs(GD(R), DefProductCrs(GD(A), GD(P))))

\* ---------------------------------------------------------------- repartition (partition::merge + step_down)
\* I is a permutation matrix; merge: new owner k holds the rows of old ranks k*ratio .. k*ratio+ratio-1
PermutationOK(GI) ==
    /\ GI.n = GI.m /\ WellFormed(GI)
    /\ \A i \in Rows(GI) : RowLen(GI, i) = 1 /\ GI.val[Ptr(GI, i) + 1] = 1
    /\ Cardinality({GI.col[p] : p \in 1..NNZ(GI)}) = GI.n
\* transpose of a permutation matrix: row c holds the single 1 of column c
PermT(GI) == FromRows(GI.m, GI.n, [c \in 1..GI.m |->
                 LET rs == {i \in Rows(GI) : (c - 1) \in RowCols(GI, i)}
                     sq == SetToSortSeq(rs, LAMBDA a, b : a < b)
                 IN  [k \in 1..Len(sq) |-> <<sq[k], 1>>]])
MergeRuleOK(np, Ac, I, ratio) ==
    /\ I.rp = Ac.rp
    /\ \A k \in 0..np : I.cp[k + 1] = Ac.rp[(IF k * ratio < np THEN k * ratio ELSE np) + 1]
RepartitionOK(np, Ac, I, An, ratio) ==
    /\ DMWF(Ac, np) /\ DMWF(I, np) /\ DMWF(An, np)
    /\ PermutationOK(GD(I)) /\ MergeRuleOK(np, Ac, I, ratio)
    /\ An.rp = I.cp /\ An.cp = I.cp
    /\ LET GI == GD(I) IN ScaledSame(1, GD(An), 1, DefProductCrs(PermT(GI), DefProductCrs(GD(Ac), GI)))
=============================================================================
