CONSTANTS
  N = 4
  Sym = FALSE
  Modes = {0, 1, 4, 7, 13, 19, 21, 23}
  EpsDens = {4, 2}
  TruncDens = {0, 4, 2}
  TieBug = FALSE
  Uninit = FALSE
  K = 1
INIT Init
NEXT Next
INVARIANTS BucketInv SortedInv NoOOBInv SplitInv EmptyInv SanityInv RowSumInv TruncSumInv RunInv
CHECK_DEADLOCK FALSE
