-------------------------- MODULE KrylovProgModel --------------------------
(* Exhaustive small-scope check that the transcribed amgcl recurrences (KrylovProg)   *)
(* produce the iterates the definitions (KrylovRef) fix: every N x N integer system   *)
(* with entries in -AMax..AMax (non-singular; symmetric positive definite for CG),    *)
(* right-hand sides FSet, initial guesses XSet (incl. non-zero), preconditioners PSet *)
(* (identity, a diagonal and a full SPD matrix), every k <= KMax.                     *)
EXTENDS KrylovProg, TLC

CONSTANTS N, AMax, AMaxCG, AMaxBs, KMax, Methods,
          Thin,      \* keep every Thin-th matrix (by a weighted entry sum); 1 = all
          Wide,      \* TRUE: more right-hand sides / preconditioners (thorough tier)
          BsBound    \* BiCGStab takes a further step only from states whose rationals are below this
                     \* size (the numbers of the second step grow like the 5th power: 32-bit TLC integers)
VARIABLES sys, k, st

vars == <<sys, k, st>>

FSet == IF N = 2 THEN (IF Wide THEN {<<1, 0>>, <<1, 2>>} ELSE {<<1, 2>>})
                 ELSE {<<1, 2, -1>>}
XSet == IF N = 2 THEN (IF Wide THEN {<<0, 0>>, <<1, -1>>} ELSE {<<1, -1>>}) ELSE {<<1, -1, 0>>}
PSet == IF N = 2 THEN (IF Wide THEN {<< <<1, 0>>, <<0, 1>> >>, << <<1, 0>>, <<0, 2>> >>, << <<2, 1>>, <<1, 1>> >>}
                               ELSE {<< <<1, 0>>, <<0, 1>> >>, << <<2, 1>>, <<1, 1>> >>})
                 ELSE {<< <<1, 0, 0>>, <<0, 1, 0>>, <<0, 0, 1>> >>, << <<2, 1, 0>>, <<1, 2, 0>>, <<0, 0, 1>> >>}
\* method names: "cg", "bicgstab.left", "bicgstab.right", "richardson", "richardson.half",
\*               "gmres.left.M", "gmres.right.M" with M = 1 and M = KMax (fgmres = gmres.right)
IsCG(m)   == m = "cg"
Side(m)   == IF m \in {"bicgstab.left", "gmres.left.1", "gmres.left.K"} THEN "left" ELSE "right"
Restart(m) == IF m \in {"gmres.left.1", "gmres.right.1"} THEN 1 ELSE KMax
IsGmres(m) == m \in {"gmres.left.1", "gmres.right.1", "gmres.left.K", "gmres.right.K"}
IsBs(m)    == m \in {"bicgstab.left", "bicgstab.right"}
Omega(m)   == IF m = "richardson.half" THEN <<1, 2>> ELSE ROne

A  == RMat(sys.A)
P  == RMat(sys.P)
f  == RVec(sys.f)
x0 == RVec(sys.x0)

\* squared residual norm GMRES minimises, or <<-1, 1>> when the residual's numbers are too large to
\* be squared and compared in 32 bits
RN2(Aq, Pq, fq, x, side) ==
    LET r0 == Residual(Aq, fq, x)
        r  == IF side = "left" THEN MatVec(Pq, r0) ELSE r0
    IN  IF VSize(r) > 100 THEN <<-1, 1>> ELSE Dot(r, r)
InitState(s) ==
    LET Aq == RMat(s.A)  Pq == RMat(s.P)  fq == RVec(s.f)  xq == RVec(s.x0)
    IN  CASE IsCG(s.m) -> CGInit(Aq, Pq, fq, xq)
          [] IsBs(s.m) -> BsInitQ(Aq, Pq, fq, xq, Side(s.m))
          [] IsGmres(s.m) -> [x |-> xq, def |-> TRUE, done |-> FALSE,
                              rn2 |-> RN2(Aq, Pq, fq, xq, Side(s.m)), prev |-> RN2(Aq, Pq, fq, xq, Side(s.m))]
          [] OTHER -> RichInit(Aq, fq, xq)

Weight(M) == LET idx == {<<i, j>> : i \in 1..N, j \in 1..N}
                 W[S \in SUBSET idx] == IF S = {} THEN 0
                                        ELSE LET e == CHOOSE x \in S : TRUE IN (N * (e[1] - 1) + e[2]) * M[e[1]][e[2]] + W[S \ {e}]
             IN  W[idx]
Kept(M, m) == IsCG(m) \/ Thin = 1 \/ Weight(M) % Thin = 0
SysSet(m) == { s \in [A : {AsRows(M, N) : M \in {X \in IntMats(N, IF IsCG(m) THEN AMaxCG ELSE IF IsBs(m) THEN AMaxBs ELSE AMax) : Kept(X, m)}},
                       f : FSet, x0 : XSet, P : PSet, m : {m}] :
                   IF IsCG(m) THEN PosDef(RMat(s.A)) /\ PosDef(RMat(s.P)) ELSE Nonsingular(RMat(s.A)) }
Init == /\ sys \in UNION {SysSet(m) : m \in Methods}
        /\ k = 0
        /\ st = InitState(sys)

\* largest numerator / denominator held in a program state
MaxOfSet(S) == CHOOSE m \in S : \A y \in S : y <= m
StSize(s) == IF IsCG(sys.m) THEN MaxOfSet({VSize(s.x), VSize(s.r), VSize(s.p), VSize(<<s.rho1>>)})
             ELSE IF IsBs(sys.m) THEN MaxOfSet({VSize(s.x), VSize(s.r), VSize(s.p), VSize(s.v), VSize(<<s.alpha, s.omega, s.rho1>>)})
             ELSE VSize(s.x)
Next == /\ k < KMax /\ k' = k + 1 /\ UNCHANGED sys
        \* 32-bit integers: a further step of a recurrence is taken only from states with small numbers
        \* (the second step multiplies four of them); full GMRES and Richardson are not restricted
        /\ (k >= 1 /\ (IsCG(sys.m) \/ IsBs(sys.m) \/ (IsGmres(sys.m) /\ Restart(sys.m) < KMax))) => StSize(st) <= BsBound
        /\ st' = CASE IsCG(sys.m) -> CGStep(A, P, st)
                   [] IsBs(sys.m) -> BsStepQ(A, P, Side(sys.m), st)
                   [] IsGmres(sys.m) -> LET x == GmresProg(A, P, f, x0, k + 1, Restart(sys.m), Side(sys.m))
                                        IN  [x |-> x, def |-> TRUE, done |-> FALSE,
                                             rn2 |-> RN2(A, P, f, x, Side(sys.m)), prev |-> st.rn2]
                   [] OTHER -> RichStep(A, P, f, Omega(sys.m), st)

\* ------------------------------------------------------------------ invariants
RefIterate ==
    CASE IsCG(sys.m) -> [x |-> CGRef(A, P, f, x0, k), def |-> TRUE, big |-> FALSE]
      [] IsBs(sys.m) -> BiCGStabRef(A, P, f, x0, k, Side(sys.m), BsBound)
      [] IsGmres(sys.m) -> [x |-> GmresRef(A, P, f, x0, k, Restart(sys.m), Side(sys.m)), def |-> TRUE, big |-> FALSE]
      [] OTHER -> [x |-> RichardsonRef(A, P, f, x0, k, Omega(sys.m)), def |-> TRUE, big |-> FALSE]
\* the program's k-th iterate is the defined one (both break down on the same inputs)
ProgMatchesRef == LET ref == RefIterate IN ref.big \/ ((st.def = ref.def) /\ (st.def => VEq(st.x, ref.x)))
\* finite termination: after N steps the Krylov methods hold the exact solution
Exact == SolveQ(A, f)
TerminatesAtN == (k = N /\ st.def /\ (IsCG(sys.m) \/ IsBs(sys.m) \/ (IsGmres(sys.m) /\ Restart(sys.m) >= N))) => VEq(st.x, Exact)
\* the carried residual of the recurrences is the residual of x (left: the preconditioned one)
CarriedResidual ==
    (st.def /\ (IsCG(sys.m) \/ IsBs(sys.m))) =>
        LET r == Residual(A, f, st.x)
        IN  VEq(st.r, IF IsBs(sys.m) /\ Side(sys.m) = "left" THEN MatVec(P, r) ELSE r)
\* GMRES: the minimised residual norm does not increase within a cycle or across restarts
GmresMonotone == IsGmres(sys.m) => (st.rn2[1] < 0 \/ st.prev[1] < 0 \/ QLe(st.rn2, st.prev))
=============================================================================
