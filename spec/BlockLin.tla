------------------------------ MODULE BlockLin ------------------------------
(* Small dense linear algebra over exact rationals (Rat.tla) for the composite      *)
(* preconditioner specifications (C18).  Vectors are sequences of rationals,        *)
(* matrices sequences of rows.  Integers enter through RV / RM.                     *)
(* 32-bit TLC integers: the models keep n <= 4 and |entries| <= 4, so numerators    *)
(* and denominators stay far below 2^31 (an overflow is a TLC error, not a wrap).   *)
EXTENDS Rat, Sequences, Integers, FiniteSets

RV(s)    == [k \in 1..Len(s) |-> R(s[k])]                       \* integer vector -> rational
RM(M)    == [i \in 1..Len(M) |-> RV(M[i])]
ZeroV(n) == [k \in 1..n |-> RZero]
UnitV(n, j) == [k \in 1..n |-> IF k = j THEN ROne ELSE RZero]
NCols(M) == IF Len(M) = 0 THEN 0 ELSE Len(M[1])

RECURSIVE SumTo(_, _)
SumTo(t, k) == IF k = 0 THEN RZero ELSE RAdd(SumTo(t, k - 1), t[k])      \* t[1] + ... + t[k]
Dot(u, v)    == SumTo([k \in 1..Len(u) |-> RMul(u[k], v[k])], Len(u))
MV(M, v)     == [i \in 1..Len(M) |-> Dot(M[i], v)]
VAddR(u, v)  == [k \in 1..Len(u) |-> RAdd(u[k], v[k])]
VSubR(u, v)  == [k \in 1..Len(u) |-> RSub(u[k], v[k])]
VScaleR(a, u) == [k \in 1..Len(u) |-> RMul(a, u[k])]
VMulR(d, u)  == [k \in 1..Len(u) |-> RMul(d[k], u[k])]          \* diagonal times vector
VEq(u, v)    == Len(u) = Len(v) /\ \A k \in 1..Len(u) : REq(u[k], v[k])
MEq(A, B)    == Len(A) = Len(B) /\ \A i \in 1..Len(A) : VEq(A[i], B[i])
Col(M, j)    == [i \in 1..Len(M) |-> M[i][j]]
Transp(M, m) == [j \in 1..m |-> Col(M, j)]                      \* m = number of columns of M
MM(A, B, m)  == [i \in 1..Len(A) |-> [j \in 1..m |-> Dot(A[i], Col(B, j))]]     \* B has m columns
MSubR(A, B)  == [i \in 1..Len(A) |-> VSubR(A[i], B[i])]
IdentM(n)    == [i \in 1..n |-> UnitV(n, i)]

\* Gauss-Jordan with row exchanges on the augmented rows <row | f_i>: the meaning of x = A^-1 f
RECURSIVE GJ(_, _, _)
GJ(M, n, c) ==
    IF c > n THEN [ok |-> TRUE, M |-> M]
    ELSE LET cand == {i \in c..n : ~IsZero(M[i][c])}
         IN  IF cand = {} THEN [ok |-> FALSE, M |-> M]
             ELSE LET p   == CHOOSE i \in cand : \A q \in cand : i <= q
                      Ms  == [M EXCEPT ![c] = M[p], ![p] = M[c]]
                      piv == Ms[c][c]
                      rc  == [j \in 1..(n + 1) |-> RDiv(Ms[c][j], piv)]
                      Me  == [i \in 1..n |-> IF i = c THEN rc
                                             ELSE [j \in 1..(n + 1) |-> RSub(Ms[i][j], RMul(Ms[i][c], rc[j]))]]
                  IN  GJ(Me, n, c + 1)
Solve(A, f) ==                                  \* [ok, x];  a 0 x 0 system is solved by <<>>
    LET n == Len(A)
        r == GJ([i \in 1..n |-> [j \in 1..(n + 1) |-> IF j <= n THEN A[i][j] ELSE f[i]]], n, 1)
    IN  [ok |-> r.ok, x |-> [i \in 1..n |-> r.M[i][n + 1]]]
Regular(A) == Solve(A, ZeroV(Len(A))).ok
InverseM(A) == LET n == Len(A) IN Transp([j \in 1..n |-> Solve(A, UnitV(n, j)).x], n)    \* A regular

\* a recorded dyadic fixed-point integer q (value q / 2^sh) against a rational
FixEq(q, sh, a) == REq(Norm(q, 2 ^ sh), a)
=============================================================================
