------------------------------- MODULE Poison -------------------------------
(* Definition-before-use discipline for arrays created uninitialised               *)
(* (`new T[n]`, numa_vector(n, false), crs::set_nonzeros(n)): every cell starts as  *)
(* the model value UNDEF; consuming UNDEF sets the ghost flag of the model that     *)
(* uses these helpers.  This is how a read of a never-written cell is found by the  *)
(* model, independently of what the allocator happens to return.                    *)
EXTENDS Naturals, Integers, Sequences, FiniteSets

UNDEF == "undef"
Fresh(D) == [d \in D |-> UNDEF]                 \* new T[|D|]
IsUndef(v) == v = UNDEF
ReadsUndef(arr, cells) == \E c \in cells : IsUndef(arr[c])
=============================================================================
