--------------------------- MODULE RepartitionModel ---------------------------
(* graph_perm_index (amgcl/mpi/partition/util.hpp:224-258) as the ranks execute it: *)
(* one action per statement group, MPI_Exscan and MPI_Allreduce as enter / complete  *)
(* pairs (a rank leaves Exscan as soon as all lower ranks have entered, Allreduce     *)
(* when all have), every interleaving of the ranks.  Checked: on termination the      *)
(* computed renumbering is the definition of Repartition.tla, which is a bijection    *)
(* that sends every row into the range of its part, keeps (rank, index) order inside  *)
(* a part, and the returned ranges tile the new numbering.  Exhaustive over all part  *)
(* vectors for MinNP..MaxNP ranks with at most MaxLoc rows each, npart <= np.         *)
EXTENDS Repartition, TLC
CONSTANTS MinNP, MaxNP, MaxLoc
VARIABLES parts, npart, pc, locCnt, locBeg, gloCnt, gloBeg, cnt, k, perm, rng, inEx, inAll
vars == <<parts, npart, pc, locCnt, locBeg, gloCnt, gloBeg, cnt, k, perm, rng, inEx, inAll>>
NP == Len(parts)
Ranks == 1..NP
ZeroP == [p \in 0..(npart - 1) |-> 0]
SeqsUpTo(S, n) == UNION {[1..m -> S] : m \in 0..n}

Init == \E np \in MinNP..MaxNP : \E np2 \in 1..np :
          /\ npart = np2
          /\ parts \in [1..np -> SeqsUpTo(0..(np2 - 1), MaxLoc)]
          /\ pc = [q \in 1..np |-> "count"]
          /\ locCnt = [q \in 1..np |-> [p \in 0..(np2 - 1) |-> 0]]
          /\ locBeg = locCnt /\ gloCnt = locCnt /\ cnt = locCnt       \* std::vector<ptrdiff_t>(npart, 0)
          /\ gloBeg = [q \in 1..np |-> [p \in 0..np2 |-> 0]]
          /\ k = [q \in 1..np |-> 1]
          /\ perm = [q \in 1..np |-> [i \in 1..Len(parts[q]) |-> -1]]
          /\ rng = [q \in 1..np |-> <<-1, -1>>]
          /\ inEx = {} /\ inAll = {}

Count(q) == /\ pc[q] = "count"
            /\ locCnt' = [locCnt EXCEPT ![q] = [p \in 0..(npart - 1) |-> LocCnt(parts, q, p)]]
            /\ pc' = [pc EXCEPT ![q] = "exscan"]
            /\ UNCHANGED <<parts, npart, locBeg, gloCnt, gloBeg, cnt, k, perm, rng, inEx, inAll>>
ExscanEnter(q) == /\ pc[q] = "exscan" /\ inEx' = inEx \cup {q} /\ pc' = [pc EXCEPT ![q] = "exscan-wait"]
                  /\ UNCHANGED <<parts, npart, locCnt, locBeg, gloCnt, gloBeg, cnt, k, perm, rng, inAll>>
\* rank 0 receives nothing from MPI_Exscan: its buffer keeps the zeros it was created with
ExscanDone(q) == /\ pc[q] = "exscan-wait" /\ (1..(q - 1)) \subseteq inEx
                 /\ locBeg' = [locBeg EXCEPT ![q] = IF q = 1 THEN @ ELSE [p \in 0..(npart - 1) |-> SumOver(1..(q - 1), LAMBDA qq : locCnt[qq][p])]]
                 /\ pc' = [pc EXCEPT ![q] = "allreduce"]
                 /\ UNCHANGED <<parts, npart, locCnt, gloCnt, gloBeg, cnt, k, perm, rng, inEx, inAll>>
AllEnter(q) == /\ pc[q] = "allreduce" /\ inAll' = inAll \cup {q} /\ pc' = [pc EXCEPT ![q] = "allreduce-wait"]
               /\ UNCHANGED <<parts, npart, locCnt, locBeg, gloCnt, gloBeg, cnt, k, perm, rng, inEx>>
AllDone(q) == /\ pc[q] = "allreduce-wait" /\ inAll = Ranks
              /\ gloCnt' = [gloCnt EXCEPT ![q] = [p \in 0..(npart - 1) |-> SumOver(Ranks, LAMBDA qq : locCnt[qq][p])]]
              /\ pc' = [pc EXCEPT ![q] = "scan"]
              /\ UNCHANGED <<parts, npart, locCnt, locBeg, gloBeg, cnt, k, perm, rng, inEx, inAll>>
Scan(q) == /\ pc[q] = "scan"
           /\ gloBeg' = [gloBeg EXCEPT ![q] = [p \in 0..npart |-> SumOver(0..(p - 1), LAMBDA pp : gloCnt[q][pp])]]
           /\ pc' = [pc EXCEPT ![q] = "assign"]
           /\ UNCHANGED <<parts, npart, locCnt, locBeg, gloCnt, cnt, k, perm, rng, inEx, inAll>>
Assign(q) == /\ pc[q] = "assign" /\ k[q] <= Len(parts[q])
             /\ LET p == parts[q][k[q]] IN
                  /\ perm' = [perm EXCEPT ![q][k[q]] = gloBeg[q][p] + locBeg[q][p] + cnt[q][p]]
                  /\ cnt' = [cnt EXCEPT ![q][p] = @ + 1]
             /\ k' = [k EXCEPT ![q] = @ + 1]
             /\ UNCHANGED <<parts, npart, pc, locCnt, locBeg, gloCnt, gloBeg, rng, inEx, inAll>>
Return(q) == /\ pc[q] = "assign" /\ k[q] > Len(parts[q])
             /\ rng' = [rng EXCEPT ![q] = <<gloBeg[q][Min2(npart, q - 1)], gloBeg[q][Min2(npart, q)]>>]
             /\ pc' = [pc EXCEPT ![q] = "done"]
             /\ UNCHANGED <<parts, npart, locCnt, locBeg, gloCnt, gloBeg, cnt, k, perm, inEx, inAll>>
Next == \E q \in Ranks : Count(q) \/ ExscanEnter(q) \/ ExscanDone(q) \/ AllEnter(q) \/ AllDone(q) \/ Scan(q) \/ Assign(q) \/ Return(q)
Spec == Init /\ [][Next]_vars /\ WF_vars(Next)

AllDoneNow == \A q \in Ranks : pc[q] = "done"
Correct == AllDoneNow =>
    /\ perm = PermDef(parts)
    /\ \A q \in Ranks : rng[q] = RangeDef(parts, npart, q - 1)
    /\ Bijective(parts, perm) /\ GoesToItsPart(parts, perm) /\ Stable(parts, perm)
    /\ RangesTile(parts, npart, rng)
\* no rank is ever stuck: some action is enabled until everybody is done
NoDeadlock == AllDoneNow \/ ENABLED Next
Terminates == <>AllDoneNow
\* vacuity guard (must be violated): the renumbering is not always the identity
NeverMoves == AllDoneNow => GlobalPerm(parts, perm) = [g \in 0..(Total(parts) - 1) |-> g]
=============================================================================
