CONSTANTS
  ColonParse = FALSE
  AdjustFix = FALSE
INIT Init
NEXT Next
INVARIANT PatternInv
CHECK_DEADLOCK FALSE
