------------------------------ MODULE Hierarchy ------------------------------
(* Control skeleton of amgcl::amg hierarchy construction (amg.hpp: do_init,         *)
(* level::level, level::step_down, level::create_coarse) and of rebuild()           *)
(* (level::rebuild, the five `if`s in list order).  The coarsening is an oracle     *)
(* that returns a strictly smaller size or signals an empty level.  Matrices are    *)
(* abstracted to their row count and a version tag (which system matrix they were   *)
(* derived from), so "every level was rebuilt from the new matrix" is exact.        *)
EXTENDS HierarchyDefs, TLC

CONSTANTS MaxRows,        \* finest-level sizes 1..MaxRows
          MaxVersions     \* rebuild histories use matrix versions 0..MaxVersions-1

VARIABLES prm,            \* [ce, ml, dc, ar]: coarse_enough, max_levels, direct_coarse, allow_rebuild
          levels,         \* sequence of level records
          cur,            \* rows of the matrix in hand (0 = empty-level signal), its version
          pc, hist        \* control state; rebuild history (sequence of versions)

vars == <<prm, levels, cur, pc, hist>>

NoLevel == [rows |-> 0, A |-> -1, relax |-> -1, solve |-> -1, P |-> FALSE, bP |-> FALSE, vecs |-> 0]
\* A / relax / solve hold the version of the matrix they were built from, -1 = absent

\* level(A, prm, bprm): f,u,t + A + relax
FullLevel(rows, v) == [rows |-> rows, A |-> v, relax |-> v, solve |-> -1, P |-> FALSE, bP |-> FALSE, vecs |-> 3]
\* level() + create_coarse(A, bprm, single_level): u,f + solve (+ A when it is the only level)
CoarseLevel(rows, v, single) == [rows |-> rows, A |-> IF single THEN v ELSE -1, relax |-> -1, solve |-> v,
                                 P |-> FALSE, bP |-> FALSE, vecs |-> 2]

Init == /\ prm \in [ce : 0..MaxRows, ml : 1..4, dc : BOOLEAN, ar : BOOLEAN]
        /\ levels = <<>>
        /\ cur \in [rows : 1..MaxRows, ver : {0}]
        /\ pc = "loop" /\ hist = <<0>>

\* while (rows(A) > coarse_enough) { levels.push_back(level(A)); if (size >= max_levels) break; A = step_down(...) ...
PushLevel ==
    /\ pc = "loop" /\ cur.rows > prm.ce
    /\ levels' = Append(levels, FullLevel(cur.rows, cur.ver))
    /\ pc' = IF Len(levels) + 1 >= prm.ml THEN "after" ELSE "stepdown"
    /\ UNCHANGED <<prm, cur, hist>>

\* step_down: transfer operators chosen on the last level, coarse matrix strictly smaller ...
StepDown ==
    /\ pc = "stepdown"
    /\ \E r \in 1..(cur.rows - 1) :
         /\ cur' = [rows |-> r, ver |-> cur.ver]
         /\ levels' = [levels EXCEPT ![Len(levels)].P = TRUE, ![Len(levels)].bP = prm.ar]
    /\ pc' = "loop"
    /\ UNCHANGED <<prm, hist>>
\* ... or error::empty_level: no P/R, loop left, smoother on the last level
EmptyLevel ==
    /\ pc = "stepdown"
    /\ cur' = [rows |-> 0, ver |-> cur.ver]
    /\ pc' = "after"
    /\ UNCHANGED <<prm, levels, hist>>

LoopExit == pc = "loop" /\ cur.rows <= prm.ce /\ pc' = "after" /\ UNCHANGED <<prm, levels, cur, hist>>

\* after the loop: direct_coarse_solve = loop left normally /\ rows(A) <= coarse_enough
Finish ==
    /\ pc = "after"
    /\ LET direct == cur.rows > 0 /\ cur.rows <= prm.ce      \* !A || rows(A) > coarse_enough  =>  no direct solve
       IN  levels' = IF ~direct THEN levels
                     ELSE IF prm.dc THEN Append(levels, CoarseLevel(cur.rows, cur.ver, levels = <<>>))
                     ELSE Append(levels, FullLevel(cur.rows, cur.ver))
    /\ pc' = "built"
    /\ UNCHANGED <<prm, cur, hist>>

\* rebuild(A'): every level in list order; the matrix handed down is re-derived through bP/bR
RECURSIVE RebuildFrom(_, _, _)
RebuildFrom(ls, k, v) ==
    IF k > Len(ls) THEN ls
    ELSE LET L  == ls[k]
             L1 == [L EXCEPT !.A = IF L.A >= 0 THEN v ELSE -1,
                             !.relax = IF L.relax >= 0 THEN v ELSE -1,
                             !.solve = IF L.solve >= 0 THEN v ELSE -1]
         IN  RebuildFrom([ls EXCEPT ![k] = L1], k + 1, v)     \* bP/bR present: A = R A P of version v

Rebuild(v) ==
    /\ pc = "built" /\ prm.ar /\ Len(hist) < 4
    /\ levels' = RebuildFrom(levels, 1, v)
    /\ hist' = Append(hist, v)
    /\ UNCHANGED <<prm, cur, pc>>
RebuildRefused == pc = "built" /\ ~prm.ar /\ UNCHANGED vars     \* precondition throws, nothing changes

Next == PushLevel \/ StepDown \/ EmptyLevel \/ LoopExit \/ Finish
        \/ (\E v \in 0..(MaxVersions - 1) : Rebuild(v)) \/ RebuildRefused
Spec == Init /\ [][Next]_vars

Built == pc = "built"
ShapeInv   == Built => ShapeOK(prm, levels[1].rows, levels)
VersionInv == Built => VersionOK(levels, hist[Len(hist)])
\* the direct-solver level exists only below a hierarchy whose finest level had rows > ce,
\* or alone; and the whole structure (which parts exist) never changes under rebuild
StructureStable == [][pc = "built" /\ pc' = "built" =>
                        \A k \in 1..Len(levels) : /\ (levels'[k].A >= 0) = (levels[k].A >= 0)
                                                  /\ (levels'[k].relax >= 0) = (levels[k].relax >= 0)
                                                  /\ (levels'[k].solve >= 0) = (levels[k].solve >= 0)
                                                  /\ levels'[k].P = levels[k].P /\ levels'[k].bP = levels[k].bP
                                                  /\ levels'[k].rows = levels[k].rows]_vars
=============================================================================
