------------------------------ MODULE IluPattern ------------------------------
(* The symbolic side of amgcl's incomplete factorisations: which positions (i,j)    *)
(* the factors L + D + U may occupy (the "admitted pattern").                        *)
(*   ILU(0)  pattern of A                                   (ilu0.hpp)               *)
(*   ILUP(k) pattern of A^(k+1) by repeated symb_product     (ilup.hpp)              *)
(*   ILU(k)  level of fill <= k with the rule of iluk.hpp:  a stored entry has       *)
(*           level 0, the fill created by pivot c gets  max(lev(i,c), lev(c,j)) + 1  *)
(*           (NOT the textbook lev(i,c) + lev(c,j) + 1), an existing entry keeps the *)
(*           minimum, an entry is created only when its level is <= k.               *)
(* Patterns are functions  row -> set of columns; levels  row -> [col -> level].     *)
EXTENDS Crs

PatternOf(A) == [i \in Rows(A) |-> RowCols(A, i)]
PatSubset(S, T, n) == \A i \in 0..(n - 1) : S[i] \subseteq T[i]

\* ---- ILUP: symb_product(P, A) = row-wise union (marker loop), k-1 further products
SymbProduct(S, T, n) == [i \in 0..(n - 1) |-> UNION {T[c] : c \in S[i]}]
RECURSIVE PowerPattern(_, _, _)
PowerPattern(A, k, n) ==                 \* pattern of A^(k+1); k = 0 is A itself (ilup delegates to ilu0)
    IF k = 0 THEN PatternOf(A)
    ELSE IF k = 1 THEN SymbProduct(PatternOf(A), PatternOf(A), n)
    ELSE SymbProduct(PowerPattern(A, k - 1, n), PatternOf(A), n)

\* ---- ILU(k), transcription of the row loop of iluk.hpp (symbolic part).
\* w: [col -> level] of the working row; the priority queue pops the not yet processed
\* columns < i in ascending order (fill created to the left of the diagonal is queued too).
RECURSIVE IlukRowLevels(_, _, _, _, _, _)
IlukRowLevels(i, w, done, Ulev, k, maxrule) ==
    LET todo == {c \in DOMAIN w : c < i /\ c \notin done}
    IN  IF todo = {} THEN w
        ELSE LET c    == MinOf(todo)
                 urow == Ulev[c]                                  \* [col -> level] of U's row c
                 upd(acc, j) ==
                     LET lev == (IF maxrule THEN (IF w[c] > urow[j] THEN w[c] ELSE urow[j]) ELSE w[c] + urow[j]) + 1
                     IN  IF j \in DOMAIN acc THEN [acc EXCEPT ![j] = IF lev < @ THEN lev ELSE @]
                         ELSE IF lev <= k THEN [jj \in DOMAIN acc \cup {j} |-> IF jj = j THEN lev ELSE acc[jj]]
                         ELSE acc
                 w1   == FoldLeft(upd, w, SetToSortSeq(DOMAIN urow, <))
             IN  IlukRowLevels(i, w1, done \cup {c}, Ulev, k, maxrule)
\* -> [i -> [col -> level]] for all rows (L, diagonal and U part together)
IlukLevels(A, k, maxrule) ==
    LET n == A.n
        F[i \in 0..n] ==          \* F[i] = levels of rows 0..i-1
            IF i = 0 THEN [r \in {} |-> <<>>]
            ELSE LET prev == F[i - 1]
                     r    == i - 1
                     Ulev == [c \in DOMAIN prev |-> [j \in {jj \in DOMAIN prev[c] : jj > c} |-> prev[c][j]]]
                     w0   == [c \in RowCols(A, r) |-> 0]
                     w    == IlukRowLevels(r, w0, {}, Ulev, k, maxrule)
                 IN  [rr \in 0..r |-> IF rr = r THEN w ELSE prev[rr]]
    IN  F[n]
IlukPattern(A, k) == LET lv == IlukLevels(A, k, TRUE) IN [i \in Rows(A) |-> DOMAIN lv[i]]
IlukPatternSumRule(A, k) == LET lv == IlukLevels(A, k, FALSE) IN [i \in Rows(A) |-> DOMAIN lv[i]]

\* ---- the definition of "level of fill <= k" (max rule), independent of the row loop:
\* Gaussian elimination order (k outermost), levels on a dense array, entries above k never exist
INF == 99
LevelsDef(A, k) ==
    LET n  == A.n
        L0 == [i \in 0..(n - 1) |-> [j \in 0..(n - 1) |-> IF j \in RowCols(A, i) THEN 0 ELSE INF]]
        stepc(Lv, c) ==
            [i \in 0..(n - 1) |-> [j \in 0..(n - 1) |->
                IF i > c /\ j > c /\ Lv[i][c] <= k /\ Lv[c][j] <= k
                THEN LET lev == (IF Lv[i][c] > Lv[c][j] THEN Lv[i][c] ELSE Lv[c][j]) + 1
                     IN  IF lev <= k /\ lev < Lv[i][j] THEN lev ELSE Lv[i][j]
                ELSE Lv[i][j]]]
    IN  FoldLeft(stepc, L0, [c1 \in 1..n |-> c1 - 1])
PatternDef(A, k) == LET Lv == LevelsDef(A, k) IN [i \in Rows(A) |-> {j \in 0..(A.n - 1) : Lv[i][j] <= k}]
\* structural pattern of the complete factors = no limit on the level
FullPattern(A) == PatternDef(A, A.n + 1)

\* ILU(k) within ILU(k+1) within the complete factors; the same for ILUP
PatternMonotone(A, k) ==
    /\ PatSubset(PatternOf(A), IlukPattern(A, k), A.n)
    /\ PatSubset(IlukPattern(A, k), IlukPattern(A, k + 1), A.n)
    /\ PatSubset(IlukPattern(A, k + 1), FullPattern(A), A.n)
    /\ PatSubset(PowerPattern(A, k, A.n), PowerPattern(A, k + 1, A.n), A.n)
\* special structures without fill: tridiagonal, arrow (last row and column full)
IsTridiagonal(A) == \A i \in Rows(A) : \A c \in RowCols(A, i) : c - i \in {-1, 0, 1}
IsArrow(A)       == \A i \in Rows(A) : \A c \in RowCols(A, i) : c = i \/ c = A.n - 1 \/ i = A.n - 1
=============================================================================
