CONSTANTS
  MaxNP = 4
  NR = 4
  MaxCS = 3
INIT Init
NEXT Next
INVARIANTS ConsolidationOK RhsOK SolutionOK
CHECK_DEADLOCK TRUE
