CONSTANTS
  Solvers = {"bicgstab"}
  MaxIter = 6
  MaxPar = 3
  Consistent = FALSE
  WithBreakdown = TRUE
  CheckAfterGuarded = FALSE
SPECIFICATION FairSpec
INVARIANTS TypeOK Budget ExitReason Provenance Work Flushed
CHECK_DEADLOCK FALSE
