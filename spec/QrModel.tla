------------------------------ MODULE QrModel ------------------------------
(* every shape up to SMAX x SMAX in both storage orders: the index maps of qr.hpp   *)
EXTENDS DenseQR, TLC
CONSTANTS SMAX
VARIABLES rows, cols, order
Init == rows \in 1..SMAX /\ cols \in 1..SMAX /\ order \in {0, 1}
Next == UNCHANGED <<rows, cols, order>>
StrideInv == StrideBijective(rows, cols, order) /\ TransposeBySwap(rows, cols, order) /\ DiagonalWalk(rows, cols, order)
BlockInv  == (rows <= 4 /\ cols <= 4) => BlockCopyBijective(rows, cols, 2) /\ BlockCopyBijective(rows, cols, 3)
=============================================================================
