------------------------------ MODULE QrModel ------------------------------
(* every shape up to SMAX x SMAX in both storage orders: the index maps of qr.hpp   *)
EXTENDS DenseQR, TLC
CONSTANTS SMAX
VARIABLES rows, cols, order
Init == rows \in 1..SMAX /\ cols \in 1..SMAX /\ order \in {0, 1}
Next == UNCHANGED <<rows, cols, order>>
StrideInv == StrideBijective(rows, cols, order) /\ TransposeBySwap(rows, cols, order) /\ DiagonalWalk(rows, cols, order)
\* views with leading dimension up to 3 beyond the packed size
ViewInv   == \A pad \in 0..3 :
                 LET ld == (IF order = 0 THEN cols ELSE rows) + pad
                 IN  ViewInjective(rows, cols, order, ld) /\ (PrefixIsView(rows, cols, order, ld) <=> Packed(rows, cols, order, ld))
BlockInv  == (rows <= 4 /\ cols <= 4) => BlockCopyBijective(rows, cols, 2) /\ BlockCopyBijective(rows, cols, 3)
=============================================================================
