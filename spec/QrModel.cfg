CONSTANTS
  SMAX = 12
INIT Init
NEXT Next
INVARIANTS StrideInv ViewInv BlockInv
CHECK_DEADLOCK FALSE
