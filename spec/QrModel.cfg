CONSTANTS
  SMAX = 12
INIT Init
NEXT Next
INVARIANTS StrideInv BlockInv
CHECK_DEADLOCK FALSE
