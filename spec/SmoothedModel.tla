---------------------------- MODULE SmoothedModel ----------------------------
(* aggregation / smoothed_aggregation transfer operators on every CoPatterns        *)
(* matrix (N nodes, digraph or symmetric masks, value modes Modes), eps = 1/d,      *)
(* omega = p/q for every code 10*p+q in OmegaCodes, block size BS (Ab = A (x) I_BS).*)
(* One step: aggregates -> P_tent -> P = SARun (exact rationals).                   *)
EXTENDS RugeStuben, CoPatterns, TLC     \* (RugeStuben only for the shared module tree)

CONSTANTS N, Sym, Modes, EpsDens, OmegaCodes, BS, LiftBug
VARIABLES A, eps, om, pc, out
vars == <<A, eps, om, pc, out>>

Init == /\ A \in CoMasks(N, Sym) \X Modes
        /\ \E d \in EpsDens : eps = <<1, d>>
        /\ \E c \in OmegaCodes : om = <<c \div 10, c % 10>>
        /\ pc = "gen" /\ out = <<>>
Gen  == pc = "gen" /\ pc' = "in" /\ A' = CoMat(N, Sym, A[1], A[2]) /\ UNCHANGED <<eps, om, out>>

Coarsen(M, bs) ==
    LET ag == PointwiseAggRun(M, eps, bs, 0, LiftBug)
    IN  IF ag.empty THEN [empty |-> TRUE]
        ELSE LET Pt == TentRun(M.n, ag.count, ag.id)
                 sa == SARun(M, [p \in 1..NNZ(M) |-> ag.strong[p] = 1], Pt, om)
             IN  [empty |-> FALSE, ag |-> ag, Pt |-> Pt, P |-> sa.P, widthsOK |-> sa.widthsOK]
\* Ab and the definitional flags are computed once and kept in `out` for the invariants
Run  == /\ pc = "in" /\ pc' = "done" /\ UNCHANGED <<A, eps, om>>
        /\ LET Ab == Lift(A, BS)
           IN  out' = [Ab |-> Ab, S |-> IF BS = 1 THEN StrongFlags(Ab, eps) ELSE DefBlockFlags(Ab, eps, BS),
                       b |-> Coarsen(Ab, BS), s |-> IF BS = 1 THEN <<>> ELSE Coarsen(A, 1)]
Next == Gen \/ Run

Live == pc = "done" /\ ~out.b.empty
TentInv == Live => /\ TentativeOK(out.Ab.n, out.b.ag.count, out.b.ag.id, out.b.Pt)
                   /\ DisjointSupportOK(out.b.Pt) /\ ColumnsOrthogonalOK(out.b.Pt)
                   /\ ConstantReproducedOK(out.b.ag.id, out.b.Pt)
                   /\ IdsOf(out.b.Pt) = [k \in 1..out.Ab.n |-> IF out.b.ag.id[k] >= 0 THEN out.b.ag.id[k] ELSE Removed]
SmoothedInv == Live => /\ SmoothedOK(out.Ab, out.S, out.b.ag.id, out.b.ag.count, om, out.b.P, RatNear)
                       /\ out.b.widthsOK /\ NoDup(out.b.P)
RowSumInv == Live => RowSumOneOK(out.Ab, SARows(out.Ab, out.S), out.b.P, RatNear)
\* block problem = lifted scalar problem
KronInv == (Live /\ BS > 1) => ~out.s.empty /\ KronPOK(out.s.P, BS, out.b.P, RatNear)
=============================================================================
