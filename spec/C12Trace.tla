------------------------------ MODULE C12Trace ------------------------------
(* Trace spec for C12: every record the recorder harness/record_dist_solve.cpp logged  *)
(* from the real distributed solver stack (mpirun, N ranks, gathered to rank 0) is      *)
(* judged with the predicates of Pmis / DistAmg / MpiChan / Crs.                        *)
EXTENDS TraceKit, DistAmg, MpiChan

VARIABLES l, bad, drift

Flat(ll) == FlattenSeq(ll)
AllSame(s) == \A i \in 1..Len(s) : s[i] = s[1]
Slack == 1000          \* millidecades: reported <= tol  =>  true <= 10 tol

AggrClauses(r) ==
    LET wf == IsPartition(r.rp, r.np, r.A.n) /\ WellFormed(r.A) /\ r.A.n = r.A.m
              /\ (\A i \in Rows(r.A) : i \in RowCols(r.A, i)) /\ TentativeShapeOK(r.P, r.np, r.rp)
        G  == StrengthGraph(r.A, r.eps_num, r.eps_den)
    IN  << <<"tentative-prolongation-shape", wf>>,
           <<"GlobalPartitionOK", wf /\ GlobalPartitionOK(G, r.np, FinOfP(r.P, r.np))>> >>

LevelClauses(r) ==
    LET wf == LevelShapesOK(r.np, r.A, r.P, r.R, r.Ac)
    IN  << <<"level-shapes", wf>>,
           <<"R=transpose(P)", wf /\ RestrictionOK(r.P, r.R)>>,
           <<"Ac=R*A*P", wf /\ GalerkinOK(r.A, r.P, r.R, r.Ac, r.over, r.sA, r.sC)>> >>

DirectClauses(r) ==
    LET wf == WellFormed(r.A) /\ Len(r.f) = r.A.n /\ Len(r.xe) = r.A.n /\ Len(r.xq) = r.A.n
    IN  << <<"direct-wellformed", wf>>,
           <<"oracle-is-exact", wf /\ \A i \in 1..r.A.n : r.f[i] = Dot(r.A, i - 1, r.xe)>>,
           <<"direct-solution-exact", wf /\ \A i \in 1..r.A.n : Abs(r.xq[i] - 16777216 * r.xe[i]) <= 16>> >>

SolveClauses(r) ==
    << <<"iterations-identical-on-all-ranks", Len(r.iters) = r.np /\ AllSame(r.iters)>>,
       <<"residual-bitwise-identical-on-all-ranks", Len(r.resbits) = r.np /\ AllSame(r.resbits)>>,
       <<"ReturnOK", /\ r.finite /\ Flat(r.iters)[1] <= r.maxiter
                     /\ (r.rep <= r.tol => r.tru <= r.tol + Slack)>>,
       <<"converges-on-SPD-M-matrix", r.expect => r.rep <= r.tol>> >>

Clauses(r) ==
    CASE r.k = "aggr"      -> AggrClauses(r)
      [] r.k = "nullspace" -> << <<"near-null-space-reproduced", r.shape /\ r.err <= -12000>> >>
      [] r.k = "amgcase"   -> <<>>
      [] r.k = "level"     -> LevelClauses(r)
      [] r.k = "levelO"    -> << <<"R=transpose(P)", r.errR <= -12000>>, <<"Ac=R*A*P", r.errAc <= -12000>> >>
      [] r.k = "repart"    -> << <<"RepartitionOK", RepartitionOK(r.np, r.Ac, r.I, r.An, r.ratio)>> >>
      [] r.k = "direct"    -> DirectClauses(r)
      \* one object: construct(allow_rebuild) with A, rebuild(4 A), apply / solve  vs  a hierarchy freshly built from 4 A
      [] r.k = "rebuild"   -> << <<"rebuilt-cycle=fresh-hierarchy", r.err <= -10000>>,
                                 <<"rebuilt-iterations=fresh-hierarchy", Abs(r.it_rebuilt - r.it_fresh) <= 1>>,
                                 <<"residual-bitwise-identical-on-all-ranks", Len(r.resbits_rebuilt) = r.np /\ AllSame(r.resbits_rebuilt)>> >>
      \* block smoothed aggregation, non-commuting coupling blocks, zero block row sums
      [] r.k = "blocksa"   -> << <<"block-constants-reproduced", r.aggregated > 0 /\ r.errSum <= -12000>>,
                                 <<"R=transpose(P)", r.errR <= -12000>>, <<"Ac=R*A*P", r.errAc <= -12000>> >>
      [] r.k = "solve"     -> SolveClauses(r)
      [] r.k = "msgs"      -> << <<"FifoMatch", FifoMatch(r.log.ev)>>,
                                 <<"Completed", Completed(r.log.ev) /\ (\A q \in 1..Len(r.log.open) : r.log.open[q] = 0 /\ r.log.lost[q] = 0)>>,
                                 <<"CollectiveLockstep", CollectiveLockstep(r.log.ev)>> >>
      [] OTHER             -> << <<"unknown-record", FALSE>> >>

\* the real aggregates equal the transcription's (informational: SPEC-DRIFT, never a verdict)
Drifted(r) ==
    IF Has(r, "e") THEN FALSE
    ELSE IF r.k = "aggr" THEN ~SameFin(FinOfP(r.P, r.np), PmisRun(StrengthGraph(r.A, r.eps_num, r.eps_den), r.np, r.rp).fin)
    ELSE FALSE

\* C12MODE=drift turns the same machinery into the drift pass: a "rejected" line is then a drifted one
Mode == IF "C12MODE" \in DOMAIN IOEnv THEN IOEnv.C12MODE ELSE "judge"
Failed(r) == IF Mode = "drift" THEN (IF Drifted(r) THEN <<"aggregates-differ-from-PmisRun">> ELSE <<>>)
             ELSE IF Has(r, "e") THEN (IF r.e = "End" THEN <<>> ELSE <<"recorder:" \o r.e>>)
             ELSE FailedOf(Clauses(r))

TInit == l = 1 /\ bad = <<>> /\ drift = <<>>
TNext == /\ l <= NLog /\ l' = l + 1
         /\ LET f == Failed(Log[l])
            IN  /\ bad' = IF f = <<>> THEN bad ELSE Append(bad, <<l, f>>)
                /\ drift' = drift
Verdict == (l = NLog + 1) => VerdictLine(l, bad)
=============================================================================
