CONSTANTS
  N = 4
  Sym = FALSE
  Modes = {0, 1, 6, 7, 12, 13, 18, 19}
  EpsDens = {4, 2}
INIT Init
NEXT Next
INVARIANTS TypeInv PartitionInv FlagsInv RunInv SymInv
CHECK_DEADLOCK FALSE
