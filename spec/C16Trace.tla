------------------------------ MODULE C16Trace ------------------------------
(* Trace spec for C16: every recorded call of the real direct / dense kernels is    *)
(* judged with the predicates that are the invariants of DirectModel / PermModel /  *)
(* InverseModel / StaticMatrixModel (exact rationals recomputed by TLC from the     *)
(* recorded *input*; recorded doubles arrive as fixed point rint(v * 2^sh)) and     *)
(* with QrOK / the residual thresholds for the class-O observations.                *)
EXTENDS TraceKit, Skyline, CuthillMcKee, SmallInverse, StaticMatrix, DenseQR

VARIABLES l, bad

Tol    == -12000          \* millidecades: 1e-12
TolInv == -10000          \* inverse compared with the reference inverse: conditioning enters
FixTol == 2               \* units of 2^-sh

\* ---- Cuthill-McKee
CmClauses(r) == << <<"cm-no-exception", r.exc = 0>>,
                   <<"cm-permutation", r.exc = 0 => IsPermutation(r.perm, r.A.n)>> >>

\* ---- skyline LU
AllDyadic(D, n) == \A i \in Idx(n) : LET d == D[i][2] IN \E k \in 0..20 : d = 2 ^ k
SkyClauses(r) ==
    LET n     == r.A.n
        permOK == IsPermutation(r.perm, n)
        built == r.exc = 0
        wfp   == built => (Len(r.ptr) = n + 1 /\ r.iperm = r.perm)
        ptrf  == [i \in 0..n |-> r.ptr[i + 1]]
        rat   == r.rat /\ permOK
        run   == SkyRun(r.A, r.perm, RVecOf(r.f))
        ref   == RefSolve(DenseOf(r.A), RVecOf(r.f), n)
    IN  << <<"permutation", permOK>>,
           <<"wellformed", wfp>>,
           <<"profile-covers-nonzeros", (built /\ permOK /\ wfp) => (ProfileMonotone(ptrf, n) /\ ProfileCovers(r.A, r.perm, ptrf))>>,
           \* an exception is raised only for a zero pivot ...
           <<"exception-only-on-zero-pivot", (rat /\ r.exc = 1) => run.zero>>,
           \* ... and always for one (judged where the floating-point factorisation is exact: dyadic pivots)
           <<"zero-pivot-reported", (rat /\ run.zero /\ AllDyadic(run.F.D, n)) => r.exc = 1>>,
           <<"zero-pivot<=>needs-pivoting", rat => (run.zero <=> ~NeedsNoPivoting(r.A, r.perm))>>,
           <<"solve: A x = f", (rat /\ built /\ ~run.zero /\ ~r.big) =>
                                  (ref.ok /\ SkylineSolveOK(r.A, RVecOf(r.f), run.x) /\ VecCloseFix(r.x, ref.x, n, r.sh, FixTol))>>,
           <<"residual", built => (r.finite /\ r.res <= Tol /\ r.err <= Tol)>>,
           <<"second-call-same", r.again>>,
           <<"no-exception-when-dominant", r.tag \in {"dom", "spd", "rand"} => built>>,
           <<"singular-reported", r.tag = "zerorow" => r.exc = 1>> >>
SkyDrift(r) == r.rat /\ r.exc = 0 /\ IsPermutation(r.perm, r.A.n) /\
               LET run == SkyRun(r.A, r.perm, RVecOf(r.f)) IN [i \in 0..r.A.n |-> r.ptr[i + 1]] # run.ptr

\* ---- small inverse
InvClauses(r) ==
    LET n   == r.n
        run == InverseRun(n, FlatOf(r.A, n))
    IN  << <<"inverse-finite", r.finite>>,
           <<"inverse-residual", r.eres <= Tol /\ r.err <= TolInv>>,
           <<"inverse=rational-inverse", (r.rat /\ ~r.big) =>
                 /\ ~run.sing /\ InverseOK(n, FlatOf(r.A, n), run.inv)
                 /\ Len(r.out) = n * n
                 /\ \A k \in Idx(n * n) : FixSafe(run.inv[k], r.sh) => CloseFix(r.out[k + 1], run.inv[k], r.sh, FixTol)>> >>

\* ---- static matrix arithmetic (exact integers)
SmClauses(r) ==
    LET N == r.N
        K == r.K
        M == r.M
    IN  << <<"sm-mul", r.mul = SMMul(r.a, r.b, N, K, M)>>,
           <<"sm-add-sub", r.add = SMAdd(r.a, r.a2) /\ r.sub = SMSub(r.a, r.a2)>>,
           <<"sm-scale-neg", r.scale = SMScale(r.s, r.a) /\ r.neg = SMNeg(r.a) /\ r.acc = SMScale(r.s, r.a2)>>,
           <<"sm-adjoint", r.adj = SMAdjoint(r.a, N, K)>>,
           <<"sm-inner", r.inner = (IF K = 1 THEN <<SMInner(r.a, r.a2, N, 1)[1]>> ELSE SMInner(r.a, r.a2, N, K))>>,
           <<"sm-constants", r.ident = SMIdent(N) /\ r.zero = SMZero(N, K) /\ r.cnst = SMConst(N, K, r.s)>>,
           <<"sm-square", r.sqmul = SMMul(r.sq, r.sq2, N, N, N) /\ r.less = SMLess(r.sq, r.sq2, N, N)>>,
           <<"sm-norm-iszero", r.normok /\ r.norm2 = SMNorm2(r.a) /\ r.iszero = SMIsZero(r.a) /\ r.zeroiszero>>,
           <<"sm-ring", N # K \/ RingOK(r.a, r.a2, r.sq, r.s, N)>> >>

\* ---- static_matrix with complex elements (exact Gaussian integers)
SmcClauses(r) ==
    LET N == r.N
        K == r.K
        M == r.M
        a == CPairs(r.a_re, r.a_im)
        a2 == CPairs(r.a2_re, r.a2_im)
        b == CPairs(r.b_re, r.b_im)
        u == CPairs(r.u_re, r.u_im)
        v == CPairs(r.v_re, r.v_im)
        adj == CPairs(r.adj_re, r.adj_im)
    IN  << <<"smc-adjoint=conjugate-transpose", adj = CSMAdjoint(a, N, K)>>,
           <<"smc-mul", CPairs(r.mul_re, r.mul_im) = CSMMul(a, b, N, K, M) /\ CPairs(r.adjmul_re, r.adjmul_im) = CSMAdjoint(CSMMul(a, b, N, K, M), N, M)>>,
           <<"smc-inner", CPairs(r.inner_re, r.inner_im) = CSMInner(a, a2, N, K)>>,
           \* <A u, v> = <u, A^H v>, both as computed by the real code and as defined
           <<"smc-adjoint-identity", /\ CPairs(r.axv_re, r.axv_im) = CSMInner(CSMMul(a, u, N, K, 1), v, N, 1)
                                     /\ CPairs(r.uahv_re, r.uahv_im) = CPairs(r.axv_re, r.axv_im)>>,
           <<"smc-trace(A^H A)=norm^2", r.normok /\ r.norm2 = CSMNorm2(a) /\ CPairs(r.tr_re, r.tr_im) = << <<CSMNorm2(a), 0>> >> >>,
           <<"smc-spec-identities", CAdjointOK(a, b, u, v, N, K, M)>> >>

\* ---- long thin graphs
CmLongClauses(r) == << <<"cm-no-exception", r.exc = 0>>,
                       <<"cm-permutation", r.permok /\ r.noverrun /\ (Len(r.perm) > 0 => IsPermutationFast(r.perm, r.n))>> >>
SkyLongClauses(r) == << <<"no-exception-when-dominant", r.exc = 0>>,
                        <<"permutation", r.permok>>,
                        <<"residual", r.exc = 0 => (r.finite /\ r.res <= Tol /\ r.err <= Tol)>> >>

Clauses(r) ==
    CASE r.k = "cm"     -> CmClauses(r)
      [] r.k = "cmlong"  -> CmLongClauses(r)
      [] r.k = "skylong" -> SkyLongClauses(r)
      [] r.k = "smc"     -> SmcClauses(r)
      [] r.k = "sky"    -> SkyClauses(r)
      [] r.k = "inv"    -> InvClauses(r)
      [] r.k = "sm"     -> SmClauses(r)
      [] r.k = "qr"     -> << <<"qr", QrOK(r)>> >>
      [] r.k = "qrview" -> << <<"qr-solve-on-view", QrViewOK(r)>> >>
      \* call histories on one object: every call equals the same call on a fresh object (bitwise) and the definition
      [] r.k = "qrreuse"  -> << <<"qr-reused-object=fresh-object", r.fresh>>, <<"qr-reused-object=definition", QrReuseOK(r)>> >>
      [] r.k = "skyreuse" -> << <<"skyline-repeated-apply=fresh-object", r.fresh>>,
                                <<"skyline-repeated-apply=definition", r.finite /\ r.zero_in_zero_out /\ r.err <= Tol>> >>
      [] r.k = "invreuse" -> << <<"inverse-reused-buffers=fresh-buffers", r.fresh>>,
                                <<"inverse-reused-buffers=definition", r.finite /\ r.eres <= Tol>> >>
      [] r.k = "dsolve" -> << <<"direct-solver", r.exc = 0 /\ r.err <= Tol>> >>
      [] OTHER          -> << <<"unknown-record", FALSE>> >>

Drifted(r) == IF Has(r, "e") THEN FALSE
              ELSE CASE r.k = "cm" /\ r.exc = 0 -> r.perm # CMRun(r.A, r.rev).perm
                     [] r.k = "sky" -> SkyDrift(r)
                     [] OTHER -> FALSE

\* rejected clauses; a record that satisfies every predicate but whose storage differs from the
\* transcription's Run is reported with the single pseudo-clause "drift:..." (never a violation)
Failed(r) == IF Has(r, "e") THEN (IF r.e = "End" THEN <<>> ELSE <<"recorder:" \o r.e>>)
             ELSE LET f == FailedOf(Clauses(r))
                  IN  IF f # <<>> THEN f ELSE IF Drifted(r) THEN <<"drift:storage-differs-from-transcription">> ELSE <<>>

TInit == l = 1 /\ bad = <<>>
TNext == /\ l <= NLog /\ l' = l + 1
         /\ LET f == Failed(Log[l])
            IN  bad' = IF f = <<>> THEN bad ELSE Append(bad, <<l, f>>)
Verdict == (l = NLog + 1) => VerdictLine(l, bad)
=============================================================================
