----------------------------- MODULE LgmresRing -----------------------------
(* The augmentation ring of LGMRES (lgmres.hpp:362-371), abstractly: after every       *)
(* restart cycle the normalised correction dx is written into one of K preallocated    *)
(* vectors (`outer_v_data[slot]`) and a pointer to that vector is pushed into a        *)
(* circular buffer of capacity K (`outer_v`), whose entries - oldest first - are the    *)
(* augmentation vectors of the next cycle.  `data[s]` = number of the cycle whose      *)
(* correction slot s holds (0 = never written), `view` = the slots the circular buffer *)
(* points to, oldest first, `nOuter` = the running counter of stored corrections.      *)
(* Rule = "counter": slot = n_outer mod K (the code);  Rule = "size": slot =           *)
(* outer_v.size() mod K (overwrites the NEWEST entry once the buffer is full).         *)
(* What the iterates need (KrylovRef-style definition, used by the long-double         *)
(* reference `ref_lgmres` of harness/record_krylov.cpp): the augmentation vectors of   *)
(* cycle c + 1 are the corrections of the last min(K, c) cycles, oldest first.         *)
EXTENDS Integers, Sequences, FiniteSets

CONSTANTS K, Cycles, Rule
VARIABLES data, view, nOuter, cyc

vars == <<data, view, nOuter, cyc>>

Init == data = [s \in 0..(K - 1) |-> 0] /\ view = <<>> /\ nOuter = 0 /\ cyc = 0

Slot == IF Rule = "counter" THEN nOuter % K ELSE Len(view) % K
\* circular_buffer::push_back: drop the oldest entry when full
Push(v, s) == IF Len(v) < K THEN Append(v, s) ELSE Append(SubSeq(v, 2, Len(v)), s)

\* end of a restart cycle with a non-zero correction
Store == /\ cyc < Cycles /\ cyc' = cyc + 1
         /\ data' = [data EXCEPT ![Slot] = cyc + 1]
         /\ view' = Push(view, Slot)
         /\ nOuter' = nOuter + 1
\* a cycle whose correction is exactly zero stores nothing
Skip == cyc < Cycles /\ cyc' = cyc + 1 /\ UNCHANGED <<data, view, nOuter>>
Next == Store \/ Skip

\* no two entries of the circular buffer alias the same storage
DistinctSlots == Cardinality({view[i] : i \in 1..Len(view)}) = Len(view)
\* the buffer shows the last min(K, stored) stored corrections, oldest first
Stored == {data[s] : s \in 0..(K - 1)} \ {0}
LastK == /\ Len(view) = (IF nOuter < K THEN nOuter ELSE K)
         /\ \A i \in 1..Len(view) : \A j \in 1..Len(view) : i < j => data[view[i]] < data[view[j]]
         /\ \A i \in 1..Len(view) : \A c \in Stored : data[view[i]] >= c \/ \E j \in 1..Len(view) : data[view[j]] = c
=============================================================================
