------------------------------ MODULE CprModel ------------------------------
(* CPR on every 4 x 4 matrix with two full 2 x 2 diagonal blocks (values chosen so  *)
(* that no pivot vanishes for salt 0, and some do for salt 1) and every pattern of  *)
(* the two off-diagonal blocks; block_size 2; active_rows 0 (= all) or 2.           *)
(* dm: which of the four off-diagonal entries INSIDE the diagonal blocks are stored  *)
(* (15 = full blocks); ClearScratch / AdjointInUpdate = TRUE transcribe the code as  *)
(* written, FALSE are the two variants that must violate ScratchInv / BlockUpdateInv.*)
EXTENDS Cpr, Patterns, TLC
CONSTANTS ClearScratch, AdjointInUpdate
VARIABLES om, dm, salt, act, kk, ww, pc
vars == <<om, dm, salt, act, kk, ww, pc>>
B == 2
\* bit k of om: off-diagonal entry number k (rows 0,1 x cols 2,3 then rows 2,3 x cols 0,1)
OffPos == <<<<0, 2>>, <<0, 3>>, <<1, 2>>, <<1, 3>>, <<2, 0>>, <<2, 1>>, <<3, 0>>, <<3, 1>>>>
DiagVal(i, j, s) == IF s = 0 THEN (IF i = j THEN 3 + i ELSE IF i < j THEN 1 ELSE -2)
                    ELSE (IF i = j THEN (IF i = 0 THEN 0 ELSE 2) ELSE 1)                  \* salt 1: zero leading pivot
InDiag == <<<<0, 1>>, <<1, 0>>, <<2, 3>>, <<3, 2>>>>
KOf(o, dg, sl) == FromRows(4, 4, [r \in 1..4 |->
        LET i == r - 1
            cols == SelectSeq(<<0, 1, 2, 3>>, LAMBDA j : (i = j) \/
                        (\E k \in 1..4 : InDiag[k] = <<i, j>> /\ Bit(dg, k - 1)) \/
                        \E k \in 1..8 : OffPos[k] = <<i, j>> /\ Bit(o, k - 1))
        IN  [q \in 1..Len(cols) |-> <<cols[q], IF i \div 2 = cols[q] \div 2 THEN DiagVal(i, cols[q], sl) ELSE PatVal(i, cols[q], 2)>>]])
\* the matrix and the weights are computed once per configuration
Init == /\ om \in 0..255 /\ dm \in 0..15 /\ (dm = 15 \/ om % 16 = 5) /\ salt \in {0, 1} /\ act \in {0, 2} /\ pc = "w"
        /\ kk = KOf(om, dm, salt)
        /\ ww = [ip \in 1..NPof(kk, B, act) |-> WeightsRun(kk, B, ip - 1)]
Next == pc = "w" /\ pc' = "app" /\ UNCHANGED <<om, dm, salt, act, kk, ww>>
K == kk
W == [ip \in 1..Len(ww) |-> ww[ip].y]
AllOk == \A ip \in 1..Len(ww) : ww[ip].ok
WeightsInv == pc = "w" => \A ip \in 0..(NPof(K, B, act) - 1) : WeightsOK(K, B, ip)
AppInv     == (pc = "app" /\ AllOk) => AppDefOK(K, B, act, W)
SameInv    == (pc = "app" /\ act = 0) => ScalarBlockSameOK(K, B)
UpdateInv  == pc = "app" => PartialUpdateNoop(K, B, act)
ScratchInv == pc = "w" => ScratchOK(K, B, act, ClearScratch)
BlockUpdateInv == (pc = "app" /\ act = 0) => BlockPartialUpdateNoop(K, B, AdjointInUpdate)
\* with exact inner solves the two-stage formula reproduces x for f = A x when S is exact (x0 = x, zero residual)
\* and, for S = 0, returns Scatter App^-1 Fpp f
FormulaInv == (pc = "app" /\ AllOk /\ act = 0 /\ Regular(AppDense(K, B, act, W))) =>
    \A j \in 1..4 :
        LET f == UnitV(4, j)
            r == CprApply(K, FppDense(K, B, act, W), ScatterDense(K, B, act), LAMBDA v : ZeroV(4),
                          LAMBDA v : Solve(AppDense(K, B, act, W), v).x, f)
        IN  VEq(MV(AppDense(K, B, act, W), [ip \in 1..2 |-> r.x[(ip - 1) * B + 1]]), MV(FppDense(K, B, act, W), f))
=============================================================================
