--------------------------- MODULE OwnershipModel ---------------------------
(* All sequences of up to MaxOps operations {construct-empty, construct-borrowed,    *)
(* construct-owned, copy, move, assign, move-assign, destroy} over H matrix handles. *)
EXTENDS Ownership, TLC
CONSTANTS H, MaxOps
VARIABLES st, nops
vars == <<st, nops>>

Ops == [op : {"empty", "borrowed", "owned", "copy", "move", "assign", "moveassign", "destroy"}, h : 1..H, g : 1..H]
Init == st = Init0(H) /\ nops = 0
Next == /\ nops < MaxOps
        /\ \E o \in Ops : Enabled(st, o) /\ st' = Apply(st, o) /\ nops' = nops + 1

UserSafeInv     == UserSafe(st)
NoDoubleFreeInv == NoDoubleFree(st)
NoDanglingInv   == NoDangling(st)
NoLeakInv       == NoLeak(st)
=============================================================================
