--------------------------- MODULE LevelSchedule ---------------------------
(* Level scheduling of the parallel Gauss-Seidel sweep                              *)
(* (relaxation/gauss_seidel.hpp, parallel_sweep<forward>) and of the sparse          *)
(* triangular solves of the incomplete factorisations                                *)
(* (relaxation/detail/ilu_solve.hpp, sptr_solve<lower>), transcribed as written:     *)
(*   1. level[] in sweep order, 2. counting sort into order[]/start[],               *)
(*   3. every level cut into nthreads chunks (one task per thread and level),        *)
(*   4. per-thread copies of the rows.                                               *)
(* A pattern is a function  rc : 0..n-1 -> sequence of column numbers (storage       *)
(* order, the diagonal included or not).                                             *)
(*                                                                                   *)
(* Mode "gs":  row i reads x[c] for every off-diagonal c and writes x[i]; the serial *)
(*   forward sweep sees the NEW x[c] for c < i and the OLD x[c] for c > i.           *)
(* Mode "tri": the matrix is strictly triangular, every read must see the new value. *)
(*                                                                                   *)
(* AntiDep = FALSE is the pinned snapshot: levels follow the true dependences only   *)
(* (lower entries in a forward sweep); a row c > i that row i reads but that does    *)
(* not read i may then share i's level or precede it.  AntiDep = TRUE additionally   *)
(* pushes such rows behind i (the repaired code).                                    *)
EXTENDS Naturals, Integers, Sequences, FiniteSets, SequencesExt, FiniteSetsExt

MaxS(S) == CHOOSE x \in S : \A y \in S : y <= x
SeqToSet(s) == {s[k] : k \in 1..Len(s)}

SweepOrder(n, forward) == [k \in 1..n |-> IF forward THEN k - 1 ELSE n - k]
Before(forward, c, i) == IF forward THEN c < i ELSE c > i     \* c is swept before i

\* 1. levels
LevelRun(n, rc, forward, antidep) ==
    LET step(lev, i) ==
            LET cs   == SeqToSet(rc[i]) \ {i}
                deps == {c \in cs : Before(forward, c, i)}
                l    == MaxS({lev[i]} \cup {lev[c] + 1 : c \in deps})
                lev1 == [lev EXCEPT ![i] = l]
            IN  IF antidep
                THEN [c \in 0..(n - 1) |->
                        IF c \in cs /\ Before(forward, i, c) /\ lev1[c] < l + 1 THEN l + 1 ELSE lev1[c]]
                ELSE lev1
    IN  FoldLeft(step, [i \in 0..(n - 1) |-> 0], SweepOrder(n, forward))

NLev(n, lev) == IF n = 0 THEN 0 ELSE MaxS({lev[i] : i \in 0..(n - 1)}) + 1

\* 2. rows of one level in increasing row number (stable counting sort)
LevelRows(n, lev, k) == SelectSeq([j \in 1..n |-> j - 1], LAMBDA i : lev[i] = k)

\* 3. the task of thread tid in level k: a chunk of the level's rows
TaskRows(n, lev, k, tid, nt) ==
    LET rows  == LevelRows(n, lev, k)
        size  == Len(rows)
        chunk == (size + nt - 1) \div nt
        beg0  == tid * chunk
        beg   == IF beg0 < size THEN beg0 ELSE size
        end0  == beg + chunk
        end   == IF end0 < size THEN end0 ELSE size
    IN  SubSeq(rows, beg + 1, end)

\* the whole schedule: sched[tid][k] = sequence of rows (k = 1..nlev)
Schedule(n, rc, forward, antidep, nt) ==
    LET lev == LevelRun(n, rc, forward, antidep)
    IN  [tid \in 0..(nt - 1) |-> [k \in 1..NLev(n, lev) |-> TaskRows(n, lev, k - 1, tid, nt)]]

\* ------------------------------------------------------------- predicates
\* on tables as the real code built them (read through the friend accessor):
\* tables[tid] = [tasks |-> <<rows of task 1, rows of task 2, ...>>]
\* all <<row, level>> pairs of a schedule and the level map they define
RowLevelPairs(sched) ==
    UNION {UNION {{<<sched[t][k][p], k>> : p \in 1..Len(sched[t][k])} : k \in 1..Len(sched[t])} : t \in DOMAIN sched}
LevelMap(n, sched) ==
    LET prs == RowLevelPairs(sched)
    IN  [i \in 0..(n - 1) |-> (CHOOSE pr \in prs : pr[1] = i)[2]]

EveryRowOnce(n, sched) ==
    LET flat == FlattenSeq([t \in 1..Cardinality(DOMAIN sched) |-> FlattenSeq(sched[t - 1])])
    IN  /\ \A t \in DOMAIN sched : Len(sched[t]) = Len(sched[0])
        /\ Len(flat) = n
        /\ SeqToSet(flat) = 0..(n - 1)

\* the schedule respects the sweep's data flow: for every stored off-diagonal (i,c)
\*   gs:  c swept before i (true dependence)  => level(c) < level(i)
\*        c swept after  i (anti dependence)  => level(c) > level(i)
\*   tri: every stored c                      => level(c) < level(i)
ScheduleOK(n, rc, forward, mode, sched) ==
    /\ EveryRowOnce(n, sched)
    /\ LET lev == LevelMap(n, sched)
       IN  \A i \in 0..(n - 1) : \A c \in SeqToSet(rc[i]) \ {i} :
             IF mode = "tri" \/ Before(forward, c, i)
             THEN lev[c] < lev[i]
             ELSE lev[c] > lev[i]

\* an observed execution (sequence of <<tid, task, row, phase>>, phase 0 = row started,
\* i.e. before its first read, 1 = row finished, i.e. after its write, in the global order
\* of the atomic tickets taken inside the hook) is a behaviour of the schedule: every row
\* runs once, on the thread and in the task the tables say, and every read saw the version
\* the serial sweep sees (new: the writer finished before the reader started; old: the
\* reader finished before the writer started).
ExecOK(n, rc, forward, mode, sched, ev) ==
    LET starts == {k \in 1..Len(ev) : ev[k][4] = 0}
        ends   == {k \in 1..Len(ev) : ev[k][4] = 1}
        sp == [i \in 0..(n - 1) |-> CHOOSE k \in starts : ev[k][3] = i]
        ep == [i \in 0..(n - 1) |-> CHOOSE k \in ends : ev[k][3] = i]
    IN  /\ Len(ev) = 2 * n
        /\ {ev[k][3] : k \in starts} = 0..(n - 1) /\ {ev[k][3] : k \in ends} = 0..(n - 1)
        /\ \A k \in 1..Len(ev) : ev[k][1] \in DOMAIN sched /\ ev[k][2] + 1 \in 1..Len(sched[ev[k][1]])
                                   /\ ev[k][3] \in SeqToSet(sched[ev[k][1]][ev[k][2] + 1])
        /\ \A i \in 0..(n - 1) : sp[i] < ep[i]
        /\ \A i \in 0..(n - 1) : \A c \in SeqToSet(rc[i]) \ {i} :
             IF mode = "tri" \/ Before(forward, c, i) THEN ep[c] < sp[i] ELSE ep[i] < sp[c]
=============================================================================
