---------------------------- MODULE StaticMatrix ----------------------------
(* amgcl/value_type/static_matrix.hpp on integer blocks: the flat row-major buffer  *)
(* buf[i*M + j], operator* with the code's loop nest (i, k, j), +, -, scalar *,     *)
(* unary -, adjoint (transpose for reals), identity / zero / constant, trace order, *)
(* inner_product.  Integer-valued doubles are exact, so the real results must       *)
(* equal these integers; the ring identities are the invariants of DirectModel.     *)
EXTENDS Integers, Sequences, FiniteSets

SMIdx(N, M)      == 0 .. (N * M - 1)
SMAt(x, M, i, j) == x[i * M + j + 1]                         \* x: sequence of N*M integers
SMMake(N, M, f(_, _)) == [k \in 1..(N * M) |-> f((k - 1) \div M, (k - 1) % M)]
SMZero(N, M)     == SMMake(N, M, LAMBDA i, j : 0)
SMIdent(N)       == SMMake(N, N, LAMBDA i, j : IF i = j THEN 1 ELSE 0)
SMConst(N, M, c) == SMMake(N, M, LAMBDA i, j : c)
SMAdd(x, y)      == [k \in 1..Len(x) |-> x[k] + y[k]]
SMSub(x, y)      == [k \in 1..Len(x) |-> x[k] - y[k]]
SMScale(c, x)    == [k \in 1..Len(x) |-> c * x[k]]
SMNeg(x)         == [k \in 1..Len(x) |-> -x[k]]
SMAdjoint(x, N, M) == SMMake(M, N, LAMBDA j, i : SMAt(x, M, i, j))

\* c(i,j) = 0; for k: aik = a(i,k); for j: c(i,j) += aik * b(k,j)
RECURSIVE SMMulAcc(_, _, _, _, _, _, _)
SMMulAcc(a, b, K, M, i, j, k) == IF k = K THEN 0 ELSE SMAt(a, K, i, k) * SMAt(b, M, k, j) + SMMulAcc(a, b, K, M, i, j, k + 1)
SMMul(a, b, N, K, M) == SMMake(N, M, LAMBDA i, j : SMMulAcc(a, b, K, M, i, j, 0))

RECURSIVE SMTraceAcc(_, _, _, _)
SMTraceAcc(x, M, K, i) == IF i = K THEN 0 ELSE SMAt(x, M, i, i) + SMTraceAcc(x, M, K, i + 1)
SMTrace(x, N, M) == SMTraceAcc(x, M, IF N < M THEN N ELSE M, 0)
SMLess(x, y, N, M) == SMTrace(x, N, M) < SMTrace(y, N, M)
\* inner_product(x, y)(i,j) = sum_k x(k,i) * adjoint(y(k,j))     (N x M operands -> M x M)
RECURSIVE SMInnerAcc(_, _, _, _, _, _, _)
SMInnerAcc(x, y, N, M, i, j, k) == IF k = N THEN 0 ELSE SMAt(x, M, k, i) * SMAt(y, M, k, j) + SMInnerAcc(x, y, N, M, i, j, k + 1)
SMInner(x, y, N, M) == SMMake(M, M, LAMBDA i, j : SMInnerAcc(x, y, N, M, i, j, 0))
SMNorm2(x) == LET RECURSIVE S(_)
                  S(k) == IF k = 0 THEN 0 ELSE x[k] * x[k] + S(k - 1)
              IN  S(Len(x))                                   \* squared Frobenius norm
SMIsZero(x) == \A k \in 1..Len(x) : x[k] = 0

\* the matrix-algebra identities (square N x N blocks)
RingOK(a, b, c, s, N) ==
    /\ SMAdd(SMAdd(a, b), c) = SMAdd(a, SMAdd(b, c))
    /\ SMAdd(a, b) = SMAdd(b, a)
    /\ SMAdd(a, SMZero(N, N)) = a /\ SMSub(a, a) = SMZero(N, N) /\ SMAdd(a, SMNeg(a)) = SMZero(N, N)
    /\ SMMul(SMMul(a, b, N, N, N), c, N, N, N) = SMMul(a, SMMul(b, c, N, N, N), N, N, N)
    /\ SMMul(a, SMAdd(b, c), N, N, N) = SMAdd(SMMul(a, b, N, N, N), SMMul(a, c, N, N, N))
    /\ SMMul(SMAdd(a, b), c, N, N, N) = SMAdd(SMMul(a, c, N, N, N), SMMul(b, c, N, N, N))
    /\ SMMul(a, SMIdent(N), N, N, N) = a /\ SMMul(SMIdent(N), a, N, N, N) = a
    /\ SMMul(a, SMZero(N, N), N, N, N) = SMZero(N, N)
    /\ SMScale(s, SMMul(a, b, N, N, N)) = SMMul(SMScale(s, a), b, N, N, N)
    /\ SMAdjoint(SMMul(a, b, N, N, N), N, N) = SMMul(SMAdjoint(b, N, N), SMAdjoint(a, N, N), N, N, N)
    /\ SMAdjoint(SMAdjoint(a, N, N), N, N) = a
    /\ SMInner(a, b, N, N) = SMMul(SMAdjoint(a, N, N), b, N, N, N)
    /\ SMTrace(SMMul(a, b, N, N, N), N, N) = SMTrace(SMMul(b, a, N, N, N), N, N)
\* ------------------------------------------------------------ complex element types
\* static_matrix<std::complex<T>, N, M> on Gaussian integers: an element is a pair <<re, im>>; math::adjoint of a
\* block is the CONJUGATE transpose (adjoint_impl applies math::adjoint to every element), inner_product conjugates
\* its second argument, norm is the Frobenius norm.
CZ          == <<0, 0>>
CAddE(x, y) == <<x[1] + y[1], x[2] + y[2]>>
CMulE(x, y) == <<x[1] * y[1] - x[2] * y[2], x[1] * y[2] + x[2] * y[1]>>
CConjE(x)   == <<x[1], -x[2]>>
CAt(x, M, i, j) == x[i * M + j + 1]
CMake(N, M, f(_, _)) == [k \in 1..(N * M) |-> f((k - 1) \div M, (k - 1) % M)]
\* sequences of re / im parts -> sequence of pairs
CPairs(re, im) == [k \in 1..Len(re) |-> <<re[k], im[k]>>]
CSMAdjoint(x, N, M) == CMake(M, N, LAMBDA j, i : CConjE(CAt(x, M, i, j)))
RECURSIVE CMulAcc(_, _, _, _, _, _, _)
CMulAcc(a, b, K, M, i, j, k) == IF k = K THEN CZ ELSE CAddE(CMulE(CAt(a, K, i, k), CAt(b, M, k, j)), CMulAcc(a, b, K, M, i, j, k + 1))
CSMMul(a, b, N, K, M) == CMake(N, M, LAMBDA i, j : CMulAcc(a, b, K, M, i, j, 0))
\* inner_product(x, y)(i,j) = sum_k x(k,i) * conj(y(k,j))   (N x M operands -> M x M; M = 1: the scalar <x, y>)
RECURSIVE CInnerAcc(_, _, _, _, _, _, _)
CInnerAcc(x, y, N, M, i, j, k) == IF k = N THEN CZ ELSE CAddE(CMulE(CAt(x, M, k, i), CConjE(CAt(y, M, k, j))), CInnerAcc(x, y, N, M, i, j, k + 1))
CSMInner(x, y, N, M) == CMake(M, M, LAMBDA i, j : CInnerAcc(x, y, N, M, i, j, 0))
CSMNorm2(x) == LET RECURSIVE S(_)
                   S(k) == IF k = 0 THEN 0 ELSE x[k][1] * x[k][1] + x[k][2] * x[k][2] + S(k - 1)
               IN  S(Len(x))
RECURSIVE CTraceAcc(_, _, _)
CTraceAcc(x, N, i) == IF i = N THEN CZ ELSE CAddE(CAt(x, N, i, i), CTraceAcc(x, N, i + 1))
CSMTrace(x, N) == CTraceAcc(x, N, 0)
\* the identities that define the adjoint (a: N x K, b: K x M, u: K x 1, v: N x 1)
CAdjointOK(a, b, u, v, N, K, M) ==
    /\ \A i \in 0..(N - 1), j \in 0..(K - 1) : CAt(CSMAdjoint(a, N, K), N, j, i) = CConjE(CAt(a, K, i, j))
    /\ CSMAdjoint(CSMAdjoint(a, N, K), K, N) = a
    /\ CSMAdjoint(CSMMul(a, b, N, K, M), N, M) = CSMMul(CSMAdjoint(b, K, M), CSMAdjoint(a, N, K), M, K, N)
    /\ CSMInner(CSMMul(a, u, N, K, 1), v, N, 1) = CSMInner(u, CSMMul(CSMAdjoint(a, N, K), v, K, N, 1), K, 1)     \* <A u, v> = <u, A^H v>
    /\ CSMTrace(CSMMul(CSMAdjoint(a, N, K), a, K, N, K), K) = <<CSMNorm2(a), 0>>                                 \* trace(A^H A) = ||A||_F^2
=============================================================================
