------------------------------ MODULE C15Trace ------------------------------
(* Trace spec for C15.                                                              *)
(*  "call" records: every call of a TLC-generated history replayed on ONE real       *)
(*   object, compared bitwise with the same call on a freshly constructed object.   *)
(*  op-stream events (Reset / begin / op / end): the primitives of whole histories  *)
(*   replayed on OpMachine -- NoLeak: no call reads a vector an earlier call wrote. *)
EXTENDS TraceKit, OpMachine

VARIABLES l, bad, st

Failing == {"nan_rhs", "throw_inside", "throw_late", "poison_inside"}       \* their own result is unspecified; what follows is not
CallClauses(r) ==
    << <<"call=fresh-object-bitwise", r.call \in Failing \/ r.same>>,
       <<"zero-rhs-returns-zero-in-zero-iterations", r.call = "zero_rhs" => (r.allzero /\ r.it = 0 /\ ~r.threw)>>,
       <<"converged-guess-returned-unchanged-in-zero-iterations",
         (r.call = "converged_guess" /\ r.tol) => (r.unchanged /\ r.it = 0 /\ ~r.threw)>>,
       <<"rhs-and-matrix-never-modified", r.inputs>> >>

TInit == l = 1 /\ bad = <<>> /\ st = Machine0

Consume(r) ==
    IF Has(r, "k") THEN
        LET f == FailedOf(CallClauses(r))
        IN  bad' = (IF f = <<>> THEN bad ELSE Append(bad, <<l, f>>)) /\ UNCHANGED st
    ELSE CASE r.e = "Reset" -> st' = Machine0 /\ UNCHANGED bad
           [] r.e = "begin" -> /\ st' = BeginCall(Clobber(st, {r.clob[k] : k \in 1..Len(r.clob)}), {r.ins[k] : k \in 1..Len(r.ins)})
                               /\ UNCHANGED bad
           [] r.e = "op" ->
                LET e == [name |-> r.name, a |-> r.a, z |-> r.z]
                    stale == IF st.call = 0 THEN {} ELSE StaleReads(st, e)
                IN  /\ bad' = IF stale = {} THEN bad ELSE Append(bad, <<l, <<"leak-read-of-earlier-call-" \o r.name>>>>)
                    /\ st' = Exec(st, e)
           [] r.e \in {"end", "End"} -> UNCHANGED <<bad, st>>
           [] OTHER -> bad' = Append(bad, <<l, <<"recorder:" \o r.e>>>>) /\ UNCHANGED st

TNext == l <= NLog /\ l' = l + 1 /\ Consume(Log[l])
Verdict == (l = NLog + 1) => VerdictLine(l, bad)
=============================================================================
