------------------------------ MODULE MMModel ------------------------------
(* Exhaustive small-scope model of MatrixMarket I/O: every NR x NC pattern (real    *)
(* general with a comment line; symmetric lower triangles; integer, complex and     *)
(* dense variants on a sub-family) is written by the transcribed writer, hit by     *)
(* every single abstract fault (truncation after any line / inside any line after   *)
(* any token; any token turned into another valid number, an out-of-range index,    *)
(* a negative or changed count, a non-number, a real where an integer is expected,  *)
(* another keyword; a comment marker lost or gained; two lines merged) and read     *)
(* back by the transcribed reader, one reader step per TLC step.                    *)
EXTENDS MatrixMarket, Patterns

CONSTANTS NR, NC,       \* shape of the base matrices
          SubStride     \* the integer / complex / dense variants use every SubStride-th mask
VARIABLES base, flt, orig, dmg, rd

vars == <<base, flt, orig, dmg, rd>>

\* ------------------------------------------------------------------ base files
IsLower(mask) == \A i \in 0..(NR - 1) : \A j \in 0..(NR - 1) : Bit(mask, i * NR + j) => j <= i
Bases ==
    [v : {"gen"}, mask : Masks(NR, NC)] \cup
    [v : {"sym"}, mask : {k \in Masks(NR, NR) : IsLower(k)}] \cup
    [v : {"int", "cplx", "dense", "idense"}, mask : {k \in Masks(NR, NC) : k % SubStride = 1}]

MatOf(b) ==
    IF b.v = "sym" THEN MkCrs(NR, NR, b.mask, 1, FALSE)
    ELSE IF b.v = "cplx"
         THEN LET A == MkCrs(NR, NC, b.mask, 2, TRUE)
              IN  [A EXCEPT !.val = [p \in 1..Len(A.val) |-> <<A.val[p], p>>]]
         ELSE MkCrs(NR, NC, b.mask, 0, b.v = "int")        \* "int": rows listed backwards
DataOf(b) == [q \in 1..(NR * NC) |-> IF Bit(b.mask, q - 1) THEN q ELSE 0]       \* dense, row-major
KindOf(b) == IF b.v \in {"int", "idense"} THEN "integer" ELSE IF b.v = "cplx" THEN "complex" ELSE "real"
DenseB(b) == b.v \in {"dense", "idense"}
WithComment(f) == [f EXCEPT !.body = <<Comment>> \o f.body]
FileOf(b) ==
    IF DenseB(b) THEN MMWriteDense(DataOf(b), NR, NC, KindOf(b))
    ELSE IF b.v = "sym" THEN MMWriteSymmetric(MatOf(b), "real")
    ELSE IF b.v = "gen" THEN WithComment(MMWriteSparse(MatOf(b), "real"))
    ELSE MMWriteSparse(MatOf(b), KindOf(b))

\* --------------------------------------------------------------------- faults
\* L = 0 is the banner line, L >= 1 the L-th body line
TokCount(f, L) == IF L = 0 THEN Len(f.banner) ELSE Len(f.body[L].t)
TruncFaults(f) == {[k |-> "trunc", L |-> L, t |-> t, cls |-> ""] :
                      L \in 0..Len(f.body), t \in 0..4}
TokClasses == {"other", "zero", "neg", "big", "garb", "real", "missing"}
TokFaults(f) == {[k |-> "tok", L |-> L, t |-> t, cls |-> c] : L \in 1..Len(f.body), t \in 1..4, c \in TokClasses}
KwFaults(f)  == {[k |-> "kw", L |-> 0, t |-> t, cls |-> c] : t \in 1..5,
                    c \in {"?", "array", "coordinate", "real", "complex", "integer", "general", "symmetric"}}
LineFaults(f) == {[k |-> kk, L |-> L, t |-> 0, cls |-> c] : kk \in {"uncomment", "comment", "merge"},
                    L \in 1..Len(f.body), c \in {"garb", "real"}}
Valid(f, x) ==
    CASE x.k = "none"  -> TRUE
      [] x.k = "trunc" -> x.t = 0 \/ x.t < TokCount(f, x.L)
      [] x.k = "tok"   -> ~f.body[x.L].cm /\ x.t <= TokCount(f, x.L)
      [] x.k = "kw"    -> f.banner[x.t] # x.cls
      [] x.k = "uncomment" -> f.body[x.L].cm /\ x.cls = "garb"
      [] x.k = "comment"   -> ~f.body[x.L].cm /\ x.cls = "garb"
      [] x.k = "merge"     -> x.L < Len(f.body) /\ ~f.body[x.L].cm /\ ~f.body[x.L + 1].cm
      [] OTHER -> FALSE
FaultsOf(f) == {x \in ({[k |-> "none", L |-> 0, t |-> 0, cls |-> ""]} \cup TruncFaults(f) \cup TokFaults(f)
                       \cup KwFaults(f) \cup LineFaults(f)) : Valid(f, x)}

Mutate(tok, cls) ==
    CASE cls = "other" -> IF tok.c = "int" THEN TInt(IF tok.v > 1 THEN tok.v - 1 ELSE tok.v + 1) ELSE TReal(5, 5)
      [] cls = "zero"  -> TInt(0)
      [] cls = "neg"   -> TInt(-1)
      [] cls = "big"   -> TInt(tok.v + 7)
      [] cls = "garb"  -> TGarb
      [] cls = "real"  -> TReal(6, IF tok.c = "int" THEN tok.v ELSE 2)
      [] OTHER -> tok
Without(s, q) == [p \in 1..(Len(s) - 1) |-> IF p < q THEN s[p] ELSE s[p + 1]]
Take(s, k) == [p \in 1..(IF k < Len(s) THEN k ELSE Len(s)) |-> s[p]]

Apply(f, x) ==
    CASE x.k = "none" -> f
      [] x.k = "trunc" ->
            IF x.L = 0 THEN [banner |-> Take(f.banner, x.t), body |-> <<>>]
            ELSE [f EXCEPT !.body = Take(f.body, x.L - 1) \o
                        (IF x.t = 0 THEN <<>>
                         ELSE <<[f.body[x.L] EXCEPT !.t = Take(f.body[x.L].t, x.t)]>>)]
      [] x.k = "tok" ->
            LET ts == f.body[x.L].t
            IN  [f EXCEPT !.body[x.L].t = IF x.cls = "missing" THEN Without(ts, x.t)
                                          ELSE [ts EXCEPT ![x.t] = Mutate(ts[x.t], x.cls)]]
      [] x.k = "kw" -> [f EXCEPT !.banner[x.t] = x.cls]
      [] x.k = "uncomment" -> [f EXCEPT !.body[x.L] = Line(<<TGarb, TGarb>>)]
      [] x.k = "comment"   -> [f EXCEPT !.body[x.L] = Comment]
      [] x.k = "merge" ->
            LET a == f.body[x.L].t
                b == f.body[x.L + 1].t
                glue == IF x.cls = "garb" THEN TGarb ELSE TReal(8, 8)
                joined == Take(a, Len(a) - 1) \o <<glue>> \o Tail(b)
            IN  [f EXCEPT !.body = Take(f.body, x.L - 1) \o <<Line(joined)>> \o
                                   [p \in 1..(Len(f.body) - x.L - 1) |-> f.body[x.L + 1 + p]]]

Orig == orig
Dmg  == dmg
TheReq == Req(KindOf(base), DenseB(base), -1, -1)

\* the facts about the damaged file, computed from the files alone (the recorder derives the
\* same facts from byte offsets and its own tokenizer)
HasData(f) == Len(DataLines(f)) > 0
FactOf(o, d, req, x) ==
    [hdr     |-> ~ValidBanner(d.banner),
     cutlast |-> x.k = "trunc" /\ HasData(o) /\ Len(d.body) < Len(o.body),
     kind    |-> Len(d.banner) >= 5 /\
                 ((d.banner[4] \in {"real", "complex", "integer"} /\ d.banner[4] # req.kind) \/
                  (d.banner[3] \in {"array", "coordinate"} /\ (d.banner[3] = "array") # req.dense)),
     incons  |-> IF req.dense THEN InconsistentDense(d) ELSE InconsistentSparse(d)]
Outcome(r) == [st |-> IF r.pc = "Done" THEN "ok" ELSE IF r.pc = "Error" THEN "err" ELSE "crash", why |-> r.why, A |-> r.out]

Init == /\ base \in Bases
        /\ flt \in FaultsOf(FileOf(base))
        /\ orig = FileOf(base)
        /\ dmg = Apply(orig, flt)
        /\ rd = RdInit(dmg, TheReq)
Next == ~Terminal(rd) /\ rd' = Step(rd) /\ UNCHANGED <<base, flt, orig, dmg>>

\* -------------------------------------------------------------------- invariants
FaultInv == Terminal(rd) => FaultOutcomeOK(FactOf(Orig, Dmg, TheReq, flt), DenseB(base), Outcome(rd))
RoundTripInv ==
    (Terminal(rd) /\ flt.k = "none") =>
        IF DenseB(base) THEN DenseRoundTripOK(DataOf(base), NR, NC, Outcome(rd))
        ELSE IF base.v = "sym" THEN SymmetricOK(LowerOf(MatOf(base)), Outcome(rd))
        ELSE RoundTripOK(MatOf(base), Outcome(rd))
\* every row range of the damaged file = slice of its full read
SliceInv ==
    Terminal(rd) =>
        \A rb \in 0..NR : \A re \in rb..NR :
            SliceOK(DenseB(base), Outcome(rd), MMRead(Dmg, Req(KindOf(base), DenseB(base), rb, re)), rb, re)
\* the closed form is the iterated step function
ClosedFormInv == Terminal(rd) => MMRead(Dmg, TheReq) = Outcome(rd)
\* asking for the other value kind / the other container throws
KindInv ==
    (Terminal(rd) /\ flt.k = "none") =>
        /\ \A k \in {"real", "complex", "integer"} \ {KindOf(base)} :
              MMRead(Orig, Req(k, DenseB(base), -1, -1)).st = "err"
        /\ MMRead(Orig, Req(KindOf(base), ~DenseB(base), -1, -1)).st = "err"
=============================================================================
