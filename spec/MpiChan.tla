------------------------------ MODULE MpiChan ------------------------------
(* The part of MPI that amgcl's distributed code relies on, as state transformers on  *)
(* a network state `net` (used as actions by DistMatrixModel / PmisModel) and as       *)
(* predicates on the per-rank event logs that the PMPI shim (harness/pmpi_shim.c)      *)
(* records from the real code (used by C11Trace / C12Trace).                           *)
(*                                                                                     *)
(*   chan  : one FIFO queue of payloads per (src, dst, tag); queues of different keys  *)
(*           are independent, so messages on different channels arrive in any order    *)
(*   req   : per rank the non-blocking requests in posting order.  A send request      *)
(*           names a buffer; the payload is read from it at *any* moment between the   *)
(*           Isend and the completion of the wait (Transmit), a receive request is     *)
(*           filled at any moment after a matching message is in the channel (Deliver);*)
(*           requests on one channel are served in posting order (MPI non-overtaking)  *)
(*   coll  : collective instances of the world communicator in the order of arrival;   *)
(*           an instance completes when every rank has contributed                     *)
(*   hist  : per rank the log in the format of the shim:                               *)
(*           <<kind, peer, tag, bytes, comm, ref>>, sequence number = index - 1        *)
EXTENDS Naturals, Integers, Sequences, FiniteSets, TLC

EvIsend == 1  EvIrecv == 2  EvSend == 3  EvRecv == 4  EvDone == 5
EvAlltoall == 10  EvAllgather == 11  EvAllreduce == 12  EvIalltoall == 13

Ranks(np) == 0 .. (np - 1)

NewNet(np) == [chan  |-> <<>>,
               req   |-> [r \in Ranks(np) |-> <<>>],
               coll  |-> <<>>,
               ncoll |-> [r \in Ranks(np) |-> 0],
               hist  |-> [r \in Ranks(np) |-> <<>>]]

ChanGet(net, k) == IF k \in DOMAIN net.chan THEN net.chan[k] ELSE <<>>
ChanSet(net, k, q) == [net EXCEPT !.chan = (k :> q) @@ net.chan]
Logged(net, r, e) == [net EXCEPT !.hist[r] = Append(@, e)]
InFlight(net) == \E k \in DOMAIN net.chan : net.chan[k] # <<>>

\* ---------------------------------------------------------------- point to point
\* buf = <<name, lo, hi>> : elements lo..hi (1-based, inclusive) of the rank's array `name`
BufLen(buf) == buf[3] - buf[2] + 1

PostSend(net, r, d, t, buf) ==
    LET q == [kind |-> "send", peer |-> d, tag |-> t, buf |-> buf, st |-> "posted", seq |-> Len(net.hist[r])]
    IN  Logged([net EXCEPT !.req[r] = Append(@, q)], r, <<EvIsend, d, t, BufLen(buf), 0, -1>>)
PostRecv(net, r, s, t, buf) ==
    LET q == [kind |-> "recv", peer |-> s, tag |-> t, buf |-> buf, st |-> "posted", seq |-> Len(net.hist[r])]
    IN  Logged([net EXCEPT !.req[r] = Append(@, q)], r, <<EvIrecv, s, t, BufLen(buf), 0, -1>>)

Earlier(net, r, i) == {j \in 1..(i - 1) : /\ net.req[r][j].kind = net.req[r][i].kind
                                          /\ net.req[r][j].peer = net.req[r][i].peer
                                          /\ net.req[r][j].tag  = net.req[r][i].tag
                                          /\ net.req[r][j].st   = "posted"}
\* the message of send request i of rank r may go onto the wire now
SendReady(net, r, i) == /\ net.req[r][i].kind = "send" /\ net.req[r][i].st = "posted"
                        /\ Earlier(net, r, i) = {}
Transmit(net, r, i, payload) ==
    LET q == net.req[r][i]
        k == <<r, q.peer, q.tag>>
    IN  [ChanSet(net, k, Append(ChanGet(net, k), payload)) EXCEPT !.req[r][i].st = "done"]
\* receive request i of rank r can be filled now
RecvReady(net, r, i) == /\ net.req[r][i].kind = "recv" /\ net.req[r][i].st = "posted"
                        /\ Earlier(net, r, i) = {}
                        /\ ChanGet(net, <<net.req[r][i].peer, r, net.req[r][i].tag>>) # <<>>
DeliverPayload(net, r, i) == Head(ChanGet(net, <<net.req[r][i].peer, r, net.req[r][i].tag>>))
Deliver(net, r, i) ==
    LET k == <<net.req[r][i].peer, r, net.req[r][i].tag>>
    IN  [ChanSet(net, k, Tail(ChanGet(net, k))) EXCEPT !.req[r][i].st = "done"]

Pending(net, r)  == {i \in 1..Len(net.req[r]) : net.req[r][i].st # "waited"}
AllDone(net, r, I) == \A i \in I : net.req[r][i].st = "done"
\* MPI_Waitall over the request set I (enabled when AllDone): logs one completion per request
RECURSIVE WaitAll(_, _, _)
WaitAll(net, r, I) ==
    IF I = {} THEN net
    ELSE LET i == CHOOSE j \in I : \A k \in I : j <= k
         IN  WaitAll(Logged([net EXCEPT !.req[r][i].st = "waited"], r,
                            <<EvDone, -1, -1, 0, 0, net.req[r][i].seq>>), r, I \ {i})

\* ---------------------------------------------------------------- collectives (world communicator)
\* rank r enters its next collective with contribution v (of `bytes` bytes)
Arrive(net, r, kind, v, bytes) ==
    LET k == net.ncoll[r] + 1
        c == IF k <= Len(net.coll)
             THEN [net.coll EXCEPT ![k] = [kinds |-> @.kinds \cup {kind}, contrib |-> (r :> v) @@ @.contrib]]
             ELSE Append(net.coll, [kinds |-> {kind}, contrib |-> (r :> v)])
    IN  Logged([net EXCEPT !.coll = c, !.ncoll[r] = k], r, <<kind, -1, -1, bytes, 0, -1>>)
CollDone(net, np, r) == DOMAIN net.coll[net.ncoll[r]].contrib = Ranks(np)
CollValue(net, r)    == net.coll[net.ncoll[r]].contrib          \* [rank -> contribution]
\* every instance was entered with one kind only
CollKindsOK(net) == \A k \in 1..Len(net.coll) : Cardinality(net.coll[k].kinds) = 1

\* ---------------------------------------------------------------- predicates on logs
\* H is a sequence indexed 1..np (H[r + 1] = log of rank r) of sequences of events
\* <<kind, peer, tag, bytes, comm, ref>>; this is what the shim delivers per case.
IsSend(e) == e[1] \in {EvIsend, EvSend}
IsRecv(e) == e[1] \in {EvIrecv, EvRecv}
IsColl(e) == e[1] >= 10
IsPost(e) == e[1] \in {EvIsend, EvIrecv, EvIalltoall}

SizesOf(s) == [i \in 1..Len(s) |-> s[i][4]]
SendSizes(H, s, d, t, c) == SizesOf(SelectSeq(H[s + 1], LAMBDA e : IsSend(e) /\ e[2] = d /\ e[3] = t /\ e[5] = c))
RecvSizes(H, s, d, t, c) == SizesOf(SelectSeq(H[d + 1], LAMBDA e : IsRecv(e) /\ e[2] = s /\ e[3] = t /\ e[5] = c))
ChanKeys(H) ==
    UNION {{<<r - 1, H[r][i][2], H[r][i][3], H[r][i][5]>> : i \in {j \in 1..Len(H[r]) : IsSend(H[r][j])}} : r \in 1..Len(H)}
    \cup
    UNION {{<<H[r][i][2], r - 1, H[r][i][3], H[r][i][5]>> : i \in {j \in 1..Len(H[r]) : IsRecv(H[r][j])}} : r \in 1..Len(H)}

\* per channel the k-th send meets the k-th posted receive and has its size (world communicator:
\* ranks of sub-communicators are numbered differently)
FifoMatch(H) == \A k \in ChanKeys(H) :
    k[4] # 0 \/ (/\ k[1] \in 0..(Len(H) - 1) /\ k[2] \in 0..(Len(H) - 1)
                 /\ SendSizes(H, k[1], k[2], k[3], k[4]) = RecvSizes(H, k[1], k[2], k[3], k[4]))
\* every non-blocking request is completed exactly once, and only posted requests are completed
Completed(H) == \A r \in 1..Len(H) :
    LET L == H[r]
        posts == {i \in 1..Len(L) : IsPost(L[i])}
        dones == {j \in 1..Len(L) : L[j][1] = EvDone}
    IN  /\ \A i \in posts : Cardinality({j \in dones : L[j][6] = i - 1}) = 1
        /\ \A j \in dones : (L[j][6] + 1) \in posts /\ L[j][6] + 1 < j
\* every rank issues the same sequence of collectives (kind, reduction op / root, bytes)
CollSeq(L, c) == LET s == SelectSeq(L, LAMBDA e : IsColl(e) /\ e[5] = c)
                 IN  [i \in 1..Len(s) |-> <<s[i][1], s[i][2], s[i][3], s[i][4]>>]
CollectiveLockstep(H) == \A r \in 1..Len(H) : CollSeq(H[r], 0) = CollSeq(H[1], 0)

MsgLogOK(H) == FifoMatch(H) /\ Completed(H) /\ CollectiveLockstep(H)
HistOf(net, np) == [i \in 1..np |-> net.hist[i - 1]]
=============================================================================
