CONSTANTS
  H = 3
  MaxOps = 6
INIT Init
NEXT Next
INVARIANTS NoLeakInv
CHECK_DEADLOCK FALSE
