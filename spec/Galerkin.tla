------------------------------ MODULE Galerkin ------------------------------
(* Coarse-level operators: Ac = (R A P) / over_interp, R = adjoint(P).              *)
(* Exact on integer data (plain aggregation: P is 0/1); on real-valued transfer     *)
(* operators the *structure* is judged exactly (amgcl's SpGEMM keeps every          *)
(* structurally non-zero entry) and the values are a class-O observation.           *)
EXTENDS Crs

\* sparse row i of the triple product R A P
TripleRow(R, A, P, i) ==
    LET ks  == RowCols(R, i)
        ap  == [k \in ks |-> DefProductRow(A, P, k)]
        cs  == UNION {DOMAIN ap[k] : k \in ks}
    IN  [c \in cs |-> MapThenSumSet(LAMBDA k : At(R, i, k) * ap[k][c], {k \in ks : c \in DOMAIN ap[k]})]

\* columns the symbolic product R*A*P can produce in row i
TripleCols(R, A, P, i) == UNION {UNION {RowCols(P, c) : c \in RowCols(A, k)} : k \in RowCols(R, i)}

\* Ac is recorded as Ac * 2^24; snum = float(1 / over_interp) * 2^24 as scaled_galerkin applies it
\* (computed by the recorder from the *parameter*, not from the library's result)
GalerkinExactOK(A, P, R, Ac24, snum) ==
    /\ Ac24.n = R.n /\ Ac24.m = P.m /\ WellFormed(Ac24)
    /\ \A i \in Rows(Ac24) :
         LET want == TripleRow(R, A, P, i)
         IN  SameRow(RowFn(Ac24, i), [c \in DOMAIN want |-> snum * want[c]])

GalerkinStructOK(A, P, R, Ac) ==
    /\ Ac.n = R.n /\ Ac.m = P.m /\ WellFormed(Ac) /\ NoDup(Ac)
    /\ \A i \in Rows(Ac) : RowCols(Ac, i) = TripleCols(R, A, P, i)

\* values of P and R interned by the recorder (equal doubles <-> equal ids): R is exactly P^T
AdjointOK(P, R) == NoDup(P) /\ TransposeOK(P, R)

\* products stay below the 32-bit range of TLC
SmallEnough(A, bound) == \A p \in 1..Len(A.val) : A.val[p] < bound /\ A.val[p] > -bound
=============================================================================
