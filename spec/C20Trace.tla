------------------------------ MODULE C20Trace ------------------------------
(* Trace spec for C20 (stateful).  The trace is the event stream written by         *)
(* harness/replay_capi.cpp: per replayed sequence a "Begin" event (the abstract     *)
(* state is reset) followed by one "Call" event per call of the real C API with     *)
(* the arguments in abstract form, the handle states the harness observed after     *)
(* the call, the tree read back from a params handle, the effective parameters of   *)
(* a created object, and the digests of the results through the C handle (c), of    *)
(* the C++ shadow (sh) and of the 0-based twin C handle (c0).                        *)
(* Every event must be a step of CApi (its guard holds in the tracked state:        *)
(* "lifecycle"); then the clauses of the property are judged.  Failed clauses are   *)
(* accumulated in `bad`; the abstract state always follows the spec.                *)
EXTENDS TraceKit, CApi

VARIABLES l, bad

PutFns     == {"params_seti", "params_setf", "params_sets"}
ParamFns   == PutFns \cup {"params_create", "params_read_json", "params_destroy"}
CreateAll  == {"precond_create", "precond_create_f", "solver_create", "solver_create_f"}
UseAll     == {"precond_apply", "precond_report", "solver_solve", "solver_solve_f",
               "solver_solve_mtx", "solver_solve_mtx_f", "solver_report",
               "solver_solve_mtx_upd", "solver_solve_mtx_upd_f"}
DestroyAll == {"precond_destroy", "solver_destroy"}
AllFns     == ParamFns \cup CreateAll \cup UseAll \cup DestroyAll

IsRes(x) == DOMAIN x = 1..5

\* structural well-formedness of a Call event (a malformed line is a rejected line,
\* never a TLC evaluation error)
WF(ev) ==
    /\ Has(ev, "f") /\ Has(ev, "h") /\ Has(ev, "st") /\ Has(ev, "seq") /\ Has(ev, "i")
    /\ ev.f \in AllFns
    /\ ev.f \in ParamFns => ev.h \in PSlots
    /\ ev.f \in PutFns => Has(ev, "k") /\ Has(ev, "j") /\ Has(ev, "key") /\ Has(ev, "text") /\ Has(ev, "pt")
    /\ ev.f = "params_read_json" => Has(ev, "k") /\ Has(ev, "pt")
    /\ ev.f = "params_create" => Has(ev, "pt")
    /\ ev.f \in CreateAll \cup UseAll \cup DestroyAll => ev.h \in OSlots /\ ev.f \in CreateFns(ev.h) \cup UseFns(ev.h) \cup {DestroyFn(ev.h)}
    /\ ev.f \in CreateAll => Has(ev, "m") /\ Has(ev, "p") /\ Has(ev, "eff") /\ Has(ev, "shprm") /\ Has(ev, "can") /\ Has(ev, "twin") /\ Has(ev, "lv")
    /\ ev.f \in UseAll => /\ Has(ev, "c") /\ Has(ev, "sh") /\ Has(ev, "c0") /\ Has(ev, "can") /\ Has(ev, "rle") /\ Has(ev, "m2")
                          /\ IsRes(ev.c) /\ IsRes(ev.sh) /\ IsRes(ev.c0)

\* the guard of the CApi action the event names
Guard(ev) ==
    CASE ev.f = "params_create"     -> ParamsAbsent(ev.h)
      [] ev.f \in PutFns            -> ParamsLive(ev.h)
      [] ev.f = "params_read_json"  -> ParamsLive(ev.h) /\ ev.k \in ParamSets
      [] ev.f = "params_destroy"    -> ParamsLive(ev.h)
      [] ev.f \in CreateAll         -> ObjCreatable(ev.h, ev.m, BaseOfFn(ev.f), ev.p)
      [] ev.f \in UseAll            -> /\ ObjLive(ev.h) /\ (ev.f \in MtxFns => ev.m2 \in Matrices)
                                       /\ (ev.f \in UpdFns => (UpdEnabled(ev.h, ev.f) /\ ev.m2 = ob[ev.h].m))
      [] ev.f \in DestroyAll        -> ObjLive(ev.h)

\* the CApi action the event names
Step(ev) ==
    CASE ev.f = "params_create"     -> ParamsCreate(ev.h)
      [] ev.f \in PutFns            -> ParamsPut(ev.h, ev.key, ev.text)
      [] ev.f = "params_read_json"  -> ParamsReadJson(ev.h, ev.k)
      [] ev.f = "params_destroy"    -> ParamsDestroy(ev.h)
      [] ev.f \in CreateAll         -> ObjCreate(ev.h, ev.m, BaseOfFn(ev.f), ev.p)
      [] ev.f \in UseAll            -> ObjUse(ev.h)
      [] ev.f \in DestroyAll        -> ObjDestroy(ev.h)

\* the logged setter call is call number j of parameter set k of the spec's own table
InTable(ev) == /\ ev.k \in ParamSets /\ ev.j \in 1..Len(SetCalls(ev.h, ev.k))
               /\ SetCalls(ev.h, ev.k)[ev.j] = <<SubSeq(ev.f, 8, Len(ev.f)), ev.key, ev.text>>

\* property clauses of one event, judged in the state (hs, pm, ob) -> (hs2, pm2, ob2)
Clauses(ev, hs2, pm2, ob2) ==
    << <<"no-exception", ~Has(ev, "exc")>>,
       <<"handle-state", ev.st = hs2>> >>
    \o (IF ev.f \in PutFns THEN << <<"setter-call-in-table", InTable(ev)>> >> ELSE <<>>)
    \o (IF ev.f \in PutFns \cup {"params_create", "params_read_json"}
        THEN << <<"ParamsReach:tree", TreeHolds(pm2[ev.h], ev.pt)>> >> ELSE <<>>)
    \o (IF ev.f \in CreateAll
        THEN << <<"shadow-built-from-spec-state", ev.shprm = ob2[ev.h].prm /\ ev.twin = 1>>,
                <<"ParamsReach:effective", ParamsEffective(ob2[ev.h].prm, ev.eff)>>,
                <<"arrays-untouched", ev.can = 1>> >> ELSE <<>>)
    \o (IF ev.f \in UseAll
        THEN << <<"SameAsCpp", SameAsCpp(ev.c, ev.sh)>>,
                <<"OneBasedOK", (ob[ev.h].base = 1 \/ ev.f \in FortranFns) => OneBasedOK(ev.c, ev.c0)>>,
                <<"arrays-untouched", ev.can = 1>> >> ELSE <<>>)
    \o (IF ev.f \in SolveFns
        THEN << <<"ParamsReach:iterations", IterationsObey(ob[ev.h].prm, ev.c[3], ev.rle = 1)>> >> ELSE <<>>)

TInit == l = 1 /\ bad = <<>> /\ CInit

\* `bad` is part of the state: keep it bounded (the driver reports at most 200 lines per trace)
MaxBad == 240
Note(why) == IF Len(bad) < MaxBad THEN Append(bad, <<l, why>>) ELSE bad
Reject(why) == bad' = Note(why)

TNext ==
    /\ l <= NLog /\ l' = l + 1
    /\ LET ev == Log[l] IN
       IF ~Has(ev, "e") THEN UNCHANGED cvars /\ Reject(<<"malformed">>)
       ELSE IF ev.e \in {"Setup", "End"} THEN UNCHANGED <<cvars, bad>>
       ELSE IF ev.e = "Obs" THEN
            \* general floats through amgcl_params_setf read back as the same float
            /\ UNCHANGED cvars
            /\ LET f == FailedOf(<< <<"no-exception", ~Has(ev, "exc")>>,
                                    <<"ParamsReach:setf-float-roundtrip", Has(ev, "n") /\ Has(ev, "f32same") /\ ev.n = 8 /\ ev.f32same = ev.n>> >>)
               IN  bad' = (IF f = <<>> THEN bad ELSE Note(f))
       ELSE IF ev.e = "Begin" THEN
            /\ hs' = [s \in Slots |-> "absent"] /\ pm' = [p \in PSlots |-> NoMap] /\ ob' = [o \in OSlots |-> NoObj]
            /\ UNCHANGED bad
       ELSE IF ev.e # "Call" THEN UNCHANGED cvars /\ Reject(<<"recorder:" \o ev.e>>)
       ELSE IF Has(ev, "exc") /\ ~WF(ev) THEN UNCHANGED cvars /\ Reject(<<"no-exception">>)   \* the call threw / was skipped
       ELSE IF ~WF(ev) THEN UNCHANGED cvars /\ Reject(<<"malformed">>)
       ELSE IF ~Guard(ev) THEN UNCHANGED cvars /\ Reject(<<"lifecycle">>)
       ELSE /\ Step(ev)
            /\ LET f == FailedOf(Clauses(ev, hs', pm', ob'))
               IN  bad' = (IF f = <<>> THEN bad ELSE Note(f))

Verdict == (l = NLog + 1) => VerdictLine(l, bad)
=============================================================================
