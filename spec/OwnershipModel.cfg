CONSTANTS
  H = 3
  MaxOps = 6
INIT Init
NEXT Next
INVARIANTS UserSafeInv NoDoubleFreeInv NoDanglingInv
CHECK_DEADLOCK FALSE
