------------------------------ MODULE C19Trace ------------------------------
(* Trace spec for C19: every recorded read of a (damaged) MatrixMarket / binary     *)
(* file by the real io::mm_reader, io::read_crs, io::read_dense, io::crs_size is    *)
(* judged by the predicates that are the invariants of MMModel / BinModel.          *)
(* Values are interned bit patterns (equal id <=> bitwise equal value).             *)
(* Drift: the recorded outcome differs from the transcription's closed form         *)
(* (MM0 / B0: the pinned tree, MM1 / B1: with the proposed range checks).           *)
EXTENDS TraceKit, FiniteSets

MM0 == INSTANCE MatrixMarket WITH Checked <- FALSE
MM1 == INSTANCE MatrixMarket WITH Checked <- TRUE
B0  == INSTANCE BinaryIO WITH Checked <- FALSE
B1  == INSTANCE BinaryIO WITH Checked <- TRUE

VARIABLES l, bad, drift0, drift1

OutOf(o) == [st |-> o.st, why |-> o.why, A |-> [n |-> o.n, m |-> o.m, ptr |-> o.ptr, col |-> o.col, val |-> o.val]]
Judged(o) == ~Has(o, "big")
MatOf(o)  == [n |-> o.n, m |-> o.m, ptr |-> o.ptr, col |-> o.col, val |-> o.val]

\* ---------------------------------------------------------------- MatrixMarket
MMFact(r) == [hdr |-> r.fact.hdr, cutlast |-> r.fact.cutlast, kind |-> r.fact.kind,
              incons |-> r.fact.lex /\ (IF r.dense THEN MM0!InconsistentDense(r.abs) ELSE MM0!InconsistentSparse(r.abs))]
MMValid(dense, o) == o.st = "ok" => (IF dense THEN MM0!DenseWellFormed(o.A) ELSE MM0!MMWellFormed(o.A))
MMParts(r) ==
    LET full == OutOf(r.full)
    IN  << <<"range-no-crash", \A q \in 1..Len(r.parts) : r.parts[q].out.st # "crash">>,
           <<"range-structure-valid", \A q \in 1..Len(r.parts) : Judged(r.parts[q].out) => MMValid(r.dense, OutOf(r.parts[q].out))>>,
           <<"range=slice-of-full", r.isolated \/ \A q \in 1..Len(r.parts) :
                 (Judged(r.parts[q].out) /\ Judged(r.full)) =>
                     MM0!SliceOK(r.dense, full, OutOf(r.parts[q].out), r.parts[q].rb, r.parts[q].re)>> >>
MMRound(r) ==
    LET full == OutOf(r.full)
        orig == MatOf(r.orig)
    IN  IF r.fault # "none" THEN <<>>
        ELSE << <<"roundtrip-bitwise", IF r.dense THEN MM0!DenseRoundTripOK(orig.val, orig.n, orig.m, full)
                                       ELSE IF r.sym THEN MM0!SymmetricOK(orig, full)
                                       ELSE MM0!RoundTripOK(orig, full)>> >>
MMClauses(r) == (IF Judged(r.full) THEN MM0!FaultClauses(MMFact(r), r.dense, OutOf(r.full)) ELSE <<>>) \o MMParts(r) \o MMRound(r)

SameShape(o, x) == o.st = x.st /\ (o.st = "ok" => (o.A.n = x.A.n /\ o.A.m = x.A.m /\ o.A.ptr = x.A.ptr /\ o.A.col = x.A.col))
MMDrift0(r) == r.fact.lex /\ Judged(r.full) /\ ~SameShape(OutOf(r.full), MM0!MMRead(r.abs, MM0!Req(r.kind, r.dense, -1, -1)))
MMDrift1(r) == r.fact.lex /\ Judged(r.full) /\ ~SameShape(OutOf(r.full), MM1!MMRead(r.abs, MM1!Req(r.kind, r.dense, -1, -1)))

\* ---------------------------------------------------------------------- binary
BinValid(dense, o) == o.st = "ok" => (IF dense THEN B0!BinDenseWellFormed(o.A) ELSE B0!BinWellFormed(o.A))
BinClauses(r) ==
    LET full == OutOf(r.full)
        orig == MatOf(r.orig)
    IN  B0!BinFaultClauses([short |-> r.fact.short], r.dense, full) \o
        << <<"range-no-crash", \A q \in 1..Len(r.parts) : r.parts[q].out.st # "crash">>,
           <<"range-structure-valid", \A q \in 1..Len(r.parts) : BinValid(r.dense, OutOf(r.parts[q].out))>>,
           <<"range=slice-of-full", r.isolated \/ \A q \in 1..Len(r.parts) :
                 B0!BinSliceOK(r.dense, full, OutOf(r.parts[q].out), r.parts[q].rb, r.parts[q].re)>>,
           <<"crs_size", Has(r, "size") => (r.size.st # "crash" /\ (r.fault = "none" => (r.size.st = "ok" /\ r.size.n = orig.n)))>> >> \o
        (IF r.fault # "none" THEN <<>>
         ELSE << <<"roundtrip-bitwise", IF r.dense THEN B0!BinDenseRoundTripOK(orig.n, orig.m, orig.val, full)
                                        ELSE B0!BinRoundTripOK(orig, full)>> >>)
\* valid files: the transcribed seek arithmetic reads what the real code reads
BinFileOf(r) == LET o == MatOf(r.orig) IN IF r.dense THEN B0!BinWriteDense(o.n, o.m, o.val, r.sz) ELSE B0!BinWriteCrs(o, r.sz)
BinSame(o, x) == o.st = x.st /\ (o.st = "ok" => (o.A.n = x.A.n /\ o.A.ptr = x.A.ptr /\ o.A.col = x.A.col /\ o.A.val = x.A.val))
BinDrift(r) ==
    r.fault = "none" /\ ~r.isolated /\
    LET f == BinFileOf(r)
        rd(rb, re) == IF r.dense THEN B0!ReadDense(f, rb, re) ELSE B0!ReadCrs(f, rb, re)
    IN  ~(BinSame(OutOf(r.full), rd(-1, -1)) /\
          \A q \in 1..Len(r.parts) : BinSame(OutOf(r.parts[q].out), rd(r.parts[q].rb, r.parts[q].re)))

\* ------------------------------------------------------------------- the rest
BitsClauses(r) == << <<"bits-read-ok", r.st = "ok">>, <<"bits-shape", r.shape>>,
                     <<"bits-identical", r.mism = 0 /\ r.din = r.dout>> >>
KindClauses(r) == << <<"no-crash", r.full.st # "crash">>, <<"wrong-value-kind=>error", r.full.st # "ok">> >>

\* a read into vectors that were used before returns what a read into fresh vectors returns
SameOut(a, b) == a.st = b.st /\ (a.st = "ok" => (a.n = b.n /\ a.m = b.m /\ a.ptr = b.ptr /\ a.col = b.col /\ a.val = b.val))
UsedVecClauses(r) == << <<"no-crash", r.fresh.st # "crash" /\ r.used.st # "crash">>,
                        <<"valid-file-read-ok", r.fresh.st = "ok">>,
                        <<"read-into-used-vectors=read-into-fresh-vectors", SameOut(r.fresh, r.used)>> >>

\* a read with several OpenMP threads returns the matrix that was written (rows sorted), bitwise
MtReadClauses(r) == << <<"multithreaded-read-ok", r.st = "ok">>, <<"multithreaded-read=written-matrix", r.st = "ok" => r.mism = 0>> >>

Clauses(r) ==
    CASE r.k = "mm"      -> MMClauses(r)
      [] r.k = "bin"     -> BinClauses(r)
      [] r.k = "bits"    -> BitsClauses(r)
      [] r.k = "mmkind"  -> KindClauses(r)
      [] r.k = "usedvec" -> UsedVecClauses(r)
      [] r.k = "mtread"  -> MtReadClauses(r)
      [] r.k = "summary" -> <<>>
      [] OTHER           -> << <<"unknown-record", FALSE>> >>
Failed(r) == IF Has(r, "e") THEN (IF r.e = "End" THEN <<>> ELSE <<"recorder:" \o r.e>>)
             ELSE FailedOf(Clauses(r))
D0(r) == ~Has(r, "e") /\ ((r.k = "mm" /\ MMDrift0(r)) \/ (r.k = "bin" /\ BinDrift(r)))
D1(r) == ~Has(r, "e") /\ ((r.k = "mm" /\ MMDrift1(r)) \/ (r.k = "bin" /\ BinDrift(r)))

TInit == l = 1 /\ bad = <<>> /\ drift0 = 0 /\ drift1 = 0
TNext == /\ l <= NLog /\ l' = l + 1
         /\ LET f == Failed(Log[l])
            IN  /\ bad' = IF f = <<>> THEN bad ELSE Append(bad, <<l, f>>)
                /\ drift0' = IF D0(Log[l]) THEN drift0 + 1 ELSE drift0
                /\ drift1' = IF D1(Log[l]) THEN drift1 + 1 ELSE drift1
\* the drift counters travel in the verdict as two synthetic entries with line number 0
Verdict == (l = NLog + 1) =>
              VerdictLine(l, bad \o << <<0, <<"drift0=" \o ToString(drift0)>>>>, <<0, <<"drift1=" \o ToString(drift1)>>>> >>)
=============================================================================
