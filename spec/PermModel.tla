------------------------------ MODULE PermModel ------------------------------
(* Cuthill-McKee on every NP x NP pattern (diagonal present or not when DiagOnly =  *)
(* FALSE), both visiting orders: the result is a permutation and the fallback never *)
(* raises its internal-consistency exception.                                       *)
EXTENDS CuthillMcKee, Patterns, TLC
CONSTANTS NP, DiagOnly
VARIABLES mask, rev, pc, out
Init == /\ mask \in Masks(NP, NP) /\ (DiagOnly => HasDiag(NP, mask)) /\ rev \in BOOLEAN /\ pc = "in" /\ out = <<>>
A == MkCrs(NP, NP, mask, 0, FALSE)
Next == pc = "in" /\ pc' = "cm" /\ out' = CMRun(A, rev) /\ UNCHANGED <<mask, rev>>
PermInv == pc = "cm" => IsPermutation(out.perm, NP) /\ ~out.exc
\* the level-set number stored per node ranges over 1..n (a chain started at its end has n level sets): it is a
\* number, not a flag - storage narrower than the node count cannot hold it
LevelRange == pc = "cm" => out.levels >= 1 /\ out.levels <= NP + 1
ChainLevels == (pc = "cm" /\ \A i \in 0..(NP - 1) : RowCols(A, i) = {j \in 0..(NP - 1) : j - i \in {-1, 0, 1}}) => out.levels >= NP
=============================================================================
