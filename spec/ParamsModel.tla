---------------------------- MODULE ParamsModel ----------------------------
(* Exhaustive small-scope model for Params.tla: a three-level parameter structure   *)
(*     top {aa, e (enumeration), ch -> child {b, g -> grand {cc}; extra key xb}}     *)
(* whose import / export / check lists are varied at one nesting level at a time    *)
(* over ALL sub-lists (a dropped import, a dropped export, a missing or a foreign   *)
(* check_params name, a child that is not imported / exported; plus check_params    *)
(* looking keys up by prefix instead of exactly), crossed with ALL                  *)
(* property trees over the known keys (values 1, 2, Bad on the enumeration) and an  *)
(* optional unknown key at each nesting level, with and without all NEAR MISSES of  *)
(* the names (proper prefixes "a", "c", "x" and one-character extensions).          *)
(* Import, Check and Export are the                                                 *)
(* actions; the invariants say                                                      *)
(*   Sound     a schema with SchemaOK satisfies every behavioural predicate on      *)
(*             every tree (TakesEffect, RoundTrip, UnknownReported, NoSpurious,     *)
(*             BadEnumThrows),                                                      *)
(*   Complete  a schema without SchemaOK is exposed by one of the PROBE trees - the *)
(*             single-key family the recorder record_params pushes through every    *)
(*             real params struct - so judging the probes by the behavioural        *)
(*             predicates is as strong as comparing the lists.                      *)
EXTENDS Params

CONSTANTS MutLevels,     \* nesting levels (0, 1, 2) whose lists are varied
          Vals           \* non-default value codes used in the trees ({1} or {1, 2})
VARIABLES S, t, pc, obj, rep, out, threw
vars == <<S, t, pc, obj, rep, out, threw>>

G0 == [vf |-> {"cc"}, ef |-> {}, xk |-> {}, cf |-> <<>>]
C0 == [vf |-> {"b"}, ef |-> {}, xk |-> {"xb"}, cf |-> ("g" :> G0)]
T0 == [vf |-> {"aa", "e"}, ef |-> {"e"}, xk |-> {}, cf |-> ("ch" :> C0)]
Base == Ideal(T0)

Foreign == {Unk(p) : p \in Paths(Base)}

WithLists(X, iv, ev, ic, ec, ck) ==
    [X EXCEPT !.impv = iv, !.expv = ev, !.impc = ic, !.expc = ec, !.chk = ck]

Variants0 == {WithLists(Base, iv, ev, ic, ec, {"e"} \cup ck) :
                 iv \in SUBSET {"aa", "e"}, ev \in SUBSET {"aa", "e"},
                 ic \in SUBSET {"ch"}, ec \in SUBSET {"ch"}, ck \in SUBSET {"aa", "ch", Unk(<<>>)}}
Variants1 == {[Base EXCEPT !.cf["ch"] = WithLists(@, iv, ev, ic, ec, ck)] :
                 iv \in SUBSET {"b"}, ev \in SUBSET {"b"},
                 ic \in SUBSET {"g"}, ec \in SUBSET {"g"}, ck \in SUBSET {"b", "g", "xb", Unk(<<"ch">>)}}
Variants2 == {[Base EXCEPT !.cf["ch"].cf["g"] = WithLists(@, iv, ev, {}, {}, ck)] :
                 iv \in SUBSET {"cc"}, ev \in SUBSET {"cc"}, ck \in SUBSET {"cc", Unk(<<"ch", "g">>)}}
\* check_params with a prefix lookup instead of the exact one, at one level
VariantsLk == {[Base EXCEPT !.lk = "prefix"], [Base EXCEPT !.cf["ch"].lk = "prefix"],
               [Base EXCEPT !.cf["ch"].cf["g"].lk = "prefix"]}
Variants == VariantsLk \cup (IF 0 \in MutLevels THEN Variants0 ELSE {}) \cup
            (IF 1 \in MutLevels THEN Variants1 ELSE {}) \cup
            (IF 2 \in MutLevels THEN Variants2 ELSE {}) \cup {Base}

AllTrees == Trees(T0, <<>>, Vals, FALSE) \cup Trees(T0, <<>>, Vals, TRUE)

Init == /\ S \in Variants /\ t \in AllTrees
        /\ pc = "tree" /\ obj = <<>> /\ rep = {} /\ out = <<>> /\ threw = FALSE

\* params(const ptree&): member initialisers, then check_params, exceptions propagate
ImportStep == /\ pc = "tree"
              /\ threw' = Throws(S, t)
              /\ obj' = Import(S, t)
              /\ pc' = IF Throws(S, t) THEN "threw" ELSE "imported"
              /\ UNCHANGED <<S, t, rep, out>>
CheckStep  == /\ pc = "imported" /\ rep' = Reported(S, t) /\ pc' = "checked"
              /\ UNCHANGED <<S, t, obj, out, threw>>
ExportStep == /\ pc = "checked" /\ out' = Export(S, obj) /\ pc' = "exported"
              /\ UNCHANGED <<S, t, obj, rep, threw>>
Next == ImportStep \/ CheckStep \/ ExportStep

Sound == (pc \in {"exported", "threw"} /\ SchemaOK(S, Foreign)) => AllOK(S, t, obj, rep, out, threw)

\* evaluated once per schema (in the state with the empty tree)
Complete == (pc = "tree" /\ t = EmptyTree /\ ~SchemaOK(S, Foreign)) =>
                \E q \in Probes(Base, 0) : ~RunOK(S, q)

\* a correct schema rejects every near miss (proper prefix / extension) of its names
Rejects == (pc = "tree" /\ t = EmptyTree /\ SchemaOK(S, Foreign)) => UnknownKeysRejected(S)
\* ... and the prefix lookup does not (the model is not vacuous)
PrefixLookupAccepts == (pc = "tree" /\ t = EmptyTree /\ S \in VariantsLk) => ~UnknownKeysRejected(S)

\* the unchanged lists are a fixed point: export(import(t)) restricted to t = t
BaseRoundTrip == (pc = "exported" /\ S = Base) => RoundTrip(Base, t, out) /\ ExportShapeOK(Base, out)
=============================================================================
