CONSTANTS
  N = 2
  AMax = 2
  KMax = 2
  Wide = FALSE
  BsBound = 40
  Methods = {"cg", "bicgstab.left", "bicgstab.right", "richardson", "richardson.half", "gmres.left.1", "gmres.right.1", "gmres.left.K", "gmres.right.K"}
INIT Init
NEXT Next
INVARIANTS ProgMatchesRef TerminatesAtN CarriedResidual GmresMonotone
CHECK_DEADLOCK FALSE
