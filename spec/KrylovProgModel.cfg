CONSTANTS
  N = 2
  AMax = 2
  AMaxCG = 3
  AMaxBs = 2
  KMax = 2
  Thin = 1
  Wide = FALSE
  BsBound = 20
  Methods = {"cg", "bicgstab.left", "bicgstab.right", "richardson", "richardson.half", "gmres.left.K", "gmres.right.1"}
INIT Init
NEXT Next
INVARIANTS ProgMatchesRef TerminatesAtN CarriedResidual GmresMonotone
CHECK_DEADLOCK FALSE
