------------------------------ MODULE C03Trace ------------------------------
(* Trace spec for C03: hierarchies built by the real amgcl::amg, observed through a *)
(* recording coarsening policy (template argument) and the guarded friend accessor. *)
EXTENDS TraceKit, Galerkin, HierarchyDefs

VARIABLES l, bad

\* recorded level list -> the abstract level records of Hierarchy.tla (version tags: present = 0)
AbsLevels(r) == [k \in 1..Len(r.levels) |->
                   LET L == r.levels[k]
                   IN  [rows |-> L.rows, A |-> IF L.A THEN 0 ELSE -1, relax |-> IF L.relax THEN 0 ELSE -1,
                        solve |-> IF L.solve THEN 0 ELSE -1, P |-> L.P /\ L.R, bP |-> L.bP /\ L.bR, vecs |-> L.vecs]]
Prm(r) == [ce |-> r.ce, ml |-> r.ml, dc |-> r.dc, ar |-> r.ar]

HierClauses(r) ==
    LET ls == AbsLevels(r)
    IN  << <<"hierarchy-shape", ShapeOK(Prm(r), r.n0, ls)>>,
           <<"transfer-shapes", \A k \in 1..(Len(r.levels) - 1) :
                  r.levels[k].prow = r.levels[k].rows /\ r.levels[k].pcol = r.levels[k + 1].rows
                  /\ r.levels[k].rrow = r.levels[k + 1].rows /\ r.levels[k].rcol = r.levels[k].rows>> >>

LevelClauses(r) ==
    << <<"coarse=galerkin-exact", (r.mode = "exact" /\ SmallEnough(r.A, 60)) => GalerkinExactOK(r.A, r.P, r.R, r.Ac, r.snum)>>,
       <<"coarse=galerkin-structure", GalerkinStructOK(r.A, r.P, r.R, r.Ac)>>,
       <<"coarse=galerkin-values", r.err <= -12500>>,                   \* millidecades: relative error <= 10^-12.5
       <<"restriction=adjoint(prolongation)", r.adjoint => AdjointOK(r.Pi, r.Ri)>>,
       <<"sizes-strictly-decrease", r.Ac.n < r.A.n /\ r.Ac.n >= 1>> >>

RebuildClauses(r) ==
    << <<"rebuild=fresh-hierarchy-bitwise", r.fresh>>,
       <<"rebuild-keeps-transfer-operators", r.transfer>>,
       <<"rebuild-with-original-restores-action", r.orig => r.restored>>,
       <<"rebuild-scales-exactly", r.pow2 => r.scaled>>,
       <<"rebuild-never-modifies-its-argument", r.input_untouched>> >>

GuardClauses(r) == << <<"rebuild-refused-when-not-allowed-or-wrong-shape", r.threw>> >>

Clauses(r) == CASE r.k = "hier" -> HierClauses(r)
                [] r.k = "level" -> LevelClauses(r)
                [] r.k = "rebuild" -> RebuildClauses(r)
                [] r.k = "guard" -> GuardClauses(r)
                [] OTHER -> << <<"unknown-record", FALSE>> >>

\* an exception while building is an allowed outcome only where the unchanged tree shows it:
\* smoothed_aggr_emin on two-node components annihilates P (zero coarse matrix -> skyline_lu throws)
Failed(r) == IF Has(r, "e")
             THEN (IF r.e = "End" \/ (r.e = "Exception" /\ r.coarsening = "smoothed_aggr_emin") THEN <<>>
                   ELSE <<"recorder:" \o r.e>>)
             ELSE FailedOf(Clauses(r))

TInit == l = 1 /\ bad = <<>>
TNext == /\ l <= NLog /\ l' = l + 1
         /\ LET f == Failed(Log[l]) IN bad' = IF f = <<>> THEN bad ELSE Append(bad, <<l, f>>)
Verdict == (l = NLog + 1) => VerdictLine(l, bad)
=============================================================================
