------------------------ MODULE LevelScheduleModel ------------------------
(* Execution model of the level-scheduled sweeps: NT threads step through their     *)
(* tasks, ONE ACTION PER SHARED-MEMORY ACCESS (read x[c], write x[i]); a barrier     *)
(* separates consecutive levels.  Values are versions (old / new), so "equals the   *)
(* serial sweep" is exact: every read must observe the version the serial sweep     *)
(* would.  TLC explores every interleaving of every pattern of size N.              *)
EXTENDS LevelSchedule, TLC

CONSTANTS N, NT, Forward, AntiDep, Sym, Mode
VARIABLES mask, sched, pos, written, ok

vars == <<mask, sched, pos, written, ok>>

Pow2(k) == 2 ^ k
BitOf(m, k) == (m \div Pow2(k)) % 2 = 1
\* off-diagonal position (i,c), i # c, <-> bit i*(N-1) + (c if c < i else c-1)
OffBit(i, c) == i * (N - 1) + (IF c < i THEN c ELSE c - 1)
Stored(m, i, c) == i = c \/ (BitOf(m, OffBit(i, c)) /\ (Mode = "gs" \/ Before(Forward, c, i)))
RowCols(m) == [i \in 0..(N - 1) |-> SelectSeq([j \in 1..N |-> j - 1], LAMBDA c : Stored(m, i, c))]
SymMask(m) == \A i, c \in 0..(N - 1) : i # c => (BitOf(m, OffBit(i, c)) = BitOf(m, OffBit(c, i)))

Reads(i) == SelectSeq(RowCols(mask)[i], LAMBDA c : c # i)
ExpectNew(i, c) == Mode = "tri" \/ Before(Forward, c, i)
NLevels == Len(sched[0])

Init == /\ mask \in {m \in 0..(Pow2(N * (N - 1)) - 1) : ~Sym \/ SymMask(m)}
        /\ sched = Schedule(N, RowCols(mask), Forward, AntiDep, NT)
        /\ pos = [t \in 0..(NT - 1) |-> [k |-> 1, p |-> 1, s |-> 0]]
        /\ written = {}
        /\ ok = TRUE

TaskDone(t, k) == pos[t].k > k \/ (pos[t].k = k /\ pos[t].p > Len(sched[t][k]))

ReadX(t) ==
    /\ pos[t].k <= NLevels /\ pos[t].p <= Len(sched[t][pos[t].k])
    /\ LET i == sched[t][pos[t].k][pos[t].p]
       IN  /\ pos[t].s < Len(Reads(i))
           /\ LET c == Reads(i)[pos[t].s + 1]
              IN  ok' = (ok /\ ((c \in written) = ExpectNew(i, c)))
           /\ pos' = [pos EXCEPT ![t].s = @ + 1]
    /\ UNCHANGED <<mask, sched, written>>

WriteX(t) ==
    /\ pos[t].k <= NLevels /\ pos[t].p <= Len(sched[t][pos[t].k])
    /\ LET i == sched[t][pos[t].k][pos[t].p]
       IN  /\ pos[t].s = Len(Reads(i))
           /\ written' = written \cup {i}
           /\ ok' = (ok /\ i \notin written)
           /\ pos' = [pos EXCEPT ![t].p = @ + 1, ![t].s = 0]
    /\ UNCHANGED <<mask, sched>>

Barrier(t) ==
    /\ pos[t].k <= NLevels /\ pos[t].p > Len(sched[t][pos[t].k])
    /\ \A u \in 0..(NT - 1) : TaskDone(u, pos[t].k)
    /\ pos' = [pos EXCEPT ![t].k = @ + 1, ![t].p = 1, ![t].s = 0]
    /\ UNCHANGED <<mask, sched, written, ok>>

Next == \E t \in 0..(NT - 1) : ReadX(t) \/ WriteX(t) \/ Barrier(t)
Spec == Init /\ [][Next]_vars /\ WF_vars(Next)

\* every interleaving reproduces the serial sweep
SerialEquivalent == ok
\* static predicate evaluated on the transcription's own tables: must agree with the dynamics
StaticOK == ScheduleOK(N, RowCols(mask), Forward, Mode, sched)
AllDone == \A t \in 0..(NT - 1) : pos[t].k > NLevels
Complete == AllDone => written = 0..(N - 1)
Terminates == <>AllDone
=============================================================================
