----------------------------- MODULE RigidBody -----------------------------
(* coarsening::rigid_body_modes (amgcl/coarsening/rigid_body_modes.hpp): the near-   *)
(* null-space vectors of 2-D / 3-D elasticity generated from node coordinates.       *)
(* What its users (aggregation with a user null space, deflation) rely on is the     *)
(* SPAN: every vector it returns is an infinitesimal rigid body motion of the point   *)
(* cloud, and together they span all of them.  A displacement field u is an          *)
(* infinitesimal rigid motion iff it preserves all pairwise distances to first       *)
(* order:  (u_p - u_q) . (x_p - x_q) = 0  for all nodes p, q -- an identity in        *)
(* integers when the coordinates are integers.                                       *)
EXTENDS Integers, Sequences, FiniteSets

Dot(a, b) == LET RECURSIVE S(_) S(k) == IF k = 0 THEN 0 ELSE a[k] * b[k] + S(k - 1) IN S(Len(a))
Sub(a, b) == [k \in 1..Len(a) |-> a[k] - b[k]]

\* X: sequence of points (each a sequence of ndim integers); u: sequence of displacements, same shape
RigidMotion(X, u) == \A p, q \in 1..Len(X) : Dot(Sub(u[p], u[q]), Sub(X[p], X[q])) = 0

\* the generators, before any normalisation, exactly as the routine forms them
Translation(X, k) == [p \in 1..Len(X) |-> [d \in 1..Len(X[p]) |-> IF d = k THEN 1 ELSE 0]]
Rotation2(X)      == [p \in 1..Len(X) |-> <<-X[p][2], X[p][1]>>]
Rotation3(X, m)   == [p \in 1..Len(X) |->
                        CASE m = 1 -> << X[p][2], -X[p][1], 0>>           \* about z
                          [] m = 2 -> << 0, -X[p][3],  X[p][2]>>          \* about x
                          [] m = 3 -> << X[p][3], 0, -X[p][1]>>]          \* about y
Generators(X) == LET nd == Len(X[1])
                 IN  [k \in 1..nd |-> Translation(X, k)]
                     \o (IF nd = 2 THEN <<Rotation2(X)>> ELSE [m \in 1..3 |-> Rotation3(X, m)])

\* integer combination of the generators
Combo(X, c) == LET G == Generators(X)
               IN  [p \in 1..Len(X) |-> [d \in 1..Len(X[p]) |->
                       LET RECURSIVE S(_) S(k) == IF k = 0 THEN 0 ELSE c[k] * G[k][p][d] + S(k - 1) IN S(Len(G))]]
=============================================================================
