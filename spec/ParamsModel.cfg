CONSTANTS
  MutLevels = {0, 1, 2}
INIT Init
NEXT Next
INVARIANTS Sound Complete BaseRoundTrip
CHECK_DEADLOCK FALSE
