CONSTANTS
  MutLevels = {0, 1, 2}
  Vals = {1}
INIT Init
NEXT Next
INVARIANTS Sound Complete BaseRoundTrip Rejects PrefixLookupAccepts
CHECK_DEADLOCK FALSE
