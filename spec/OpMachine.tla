------------------------------ MODULE OpMachine ------------------------------
(* Register-transfer abstraction of amgcl's backend primitives                     *)
(* (backend/interface.hpp).  A register is a vector (identified by the recorder    *)
(* through the address of its first element); its *definition tag* says in which   *)
(* call (solve / apply) it was last written:                                       *)
(*      0      written while the object was constructed (a constant of the object) *)
(*      k > 0  written during call k                                               *)
(*     -1      never written / clobbered (unspecified content)                     *)
(* Reads(op) / Writes(op) follow the code's semantics including the                *)
(* coefficient-zero branches: an output whose scaling coefficient is zero is       *)
(* write-only (axpby(a,x,0,y) does not read y, spmv(..,0,y), vmul(..,0,z),         *)
(* axpbypcz(..,0,z) likewise).                                                     *)
(*                                                                                 *)
(* The freshness discipline (NoStaleRead): during call k a primitive may read      *)
(*   - a register written during call k,                                           *)
(*   - an input of call k (right-hand side, initial guess),                        *)
(*   - a constant of the object: a register no call has ever written,              *)
(*   - a declared carry-over register (LGMRES outer vectors with always_reset off),*)
(* and nothing else.  A result computed under this discipline is a function of the *)
(* call's arguments and the object's construction only: no history dependence.     *)
EXTENDS Naturals, Integers, Sequences, FiniteSets

\* an op event: [name, a (operand register ids, fixed order per primitive), z (zero flags)]
\*   spmv          a = <<A, x, y>>        z = <<alpha=0, beta=0>>     y = alpha A x + beta y
\*   residual      a = <<rhs, A, x, r>>                               r = rhs - A x
\*   clear         a = <<x>>
\*   copy          a = <<x, y>>                                       y = x
\*   inner_product a = <<x, y>>
\*   axpby         a = <<x, y>>           z = <<a=0, b=0>>            y = a x + b y
\*   axpbypcz      a = <<x, y, z>>        z = <<a=0, b=0, c=0>>       z = a x + b y + c z
\*   vmul          a = <<x, y, z>>        z = <<alpha=0, beta=0>>     z = alpha x y + beta z
\*   relax         a = <<rhs, x, t>>      (a smoother sweep observed as one event)
\*   coarse        a = <<rhs, x>>         (the coarse direct solve)
Reads(e) ==
    CASE e.name = "spmv"          -> {e.a[2]} \cup (IF e.z[2] = 1 THEN {} ELSE {e.a[3]})
      [] e.name = "residual"      -> {e.a[1], e.a[3]}
      [] e.name = "clear"         -> {}
      [] e.name = "copy"          -> {e.a[1]}
      [] e.name = "inner_product" -> {e.a[1], e.a[2]}
      [] e.name = "axpby"         -> {e.a[1]} \cup (IF e.z[2] = 1 THEN {} ELSE {e.a[2]})
      [] e.name = "axpbypcz"      -> {e.a[1], e.a[2]} \cup (IF e.z[3] = 1 THEN {} ELSE {e.a[3]})
      [] e.name = "vmul"          -> {e.a[1], e.a[2]} \cup (IF e.z[2] = 1 THEN {} ELSE {e.a[3]})
      [] e.name = "relax"         -> {e.a[1], e.a[2]}
      [] e.name = "coarse"        -> {e.a[1]}
      [] OTHER                    -> {}
Writes(e) ==
    CASE e.name = "spmv"          -> {e.a[3]}
      [] e.name = "residual"      -> {e.a[4]}
      [] e.name = "clear"         -> {e.a[1]}
      [] e.name = "copy"          -> {e.a[2]}
      [] e.name = "inner_product" -> {}
      [] e.name = "axpby"         -> {e.a[2]}
      [] e.name = "axpbypcz"      -> {e.a[3]}
      [] e.name = "vmul"          -> {e.a[3]}
      [] e.name = "relax"         -> {e.a[2]}
      [] e.name = "coarse"        -> {e.a[2]}
      [] OTHER                    -> {}

\* machine state: def (register -> tag, registers not in the domain are unknown = -1),
\*                dirty (registers some call has written), call, inputs, carry
Tag(def, r) == IF r \in DOMAIN def THEN def[r] ELSE -1

\* A register that no call has written or clobbered holds whatever the construction of the
\* object left in it (constructors fill vectors with plain loops the hooks do not see):
\* it is a constant of the object and may be read.
Fresh(st, r) == \/ Tag(st.def, r) = st.call
                \/ r \in st.inputs
                \/ r \notin st.dirty
                \/ r \in st.carry

StaleReads(st, e) == {r \in Reads(e) : ~Fresh(st, r)}

Define(def, rs, tag) == [r \in (DOMAIN def) \cup rs |-> IF r \in rs THEN tag ELSE def[r]]

Exec(st, e) ==
    [st EXCEPT !.def   = Define(st.def, Writes(e), st.call),
               !.dirty = IF st.call > 0 THEN st.dirty \cup Writes(e) ELSE st.dirty]

Machine0 == [def |-> <<>>, dirty |-> {}, call |-> 0, inputs |-> {}, carry |-> {}]
BeginCall(st, ins) == [st EXCEPT !.call = st.call + 1, !.inputs = ins]
\* the caller scribbles over a register between calls (old result, garbage)
Clobber(st, rs) == [st EXCEPT !.def = Define(st.def, rs, -1), !.dirty = st.dirty \cup rs]
=============================================================================
