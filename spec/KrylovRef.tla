----------------------------- MODULE KrylovRef -----------------------------
(* Exact-rational DEFINITIONS of the iterates of the Krylov methods (C05).  They do  *)
(* not use the recurrences of the programs: an iterate is defined by the variational *)
(* property over the Krylov space (CG, GMRES/FGMRES/LGMRES first cycle), by the      *)
(* closed fixed-point form (Richardson) or by the textbook recurrence applied to the *)
(* explicitly preconditioned system (BiCGStab, van der Vorst 1992).                  *)
(* Vectors are sequences of rationals <<num, den>> (Rat.tla), matrices sequences of  *)
(* rows.  P is the preconditioner as a matrix (M^-1), side is "left" or "right".     *)
EXTENDS Rat, FiniteSets, TLC

\* ------------------------------------------------------------ arithmetic in Q
\* Rat.tla multiplies before it reduces; TLC integers are 32 bit and an overflow is an
\* error.  These variants cancel common factors first, so that an operation overflows
\* only if its reduced result does.  All values are kept normalised (Norm), hence
\* equality of rationals is equality of pairs.
QMul(a, b) == IF a[1] = 0 \/ b[1] = 0 THEN RZero
              ELSE LET g1 == GCD(RAbsI(a[1]), b[2])
                       g2 == GCD(RAbsI(b[1]), a[2])
                   IN  <<(a[1] \div g1) * (b[1] \div g2), (a[2] \div g2) * (b[2] \div g1)>>
QAdd(a, b) == LET g == GCD(a[2], b[2])
              IN  Norm(a[1] * (b[2] \div g) + b[1] * (a[2] \div g), (a[2] \div g) * b[2])
QSub(a, b) == QAdd(a, RNeg(b))
QDiv(a, b) == QMul(a, RInv(b))
QEq(a, b)  == a = b
QLe(a, b)  == LET g == GCD(a[2], b[2]) IN a[1] * (b[2] \div g) <= b[1] * (a[2] \div g)
QLt(a, b)  == LET g == GCD(a[2], b[2]) IN a[1] * (b[2] \div g) < b[1] * (a[2] \div g)
RECURSIVE QSumSeq(_)
QSumSeq(s) == IF s = <<>> THEN RZero ELSE QAdd(s[1], QSumSeq([k \in 1..(Len(s) - 1) |-> s[k + 1]]))
\* largest numerator / denominator in a vector (to keep clear of the 32-bit limit)
VSize(v)   == LET S == {RAbsI(v[i][1]) : i \in 1..Len(v)} \cup {v[i][2] : i \in 1..Len(v)}
              IN  CHOOSE m \in S : \A y \in S : y <= m

\* ------------------------------------------------------------ linear algebra in Q
Dim(v)        == Len(v)
RVec(v)       == [i \in 1..Len(v) |-> R(v[i])]                       \* integer vector -> Q^n
RMat(M)       == [i \in 1..Len(M) |-> RVec(M[i])]
ZeroVec(n)    == [i \in 1..n |-> RZero]
VAdd(a, b)    == [i \in 1..Len(a) |-> QAdd(a[i], b[i])]
VSub(a, b)    == [i \in 1..Len(a) |-> QSub(a[i], b[i])]
VScale(c, a)  == [i \in 1..Len(a) |-> QMul(c, a[i])]
VAxpy(c, a, b) == VAdd(VScale(c, a), b)                              \* c a + b
Dot(a, b)     == QSumSeq([i \in 1..Len(a) |-> QMul(a[i], b[i])])
MatVec(M, v)  == [i \in 1..Len(M) |-> Dot(M[i], v)]
IsZeroVec(v)  == \A i \in 1..Len(v) : IsZero(v[i])
VEq(a, b)     == Len(a) = Len(b) /\ \A i \in 1..Len(a) : QEq(a[i], b[i])
Identity(n)   == [i \in 1..n |-> [j \in 1..n |-> IF i = j THEN ROne ELSE RZero]]
Transpose(M)  == [j \in 1..Len(M[1]) |-> [i \in 1..Len(M) |-> M[i][j]]]
\* sum_j y[j] * V[j]  (V a sequence of vectors)
LinComb(y, V, n) == [i \in 1..n |-> QSumSeq([j \in 1..Len(V) |-> QMul(y[j], V[j][i])])]

\* determinant by cofactor expansion along the first row (k <= 3 in practice)
Minor(M, r, c) == LET k == Len(M)
                  IN  [i \in 1..(k - 1) |-> [j \in 1..(k - 1) |->
                          M[IF i < r THEN i ELSE i + 1][IF j < c THEN j ELSE j + 1]]]
RECURSIVE Det(_)
Det(M) == IF Len(M) = 0 THEN ROne
          ELSE IF Len(M) = 1 THEN M[1][1]
          ELSE QSumSeq([c \in 1..Len(M) |->
                   QMul(IF c % 2 = 1 THEN M[1][c] ELSE RNeg(M[1][c]), Det(Minor(M, 1, c)))])
ReplaceCol(M, c, b) == [i \in 1..Len(M) |-> [j \in 1..Len(M) |-> IF j = c THEN b[i] ELSE M[i][j]]]
\* Cramer's rule; requires Det(M) # 0
SolveQ(M, b) == LET d == Det(M) IN [c \in 1..Len(M) |-> QDiv(Det(ReplaceCol(M, c, b)), d)]
Nonsingular(M) == ~IsZero(Det(M))
Symmetric(M)   == \A i, j \in 1..Len(M) : QEq(M[i][j], M[j][i])
\* leading principal minors positive
PosDef(M) == /\ Symmetric(M)
             /\ \A k \in 1..Len(M) : QLt(RZero, Det([i \in 1..k |-> [j \in 1..k |-> M[i][j]]]))

Residual(A, f, x) == VSub(f, MatVec(A, x))

\* the primitive integer vector on the ray of v (spans are what the definitions use; this keeps
\* the numbers of the Gram matrices small)
RECURSIVE GcdSeq(_)
GcdSeq(s)  == IF s = <<>> THEN 0 ELSE GCD(RAbsI(s[1]), GcdSeq([k \in 1..(Len(s) - 1) |-> s[k + 1]]))
RECURSIVE LcmSeq(_)
LcmSeq(s)  == IF s = <<>> THEN 1 ELSE LET l == LcmSeq([k \in 1..(Len(s) - 1) |-> s[k + 1]]) IN (s[1] \div GCD(s[1], l)) * l
VPrim(v)   == IF IsZeroVec(v) THEN v
              ELSE LET L == LcmSeq([i \in 1..Len(v) |-> v[i][2]])
                       w == [i \in 1..Len(v) |-> v[i][1] * (L \div v[i][2])]
                       g == GcdSeq(w)
                   IN  [i \in 1..Len(v) |-> R(w[i] \div g)]
\* Krylov vectors  v, B v, ..., B^(k-1) v, each rescaled to its primitive vector
RECURSIVE KrylovSeq(_, _, _)
KrylovSeq(B, v, k) == IF k = 0 THEN <<>>
                      ELSE IF k = 1 THEN <<VPrim(v)>>
                      ELSE LET prev == KrylovSeq(B, v, k - 1) IN Append(prev, VPrim(MatVec(B, prev[k - 1])))
Gram(V, W)   == [i \in 1..Len(V) |-> [j \in 1..Len(W) |-> Dot(V[i], W[j])]]
MatMul(A, B) == [i \in 1..Len(A) |-> [j \in 1..Len(B[1]) |-> QSumSeq([l \in 1..Len(B) |-> QMul(A[i][l], B[l][j])])]]

\* ------------------------------------------------------------------------ CG
\* x_k = the minimiser of ||x - x*||_A over x0 + K_k(P A, P r0): Galerkin condition
\*   V^T A V y = V^T r0,  x_k = x0 + V y.   If the Krylov vectors are dependent the
\* iteration has already converged and the iterate stays.
RECURSIVE CGRef(_, _, _, _, _)
CGRef(A, P, f, x0, k) ==
    IF k = 0 THEN x0
    ELSE LET r0 == Residual(A, f, x0)
             V  == KrylovSeq(MatMul(P, A), MatVec(P, r0), k)
             AV == [j \in 1..k |-> MatVec(A, V[j])]
             G  == Gram(V, AV)
         IN  IF IsZero(Det(G)) THEN CGRef(A, P, f, x0, k - 1)
             ELSE VAdd(x0, LinComb(SolveQ(G, [i \in 1..k |-> Dot(V[i], r0)]), V, Len(x0)))

\* -------------------------------------------------------------- GMRES family
\* one cycle of k steps from x0: minimise the (preconditioned) residual norm
\*   right: min || r0 - A P V y ||,  V = K_k(A P, r0),          x = x0 + P V y
\*   left : min || P r0 - P A V y ||, V = K_k(P A, P r0),        x = x0 + V y
\* normal equations W^T W y = W^T g  (W has full rank unless converged before)
RECURSIVE GmresCycle(_, _, _, _, _, _)
GmresCycle(A, P, f, x0, k, side) ==
    IF k = 0 THEN x0
    ELSE LET r0 == Residual(A, f, x0)
             g  == IF side = "left" THEN MatVec(P, r0) ELSE r0
             B  == IF side = "left" THEN MatMul(P, A) ELSE MatMul(A, P)
             V  == KrylovSeq(B, g, k)
             W  == [j \in 1..k |-> MatVec(B, V[j])]
             N  == Gram(W, W)
         IN  IF IsZero(Det(N)) THEN GmresCycle(A, P, f, x0, k - 1, side)
             ELSE LET y  == SolveQ(N, [i \in 1..k |-> Dot(W[i], g)])
                      dx == LinComb(y, V, Len(x0))
                  IN  VAdd(x0, IF side = "left" THEN dx ELSE MatVec(P, dx))
\* restarted GMRES(M): iterate k = M-step cycles followed by a (k mod M)-step cycle
RECURSIVE GmresRef(_, _, _, _, _, _, _)
GmresRef(A, P, f, x0, k, M, side) ==
    IF k <= M THEN GmresCycle(A, P, f, x0, k, side)
    ELSE GmresRef(A, P, f, GmresCycle(A, P, f, x0, M, side), k - M, M, side)
\* the squared (preconditioned) residual norm GMRES minimises
GmresResNorm2(A, P, f, x, side) ==
    LET r == Residual(A, f, x) IN IF side = "left" THEN Dot(MatVec(P, r), MatVec(P, r)) ELSE Dot(r, r)

\* ------------------------------------------------------------------ Richardson
RECURSIVE RichardsonRef(_, _, _, _, _, _)
RichardsonRef(A, P, f, x0, k, omega) ==
    IF k = 0 THEN x0
    ELSE LET x == RichardsonRef(A, P, f, x0, k - 1, omega)
         IN  VAxpy(omega, MatVec(P, Residual(A, f, x)), x)

\* -------------------------------------------------------------------- BiCGStab
\* van der Vorst's algorithm for the unpreconditioned system B u = g from u = 0,
\* with shadow residual g; `def` is FALSE after a breakdown (a zero denominator),
\* `done` after the residual (or s) became exactly zero.
BiInit(B, g) == [u |-> ZeroVec(Len(g)), r |-> g, p |-> ZeroVec(Len(g)), v |-> ZeroVec(Len(g)),
                 rho |-> ROne, alpha |-> ROne, omega |-> ROne, def |-> TRUE, done |-> IsZeroVec(g)]
BiStep(B, g, st) ==
    IF ~st.def \/ st.done THEN st
    ELSE LET rho1 == Dot(g, st.r)
         IN  IF IsZero(st.rho) \/ IsZero(st.omega) THEN [st EXCEPT !.def = FALSE]       \* beta divides by them
             ELSE LET beta == QMul(QDiv(rho1, st.rho), QDiv(st.alpha, st.omega))
                      p    == VAdd(st.r, VScale(beta, VSub(st.p, VScale(st.omega, st.v))))
                      v    == MatVec(B, p)
                      den  == Dot(g, v)
                  IN  IF IsZero(den) THEN [st EXCEPT !.def = FALSE]
                      ELSE LET alpha == QDiv(rho1, den)
                               s     == VSub(st.r, VScale(alpha, v))
                           IN  IF IsZeroVec(s)
                               THEN [st EXCEPT !.u = VAxpy(alpha, p, st.u), !.r = s, !.done = TRUE]
                               ELSE LET t     == MatVec(B, s)
                                        omega == QDiv(Dot(t, s), Dot(t, t))
                                        r     == VSub(s, VScale(omega, t))
                                    IN  IF IsZero(omega) THEN [st EXCEPT !.def = FALSE]     \* stagnation breakdown
                                        ELSE [u |-> VAdd(VAxpy(alpha, p, st.u), VScale(omega, s)),
                                              r |-> r, p |-> p, v |-> v, rho |-> rho1, alpha |-> alpha,
                                              omega |-> omega, def |-> TRUE, done |-> IsZeroVec(r)]
\* The numbers of this recurrence grow like the 5th power per step: with 32-bit TLC integers a
\* further step is taken only from a state whose numerators / denominators are all <= bound;
\* otherwise the run is marked `big` (not judged).
BiSize(st) == LET S == {VSize(st.u), VSize(st.r), VSize(st.p), VSize(st.v), VSize(<<st.rho, st.alpha, st.omega>>)}
              IN  CHOOSE m \in S : \A y \in S : y <= m
RECURSIVE BiRun(_, _, _, _)
BiRun(B, g, k, bound) ==
    IF k = 0 THEN [big |-> FALSE] @@ BiInit(B, g)
    ELSE LET prev == BiRun(B, g, k - 1, bound)
         IN  IF prev.big \/ (k >= 2 /\ prev.def /\ ~prev.done /\ BiSize(prev) > bound) THEN [prev EXCEPT !.big = TRUE]
             ELSE [big |-> FALSE] @@ BiStep(B, g, prev)
\* preconditioned: left = the algorithm on (P A) x = P f, right = on (A P) u = f with x = P u,
\* both for the correction from x0
BiCGStabRef(A, P, f, x0, k, side, bound) ==
    LET r0 == Residual(A, f, x0)
        st == IF side = "left" THEN BiRun(MatMul(P, A), MatVec(P, r0), k, bound) ELSE BiRun(MatMul(A, P), r0, k, bound)
    IN  [x |-> VAdd(x0, IF side = "left" THEN st.u ELSE MatVec(P, st.u)), def |-> st.def, done |-> st.done, big |-> st.big]

\* ------------------------------------------------------- enumerated small systems
\* all n x n integer matrices with entries in -a..a, as sequences of rows
IntMats(n, a) == [1..n -> [1..n -> (-a)..a]]
\* sequences-of-sequences view of a function matrix / vector
AsRows(M, n)  == [i \in 1..n |-> [j \in 1..n |-> M[i][j]]]
=============================================================================
