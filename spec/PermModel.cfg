CONSTANTS
  NP = 4
  DiagOnly = FALSE
INIT Init
NEXT Next
INVARIANT PermInv
CHECK_DEADLOCK FALSE
