CONSTANTS
  NP = 4
  DiagOnly = FALSE
INIT Init
NEXT Next
INVARIANTS PermInv LevelRange ChainLevels
CHECK_DEADLOCK FALSE
