CONSTANTS
  NR = 2
  NC = 3
  SubStride = 7
  Checked = TRUE
INIT Init
NEXT Next
INVARIANTS FaultInv RoundTripInv SliceInv ClosedFormInv KindInv
CHECK_DEADLOCK FALSE
