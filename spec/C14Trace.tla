------------------------------ MODULE C14Trace ------------------------------
(* Trace spec for C14.  Every line is one observation of the REAL code:             *)
(*   tree     an abstract property tree pushed through a real params(ptree)         *)
(*            [family env:<n>: after omp_set_num_threads(n) in the same process;    *)
(*            members are coded relative to the defaults constructed at that time]  *)
(*            constructor: members read back (obj), keys reported through           *)
(*            AMGCL_PARAM_UNKNOWN (rep), the tree exported by params::get (out)     *)
(*   schema   per component: the behavioural import / export / check lists, the     *)
(*            documented members (docs/components/*.rst) and the lists scanned from *)
(*            the header (tools/scan_params.py)                                     *)
(*   array    a pointer-transported array parameter (weights, pmask, B, vec)        *)
(*   compile  whether params::get of a component compiles when instantiated         *)
(*   equiv    a compile-time composition and the run-time composition of the same   *)
(*            components with the same parameter values on the same system          *)
(*   mequiv   the same for the distributed (MPI) classes and runtime::mpi wrappers,  *)
(*            on 1, 2 and 3 ranks                                                   *)
(*   equivp   a class of runtime::preconditioner against the C++ type it names      *)
(*   rtctor   a run-time wrapper constructed twice from one non-const tree of the    *)
(*            caller: the tree is unchanged, both objects have the same type        *)
(*   reimport the parameters stored in a run-time composition (get_params) build    *)
(*            the same solver again                                                 *)
(*   rebuilt  a typed amg after rebuild(2A) against a typed amg freshly built from   *)
(*            2A with the same parameters (scaling keeps the transfer operators)    *)
(*   equivb   block-valued backend: the as_scalar / direct branch of the run-time   *)
(*            coarsening wrapper against the compile-time composition               *)
(*   enum     operator<< / operator>> of a run-time enumeration, value by value     *)
(*   badtype  an invalid enumeration string under a "type" / "class" key            *)
(*   unkrt    a key at some nesting level of the run-time composition               *)
(* judged by the predicates of Params.tla / Dispatch.tla - the invariants of        *)
(* ParamsModel / DispatchModel.                                                     *)
EXTENDS TraceKit, Params, Dispatch

VARIABLES l, bad, drift

RECURSIVE SchemaOf(_)
SchemaOf(s) == [vf |-> Range(s.vf), ef |-> Range(s.ef), xk |-> Range(s.xk),
                cf |-> [f \in DOMAIN s.cf |-> SchemaOf(s.cf[f])]]

TreeWF(r) == /\ {"S", "t", "threw", "obj", "rep", "out", "noexp"} \subseteq DOMAIN r
             /\ WellFormedTree(r.t)

TreeClauses(r) ==
    LET wf == TreeWF(r)
        S  == SchemaOf(r.S)
        go == wf /\ ~r.threw
    IN  << <<"wellformed", wf>>,
           <<"bad-enum-throws", wf /\ BadEnumThrows(S, r.t, r.threw)>>,
           <<"takes-effect", wf /\ (r.threw \/ (ShapeOK(S, r.obj) /\ TakesEffect(S, r.t, r.obj)))>>,
           <<"round-trip", wf /\ (r.threw \/ r.noexp \/ RoundTrip(S, r.t, r.out))>>,
           <<"unknown-reported", wf /\ (r.threw \/ UnknownReported(S, r.t, Range(r.rep)))>>,
           <<"known-not-reported", wf /\ (r.threw \/ NoSpurious(S, r.t, Range(r.rep)))>> >>

\* the behavioural lists of one component as a schema of Params.tla
Behaved(r) ==
    LET S == SchemaOf(r.S) IN
    [Ideal(S) EXCEPT !.impv = Range(r.imported) \cap S.vf,
                     !.expv = IF r.noexp THEN S.vf ELSE Range(r.exported) \cap S.vf,
                     !.chk  = (Fields(S) \cup S.xk) \ Range(r.unchecked)]

SchemaClauses(r) ==
    LET S   == SchemaOf(r.S)
        doc == IF Has(r, "documented") THEN Range(r.documented) ELSE {}
        all == Fields(S) \cup Range(r.S.af) \cup Range(r.S.of)
    IN  << <<"schema-ok", Range(r.probed) = S.vf /\ TopSchemaOK(Behaved(r), {})>>,
           <<"documented-is-member", doc \subseteq all>>,
           <<"documented-settable", doc \cap S.vf \subseteq Range(r.imported)>> >>

\* header scan vs behaviour (informational: SPEC-DRIFT of the scanner, never a verdict)
ScanDrift(r) ==
    /\ Has(r, "scan")
    /\ LET S == SchemaOf(r.S) IN
       \/ Range(r.scan.imp) \cap S.vf # Range(r.imported) \cap S.vf
       \/ (~r.noexp /\ Range(r.scan.exp) \cap S.vf # Range(r.exported) \cap S.vf)
       \/ Range(r.scan.fields) # Fields(S) \cup Range(r.S.af) \cup Range(r.S.of)

Same(r, a, b) == /\ r["threw" \o a] = r["threw" \o b] /\ r["it" \o a] = r["it" \o b]
                 /\ r["res_lo" \o a] = r["res_lo" \o b] /\ r["res_hi" \o a] = r["res_hi" \o b]
                 /\ r["x_lo" \o a] = r["x_lo" \o b] /\ r["x_hi" \o a] = r["x_hi" \o b]
                 /\ r["px_lo" \o a] = r["px_lo" \o b] /\ r["px_hi" \o a] = r["px_hi" \o b]
                 /\ r["bytes" \o a] = r["bytes" \o b]
                 /\ r["txt_lo" \o a] = r["txt_lo" \o b] /\ r["txt_hi" \o a] = r["txt_hi" \o b]
\* the same object after amg::rebuild(A2): second solve and preconditioner action
SameRebuilt(r, a, b) ==
                 /\ r["rthrew" \o a] = r["rthrew" \o b] /\ r["rit" \o a] = r["rit" \o b]
                 /\ r["rres_lo" \o a] = r["rres_lo" \o b] /\ r["rres_hi" \o a] = r["rres_hi" \o b]
                 /\ r["rx_lo" \o a] = r["rx_lo" \o b] /\ r["rx_hi" \o a] = r["rx_hi" \o b]
                 /\ r["rpx_lo" \o a] = r["rpx_lo" \o b] /\ r["rpx_hi" \o a] = r["rpx_hi" \o b]

EnumClauses(r) ==
    LET wf == r.w \in WrapperIds
        E  == Expected[r.w].names
    IN  << <<"enum-wellformed", wf>>,
           <<"parse-print-identity", wf /\ (r.u < Len(E) => (r.printed = E[r.u + 1] /\ r.back = r.u /\ ~r.threw))>>,
           <<"no-extra-enumerator", wf /\ (r.u >= Len(E) => (r.u = Len(E) /\ r.printed = "???" /\ r.threw))>> >>

IsUnknownLeaf(s) == Len(s) >= 2 /\ SubSeq(s, 1, 2) = "zz"

Clauses(r) ==
    CASE r.k = "tree"    -> TreeClauses(r)
      [] r.k = "schema"  -> SchemaClauses(r)
      [] r.k = "array"   -> << <<"array-takes-effect", r.ok /\ ~r.threw>>,
                               <<"known-not-reported", r.rep = <<>> >> >>
      [] r.k = "compile" -> << <<r.clause, r.ok>> >>
      [] r.k = "equiv"   -> << <<"runtime=compile-time", Same(r, "", "_r")>>,
                               <<"runtime-preconditioner=compile-time", Same(r, "", "_p")>>,
                               <<"runtime=compile-time-after-rebuild", SameRebuilt(r, "", "_r") /\ SameRebuilt(r, "", "_p")>>,
                               <<"known-not-reported", r.rep = <<>> >> >>
      [] r.k = "mequiv"  -> << <<"mpi-runtime=compile-time", Same(r, "", "_r")>>,
                               <<"mpi-runtime-preconditioner=compile-time", Same(r, "", "_p")>>,
                               <<"known-not-reported", r.rep = <<>> >> >>
      [] r.k = "equivp"  -> << <<"preconditioner-class=type", Same(r, "_t", "_r")>>,
                               <<"runtime=compile-time-after-rebuild", SameRebuilt(r, "_t", "_r")>> >>
      [] r.k = "rtctor"  -> << <<"caller-tree-unchanged", ~r.threw /\ r.unchanged>>,
                               <<"same-type-twice", ~r.threw /\ r.same_type>> >>
      [] r.k = "reimport" -> << <<"export-reimport-same-solver", Same(r, "_t", "_r") /\ SameRebuilt(r, "_t", "_r")
                                                                  /\ r.exported_type = r.s>> >>
      [] r.k = "rebuilt" -> << <<"parameters-take-effect-after-rebuild",
                                 ~r.threw /\ r.rpx_lo = r.fpx_lo /\ r.rpx_hi = r.fpx_hi>> >>
      [] r.k = "equivb"  -> << <<"block-runtime=compile-time", Same(r, "_t", "_r")>>,
                               <<"runtime=compile-time-after-rebuild", SameRebuilt(r, "_t", "_r")>>,
                               <<"known-not-reported", r.rep = <<>> >> >>
      [] r.k = "enum"    -> EnumClauses(r)
      [] r.k = "badtype" -> << <<"bad-enum-throws", r.threw>> >>
      [] r.k = "unkrt"   -> << <<"unknown-reported", ~r.threw /\ (IsUnknownLeaf(r.leaf) => r.rep = <<r.leaf>>)>>,
                               <<"known-not-reported", ~r.threw /\ (~IsUnknownLeaf(r.leaf) => r.rep = <<>>)>> >>
      [] OTHER           -> << <<"unknown-record", FALSE>> >>

Failed(r) == IF Has(r, "e") THEN (IF r.e = "End" THEN <<>> ELSE <<"recorder:" \o r.e>>)
             ELSE FailedOf(Clauses(r))

TInit == l = 1 /\ bad = <<>> /\ drift = <<>>
TNext == /\ l <= NLog /\ l' = l + 1
         /\ LET f == Failed(Log[l])
            IN  /\ bad' = (IF f = <<>> THEN bad ELSE Append(bad, <<l, f>>))
                /\ drift' = (IF Has(Log[l], "k") /\ Log[l].k = "schema" /\ ScanDrift(Log[l])
                             THEN Append(drift, Log[l].comp) ELSE drift)
Verdict == (l = NLog + 1) => VerdictLine(l, bad) /\ PrintT(<<"DRIFT", drift>>)
=============================================================================
