CONSTANTS
  MinNP = 2
  MaxNP = 2
  MaxLoc = 2
SPECIFICATION Spec
INVARIANTS NeverMoves
CHECK_DEADLOCK FALSE
