---------------------------- MODULE HierarchyDefs ----------------------------
(* Constant-level part of Hierarchy.tla: the predicates over abstract level lists. *)
(* The same operators are the model's invariants (Hierarchy.tla) and the           *)
(* acceptance conditions for recorded real hierarchies (C03Trace.tla).             *)
EXTENDS Naturals, Integers, Sequences, FiniteSets

\* ---------------------------------------------------------------- predicates
\* (the same operator judges recorded real hierarchies in C03Trace)
Last(ls) == ls[Len(ls)]
ShapeOK(p, n0, ls) ==
    /\ Len(ls) >= 1 /\ ls[1].rows = n0
    /\ Len(ls) <= p.ml                                        \* never more than max_levels levels
    /\ \A k \in 1..(Len(ls) - 1) : /\ ls[k + 1].rows < ls[k].rows /\ ls[k + 1].rows >= 1
                                   /\ ls[k].A >= 0 /\ ls[k].relax >= 0 /\ ls[k].solve < 0 /\ ls[k].P
                                   /\ ls[k].bP = p.ar /\ ls[k].vecs = 3
    /\ ~Last(ls).P
    \* direct solver iff small enough and wanted, smoother otherwise
    /\ (Last(ls).solve >= 0) = (Last(ls).rows <= p.ce /\ p.dc)
    /\ (Last(ls).relax >= 0) = ~(Last(ls).rows <= p.ce /\ p.dc)
    /\ (Last(ls).relax >= 0) => (Last(ls).A >= 0 /\ Last(ls).vecs = 3)
    /\ (Last(ls).solve >= 0) => Last(ls).vecs = 2
    /\ ls[1].A >= 0                                           \* system_matrix() is always available

VersionOK(ls, v) == \A k \in 1..Len(ls) : /\ ls[k].A \in {-1, v} /\ ls[k].relax \in {-1, v} /\ ls[k].solve \in {-1, v}

=============================================================================
