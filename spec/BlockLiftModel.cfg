CONSTANTS
  N = 3
  BS = 2
  Modes = {0, 1, 6, 7, 12, 13, 18, 19}
  EpsDens = {4, 2}
  LiftBug = FALSE
  GenLo = 1
  GenHi = 0
INIT Init
NEXT Next
INVARIANTS LiftInv TogetherInv FlagsInv MinInv
CHECK_DEADLOCK FALSE
