---------------------------- MODULE PatternModel ----------------------------
(* The pmask_pattern mini-parser on every pattern "%a:b", "<a", ">a" with a, b from *)
(* the value sets below (single- and multi-digit) and every mask length in Ns.      *)
EXTENDS Schur, TLC
VARIABLES kind, a, b, n, pc, res
As == {0, 1, 2, 3, 5, 10, 12}
Bs == {1, 2, 3, 4, 10, 12}
Ns == {1, 6, 13, 20}
Init == /\ kind \in {37, 60, 62} /\ a \in As /\ b \in (IF kind = 37 THEN Bs ELSE {1}) /\ n \in Ns
        /\ pc = "in" /\ res = [st |-> "none"]
Next == pc = "in" /\ pc' = "parsed" /\ res' = PatternParse(PatternText(kind, a, b), n) /\ UNCHANGED <<kind, a, b, n>>
PatternInv == pc = "parsed" => PatternOK(kind, a, b, n, res)
=============================================================================
