CONSTANTS
  MaxLen = 5
  Free = FALSE
INIT Init
NEXT Next
INVARIANTS TypeOK LifecycleInv ParamsIsolated ShadowFrozen SetsCompose
CHECK_DEADLOCK FALSE
