CONSTANTS
  MaxLen = 5
  Free = FALSE
  Switches = 0
  Prelude = FALSE
INIT Init
NEXT Next
INVARIANTS TypeOK LifecycleInv ParamsIsolated ShadowFrozen SetsCompose Emit
CHECK_DEADLOCK FALSE
