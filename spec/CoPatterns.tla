----------------------------- MODULE CoPatterns -----------------------------
(* Generator of small square test matrices for the coarsening checks (C04),        *)
(* shared bit for bit with harness/record_coarsening.cpp (co_mat).                  *)
(*                                                                                  *)
(*   n     number of rows                                                           *)
(*   sym   FALSE: one mask bit per ordered pair (i,j), i # j  (digraph patterns)    *)
(*         TRUE : one mask bit per unordered pair             (symmetric patterns)  *)
(*   mask  bit set  -> the pair carries a BIG off-diagonal entry                    *)
(*         bit clear-> the pair is absent (weak = 0) or carries a SMALL entry (1)   *)
(*   mode  = weak + 2*sgn + 6*dg + 12*mag                                           *)
(*     weak 0/1  see above                                                          *)
(*     sgn  0 all off-diagonals negative; 1 positive iff (i+j)%3 = 0;               *)
(*          2 positive iff i = 0 or j = 0 (row 0 has only positive off-diagonals)   *)
(*     dg   0 diagonal 4;  1 diagonal = -(sum of off-diagonals) when that is > 0    *)
(*          (zero row sum), 4 otherwise                                             *)
(*     mag  0 BIG = 4;  1 BIG = 4 when i+j is even, 2 when odd                      *)
(* Magnitudes {1,2,4} make exact ties for eps in {1/4,1/2} on purpose; sgn/mag/dg   *)
(* are symmetric in (i,j), so symmetric masks give symmetric matrices.              *)
EXTENDS Crs

CBit(mask, k) == (mask \div (2 ^ k)) % 2 = 1
OffSlot(n, i, j) == i * (n - 1) + (IF j < i THEN j ELSE j - 1)          \* i # j
PairIdx(n, i, j) == i * n - ((i * (i + 1)) \div 2) + (j - i - 1)        \* i < j
MaskBits(n, sym) == IF sym THEN (n * (n - 1)) \div 2 ELSE n * (n - 1)
CoMasks(n, sym)  == 0 .. ((2 ^ MaskBits(n, sym)) - 1)

PairOn(n, sym, mask, i, j) ==
    IF sym THEN CBit(mask, IF i < j THEN PairIdx(n, i, j) ELSE PairIdx(n, j, i))
    ELSE CBit(mask, OffSlot(n, i, j))

ModeWeak(m) == m % 2
ModeSgn(m)  == (m \div 2) % 3
ModeDg(m)   == (m \div 6) % 2
ModeMag(m)  == (m \div 12) % 2
AllModes    == 0 .. 23

\* off-diagonal value of the pair (i,j), 0 = not stored
OffVal(n, sym, mask, mode, i, j) ==
    LET big == IF ModeMag(mode) = 0 \/ (i + j) % 2 = 0 THEN 4 ELSE 2
        mg  == IF PairOn(n, sym, mask, i, j) THEN big ELSE (IF ModeWeak(mode) = 1 THEN 1 ELSE 0)
        pos == CASE ModeSgn(mode) = 0 -> FALSE
                 [] ModeSgn(mode) = 1 -> (i + j) % 3 = 0
                 [] OTHER             -> i = 0 \/ j = 0
    IN  IF pos THEN mg ELSE -mg

CoDiag(n, sym, mask, mode, i) ==
    LET s == MapThenSumSet(LAMBDA j : OffVal(n, sym, mask, mode, i, j), (0 .. (n - 1)) \ {i})
    IN  IF ModeDg(mode) = 1 /\ -s > 0 THEN -s ELSE 4

CoRow(n, sym, mask, mode, i) ==
    LET all == [jj \in 1..n |-> <<jj - 1, IF jj - 1 = i THEN CoDiag(n, sym, mask, mode, i)
                                             ELSE OffVal(n, sym, mask, mode, i, jj - 1)>>]
    IN  SelectSeq(all, LAMBDA e : e[2] # 0)

CoMat(n, sym, mask, mode) == FromRows(n, n, [i1 \in 1..n |-> CoRow(n, sym, mask, mode, i1 - 1)])

\* A (x) I_b : scalar row i*b+k holds the entries of row i of A in columns c*b+k
Lift(A, b) ==
    FromRows(A.n * b, A.m * b,
        [r \in 1..(A.n * b) |->
            LET i == (r - 1) \div b
                k == (r - 1) % b
            IN  [q \in 1..RowLen(A, i) |-> <<A.col[Ptr(A, i) + q] * b + k, A.val[Ptr(A, i) + q]>>]])
=============================================================================
