CONSTANTS
  Solvers = {"cg", "bicgstab", "bicgstabl", "gmres", "fgmres", "lgmres", "idrs", "richardson"}
  MaxIter = 6
  MaxPar = 3
  Consistent = TRUE
  WithBreakdown = FALSE
  CheckAfterGuarded = TRUE
INIT Init
NEXT Next
INVARIANTS Budget ExitReason Provenance Work Emit
CHECK_DEADLOCK FALSE
