--------------------------- MODULE RugeStubenModel ---------------------------
(* ruge_stuben::transfer_operators on every CoPatterns matrix (N nodes, digraph or  *)
(* symmetric masks, value modes Modes), eps_strong = 1/d (d in EpsDens), truncation *)
(* t in TruncDens (0 = off, d = eps_trunc 1/d): connect, then one CFStep per        *)
(* iteration of the C/F splitting loop (bucket arrays in the state), then direct    *)
(* interpolation on exact rationals.                                                *)
(* TieBug / Uninit select the code as pinned (TRUE) or repaired (FALSE).            *)
EXTENDS RugeStuben, CoPatterns, TLC

CONSTANTS N, Sym, Modes, EpsDens, TruncDens, TieBug, Uninit, K      \* K loop iterations of cfsplit per step
VARIABLES A, eps, tr, pc, c0, s, out
vars == <<A, eps, tr, pc, c0, s, out>>

Init == /\ A \in CoMasks(N, Sym) \X Modes
        /\ \E d \in EpsDens : eps = <<1, d>>
        /\ \E t \in TruncDens : tr = IF t = 0 THEN RSTrunc(FALSE, <<1, 1>>) ELSE RSTrunc(TRUE, <<1, t>>)
        /\ pc = "gen" /\ c0 = <<>> /\ s = <<>> /\ out = <<>>
Gen     == /\ pc = "gen" /\ pc' = "connect" /\ A' = CoMat(N, Sym, A[1], A[2]) /\ UNCHANGED <<eps, tr, c0, s, out>>
Connect == /\ pc = "connect" /\ pc' = "split" /\ c0' = RSConnect(A, eps, Uninit) /\ s' = CFInit(A, c0')
           /\ UNCHANGED <<A, eps, tr, out>>
RECURSIVE CFSteps(_, _)
CFSteps(st, k) == IF k = 0 \/ st.done THEN st ELSE CFSteps(CFStep(A, c0, st), k - 1)
Split   == /\ pc = "split" /\ ~s.done /\ s' = CFSteps(s, K) /\ UNCHANGED <<A, eps, tr, pc, c0, out>>
Interp  == /\ pc = "split" /\ s.done /\ pc' = "done" /\ UNCHANGED <<A, eps, tr, c0, s>>
           /\ out' = IF s.oob THEN [oob |-> TRUE]
                     ELSE [oob |-> FALSE, t |-> RSInterp(A, c0.S, s.cf, tr, TieBug),
                           n |-> RSInterp(A, c0.S, s.cf, RSTrunc(FALSE, <<1, 1>>), TieBug)]
Next == Gen \/ Connect \/ Split \/ Interp

\* --- bucket bookkeeping of cfsplit
BucketInv == pc = "split" => CFBucketsOK(A, s)
SortedInv == pc = "split" => CFSortedOK(A, s)
NoOOBInv  == pc \in {"split", "done"} => ~s.oob
\* --- results
Live == pc = "done" /\ ~s.oob
SplitInv   == Live => CFInternalOK(A, eps, s.cf)
EmptyInv   == Live => RSEmptyOK(A, out.t.nc = 0)
SanityInv  == (Live /\ out.t.nc > 0) => CFSanityOK(A, eps, out.t.P, RatNear) /\ out.t.widthsOK
RowSumInv  == (Live /\ out.t.nc > 0) => RowSumOneOK(A, RSRows(A), out.t.P, RatNear)
TruncSumInv == (Live /\ out.t.nc > 0) => TruncKeepsSumOK(A, out.t.P, out.n.P)
RunInv     == Live => LET r == RSRun(A, eps, tr, TieBug, Uninit)
                      IN  r.cf = s.cf /\ (~r.empty => r.P = out.t.P)
=============================================================================
