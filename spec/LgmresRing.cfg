CONSTANTS
  K = 3
  Cycles = 9
  Rule = "counter"
INIT Init
NEXT Next
INVARIANTS DistinctSlots LastK
CHECK_DEADLOCK FALSE
