----------------------------- MODULE KrylovProg -----------------------------
(* The recurrences of amgcl's solvers in exact rational arithmetic, transcribed      *)
(* statement by statement from amgcl/solver/{cg,bicgstab,richardson,gmres,fgmres}.hpp *)
(* (same auxiliary vectors, same order of updates, same coefficient formulas).       *)
(* A program state is a record; XInit builds the state before the loop, XStep is one *)
(* pass through the loop body.  `done` = the loop condition `res > eps` failed with  *)
(* eps = 0 (the carried residual is exactly zero); `def` = no zero denominator and no *)
(* `precondition` failure so far.                                                    *)
(* GMRES: Arnoldi normalises with square roots and solves the least squares problem  *)
(* with Givens rotations, which are irrational.  The transcription keeps the         *)
(* structure (modified Gram-Schmidt against the previous basis vectors, one new      *)
(* vector per step, update x = x0 + [P] V y at the end of a cycle) but leaves the    *)
(* basis vectors unnormalised and obtains y from the least squares condition on the  *)
(* orthogonal basis; the iterate does not depend on the scaling of the basis (each   *)
(* basis vector is rescaled to a primitive integer vector instead of unit length).   *)
EXTENDS KrylovRef

\* ------------------------------------------------------------------------ CG
\* cg.hpp:171-201
\*   residual(rhs, A, x, r); for(; iter < maxiter && norm(r) > eps; ++iter) {
\*     P.apply(r, s); rho2 = rho1; rho1 = (r, s);
\*     if (iter) p = s + (rho1 / rho2) p; else p = s;
\*     q = A p; alpha = rho1 / (q, p); x += alpha p; r -= alpha q; }
CGInit(A, P, f, x0) ==
    LET r == Residual(A, f, x0)
    IN  [x |-> x0, r |-> r, p |-> ZeroVec(Len(f)), rho1 |-> RZero, iter |-> 0, def |-> TRUE, done |-> IsZeroVec(r)]
CGStep(A, P, st) ==
    IF ~st.def \/ st.done THEN st
    ELSE LET s    == MatVec(P, st.r)
             rho2 == st.rho1
             rho1 == Dot(st.r, s)
         IN  IF st.iter > 0 /\ IsZero(rho2) THEN [st EXCEPT !.def = FALSE]
             ELSE LET p   == IF st.iter > 0 THEN VAxpy(QDiv(rho1, rho2), st.p, s) ELSE s
                      q   == MatVec(A, p)
                      den == Dot(q, p)
                  IN  IF IsZero(den) THEN [st EXCEPT !.def = FALSE]
                      ELSE LET alpha == QDiv(rho1, den)
                               x     == VAxpy(alpha, p, st.x)
                               r     == VAxpy(RNeg(alpha), q, st.r)
                           IN  [x |-> x, r |-> r, p |-> p, rho1 |-> rho1, iter |-> st.iter + 1,
                                def |-> TRUE, done |-> IsZeroVec(r)]

\* ------------------------------------------------------------------- Richardson
\* richardson.hpp:163-176:  r = rhs - A x; loop { P.apply(r, s); x += damping s; r = rhs - A x }
RichInit(A, f, x0) == [x |-> x0, r |-> Residual(A, f, x0), iter |-> 0, def |-> TRUE, done |-> IsZeroVec(Residual(A, f, x0))]
RichStep(A, P, f, omega, st) ==
    IF st.done THEN st
    ELSE LET s == MatVec(P, st.r)
             x == VAxpy(omega, s, st.x)
             r == Residual(A, f, x)
         IN  [x |-> x, r |-> r, iter |-> st.iter + 1, def |-> TRUE, done |-> IsZeroVec(r)]

\* -------------------------------------------------------------------- BiCGStab
\* bicgstab.hpp:176-240 (check_after = false)
\*   left : rh = rhs - A x; r = P rh     right: r = rhs - A x;      rh = r
\*   loop { rho2 = rho1; rho1 = (r, rh);
\*          first: p = r   else [rho2 != 0] beta = (rho1 alpha) / (rho2 omega); p = r - beta omega v + beta p;
\*          spmv(side, P, A, p, v, T)   left: T = A p, v = P T   right: T = P p, v = A T
\*          alpha = rho1 / (rh, v);  x += alpha (left ? p : T);  s = r - alpha v;
\*          if (norm(s) > eps) { spmv(side, P, A, s, t, T); omega = (t, s) / (t, t); [omega != 0]
\*                               x += omega (left ? s : T); r = s - omega t; } }
PSpmv(side, P, A, w) ==        \* returns <<T, result>>
    IF side = "left" THEN LET T == MatVec(A, w) IN <<T, MatVec(P, T)>>
                     ELSE LET T == MatVec(P, w) IN <<T, MatVec(A, T)>>
BsInitQ(A, P, f, x0, side) ==
    LET r0 == Residual(A, f, x0)
        r  == IF side = "left" THEN MatVec(P, r0) ELSE r0
    IN  [x |-> x0, r |-> r, rh |-> r, p |-> ZeroVec(Len(f)), v |-> ZeroVec(Len(f)),
         rho1 |-> RZero, alpha |-> RZero, omega |-> RZero, first |-> TRUE, iter |-> 0,
         def |-> TRUE, done |-> IsZeroVec(r)]
BsStepQ(A, P, side, st) ==
    IF ~st.def \/ st.done THEN st
    ELSE LET rho2 == st.rho1
             rho1 == Dot(st.r, st.rh)
         IN  IF ~st.first /\ (IsZero(rho2) \/ IsZero(st.omega)) THEN [st EXCEPT !.def = FALSE]
             ELSE LET beta == IF st.first THEN RZero ELSE QDiv(QMul(rho1, st.alpha), QMul(rho2, st.omega))
                      p    == IF st.first THEN st.r
                              ELSE VAdd(VAdd(st.r, VScale(RNeg(QMul(beta, st.omega)), st.v)), VScale(beta, st.p))
                      tv   == PSpmv(side, P, A, p)
                      v    == tv[2]
                      den  == Dot(st.rh, v)
                  IN  IF IsZero(den) THEN [st EXCEPT !.def = FALSE]
                      ELSE LET alpha == QDiv(rho1, den)
                               x1    == VAxpy(alpha, IF side = "left" THEN p ELSE tv[1], st.x)
                               s     == VAxpy(RNeg(alpha), v, st.r)
                           IN  IF IsZeroVec(s)
                               THEN [st EXCEPT !.x = x1, !.r = s, !.p = p, !.v = v, !.rho1 = rho1, !.alpha = alpha,
                                               !.first = FALSE, !.iter = st.iter + 1, !.done = TRUE]
                               ELSE LET tt    == PSpmv(side, P, A, s)
                                        t     == tt[2]
                                        omega == QDiv(Dot(t, s), Dot(t, t))
                                        x2    == VAxpy(omega, IF side = "left" THEN s ELSE tt[1], x1)
                                        r     == VAxpy(RNeg(omega), t, s)
                                    IN  IF IsZero(omega) THEN [st EXCEPT !.def = FALSE]
                                        ELSE [x |-> x2, r |-> r, rh |-> st.rh, p |-> p, v |-> v, rho1 |-> rho1,
                                              alpha |-> alpha, omega |-> omega, first |-> FALSE, iter |-> st.iter + 1,
                                              def |-> TRUE, done |-> IsZeroVec(r)]

\* ---------------------------------------------------------- GMRES and FGMRES
\* gmres.hpp:184-257, fgmres.hpp:174-238: one restart cycle of m steps from x.
\*   r = [P](rhs - A x); v[0] = r / ||r||;
\*   for j: v_new = (side) A P v[j] | P A v[j]; for k <= j: H(k,j) = (v_new, v[k]); v_new -= H(k,j) v[k];
\*          v[j+1] = v_new / ||v_new||
\*   y = argmin || beta e1 - H y ||;  dx = V y;  x += (left ? dx : P dx)
\* Unnormalised: u[j+1] = B u[j] - sum_k ((B u[j], u[k]) / (u[k], u[k])) u[k]  (modified Gram-Schmidt),
\* y from  (B U)^T (B U) y = (B U)^T g.   FGMRES stores z[j] = P v[j] and updates x += Z y: the same
\* iterate as right-preconditioned GMRES when P is a fixed matrix.
RECURSIVE MGSBasis(_, _, _)
MGSBasis(B, g, m) ==          \* u[1..m]; stops growing when a new vector vanishes (lucky breakdown)
    IF m = 1 THEN <<VPrim(g)>>
    ELSE LET U == MGSBasis(B, g, m - 1)
         IN  IF Len(U) < m - 1 \/ IsZeroVec(U[Len(U)]) THEN U
             ELSE LET w0 == MatVec(B, U[m - 1])
                      \* modified Gram-Schmidt: project the running vector, one basis vector after another
                      F[k \in 0..(m - 1)] == IF k = 0 THEN w0
                                             ELSE VSub(F[k - 1], VScale(QDiv(Dot(F[k - 1], U[k]), Dot(U[k], U[k])), U[k]))
                  IN  Append(U, VPrim(F[m - 1]))
GmresCycleProg(A, P, f, x, m, side) ==
    LET r0 == Residual(A, f, x)
        g  == IF side = "left" THEN MatVec(P, r0) ELSE r0
        B  == IF side = "left" THEN MatMul(P, A) ELSE MatMul(A, P)
    IN  IF m = 0 \/ IsZeroVec(g) THEN x
        ELSE LET U0 == MGSBasis(B, g, m)
                 U  == IF IsZeroVec(U0[Len(U0)]) THEN [j \in 1..(Len(U0) - 1) |-> U0[j]] ELSE U0
                 W  == [j \in 1..Len(U) |-> MatVec(B, U[j])]
                 N  == Gram(W, W)
             IN  IF IsZero(Det(N)) THEN x
                 ELSE LET y  == SolveQ(N, [i \in 1..Len(U) |-> Dot(W[i], g)])
                          dx == LinComb(y, U, Len(x))
                      IN  VAdd(x, IF side = "left" THEN dx ELSE MatVec(P, dx))
\* iterate after k inner steps in total, restart length M (maxiter = k ends the last cycle early)
RECURSIVE GmresProg(_, _, _, _, _, _, _)
GmresProg(A, P, f, x, k, M, side) ==
    IF k <= M THEN GmresCycleProg(A, P, f, x, k, side)
    ELSE GmresProg(A, P, f, GmresCycleProg(A, P, f, x, M, side), k - M, M, side)
=============================================================================
