--------------------------------- MODULE Cpr ---------------------------------
(* amgcl/preconditioner/cpr.hpp transcribed: the pressure weights (the first row    *)
(* of the inverse of each diagonal block, computed by the code's own pivot-free LU  *)
(* `invert` on the transposed block), the pressure matrix App (one entry per block  *)
(* column that holds any entry, value = weights times the first column of the       *)
(* block), Fpp and Scatter, the two-stage apply                                     *)
(*        x = S f + Scatter P (Fpp (f - A S f))                                      *)
(* for scalar input with block_size B (active_rows N) and for B x B block-valued    *)
(* input, and partial_update (update_transfer recomputes Fpp only); the per-thread  *)
(* scratch block of first_scalar_pass is modelled explicitly (ScratchRun).          *)
(* K is a CRS record of integers with sorted rows; vectors / dense matrices are     *)
(* rational (BlockLin.tla).                                                         *)
EXTENDS Crs, BlockLin

\* ------------------------------------------------------------------ invert()
\* LU without pivoting in place, then L y = e_0, U y = y: the first column of A^-1;  [ok, y]
RECURSIVE LUStep(_, _, _)
LUStep(A, B, k) ==      \* eliminate below pivot k (1-based)
    IF k > B THEN [ok |-> TRUE, A |-> A]
    ELSE IF IsZero(A[k][k]) THEN [ok |-> FALSE, A |-> A]
    ELSE LET d  == A[k][k]
             A1 == [i \in 1..B |-> IF i <= k THEN A[i]
                                   ELSE LET l == RDiv(A[i][k], d)
                                        IN  [j \in 1..B |-> IF j < k THEN A[i][j] ELSE IF j = k THEN l
                                                            ELSE RSub(A[i][j], RMul(l, A[k][j]))]]
         IN  LUStep(A1, B, k + 1)
InvertRun(A, B) ==
    LET lu == LUStep(A, B, 1)
        F[i \in 1..B] == RSub(IF i = 1 THEN ROne ELSE RZero, SumTo([j \in 1..(i - 1) |-> RMul(lu.A[i][j], F[j])], i - 1))   \* forward
        G[i \in 1..B] == RDiv(RSub(F[i], SumTo([q \in 1..(B - i) |-> RMul(lu.A[i][B + 1 - q], G[B + 1 - q])], B - i)), lu.A[i][i])   \* backward
    IN  [ok |-> lu.ok, y |-> [i \in 1..B |-> G[i]], lu |-> lu.A]

\* ------------------------------------------------------------ scalar input
NPof(K, B, act) == (IF act = 0 THEN K.n ELSE act) \div B
Nact(K, act)   == IF act = 0 THEN K.n ELSE act
\* block columns of block row ip that hold an entry (columns < N), ascending
BlockCols(K, B, act, ip) ==
    LET cs == UNION {{c \div B : c \in {x \in RowCols(K, ip * B + i) : x < Nact(K, act)}} : i \in 0..(B - 1)}
    IN  SetToSortSeq(cs, <)
\* v(c, i) = K(ik + i, ik + c): the transposed diagonal block
DiagT(K, B, ip) == [c \in 1..B |-> [i \in 1..B |-> R(At(K, ip * B + i - 1, ip * B + c - 1))]]
Diag(K, B, ip)  == [i \in 1..B |-> [c \in 1..B |-> R(At(K, ip * B + i - 1, ip * B + c - 1))]]
WeightsRun(K, B, ip) == InvertRun(DiagT(K, B, ip), B)
\* definition: the first row of the inverse of the diagonal block
WeightsDef(K, B, ip) == Solve(DiagT(K, B, ip), UnitV(B, 1))
WeightsOK(K, B, ip) == LET r == WeightsRun(K, B, ip) IN r.ok => VEq(r.y, WeightsDef(K, B, ip).x)

\* The code keeps ONE B x B scratch array v per thread: it is zeroed (clear = TRUE, as written), the stored
\* entries of the diagonal block are scattered into it (transposed) and `invert` overwrites it with the LU
\* factors.  ScratchRun carries v from block row to block row (one thread) and returns the weights of all.
StoredT(K, B, ip, v0) == [c \in 1..B |-> [i \in 1..B |->
                             IF (ip * B + c - 1) \in RowCols(K, ip * B + i - 1) THEN R(At(K, ip * B + i - 1, ip * B + c - 1)) ELSE v0[c][i]]]
RECURSIVE ScratchFrom(_, _, _, _, _, _)
ScratchFrom(K, B, np, clear, ip, v) ==
    IF ip >= np THEN <<>>
    ELSE LET v0 == IF clear THEN [c \in 1..B |-> [i \in 1..B |-> RZero]] ELSE v
             r  == InvertRun(StoredT(K, B, ip, v0), B)
         IN  <<[ok |-> r.ok, y |-> r.y]>> \o (IF r.ok THEN ScratchFrom(K, B, np, clear, ip + 1, r.lu) ELSE <<>>)
ScratchRun(K, B, act, clear) == ScratchFrom(K, B, NPof(K, B, act), clear, 0, [c \in 1..B |-> [i \in 1..B |-> RZero]])
\* every block row gets the first row of the inverse of ITS diagonal block, whatever was computed before
ScratchOK(K, B, act, clear) ==
    LET rs == ScratchRun(K, B, act, clear)
    IN  \A ip \in 1..Len(rs) : rs[ip].ok => VEq(rs[ip].y, WeightsDef(K, B, ip - 1).x)

\* App as rows of <<block column, value>>
AppRowRun(K, B, act, ip, d) ==
    LET cols == BlockCols(K, B, act, ip)
    IN  [q \in 1..Len(cols) |-> <<cols[q], SumTo([i \in 1..B |-> RMul(d[i], R(At(K, ip * B + i - 1, cols[q] * B)))], B)>>]
\* dense Fpp (np x n), Scatter (n x np), App (np x np)
FppDense(K, B, act, W) == [ip \in 1..NPof(K, B, act) |-> [j \in 1..K.n |->
                              IF (j - 1) \div B = ip - 1 /\ j <= Nact(K, act) THEN W[ip][((j - 1) % B) + 1] ELSE RZero]]
ScatterDense(K, B, act) == [j \in 1..K.n |-> [ip \in 1..NPof(K, B, act) |->
                              IF j - 1 = (ip - 1) * B /\ j <= Nact(K, act) THEN ROne ELSE RZero]]
AppDense(K, B, act, W) ==
    LET np == NPof(K, B, act)
    IN  [ip \in 1..np |-> LET row == AppRowRun(K, B, act, ip - 1, W[ip])
                          IN  [jc \in 1..np |-> LET hit == SelectSeq(row, LAMBDA e : e[1] = jc - 1)
                                                IN  IF hit = <<>> THEN RZero ELSE hit[1][2]]]
KD(K) == [i \in 1..K.n |-> [j \in 1..K.m |-> R(At(K, i - 1, j - 1))]]
\* the pressure matrix is the weighted restriction of A:  App = Fpp A Scatter
AppDefOK(K, B, act, W) ==
    LET np == NPof(K, B, act)
    IN  MEq(AppDense(K, B, act, W), MM(FppDense(K, B, act, W), MM(KD(K), ScatterDense(K, B, act), np), np))

\* two-stage apply with the inner operators as parameters
CprApply(K, Fpp, Scat, sapply(_), papply(_), f) ==
    LET x0 == sapply(f)
        rs == VSubR(f, MV(KD(K), x0))
        rp == MV(Fpp, rs)
        xp == papply(rp)
    IN  [rs |-> rs, rp |-> rp, x |-> VAddR(x0, MV(Scat, xp))]

\* ------------------------------------------------------------- cpr_drs weights
\* (dynamic row sum variant, cpr_drs.hpp): weight 1 for the pressure row of a cell; a further row i keeps
\* weight 1 unless its pressure-column diagonal entry a_dia (SIGNED) is smaller than eps_dd times the sum of the
\* |pressure-column entries| of that row in the other cells, or the |entries| of the pressure row in column
\* class i sum to less than eps_ps * |a_dia[0]|.  eps are given in units of 1/64.
AbsI(x) == IF x < 0 THEN -x ELSE x
SumAbsOver(K, row, cols) == FoldLeft(LAMBDA acc, c : acc + AbsI(At(K, row, c)), 0, SetToSortSeq(cols, <))
DrsTop(K, B, act, ip, c) == SumAbsOver(K, ip * B, {x \in RowCols(K, ip * B) : x < Nact(K, act) /\ x % B = c})
DrsDia(K, B, ip, i)      == At(K, ip * B + i, ip * B)
DrsOff(K, B, act, ip, i) == SumAbsOver(K, ip * B + i, {x \in RowCols(K, ip * B + i) : x < Nact(K, act) /\ x % B = 0 /\ x \div B # ip})
DrsWeight(K, B, act, ip, i, dd64, ps64) ==
    IF i > 0 /\ (64 * DrsDia(K, B, ip, i) < dd64 * DrsOff(K, B, act, ip, i) \/
                 64 * DrsTop(K, B, act, ip, i) < ps64 * AbsI(DrsDia(K, B, ip, 0)))
    THEN 0 ELSE 1

\* ------------------------------------------------------- block-valued input
\* (the block matrix is the B x B blocking of K; stored blocks = block columns holding an entry)
BlockOf(K, B, ib, jb) == [k \in 1..B |-> [c \in 1..B |-> R(At(K, ib * B + k - 1, jb * B + c - 1))]]
Adjoint(M, B) == [c \in 1..B |-> [k \in 1..B |-> M[k][c]]]
BlockWeightsRun(K, B, ib) == InvertRun(Adjoint(BlockOf(K, B, ib, ib), B), B)
BlockAppRowRun(K, B, ib, d) ==
    LET cols == BlockCols(K, B, 0, ib)
    IN  [q \in 1..Len(cols) |-> <<cols[q], SumTo([k \in 1..B |-> RMul(d[k], BlockOf(K, B, ib, cols[q])[k][1])], B)>>]
\* scalar input with block_size B and B x B block input give the same weights and the same App
ScalarBlockSameOK(K, B) ==
    \A ib \in 0..(K.n \div B - 1) :
        LET a == WeightsRun(K, B, ib)
            b == BlockWeightsRun(K, B, ib)
        IN  a.ok = b.ok /\ (a.ok => (VEq(a.y, b.y) /\ AppRowRun(K, B, 0, ib, a.y) = BlockAppRowRun(K, B, ib, b.y)))

\* block-valued update_transfer(): d = invert(adjoint(K_ii)) exactly as init() does (adj = TRUE as written)
BlockUpdateWeightsRun(K, B, ib, adj) == InvertRun(IF adj THEN Adjoint(BlockOf(K, B, ib, ib), B) ELSE BlockOf(K, B, ib, ib), B)
BlockPartialUpdateNoop(K, B, adj) ==
    \A ib \in 0..(K.n \div B - 1) :
        LET a == BlockWeightsRun(K, B, ib)
            b == BlockUpdateWeightsRun(K, B, ib, adj)
        IN  a.ok = b.ok /\ (a.ok => VEq(a.y, b.y))
\* partial_update(K) with the unchanged matrix: update_transfer stops after the diagonal block
\* (get_app = false) and must produce the same Fpp
PartialUpdateNoop(K, B, act) ==
    \A ip \in 0..(NPof(K, B, act) - 1) : WeightsRun(K, B, ip) = InvertRun(DiagT(K, B, ip), B)
=============================================================================
