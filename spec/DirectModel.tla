----------------------------- MODULE DirectModel -----------------------------
(* Exhaustive small-scope model of the skyline LU solver: every N x N pattern with  *)
(* a full diagonal (structurally non-symmetric and disconnected ones included) x    *)
(* value scheme (raw / dominant / SPD) x ordering (Cuthill-McKee, reversed or not). *)
(* The invariants are the predicates the trace spec C16Trace evaluates on the real  *)
(* code's results.                                                                  *)
EXTENDS Skyline, CuthillMcKee, DirectVals, TLC

CONSTANTS N
VARIABLES mask, scheme, rev, pc, out, A      \* A = MkMatrix(N, mask, 0, scheme), kept in the state so that it is built once
vars == <<mask, scheme, rev, pc, out, A>>

F == RVecOf(VecB(N))

Init == /\ mask \in DiagMasks(N) /\ scheme \in {"raw", "dom", "spd"} /\ SchemeOK(N, mask, scheme)
        /\ rev \in BOOLEAN /\ pc = "in" /\ out = <<>> /\ A = MkMatrix(N, mask, 0, scheme)
Order == pc = "in" /\ pc' = "cm" /\ out' = CMRun(A, rev) /\ UNCHANGED <<mask, scheme, rev, A>>
Solve == pc = "cm" /\ pc' = "sky" /\ out' = [perm |-> out.perm, r |-> SkyRun(A, out.perm, F)] /\ UNCHANGED <<mask, scheme, rev, A>>
Next == Order \/ Solve

PermInv    == pc = "cm" => IsPermutation(out.perm, N) /\ ~out.exc
ProfileInv == pc = "sky" => ProfileMonotone(out.r.ptr, N) /\ ProfileCovers(A, out.perm, out.r.ptr)
\* zero pivot (exception) exactly when the permuted matrix needs pivoting
PivotInv   == pc = "sky" => (out.r.zero <=> ~NeedsNoPivoting(A, out.perm))
DomInv     == pc = "sky" /\ scheme \in {"dom", "spd"} => ~out.r.zero
SolveInv   == pc = "sky" /\ ~out.r.zero => SkylineSolveOK(A, F, out.r.x)
\* the factors reproduce the permuted matrix:  (L D^-1... ) checked through the reference solve
RefInv     == pc = "sky" /\ ~out.r.zero =>
                 LET ref == RefSolve(DenseOf(A), F, N) IN ref.ok /\ VecEq(ref.x, out.r.x, N)
=============================================================================
