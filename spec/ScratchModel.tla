----------------------------- MODULE ScratchModel -----------------------------
(* Call histories on one object.  The dense kernels keep scratch storage between    *)
(* calls (QR: q, tau, f; skyline_lu: the mutable work vector y).  A call is correct  *)
(* for every history only if it never reads a scratch cell it has not written       *)
(* itself in the same call ("every call overwrites what it reads"); the only other  *)
(* legal source is a cell value-initialised by the resize() of this very call.      *)
(* Calls are abstracted to their access traces <<"r"|"w", cell>> taken from the      *)
(* loop structure of the code:                                                       *)
(*   QR::factorize (ZUNG2R part of qr.hpp): the trailing columns k..n-1 are         *)
(*     initialised, then for i = k-1 .. 0 the reflector H(i) is applied to rows      *)
(*     i..m-1 of columns i+1..n-1 (read + write), column i is written: rows 0..i-1   *)
(*     zero (ZeroAbove; the loop a seeded change removed), the diagonal, rows below; *)
(*     finally the accessor Q(i,j) may read every cell;                              *)
(*   skyline_lu::operator(): forward loop reads y[j] inside the profile of row i and *)
(*     writes y[i]; backward loop reads y[j], reads and writes y[i] inside column j; *)
(*     the result read x[perm[i]] = y[i] reads every cell.                           *)
(* Memory: flat cells with status "zero" (value-initialised by resize in this call), *)
(* "stale" (left by an earlier call), "fresh" (written in this call).                *)
EXTENDS Integers, Sequences, FiniteSets, SequencesExt, TLC

CONSTANTS SMAX,          \* shapes 1..SMAX x 1..SMAX
          ZeroAbove,     \* TRUE: qr.hpp as it is
          NCALLS         \* length of the call history

VARIABLES size, mem, ncall, bad, last
vars == <<size, mem, ncall, bad, last>>

RngS(lo, hi) == [k \in 1..(IF hi >= lo THEN hi - lo + 1 ELSE 0) |-> lo + k - 1]
RngD(hi, lo) == [k \in 1..(IF hi >= lo THEN hi - lo + 1 ELSE 0) |-> hi - k + 1]
Off(m, n, order, i, j) == IF order = 0 THEN i * n + j ELSE i + j * m
MinI(a, b) == IF a < b THEN a ELSE b

\* ---- access trace of QR::factorize on an m x n matrix (packed, given order)
QrTrace(m, n, order) ==
    LET k    == MinI(m, n)
        cell(i, j) == Off(m, n, order, i, j)
        init == FlattenSeq([jj \in 1..(n - k) |-> [i1 \in 1..m |-> <<"w", cell(i1 - 1, k + jj - 1)>>]])
        refl(i) == \* apply_reflector(m-i, n-i-1, ..., &q[ii + col_stride]): per column read rows i..m-1, then write them
            FlattenSeq([cc \in 1..(n - i - 1) |->
                [r1 \in 1..(m - i) |-> <<"r", cell(i + r1 - 1, i + cc)>>] \o [r1 \in 1..(m - i) |-> <<"w", cell(i + r1 - 1, i + cc)>>]])
        col(i) == (IF ZeroAbove THEN [j1 \in 1..i |-> <<"w", cell(j1 - 1, i)>>] ELSE <<>>)
                  \o <<<<"w", cell(i, i)>>>> \o [j1 \in 1..(m - i - 1) |-> <<"w", cell(i + j1, i)>>]
        body == FlattenSeq([s \in 1..k |-> LET i == k - s IN (IF i < n - 1 THEN refl(i) ELSE <<>>) \o col(i)])
        result == FlattenSeq([i1 \in 1..m |-> [j1 \in 1..n |-> <<"r", cell(i1 - 1, j1 - 1)>>]])
    IN  init \o body \o result

\* ---- access trace of skyline_lu::operator() for profile heights h (h[i] <= i), n = Len(h)
SkyTrace(h) ==
    LET n == Len(h)
        fwd == FlattenSeq([i1 \in 1..n |-> [kk \in 1..h[i1] |-> <<"r", i1 - 1 - h[i1] + kk - 1>>] \o <<<<"w", i1 - 1>>>>])
        bwd == FlattenSeq([s \in 1..n |-> LET j == n - s IN
                   FlattenSeq([kk \in 1..h[j + 1] |-> LET i == j - h[j + 1] + kk - 1 IN << <<"r", i>>, <<"r", j>>, <<"w", i>> >>])])
        result == [i1 \in 1..n |-> <<"r", i1 - 1>>]
    IN  fwd \o bwd \o result

\* run a trace over the memory: reading a stale cell is the defect
RunTrace(m0, tr) ==
    FoldLeft(LAMBDA st, a :
                IF a[1] = "w" THEN [st EXCEPT !.mem[a[2]] = "fresh"]
                ELSE IF st.mem[a[2]] = "stale" THEN [st EXCEPT !.stale = TRUE] ELSE st,
             [mem |-> m0, stale |-> FALSE], tr)
\* resize(len): existing cells keep their (now stale) content, new cells are value-initialised
Resize(m0, oldsize, len) == [c \in 0..(IF len > oldsize THEN len ELSE oldsize) - 1 |->
                                IF c < oldsize THEN (IF m0[c] = "zero" THEN "zero" ELSE "stale") ELSE "zero"]

Heights(n) == {h \in [1..n -> 0..(n - 1)] : \A i \in 1..n : h[i] <= i - 1}

Init == size = 0 /\ mem = <<>> /\ ncall = 0 /\ bad = FALSE /\ last = <<>>
QrCall == \E m \in 1..SMAX, n \in 1..SMAX, order \in {0, 1} :
            LET len == m * n
                m0  == Resize([c \in 0..(size - 1) |-> mem[c + 1]], size, len)
                st  == RunTrace(m0, QrTrace(m, n, order))
                ns  == IF len > size THEN len ELSE size
            IN  /\ size' = ns /\ mem' = [c1 \in 1..ns |-> IF st.mem[c1 - 1] = "zero" THEN "zero" ELSE "stale"]
                /\ bad' = st.stale /\ last' = <<"qr", m, n, order>>
SkyCall == \E n \in 1..SMAX : \E h \in Heights(n) :
            LET m0 == [c \in 0..(n - 1) |-> IF ncall = 0 THEN "zero" ELSE "stale"]      \* y(n) is allocated once
                st == RunTrace(m0, SkyTrace(h))
            IN  /\ size' = n /\ mem' = [c1 \in 1..n |-> "stale"] /\ bad' = st.stale /\ last' = <<"sky", n, h>>
Next == ncall < NCALLS /\ ~bad /\ ncall' = ncall + 1 /\ (QrCall \/ (ncall <= 1 /\ SkyCall))
\* no call of any history reads a cell left over by an earlier call
NoStaleRead == ~bad
=============================================================================
