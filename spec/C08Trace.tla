------------------------------ MODULE C08Trace ------------------------------
(* Trace spec for C08: every recorded call of a real amgcl sparse kernel is judged  *)
(* by the same predicates that are the invariants of KernelsModel / PointwiseModel. *)
(* `drift` (recorded storage differs from the transcription's Run although the      *)
(* predicate holds) is reported separately and never a violation.                   *)
EXTENDS TraceKit, SparseKernels

VARIABLES l, bad, drift

ProductClauses(r) ==
    LET wf == WellFormed(r.out)
    IN  <<  <<"wellformed", wf>>,
            <<"product=definition", wf /\ ProductOK(r.A, r.B, r.out)>>,
            <<"nodup", wf /\ (Sorted(r.B) /\ NoDup(r.A)) => NoDup(r.out)>>,
            <<"sorted", wf /\ ((r.sort \/ r.algo = 1) => (\A i \in Rows(r.out) :
                        \A p \in RowPos(r.out, i) : (p + 1) \in RowPos(r.out, i) => r.out.col[p] <= r.out.col[p + 1]))>> >>

CopyOK(r) == /\ r.out.n = r.A.n /\ r.out.ptr = r.A.ptr /\ r.out.col = r.A.col /\ r.out.val = r.A.val
             /\ (r.via \notin {"tuple", "moveassign"} => r.out.m = r.A.m)

Clauses(r) ==
    CASE r.k = "transpose" -> << <<"transpose=definition", TransposeOK(r.A, r.out)>>,
                                 <<"transpose-sorted", WellFormed(r.out) /\ Sorted(r.out)>> >>
      [] r.k = "product"   -> ProductClauses(r)
      [] r.k = "sum"       -> << <<"sum=definition", SumOK(r.alpha, r.A, r.beta, r.B, r.out)>>,
                                 <<"sum-nodup", WellFormed(r.out) /\ ((NoDup(r.A) /\ NoDup(r.B)) => NoDup(r.out))>>,
                                 <<"sum-sorted", WellFormed(r.out) /\ (r.sort => Sorted(r.out))>> >>
      [] r.k = "scale"     -> << <<"scale=definition", ScaleOK(r.A, r.s, r.out)>> >>
      [] r.k = "sort"      -> << <<"sort=definition", SortOK(r.A, r.out)>> >>
      [] r.k = "pointwise" -> << <<"pointwise=definition", PointwiseOK(r.A, r.bs, r.out)>> >>
      [] r.k = "diag"      -> << <<"diagonal=definition", Len(r.out) = r.A.n /\ DiagonalOK(r.A, r.out)>> >>
      [] r.k = "diaginv"   -> << <<"inverse-diagonal", r.out = r.want>> >>
      [] r.k = "copy"      -> << <<"copy-preserves-storage", CopyOK(r)>> >>
      [] r.k = "blockconv" -> << <<"block-adapter-convert=same-operator",
                                   WellFormed(r.out) /\ SameOperator(r.out, r.A)>> >>
      [] r.k = "gersh"     -> << <<"gershgorin=definition", r.out = GershgorinDef(r.A)>> >>
      [] r.k = "gershs"    -> << <<"gershgorin-scaled=definition", r.out = GershgorinScaledDef(r.A)>> >>
      [] r.k = "specobs"   -> << <<"gershgorin>=rho", r.gersh >= r.rho /\ r.gershS >= r.rhoS>>,
                                 <<"power<=sigma", r.pow <= r.sig + 16 /\ r.powS <= r.sigS + 16>> >>
      [] r.k = "blockspec" -> << <<"block-gershgorin>=rho", r.gersh >= r.rho /\ r.gershS >= r.rhoS>>,
                                 <<"block-gershgorin=definition", r.err <= -12000 /\ r.errS <= -12000>> >>
      [] OTHER             -> << <<"unknown-record", FALSE>> >>

Failed(r) == IF Has(r, "e") THEN (IF r.e = "End" THEN <<>> ELSE <<"recorder:" \o r.e>>)
             ELSE FailedOf(Clauses(r))

\* structural conformance with the transcription (drift only)
Drifted(r) ==
    IF Has(r, "e") \/ Has(r, "expanded") THEN FALSE
    ELSE CASE r.k = "transpose" -> ~SameStorage(r.out, TransposeRun(r.A))
           [] r.k = "product" /\ r.algo = 0 -> ~SameStorage(r.out, SaadRun(r.A, r.B, r.sort).C)
           [] r.k = "product" /\ r.algo = 1 /\ Sorted(r.B) -> ~SameStorage(r.out, RmergeRun(r.A, r.B).C)
           [] r.k = "sum" -> ~SameStorage(r.out, SumRun(r.alpha, r.A, r.beta, r.B, r.sort))
           [] r.k = "sort" -> ~SameStorage(r.out, SortRowsRun(r.A))
           [] OTHER -> FALSE

TInit == l = 1 /\ bad = <<>> /\ drift = 0
TNext == /\ l <= NLog /\ l' = l + 1
         /\ LET f == Failed(Log[l])
            IN  /\ bad' = IF f = <<>> THEN bad ELSE Append(bad, <<l, f>>)
                /\ drift' = IF f = <<>> /\ Has(Log[l], "tag") /\ Log[l].tag \in {"small", "wide"} /\ Drifted(Log[l]) THEN drift + 1 ELSE drift
Verdict == (l = NLog + 1) => VerdictLine(l, bad) /\ PrintT(<<"DRIFT", drift>>)
=============================================================================
