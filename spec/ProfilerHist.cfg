CONSTANTS
  Order <- OrderAB
  MaxSteps = 5
  MaxDepth = 3
  Steps = {1, 3, 1200}
SPECIFICATION Spec
INVARIANTS EmitHistories
CHECK_DEADLOCK FALSE
