---------------------------- MODULE SmoothedAggr ----------------------------
(* amgcl/coarsening/smoothed_aggregation.hpp::transfer_operators, transcribed as     *)
(* written: a counting pass (marker[cp] != i) and a fill pass (marker[cp] < row_beg, *)
(* new entry at row_end, else accumulate) over the rows of A, skipping weak          *)
(* off-diagonal connections;                                                         *)
(*   dia = sum of the diagonal and of the weak entries of the row (lumped diagonal), *)
(*   if dia # 0 : dia = -omega / dia      (dia = 0 is left as 0),                    *)
(*   va  = 1 - omega for the diagonal entry, dia * a_ij for a strong entry,          *)
(*   P(i, cp) += va * P_tent(j, cp).                                                 *)
(* omega is an exact rational <<num, den>>; values of P are rationals in the model   *)
(* and 40-bit fixed-point pairs (Fix.tla) in recorded traces: the predicates take    *)
(* the comparison  Near(P, positions, rational)  as a parameter, so the same         *)
(* SmoothedOK / RowSumOneOK judge the transcription and the real code.               *)
EXTENDS Tentative, Fix

\* diagonal of the filtered matrix: a_ii + sum of the weak off-diagonals (S: BOOLEAN per position)
SAFilteredDia(A, S, i) ==
    MapThenSumSet(LAMBDA p : A.val[p], {p \in RowPos(A, i) : A.col[p] = i \/ ~S[p]})

\* the <<cp, va * vp>> terms of row i in the order the double loop produces them
SATerms(A, S, Pt, om, i) ==
    LET dia   == SAFilteredDia(A, S, i)
        scale == IF dia = 0 THEN RZero ELSE RNeg(RDiv(om, R(dia)))
    IN  FlattenSeq([k \in 1..RowLen(A, i) |->
            LET p  == Ptr(A, i) + k
                ca == A.col[p]
            IN  IF ca # i /\ ~S[p] THEN <<>>              \* skip weak off-diagonal connections
                ELSE LET va == IF ca = i THEN RSub(ROne, om) ELSE RMul(scale, R(A.val[p]))
                     IN  [q \in 1..RowLen(Pt, ca) |->
                            <<Pt.col[Ptr(Pt, ca) + q], RMul(va, R(Pt.val[Ptr(Pt, ca) + q]))>>]])

SACountRow(A, S, Pt, om, marker, i) ==
    FoldLeft(LAMBDA st, t : IF st.marker[t[1]] # i
                            THEN [marker |-> [st.marker EXCEPT ![t[1]] = i], w |-> st.w + 1]
                            ELSE st,
             [marker |-> marker, w |-> 0], SATerms(A, S, Pt, om, i))

SAFillRow(A, S, Pt, om, marker, rowbeg, i) ==
    FoldLeft(LAMBDA st, t :
                IF st.marker[t[1]] < rowbeg
                THEN [marker |-> [st.marker EXCEPT ![t[1]] = rowbeg + Len(st.row)], row |-> Append(st.row, t)]
                ELSE [st EXCEPT !.row[st.marker[t[1]] - rowbeg + 1] = <<@[1], RAdd(@[2], t[2])>>],
             [marker |-> marker, row |-> <<>>], SATerms(A, S, Pt, om, i))

\* single thread: the marker is carried from row to row in both passes
SARun(A, S, Pt, om) ==
    LET fresh == [c \in 0..(Pt.m - 1) |-> -1]
        order == [i1 \in 1..A.n |-> i1 - 1]
        cnt   == FoldLeft(LAMBDA st, i : LET r == SACountRow(A, S, Pt, om, st.marker, i)
                                         IN  [marker |-> r.marker, w |-> Append(st.w, r.w)],
                          [marker |-> fresh, w |-> <<>>], order)
        \* row_beg = P->ptr[i] = sum of the counted widths of the rows before i
        fill  == FoldLeft(LAMBDA st, i : LET r == SAFillRow(A, S, Pt, om, st.marker, st.beg, i)
                                         IN  [marker |-> r.marker, rows |-> Append(st.rows, r.row), beg |-> st.beg + cnt.w[i + 1]],
                          [marker |-> fresh, rows |-> <<>>, beg |-> 0], order)
    IN  [P |-> FromRows(A.n, Pt.m, fill.rows),
         widthsOK |-> cnt.w = [i1 \in 1..A.n |-> Len(fill.rows[i1])]]

\* ------------------------------------------------------------------ predicates
\* row i of (I - omega D_F^-1 A_F) P_tent for piecewise-constant P_tent (ids), as documented:
\* A_F keeps the strong off-diagonals, D_F = a_ii + sum of the weak off-diagonals.
SADefRow(A, S, id, om, i) ==
    LET dia   == SAFilteredDia(A, S, i)
        scale == RNeg(RDiv(om, R(dia)))                                  \* dia # 0
        sp    == {p \in RowPos(A, i) : A.col[p] # i /\ S[p] /\ id[A.col[p] + 1] >= 0}
        cols  == {id[A.col[p] + 1] : p \in sp} \cup (IF id[i + 1] >= 0 THEN {id[i + 1]} ELSE {})
    IN  [c \in cols |->
            RAdd(IF id[i + 1] = c THEN RSub(ROne, om) ELSE RZero,
                 RMul(scale, R(MapThenSumSet(LAMBDA p : A.val[p], {p \in sp : id[A.col[p] + 1] = c}))))]

\* comparisons: exact rationals (model) / logged fixed point (traces)
RatNear(P, ps, r) == REq(RSumSet(LAMBDA p : P.val[p], ps), r)
FixNear(P, ps, r) == /\ FixJudgeable(r)
                     /\ FixClose(MapThenSumSet(LAMBDA p : P.val[p], ps), MapThenSumSet(LAMBDA p : P.lo[p], ps),
                                 r, FixTol(Cardinality(ps)))

\* P is exactly (I - omega D_F^-1 A_F) P_tent; rows whose filtered diagonal vanishes are outside
\* the documented formula (D_F^-1 undefined) and not judged
SmoothedOK(A, S, id, count, om, P, Near(_, _, _)) ==
    /\ P.n = A.n /\ P.m = count /\ WellFormed(P)
    /\ \A i \in Rows(A) :
         SAFilteredDia(A, S, i) # 0 =>
            LET d == SADefRow(A, S, id, om, i)
            IN  \A c \in RowCols(P, i) \cup DOMAIN d :
                    Near(P, {p \in RowPos(P, i) : P.col[p] = c}, IF c \in DOMAIN d THEN d[c] ELSE RZero)

IsSymmetric(A) == A.n = A.m /\ \A i \in Rows(A) : \A c \in RowCols(A, i) : At(A, c, i) = At(A, i, c)
RowSumZero(A, i) == MapThenSumSet(LAMBDA p : A.val[p], RowPos(A, i)) = 0
\* symmetric A: every zero-row-sum row of `rows` (the rows with a strong neighbour) has an
\* interpolation row that sums to one
RowSumOneOK(A, rows, P, Near(_, _, _)) ==
    (P.n = A.n /\ WellFormed(P) /\ IsSymmetric(A)) =>
        \A i \in rows : RowSumZero(A, i) => Near(P, RowPos(P, i), ROne)
\* rows of A with a strong neighbour and a non-vanishing filtered diagonal
SARows(A, S) == {i \in Rows(A) : HasStrong(A, S, i) /\ SAFilteredDia(A, S, i) # 0}

\* P of the block problem A (x) I_b is P (x) I_b:  Pb(i*b+k, c*b+k) = P(i, c), nothing else
KronPOK(P, b, Pb, Near(_, _, _)) ==
    /\ Pb.n = P.n * b /\ Pb.m = P.m * b /\ WellFormed(Pb)
    /\ \A i \in Rows(P) : \A k \in 0..(b - 1) :
         LET r == i * b + k
         IN  \A cb \in RowCols(Pb, r) \cup {c * b + k : c \in RowCols(P, i)} :
                Near(Pb, {p \in RowPos(Pb, r) : Pb.col[p] = cb},
                     IF cb % b = k THEN RSumSet(LAMBDA p : P.val[p], {p \in RowPos(P, i) : P.col[p] = cb \div b})
                     ELSE RZero)
=============================================================================
