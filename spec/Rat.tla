------------------------------- MODULE Rat -------------------------------
(* Exact rationals <<num, den>> (den > 0, normalised by GCD) for TLC.            *)
(* TLC integers are 32-bit: overflow is a TLC *error*, never a wrap, so models   *)
(* bound their entries; a trace spec that may overflow on recorded data must     *)
(* guard with Small(...) and treat "too big" as not-judged.                      *)
EXTENDS Integers, Sequences

RAbsI(x) == IF x < 0 THEN -x ELSE x
RECURSIVE GCD(_, _)
GCD(a, b) == IF b = 0 THEN a ELSE GCD(b, a % b)

Norm(n, d) == LET s == IF d < 0 THEN -1 ELSE 1
                  g == GCD(RAbsI(n), RAbsI(d))
              IN  IF n = 0 THEN <<0, 1>> ELSE <<(s * n) \div g, (s * d) \div g>>
R(n)        == <<n, 1>>
RZero       == <<0, 1>>
ROne        == <<1, 1>>
IsZero(a)   == a[1] = 0
RAdd(a, b)  == Norm(a[1] * b[2] + b[1] * a[2], a[2] * b[2])
RNeg(a)     == <<-a[1], a[2]>>
RSub(a, b)  == RAdd(a, RNeg(b))
RMul(a, b)  == Norm(a[1] * b[1], a[2] * b[2])
RInv(a)     == Norm(a[2], a[1])                 \* a # 0
RDiv(a, b)  == RMul(a, RInv(b))
RLt(a, b)   == a[1] * b[2] < b[1] * a[2]
RLe(a, b)   == a[1] * b[2] <= b[1] * a[2]
REq(a, b)   == a[1] * b[2] = b[1] * a[2]
RAbs(a)     == <<RAbsI(a[1]), a[2]>>
RMax(a, b)  == IF RLt(a, b) THEN b ELSE a
RMin(a, b)  == IF RLt(a, b) THEN a ELSE b
\* a recorded dyadic fixed-point integer q (value q / 2^shift) as a rational
FromFixed(q, shift) == Norm(q, 2 ^ shift)
\* sum of a sequence of rationals
RECURSIVE RSumSeq(_)
RSumSeq(s) == IF s = <<>> THEN RZero ELSE RAdd(s[1], RSumSeq([k \in 1..(Len(s) - 1) |-> s[k + 1]]))
=============================================================================
