----------------------------- MODULE InverseModel -----------------------------
(* detail::inverse on every NI x NI integer matrix with entries in Lo..Hi: singular *)
(* matrices are exactly the ones where the pivot search finds nothing (the code     *)
(* asserts; the property promises nothing), every nonsingular one - including all   *)
(* that need row exchanges - satisfies A inv(A) = inv(A) A = I exactly.             *)
EXTENDS SmallInverse, TLC
CONSTANTS NI, NegLo, Hi        \* entries in -NegLo..Hi (a cfg cannot hold negative numbers)
VARIABLES a, pc, out
Init == a \in [1..(NI * NI) -> (0 - NegLo)..Hi] /\ pc = "in" /\ out = <<>>
A0 == FlatOf(a, NI)
Next == pc = "in" /\ pc' = "inv" /\ out' = InverseRun(NI, A0) /\ UNCHANGED a
SingInv    == pc = "inv" => (out.sing <=> ~NonsingularFlat(NI, A0))
InverseInv == pc = "inv" /\ ~out.sing => InverseOK(NI, A0, out.inv)
\* vacuity control: some matrix needs a row exchange (reported through coverage of Next only)
=============================================================================
