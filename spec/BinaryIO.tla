------------------------------ MODULE BinaryIO ------------------------------
(* amgcl/io/binary.hpp: the binary CRS / dense formats (as written by examples/     *)
(* mm2bin.cpp with io::write) and the seek arithmetic of crs_size, read_crs and     *)
(* read_dense for a row range.                                                      *)
(*                                                                                  *)
(* A file is the field list the writer produced                                     *)
(*      crs  :  n | ptr[0..n] | col[0..nnz-1] | val[0..nnz-1]                       *)
(*      dense:  n | m | val[0..n*m-1]      (row-major)                              *)
(* with per-field byte widths sz = [S, P, C, V] and a length `len` in bytes         *)
(* (smaller than the layout after a truncation).  A read of w bytes at byte offset  *)
(* o succeeds iff o >= 0 and o + w <= len; it yields the field that starts at o if  *)
(* one of width w does, and TORN otherwise (bytes of several / other fields).       *)
(* Field contents are integers; a corrupted byte is modelled by the value class it  *)
(* turns the field into.  Checked as in MatrixMarket.tla.                           *)
EXTENDS SparseKernels, TLC

CONSTANT Checked
TORN == -7

\* ------------------------------------------------------------------- layout
\* fields in file order: <<name, index, width, value>>
CrsFields(n, ptr, col, val, sz) ==
    <<<<"n", 0, sz.S, n>>>> \o [k \in 1..Len(ptr) |-> <<"ptr", k - 1, sz.P, ptr[k]>>] \o
    [k \in 1..Len(col) |-> <<"col", k - 1, sz.C, col[k]>>] \o [k \in 1..Len(val) |-> <<"val", k - 1, sz.V, val[k]>>]
DenseFields(n, m, val, sz) ==
    <<<<"n", 0, sz.S, n>>, <<"m", 0, sz.S, m>>>> \o [k \in 1..Len(val) |-> <<"val", k - 1, sz.V, val[k]>>]

Offsets(fs) == LET off[k \in 1..(Len(fs) + 1)] == IF k = 1 THEN 0 ELSE off[k - 1] + fs[k - 1][3] IN off
FileOfFields(fs, sz) ==
    LET off == Offsets(fs)
    IN  [fields |-> fs, off |-> off, len |-> off[Len(fs) + 1], sz |-> sz,
         at |-> [o \in {off[k] : k \in 1..Len(fs)} |-> CHOOSE k \in 1..Len(fs) : off[k] = o]]
BinWriteCrs(A, sz)   == FileOfFields(CrsFields(A.n, A.ptr, A.col, A.val, sz), sz)
BinWriteDense(n, m, data, sz) == FileOfFields(DenseFields(n, m, data, sz), sz)

\* read one value of width w at byte offset o:  [ok, v]
ReadAt(f, o, w) ==
    IF o < 0 \/ o + w > f.len THEN [ok |-> FALSE, v |-> 0]
    ELSE IF o \in DOMAIN f.at /\ f.fields[f.at[o]][3] = w THEN [ok |-> TRUE, v |-> f.fields[f.at[o]][4]]
         ELSE [ok |-> TRUE, v |-> TORN]
\* read cnt values of width w starting at o (f.read of cnt * w bytes)
ReadVec(f, o, w, cnt) ==
    IF cnt = 0 THEN [ok |-> o >= 0, v |-> <<>>]                    \* a zero-byte read after a failed (negative) seek still fails
    ELSE IF o < 0 \/ o + w * cnt > f.len THEN [ok |-> FALSE, v |-> <<>>]
    ELSE [ok |-> TRUE, v |-> [k \in 1..cnt |-> ReadAt(f, o + (k - 1) * w, w).v]]

\* --------------------------------------------------------------------- readers
BOut(st, why, n, m, ptr, col, val) == [st |-> st, why |-> why, A |-> [n |-> n, m |-> m, ptr |-> ptr, col |-> col, val |-> val]]
BErr(why)   == BOut("err", why, 0, 0, <<0>>, <<>>, <<>>)
BCrash(why) == BOut("crash", why, 0, 0, <<0>>, <<>>, <<>>)

CrsSize(f) == LET r == ReadAt(f, 0, f.sz.S) IN IF r.ok THEN [st |-> "ok", n |-> r.v] ELSE [st |-> "err", n |-> 0]

Monotone(s) == \A k \in 1..(Len(s) - 1) : s[k] <= s[k + 1]
\* sort_row(&col[beg], &val[beg], end - beg) touches [beg, end) when end - beg >= 2
SortTouchesOutside(ptr, size) ==
    \E k \in 1..(Len(ptr) - 1) : ptr[k + 1] - ptr[k] >= 2 /\ (ptr[k] < 0 \/ ptr[k + 1] > size)

\* rows of (ptr, col, val) sorted one by one, as the trailing loop of read_crs does
SortedRows(n, ptr, col, val) ==
    FromRows(n, 0, [i \in 1..n |-> SortRowRun([q \in 1..(ptr[i + 1] - ptr[i]) |-> <<col[ptr[i] + q], val[ptr[i] + q]>>])])

\* MaxAlloc: elements a vector may hold before resize throws (length_error / bad_alloc)
MaxAlloc == 1000

ReadCrs(f, rb0, re0) ==
    LET sz == f.sz
        rn == ReadAt(f, 0, sz.S)
        n  == rn.v
        rb == IF rb0 < 0 THEN 0 ELSE rb0
        re == IF re0 < 0 THEN n ELSE re0
        chunk == re - rb
        ptrbeg == sz.S
        rp == ReadVec(f, ptrbeg + rb * sz.P, sz.P, chunk + 1)
        rz == ReadAt(f, ptrbeg + n * sz.P, sz.P)
        nnz == rz.v
        nnzbeg == rp.v[1]
        ptr == [k \in 1..Len(rp.v) |-> rp.v[k] - nnzbeg]
        cnt == ptr[Len(ptr)]
        colbeg == ptrbeg + (n + 1) * sz.P
        rc == ReadVec(f, colbeg + nnzbeg * sz.C, sz.C, cnt)
        rv == ReadVec(f, colbeg + nnz * sz.C + nnzbeg * sz.V, sz.V, cnt)
    IN  IF ~rn.ok THEN BErr("io n")
        ELSE IF ~(rb >= 0 /\ re <= n) THEN BErr("wrong subset")
        ELSE IF Checked /\ rb > re THEN BErr("wrong subset")
        ELSE IF chunk + 1 < 0 \/ chunk + 1 > MaxAlloc THEN BErr("length_error")
        ELSE IF chunk + 1 = 0 THEN BCrash("ptr.front() of an empty vector")
        ELSE IF ~rp.ok THEN BErr("io ptr")
        ELSE IF ~rz.ok THEN BErr("io nnz")
        ELSE IF Checked /\ ~Monotone(rp.v) THEN BErr("row pointers are not monotone")
        ELSE IF cnt < 0 \/ cnt > MaxAlloc THEN BErr("length_error")
        ELSE IF ~rc.ok THEN BErr("io col")
        ELSE IF ~rv.ok THEN BErr("io val")
        ELSE IF Checked /\ (\E k \in 1..cnt : rc.v[k] < 0) THEN BErr("negative column")
        ELSE IF SortTouchesOutside(ptr, cnt) THEN BCrash("sort_row out of bounds")
        ELSE IF ~Monotone(ptr) THEN BOut("ok", "", chunk, 0, ptr, rc.v, rv.v)      \* returned as is (rows of length < 2 / scrambled)
        ELSE LET S == SortedRows(chunk, ptr, rc.v, rv.v)
             IN  BOut("ok", "", chunk, 0, ptr, S.col, S.val)

ReadDense(f, rb0, re0) ==
    LET sz == f.sz
        rn == ReadAt(f, 0, sz.S)
        rm == ReadAt(f, sz.S, sz.S)
        n  == rn.v
        m  == rm.v
        rb == IF rb0 < 0 THEN 0 ELSE rb0
        re == IF re0 < 0 THEN n ELSE re0
        cnt == (re - rb) * m
        rv == ReadVec(f, 2 * sz.S + rb * m * sz.V, sz.V, cnt)
    IN  IF ~rn.ok THEN BErr("io n") ELSE IF ~rm.ok THEN BErr("io m")
        ELSE IF ~(rb >= 0 /\ re <= n) THEN BErr("wrong subset")
        ELSE IF Checked /\ (rb > re \/ m < 0) THEN BErr("wrong subset")
        ELSE IF cnt < 0 \/ cnt > MaxAlloc THEN BErr("length_error")
        ELSE IF ~rv.ok THEN BErr("io val")
        ELSE BOut("ok", "", re - rb, m, <<0>>, <<>>, rv.v)

\* ------------------------------------------------------------------ predicates
\* The binary CRS format stores no column count: what a reader can (and must) guarantee is
\* consistent row pointers, matching array lengths and non-negative column numbers.
BinWellFormed(A) ==
    /\ A.n >= 0 /\ Len(A.ptr) = A.n + 1 /\ A.ptr[1] = 0 /\ Monotone(A.ptr)
    /\ Len(A.col) = A.ptr[A.n + 1] /\ Len(A.val) = Len(A.col)
    /\ \A p \in 1..Len(A.col) : A.col[p] >= 0
BinDenseWellFormed(A) == A.n >= 0 /\ A.m >= 0 /\ Len(A.val) = A.n * A.m

BinSlice(A, rb, re) == [FromRows(re - rb, 0, [r \in 1..(re - rb) |-> RowSeq(A, rb + r - 1)]) EXCEPT !.m = A.m]
BinSliceOK(dense, full, part, rb, re) ==
    (full.st = "ok" /\ (IF dense THEN BinDenseWellFormed(full.A) ELSE BinWellFormed(full.A))
        /\ 0 <= rb /\ rb <= re /\ re <= full.A.n) =>
        /\ part.st = "ok"
        /\ IF dense THEN part.A.n = re - rb /\ part.A.m = full.A.m /\
                         part.A.val = [q \in 1..((re - rb) * full.A.m) |-> full.A.val[rb * full.A.m + q]]
           ELSE LET S == BinSlice(full.A, rb, re)
                IN  part.A.n = S.n /\ part.A.ptr = S.ptr /\ part.A.col = S.col /\ part.A.val = S.val

\* round trip: same structure, same values (rows come back sorted)
BinRoundTripOK(A, out) ==
    LET S == SortRowsRun(A)
    IN  out.st = "ok" /\ out.A.n = A.n /\ out.A.ptr = S.ptr /\ out.A.col = S.col /\ out.A.val = S.val
BinDenseRoundTripOK(n, m, data, out) == out.st = "ok" /\ out.A.n = n /\ out.A.m = m /\ out.A.val = data

\* fact = [short]  short: the file is shorter than the layout its (intact) header announces
BinFaultClauses(fact, dense, out) ==
    << <<"no-crash", out.st # "crash">>,
       <<"truncated=>error", fact.short => out.st # "ok">>,
       <<"returned-structure-valid", out.st = "ok" => (IF dense THEN BinDenseWellFormed(out.A) ELSE BinWellFormed(out.A))>> >>
BinFaultOutcomeOK(fact, dense, out) == \A q \in 1..3 : BinFaultClauses(fact, dense, out)[q][2]
=============================================================================
