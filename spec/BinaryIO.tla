------------------------------ MODULE BinaryIO ------------------------------
(* amgcl/io/binary.hpp: the binary CRS / dense formats (as written by examples/     *)
(* mm2bin.cpp with io::write) and the seek arithmetic of crs_size, read_crs and     *)
(* read_dense for a row range.                                                      *)
(*                                                                                  *)
(* A file is the list of fields the writer produced                                 *)
(*      crs  :  n | ptr[0..n] | col[0..nnz-1] | val[0..nnz-1]                       *)
(*      dense:  n | m | val[0..n*m-1]      (row-major)                              *)
(* with per-field byte widths sz = [S, P, C, V] and a length `len` in bytes         *)
(* (smaller than the layout after a truncation).  A read of w bytes at byte offset  *)
(* o succeeds iff o >= 0 and o + w <= len; it yields the field that starts at o if  *)
(* one of width w does, and TORN otherwise (bytes of several / other fields).       *)
(* Field contents are integers; a corrupted byte is modelled by the value class it  *)
(* turns the field into.  Checked as in MatrixMarket.tla.                           *)
EXTENDS SparseKernels, TLC

CONSTANT Checked
TORN == -7

\* ------------------------------------------------------------------- layout
\* file = [kind, n, m, ptr, col, val, sz, len]: the field values as written (one of them possibly
\* altered afterwards), the widths and the number of bytes present
LayoutLen(kind, np, nc, nv, sz) == IF kind = "crs" THEN sz.S + np * sz.P + nc * sz.C + nv * sz.V ELSE 2 * sz.S + nv * sz.V
BinWriteCrs(A, sz) ==
    [kind |-> "crs", n |-> A.n, m |-> 0, ptr |-> A.ptr, col |-> A.col, val |-> A.val, sz |-> sz,
     len |-> LayoutLen("crs", Len(A.ptr), Len(A.col), Len(A.val), sz)]
BinWriteDense(n, m, data, sz) ==
    [kind |-> "dense", n |-> n, m |-> m, ptr |-> <<>>, col |-> <<>>, val |-> data, sz |-> sz,
     len |-> LayoutLen("dense", 0, 0, Len(data), sz)]
\* the fields of a file in file order, as <<name, index>>
FieldsOf(f) ==
    IF f.kind = "crs"
    THEN <<<<"n", 1>>>> \o [k \in 1..Len(f.ptr) |-> <<"ptr", k>>] \o [k \in 1..Len(f.col) |-> <<"col", k>>] \o [k \in 1..Len(f.val) |-> <<"val", k>>]
    ELSE <<<<"n", 1>>, <<"m", 1>>>> \o [k \in 1..Len(f.val) |-> <<"val", k>>]
FieldWidth(f, name) == IF name \in {"n", "m"} THEN f.sz.S ELSE IF name = "ptr" THEN f.sz.P ELSE IF name = "col" THEN f.sz.C ELSE f.sz.V
FieldOffset(f, name, k) ==      \* byte offset of the k-th (1-based) field of that name
    IF f.kind = "crs"
    THEN CASE name = "n"   -> 0
           [] name = "ptr" -> f.sz.S + (k - 1) * f.sz.P
           [] name = "col" -> f.sz.S + Len(f.ptr) * f.sz.P + (k - 1) * f.sz.C
           [] OTHER        -> f.sz.S + Len(f.ptr) * f.sz.P + Len(f.col) * f.sz.C + (k - 1) * f.sz.V
    ELSE CASE name = "n" -> 0 [] name = "m" -> f.sz.S [] OTHER -> 2 * f.sz.S + (k - 1) * f.sz.V
FieldValue(f, name, k) == CASE name = "n" -> f.n [] name = "m" -> f.m [] name = "ptr" -> f.ptr[k] [] name = "col" -> f.col[k] [] OTHER -> f.val[k]

\* the field of width w that starts at byte offset o, if any:  [hit, v]
Region(f, o, w, name, cnt) ==
    LET base == FieldOffset(f, name, 1)
        fw   == FieldWidth(f, name)
    IN  IF cnt > 0 /\ fw = w /\ o >= base /\ o < base + cnt * fw /\ (o - base) % fw = 0
        THEN [hit |-> TRUE, v |-> FieldValue(f, name, (o - base) \div fw + 1)] ELSE [hit |-> FALSE, v |-> 0]
FieldAt(f, o, w) ==
    LET rs == IF f.kind = "crs"
              THEN <<Region(f, o, w, "n", 1), Region(f, o, w, "ptr", Len(f.ptr)), Region(f, o, w, "col", Len(f.col)), Region(f, o, w, "val", Len(f.val))>>
              ELSE <<Region(f, o, w, "n", 1), Region(f, o, w, "m", 1), Region(f, o, w, "val", Len(f.val))>>
        hs == SelectSeq(rs, LAMBDA r : r.hit)
    IN  IF hs = <<>> THEN [hit |-> FALSE, v |-> 0] ELSE hs[1]

\* read one value of width w at byte offset o:  [ok, v]
ReadAt(f, o, w) ==
    IF o < 0 \/ o + w > f.len THEN [ok |-> FALSE, v |-> 0]
    ELSE LET r == FieldAt(f, o, w) IN [ok |-> TRUE, v |-> IF r.hit THEN r.v ELSE TORN]
\* read cnt values of width w starting at o (f.read of cnt * w bytes); a run that lies inside one
\* region of the layout is taken as a whole, anything else field by field
RunIn(f, o, w, cnt, name, total) ==
    LET base == FieldOffset(f, name, 1)
    IN  FieldWidth(f, name) = w /\ o >= base /\ (o - base) % w = 0 /\ o + w * cnt <= base + total * w
ReadVec(f, o, w, cnt) ==
    IF cnt = 0 THEN [ok |-> o >= 0, v |-> <<>>]                    \* a zero-byte read after a failed (negative) seek still fails
    ELSE IF o < 0 \/ o + w * cnt > f.len THEN [ok |-> FALSE, v |-> <<>>]
    ELSE LET names == IF f.kind = "crs" THEN <<"ptr", "col", "val">> ELSE <<"val">>
             tot(nm) == IF nm = "ptr" THEN Len(f.ptr) ELSE IF nm = "col" THEN Len(f.col) ELSE Len(f.val)
             inn == SelectSeq(names, LAMBDA nm : RunIn(f, o, w, cnt, nm, tot(nm)))
         IN  IF inn # <<>>
             THEN LET nm == inn[1]
                      k0 == (o - FieldOffset(f, nm, 1)) \div w
                      src == IF nm = "ptr" THEN f.ptr ELSE IF nm = "col" THEN f.col ELSE f.val
                  IN  [ok |-> TRUE, v |-> [k \in 1..cnt |-> src[k0 + k]]]
             ELSE [ok |-> TRUE, v |-> [k \in 1..cnt |-> ReadAt(f, o + (k - 1) * w, w).v]]

\* --------------------------------------------------------------------- readers
BOut(st, why, n, m, ptr, col, val) == [st |-> st, why |-> why, A |-> [n |-> n, m |-> m, ptr |-> ptr, col |-> col, val |-> val]]
BErr(why)   == BOut("err", why, 0, 0, <<0>>, <<>>, <<>>)
BCrash(why) == BOut("crash", why, 0, 0, <<0>>, <<>>, <<>>)

CrsSize(f) == LET r == ReadAt(f, 0, f.sz.S) IN IF r.ok THEN [st |-> "ok", n |-> r.v] ELSE [st |-> "err", n |-> 0]

Monotone(s) == \A k \in 1..(Len(s) - 1) : s[k] <= s[k + 1]
\* sort_row(&col[beg], &val[beg], end - beg) touches [beg, end) when end - beg >= 2
SortTouchesOutside(ptr, size) ==
    \E k \in 1..(Len(ptr) - 1) : ptr[k + 1] - ptr[k] >= 2 /\ (ptr[k] < 0 \/ ptr[k + 1] > size)

\* rows of (ptr, col, val) sorted one by one, as the trailing loop of read_crs does
SortedRows(n, ptr, col, val) ==
    FromRows(n, 0, [i \in 1..n |-> SortRowRun([q \in 1..(ptr[i + 1] - ptr[i]) |-> <<col[ptr[i] + q], val[ptr[i] + q]>>])])

\* MaxAlloc: elements a vector may hold before resize throws (length_error / bad_alloc)
MaxAlloc == 2097152      \* = 16 MiB of 8-byte elements, the allocation limit of the recorder

ReadCrs(f, rb0, re0) ==
    LET sz == f.sz
        rn == ReadAt(f, 0, sz.S)
        n  == rn.v
        rb == IF rb0 < 0 THEN 0 ELSE rb0
        re == IF re0 < 0 THEN n ELSE re0
        chunk == re - rb
        ptrbeg == sz.S
        rp == ReadVec(f, ptrbeg + rb * sz.P, sz.P, chunk + 1)
        rz == ReadAt(f, ptrbeg + n * sz.P, sz.P)
        nnz == rz.v
        nnzbeg == rp.v[1]
        ptr == [k \in 1..Len(rp.v) |-> rp.v[k] - nnzbeg]
        cnt == ptr[Len(ptr)]
        colbeg == ptrbeg + (n + 1) * sz.P
        rc == ReadVec(f, colbeg + nnzbeg * sz.C, sz.C, cnt)
        rv == ReadVec(f, colbeg + nnz * sz.C + nnzbeg * sz.V, sz.V, cnt)
    IN  IF ~rn.ok THEN BErr("io n")
        ELSE IF ~(rb >= 0 /\ re <= n) THEN BErr("wrong subset")
        ELSE IF Checked /\ rb > re THEN BErr("wrong subset")
        ELSE IF chunk + 1 < 0 \/ chunk + 1 > MaxAlloc THEN BErr("length_error")
        ELSE IF chunk + 1 = 0 THEN BCrash("ptr.front() of an empty vector")
        ELSE IF ~rp.ok THEN BErr("io ptr")
        ELSE IF ~rz.ok THEN BErr("io nnz")
        ELSE IF Checked /\ ~(rp.v[1] >= 0 /\ rp.v[Len(rp.v)] <= nnz) THEN BErr("wrong row pointers")
        ELSE IF Checked /\ ~Monotone(rp.v) THEN BErr("row pointers are not monotone")
        ELSE IF cnt < 0 \/ cnt > MaxAlloc THEN BErr("length_error")
        ELSE IF ~rc.ok THEN BErr("io col")
        ELSE IF ~rv.ok THEN BErr("io val")
        ELSE IF Checked /\ (\E k \in 1..cnt : rc.v[k] < 0) THEN BErr("negative column")
        ELSE IF SortTouchesOutside(ptr, cnt) THEN BCrash("sort_row out of bounds")
        ELSE IF ~Monotone(ptr) THEN BOut("ok", "", chunk, 0, ptr, rc.v, rv.v)      \* returned as is (rows of length < 2 / scrambled)
        ELSE LET S == SortedRows(chunk, ptr, rc.v, rv.v)
             IN  BOut("ok", "", chunk, 0, ptr, S.col, S.val)

ReadDense(f, rb0, re0) ==
    LET sz == f.sz
        rn == ReadAt(f, 0, sz.S)
        rm == ReadAt(f, sz.S, sz.S)
        n  == rn.v
        m  == rm.v
        rb == IF rb0 < 0 THEN 0 ELSE rb0
        re == IF re0 < 0 THEN n ELSE re0
        cnt == (re - rb) * m
        rv == ReadVec(f, 2 * sz.S + rb * m * sz.V, sz.V, cnt)
    IN  IF ~rn.ok THEN BErr("io n") ELSE IF ~rm.ok THEN BErr("io m")
        ELSE IF Checked /\ (n < 0 \/ m < 0) THEN BErr("wrong matrix sizes")
        ELSE IF ~(rb >= 0 /\ re <= n) THEN BErr("wrong subset")
        ELSE IF Checked /\ rb > re THEN BErr("wrong subset")
        ELSE IF cnt < 0 \/ cnt > MaxAlloc THEN BErr("length_error")
        ELSE IF ~rv.ok THEN BErr("io val")
        ELSE BOut("ok", "", re - rb, m, <<0>>, <<>>, rv.v)

\* ------------------------------------------------------------------ predicates
\* The binary CRS format stores no column count: what a reader can (and must) guarantee is
\* consistent row pointers, matching array lengths and non-negative column numbers.
BinWellFormed(A) ==
    /\ A.n >= 0 /\ Len(A.ptr) = A.n + 1 /\ A.ptr[1] = 0 /\ Monotone(A.ptr)
    /\ Len(A.col) = A.ptr[A.n + 1] /\ Len(A.val) = Len(A.col)
    /\ \A p \in 1..Len(A.col) : A.col[p] >= 0
\* (n * m is never formed: a damaged header may announce sizes whose product overflows TLC's integers)
SizesMatch(n, m, len) == IF n = 0 \/ m = 0 THEN len = 0 ELSE (len % m = 0 /\ len \div m = n)
BinDenseWellFormed(A) == A.n >= 0 /\ A.m >= 0 /\ SizesMatch(A.n, A.m, Len(A.val))

BinSlice(A, rb, re) == [FromRows(re - rb, 0, [r \in 1..(re - rb) |-> RowSeq(A, rb + r - 1)]) EXCEPT !.m = A.m]
BinSliceOK(dense, full, part, rb, re) ==
    (full.st = "ok" /\ (IF dense THEN BinDenseWellFormed(full.A) ELSE BinWellFormed(full.A))
        /\ 0 <= rb /\ rb <= re /\ re <= full.A.n) =>
        /\ part.st = "ok"
        /\ IF dense THEN part.A.n = re - rb /\ part.A.m = full.A.m /\
                         part.A.val = [q \in 1..((re - rb) * full.A.m) |-> full.A.val[rb * full.A.m + q]]
           ELSE LET S == BinSlice(full.A, rb, re)
                IN  part.A.n = S.n /\ part.A.ptr = S.ptr /\ part.A.col = S.col /\ part.A.val = S.val

\* round trip: same structure, same values (rows come back sorted)
BinRoundTripOK(A, out) ==
    LET S == SortRowsRun(A)
    IN  out.st = "ok" /\ out.A.n = A.n /\ out.A.ptr = S.ptr /\ out.A.col = S.col /\ out.A.val = S.val
BinDenseRoundTripOK(n, m, data, out) == out.st = "ok" /\ out.A.n = n /\ out.A.m = m /\ out.A.val = data

\* fact = [short]  short: the file is shorter than the layout its (intact) header announces
BinFaultClauses(fact, dense, out) ==
    << <<"no-crash", out.st # "crash">>,
       <<"truncated=>error", fact.short => out.st # "ok">>,
       <<"returned-structure-valid", out.st = "ok" => (IF dense THEN BinDenseWellFormed(out.A) ELSE BinWellFormed(out.A))>> >>
BinFaultOutcomeOK(fact, dense, out) == \A q \in 1..3 : BinFaultClauses(fact, dense, out)[q][2]
=============================================================================
