----------------------------- MODULE CApiModel -----------------------------
(* Generator model for C20: TLC enumerates every valid call sequence of the C API   *)
(* of length MaxLen over one params handle of each shape, one preconditioner        *)
(* handle and one solver handle, 2 matrices, 2 parameter sets, both index bases.    *)
(* `hist` is the history; the maximal histories are printed as JSON (Emit) and are  *)
(* replayed against the real lib/amgcl.cpp by harness/replay_capi.cpp.              *)
(*                                                                                  *)
(* Reductions (stated in docs/C20.md):                                              *)
(*  - one slot per handle kind/shape, each created at most once per sequence;       *)
(*  - the setter calls of one parameter set are one model step (they are separate   *)
(*    API calls and separate events in the replay);                                 *)
(*  - Free = FALSE (quick tier): set 1 goes through the typed setters, set 2        *)
(*    through read_json; solve_mtx(_f) gets the *other* matrix (solve_mtx_upd(_f):  *)
(*    the creation arrays updated in place, same pointers); report directly         *)
(*    follows the creation of its object.  Free = TRUE lifts these three.           *)
EXTENDS CApi, Json

CONSTANTS MaxLen,     \* number of calls after the prelude
          Free,       \* BOOLEAN, see above
          Switches,   \* bound on the alternations between the handle groups {PA, A} and {PS, S}
          Prelude     \* BOOLEAN: start with both parameter lists created and filled
VARIABLES hist

vars == <<hs, pm, ob, hist>>

Call(f, h, p, m, k) == [f |-> f, h |-> h, p |-> p, m |-> m, k |-> k]
Log1(c) == hist' = Append(hist, c)

Vias(k) == IF Free THEN {"params_apply_set", "params_apply_json"}
           ELSE IF k = 1 THEN {"params_apply_set"} ELSE {"params_apply_json"}

\* With Prelude the history starts with  create PA, fill PA with set k1, create PS, fill PS
\* with set k2  (2 initial states, 4 with Free; the replay executes these calls like all others), so that
\* the MaxLen calls that follow all work with non-default parameters.
PreludeHist(k1, k2) ==
    << Call("params_create", "PA", "", 0, 0), Call(CHOOSE f \in Vias(k1) : TRUE, "PA", "", 0, k1),
       Call("params_create", "PS", "", 0, 0), Call(CHOOSE f \in Vias(k2) : TRUE, "PS", "", 0, k2) >>
PL == IF Prelude THEN 4 ELSE 0

Init == IF Prelude
        THEN \E k1 \in ParamSets : \E k2 \in (IF Free THEN ParamSets ELSE {k1}) :
                /\ hs = [s \in Slots |-> IF s \in PSlots THEN "live" ELSE "absent"]
                /\ pm = [p \in PSlots |-> SetMap(p, IF p = "PA" THEN k1 ELSE k2)]
                /\ ob = [o \in OSlots |-> NoObj]
                /\ hist = PreludeHist(k1, k2)
        ELSE CInit /\ hist = <<>>

PCreate  == \E p \in PSlots : ParamsCreate(p) /\ Log1(Call("params_create", p, "", 0, 0))
PSet     == \E p \in PSlots, k \in ParamSets :
               /\ "params_apply_set" \in Vias(k)
               /\ ParamsApplySetters(p, k) /\ Log1(Call("params_apply_set", p, "", 0, k))
PJson    == \E p \in PSlots, k \in ParamSets :
               /\ "params_apply_json" \in Vias(k)
               /\ ParamsReadJson(p, k) /\ Log1(Call("params_apply_json", p, "", 0, k))
PDestroy == \E p \in PSlots : ParamsDestroy(p) /\ Log1(Call("params_destroy", p, "", 0, 0))

OCreate  == \E o \in OSlots, m \in Matrices, base \in Bases : \E prm \in {"NULL", ParamSlotOf(o)} :
               /\ ObjCreate(o, m, base, prm)
               /\ Log1(Call((IF o = "A" THEN "precond_create" ELSE "solver_create") \o (IF base = 1 THEN "_f" ELSE ""),
                            o, prm, m, 0))

JustCreated(o) == hist # <<>> /\ hist[Len(hist)].f \in CreateFns(o)

OUse     == \E o \in OSlots : \E f \in UseFns(o) :
               /\ ObjUse(o)
               /\ (f \in {"precond_report", "solver_report"} /\ ~Free) => JustCreated(o)
               /\ UpdEnabled(o, f)
               /\ \E m \in (IF f \in MtxFns THEN (IF Free THEN Matrices ELSE Matrices \ {ob[o].m})
                           ELSE IF f \in UpdFns THEN {ob[o].m} ELSE {0}) :
                     Log1(Call(f, o, "", m, 0))
ODestroy == \E o \in OSlots : ObjDestroy(o) /\ Log1(Call(DestroyFn(o), o, "", 0, 0))

\* the calls on {PA, A} and the calls on {PS, S} are independent of each other: bound the
\* number of alternations between the two groups (a partial-order style reduction)
World(c) == IF c.h \in {"PA", "A"} THEN 1 ELSE 2
NSwitch(h) == Cardinality({i \in (PL + 1)..(Len(h) - 1) : World(h[i]) # World(h[i + 1])})

Next == /\ Len(hist) < PL + MaxLen
        /\ (PCreate \/ PSet \/ PJson \/ PDestroy \/ OCreate \/ OUse \/ ODestroy)
        /\ NSwitch(hist') <= Switches

(* ---- invariants ---- *)
TypeOK == /\ hs \in [Slots -> HStates]
          /\ \A o \in OSlots : ob[o].m \in Matrices \cup {0}

\* the guard-driven generation produces exactly lifecycle-valid histories, and the
\* handle states are those the history determines
LifecycleInv == LifecycleOK(hist) /\ \A s \in Slots : hs[s] = StateAfter(hist, s)

\* the content of a parameter list is determined by the calls on *that* handle alone
RECURSIVE MapOf(_, _)
MapOf(p, h) ==
    IF h = <<>> THEN NoMap
    ELSE LET c == h[Len(h)]
             before == MapOf(p, SubSeq(h, 1, Len(h) - 1))
         IN  IF c.h # p THEN before
             ELSE IF c.f = "params_apply_set" THEN ApplyCalls(before, SetCalls(p, c.k))
             ELSE IF c.f = "params_apply_json" THEN SetMap(p, c.k)
             ELSE before
ParamsIsolated == \A p \in PSlots : hs[p] = "live" => pm[p] = MapOf(p, hist)

\* the shadow of a live object is fixed at its creation: it is the parameter map the
\* params handle held at that moment (later setter calls / destroy do not reach it)
CreatedAt(o) == CHOOSE i \in 1..Len(hist) : hist[i].h = o /\ IsCreate(hist[i])
ShadowFrozen == \A o \in OSlots : hs[o] = "live" =>
                   LET i == CreatedAt(o)
                       c == hist[i]
                   IN  /\ ob[o].m = c.m
                       /\ ob[o].base = BaseOfFn(c.f)
                       /\ ob[o].prm = (IF c.p = "NULL" THEN NoMap ELSE MapOf(c.p, SubSeq(hist, 1, i - 1)))

\* setters after read_json overwrite entry-wise, read_json after setters replaces: the two
\* parameter sets share keys, so the final map is the last set's on its keys
SetsCompose == \A p \in PSlots, k \in ParamSets :
                  /\ ApplyCalls(SetMap(p, 3 - k), SetCalls(p, k)) # SetMap(p, k)     \* residue of the other set stays
                  /\ \A key \in DOMAIN SetMap(p, k) : ApplyCalls(SetMap(p, 3 - k), SetCalls(p, k))[key] = SetMap(p, k)[key]

Emit == (Len(hist) = PL + MaxLen) => PrintT(ToJson(hist))
=============================================================================
