--------------------------- MODULE BlockLiftModel ---------------------------
(* pointwise_aggregates with block_size BS > 1:                                     *)
(*  kind "kron": Ab = A (x) I_BS for every CoPatterns matrix A on N nodes; the      *)
(*               result must be the lifted result of plain aggregation of A         *)
(*               (BlockLiftOK), the unknowns of one node travel together and the    *)
(*               flags are the block flags.                                         *)
(*  kind "gen" : every (N*BS) x (N*BS) pattern of Patterns.tla with a full diagonal *)
(*               (general blocks, values in {-1,1,2}): TravelTogetherOK,            *)
(*               BlockFlagsOK, also with min_aggregate = 2 (PartitionMinOK).        *)
(* LiftBug = TRUE is the code as pinned (`ia` already advanced when the diagonal    *)
(* is tested), FALSE the repaired expansion.                                        *)
EXTENDS Aggregates, CoPatterns, Patterns, TLC

CONSTANTS N, BS, Modes, EpsDens, LiftBug, GenLo, GenHi     \* masks GenLo..GenHi for kind "gen" (empty when GenLo > GenHi)
VARIABLES kind, A, Ab, eps, pc, out
vars == <<kind, A, Ab, eps, pc, out>>

Init == /\ \/ kind = "kron" /\ A \in CoMasks(N, FALSE) \X Modes
           \/ kind = "gen"  /\ A \in {m \in GenLo..GenHi : HasDiag(N * BS, m)} \X {0, 1}
        /\ \E d \in EpsDens : eps = <<1, d>>
        /\ Ab = <<>> /\ pc = "gen" /\ out = <<>>
Gen  == /\ pc = "gen" /\ pc' = "in" /\ UNCHANGED <<kind, eps, out>>
        /\ IF kind = "kron"
           THEN A' = CoMat(N, FALSE, A[1], A[2]) /\ Ab' = Lift(A', BS)
           ELSE A' = <<>> /\ Ab' = MkCrs(N * BS, N * BS, A[1], A[2], FALSE)
Run  == /\ pc = "in" /\ pc' = "done" /\ UNCHANGED <<kind, A, Ab, eps>>
        /\ out' = [rb |-> PointwiseAggRun(Ab, eps, BS, 0, LiftBug),
                   r1 |-> IF kind = "kron" THEN AggRun(A, eps) ELSE <<>>,
                   rm |-> PointwiseAggRun(Ab, eps, BS, 2 * BS + 1, LiftBug)]
Next == Gen \/ Run

LiftInv    == (pc = "done" /\ kind = "kron") => BlockLiftOK(A, BS, Ab, out.r1, out.rb)
TogetherInv == (pc = "done" /\ ~out.rb.empty) => TravelTogetherOK(Ab, eps, BS, out.rb.id, out.rb.count)
FlagsInv   == (pc = "done" /\ ~out.rb.empty) => BlockFlagsOK(Ab, eps, BS, out.rb.strong)
\* min_aggregate = 2*BS+1 scalar unknowns: aggregates of fewer than three nodes are dissolved
MinInv     == (pc = "done" /\ ~out.rm.empty) =>
                 TravelMinOK(Ab, eps, BS, 2 * BS + 1, out.rm.id, out.rm.count)
=============================================================================
