--------------------------- MODULE RsConnectModel ---------------------------
(* ruge_stuben::connect (coarsening/ruge_stuben.hpp) as a def-before-use model.     *)
(* S.val = new char[nnz] is UNDEF; the row loop writes the slice of every row that  *)
(* has a negative off-diagonal entry and marks the others F(ine).  The transposition*)
(* loops then read S.val[0..nnz).  Fixed = FALSE is the pinned snapshot (F rows are *)
(* skipped before their slice is written), Fixed = TRUE the repaired code.          *)
(* Input space: every sign pattern {-,0,+} of the off-diagonal entries of an N x N  *)
(* matrix (the diagonal is always stored).                                          *)
EXTENDS Poison, TLC

CONSTANTS N, Fixed
VARIABLES sgn, sval, cf, pc, row, poisonRead

vars == <<sgn, sval, cf, pc, row, poisonRead>>
Idx == 1..N
Off == {p \in Idx \X Idx : p[1] # p[2]}
Stored(s) == {p \in Idx \X Idx : p[1] = p[2] \/ s[p] # 0}        \* the nnz positions
RowCells(s, i) == {p \in Stored(s) : p[1] = i}
HasNeg(s, i) == \E p \in RowCells(s, i) : p[1] # p[2] /\ s[p] < 0

Init == /\ sgn \in [Off -> {-1, 0, 1}]
        /\ sval = Fresh(Stored(sgn)) /\ cf = [i \in Idx |-> "U"]
        /\ pc = "rows" /\ row = 1 /\ poisonRead = FALSE

\* one iteration of the (parallel) row loop
ConnectRow ==
    /\ pc = "rows" /\ row <= N
    /\ IF ~HasNeg(sgn, row)
       THEN /\ cf' = [cf EXCEPT ![row] = "F"]
            /\ sval' = IF Fixed THEN [p \in DOMAIN sval |-> IF p[1] = row THEN "f" ELSE sval[p]] ELSE sval
       ELSE /\ cf' = cf
            \* S.val[j] = (col != i && a_ij < eps_strong * a_min): some boolean, abstracted as "negative entry"
            /\ sval' = [p \in DOMAIN sval |-> IF p[1] = row THEN (IF p[1] # p[2] /\ sgn[p] < 0 THEN "t" ELSE "f") ELSE sval[p]]
    /\ row' = row + 1 /\ pc' = IF row = N THEN "transpose" ELSE "rows"
    /\ UNCHANGED <<sgn, poisonRead>>

\* for (i = 0; i < nnz; ++i) if (S.val[i]) ++S.ptr[A.col[i] + 1];   reads every cell
Transpose ==
    /\ pc = "transpose"
    /\ poisonRead' = ReadsUndef(sval, DOMAIN sval)
    /\ pc' = "done"
    /\ UNCHANGED <<sgn, sval, cf, row>>

Next == ConnectRow \/ Transpose
Spec == Init /\ [][Next]_vars

NoPoisonRead == ~poisonRead
\* every variable without a negative connection ends up F, nothing else is decided here
FMarked == pc = "done" => \A i \in Idx : (cf[i] = "F") = ~HasNeg(sgn, i)
=============================================================================
