CONSTANTS
  N = 4
  BS = 2
  Consume = FALSE
INIT Init
NEXT Next
INVARIANT PwInv
CHECK_DEADLOCK FALSE
