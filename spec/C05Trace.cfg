CONSTANTS
  TinyErrNeg = 10000
  QMax = 20000
  BiBound = 20
  RefBoundNeg = 9000
  OptBoundNeg = 9000
  TermBoundNeg = 10000
INIT TInit
NEXT TNext
INVARIANT Verdict
CHECK_DEADLOCK FALSE
