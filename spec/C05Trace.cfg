CONSTANTS
  TinyErr = -10000
  QMax = 20000
  BiBound = 20
  RefBound = -9000
  OptBound = -9000
  TermBound = -10000
  TermBoundCxL = -7000
INIT TInit
NEXT TNext
INVARIANT Verdict
CHECK_DEADLOCK FALSE
