CONSTANTS
  R = 4
  C = 4
  B = 2
  KIND = "block"
  STEP = 1
INIT Init
NEXT Next
INVARIANTS BlockInv UnblockInv ComplexInv
CHECK_DEADLOCK FALSE
