CONSTANTS
  R = 4
  C = 4
  B = 2
  KIND = "block"
  STEP = 1
INIT Init
NEXT NextBlock
INVARIANTS BlockInv UnblockInv
CHECK_DEADLOCK FALSE
