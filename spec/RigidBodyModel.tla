--------------------------- MODULE RigidBodyModel ---------------------------
(* Every integer combination of the generators is a rigid motion, for every small    *)
(* integer point cloud (exhaustive): the span the routine produces is right by        *)
(* construction, whatever normalisation / orthogonalisation follows.                  *)
EXTENDS RigidBody, TLC
CONSTANTS NDim, NPts, CMax, Full       \* coordinates in 0..CMax; Full: all coefficient vectors over {-1,0,2}, else {0}
Coef == IF Full THEN {-1, 0, 2} ELSE {0}
VARIABLES X, c
Pts == [1..NDim -> 0..CMax]
NModes == IF NDim = 2 THEN 3 ELSE 6
Init == X \in [1..NPts -> Pts] /\ c \in [1..NModes -> Coef]
Next == UNCHANGED <<X, c>>
Spec == Init /\ [][Next]_<<X, c>>
AsSeq(f, n) == [k \in 1..n |-> f[k]]
XS == [p \in 1..NPts |-> AsSeq(X[p], NDim)]
SpanIsRigid == RigidMotion(XS, Combo(XS, AsSeq(c, NModes)))
\* vacuity guard: a shear is NOT a rigid motion (must be violated)
ShearIsRigid == RigidMotion(XS, [p \in 1..NPts |-> [d \in 1..NDim |-> IF d = 1 THEN XS[p][2] ELSE 0]])
=============================================================================
