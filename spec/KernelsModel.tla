--------------------------- MODULE KernelsModel ---------------------------
(* Exhaustive small-scope model of the sparse kernels: every pattern pair           *)
(* A (RA x CA, rows sorted or listed backwards) , B (CA x CB, sorted) is pushed     *)
(* through the transcribed kernels one kernel per step; the invariants are the     *)
(* input/output predicates of Crs.tla, i.e. the same operators the trace spec      *)
(* C08Trace evaluates on what the real code returned.                              *)
EXTENDS SparseKernels, Patterns, TLC

CONSTANTS RA, CA, CB
VARIABLES am, bm, rev, pc, out

vars == <<am, bm, rev, pc, out>>
A == MkCrs(RA, CA, am, 0, rev)
B == MkCrs(CA, CB, bm, 1, FALSE)
A2 == MkCrs(RA, CA, bm % Pow2(RA * CA), 2, FALSE)     \* second summand for `sum`

Init == /\ am \in Masks(RA, CA) /\ bm \in Masks(CA, CB) /\ rev \in BOOLEAN
        /\ pc = "in" /\ out = <<>>

Step(from, to, val) == pc = from /\ pc' = to /\ out' = val /\ UNCHANGED <<am, bm, rev>>

Transpose == Step("in", "transpose", TransposeRun(A))
Saad      == Step("transpose", "saad", SaadRun(A, B, FALSE))
SaadSort  == Step("saad", "saadsort", SaadRun(A, B, TRUE))
Rmerge    == Step("saadsort", "rmerge", RmergeRun(A, B))
Sum       == Step("rmerge", "sum", SumRun(2, A, -1, A2, FALSE))
SortRows  == Step("sum", "sort", SortRowsRun(A))
Next == Transpose \/ Saad \/ SaadSort \/ Rmerge \/ Sum \/ SortRows

TransposeInv == pc = "transpose" => TransposeOK(A, out) /\ (Sorted(out) /\ NoDup(out))
SaadInv      == pc = "saad" => ProductOK(A, B, out.C) /\ out.widthsOK /\ NoDup(out.C)
SaadSortInv  == pc = "saadsort" => ProductOK(A, B, out.C) /\ Sorted(out.C)
RmergeInv    == pc = "rmerge" => /\ ProductOK(A, B, out.C) /\ out.widthsOK /\ ~out.alias
                                 /\ Sorted(out.C)
\* both algorithms store the same matrix (after sorting): product() may switch between them
AgreeInv     == pc = "rmerge" => SameStorage(out.C, SaadRun(A, B, TRUE).C)
SumInv       == pc = "sum" => SumOK(2, A, -1, A2, out) /\ NoDup(out)
SortInv      == pc = "sort" => SortOK(A, out) /\ Sorted(out)
=============================================================================
