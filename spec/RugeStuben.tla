----------------------------- MODULE RugeStuben -----------------------------
(* amgcl/coarsening/ruge_stuben.hpp, transcribed with the granularity of the code:   *)
(*  connect   a_min = min(0, off-diagonals); a_min = 0 -> cf = 'F' and the row's     *)
(*            slice of S.val is set to false (fix ffd7fe6 in /repo; in the pinned    *)
(*            snapshot it was NOT written: Uninit = TRUE models recycled heap        *)
(*            contents there, FALSE is the code as it is now);                       *)
(*            else S.val[j] = (col # i /\ a_ij < eps * a_min); S' = transposition.   *)
(*  cfsplit   lambda, and the bucket arrays ptr / cnt / i2n / n2i; one CFStep per    *)
(*            iteration of `for(top = n; top-- > 0;)`: pick the last variable, C it, *)
(*            F its S'-neighbours (lambda + 1 for their U neighbours: swap to the    *)
(*            end of the bucket), lambda - 1 for the U neighbours of the new C       *)
(*            (swap to the front of the bucket).                                     *)
(*  interp    direct interpolation with truncation: Amin/Amax = eps_tr * min/max of  *)
(*            the strong C entries, kept iff v < Amin or Amax < v, the dropped       *)
(*            sum d_neg uses `Amin < v` (TieBug = TRUE, the code as pinned: an       *)
(*            entry with v = Amin is dropped from P but not from the rescaling) or   *)
(*            `Amin <= v` (FALSE, repaired).                                         *)
(* eps, eps_tr are rationals <<num, den>>; matrix data are integers, P is rational.  *)
EXTENDS SmoothedAggr

RSAmin(A, i) == MinOf({0} \cup {A.val[p] : p \in {q \in RowPos(A, i) : A.col[q] # i}})
\* A.val[j] < a_min * eps
RSStrongVal(eps, amin, v) == v * eps[2] < amin * eps[1]

RSConnect(A, eps, Uninit) ==
    LET row  == PosRow(A)
        amin == [i \in Rows(A) |-> RSAmin(A, i)]
        S    == [p \in 1..NNZ(A) |->
                    IF amin[row[p]] = 0 THEN Uninit
                    ELSE A.col[p] # row[p] /\ RSStrongVal(eps, amin[row[p]], A.val[p])]
        all  == [p \in 1..NNZ(A) |-> p]
    IN  [cf |-> [i \in Rows(A) |-> IF amin[i] = 0 THEN "F" ELSE "U"],
         S  |-> S,
         \* S'(c) = the rows i (ascending, in storage order) with S(i, c)
         ST |-> [c \in Rows(A) |->
                    LET ps == SelectSeq(all, LAMBDA p : S[p] /\ A.col[p] = c)
                    IN  [k \in 1..Len(ps) |-> row[ps[k]]]]]

\* ---------------------------------------------------------------------- cfsplit
CFInit(A, c0) ==
    LET n    == A.n
        lam  == [i \in Rows(A) |-> MapThenSumSet(LAMBDA k : IF c0.cf[c0.ST[i][k]] = "U" THEN 1 ELSE 2,
                                                 1..Len(c0.ST[i]))]
        oob  == \E i \in Rows(A) : lam[i] + 1 > n          \* ++ptr[lambda[i] + 1], ptr has n+1 entries
        ptr  == [k \in 0..n |-> Cardinality({i \in Rows(A) : lam[i] < k})]
        pos  == [i \in Rows(A) |-> ptr[lam[i]] + Cardinality({j \in Rows(A) : j < i /\ lam[j] = lam[i]})]
    IN  IF oob
        THEN [cf |-> c0.cf, lam |-> lam, ptr |-> <<>>, cnt |-> <<>>, i2n |-> <<>>, n2i |-> <<>>,
              top |-> n - 1, done |-> TRUE, oob |-> TRUE]
        ELSE [cf  |-> c0.cf, lam |-> lam, ptr |-> ptr,
              cnt |-> [l \in 0..(n - 1) |-> Cardinality({i \in Rows(A) : lam[i] = l})],
              i2n |-> [x \in 0..(n - 1) |-> CHOOSE i \in Rows(A) : pos[i] = x],
              n2i |-> pos, top |-> n - 1, done |-> n = 0, oob |-> FALSE]

\* swap the variable v (at old) with the variable at position new
CFSwap(s, old, new) ==
    LET x == s.i2n[old]
        y == s.i2n[new]
    IN  [s EXCEPT !.n2i = [[s.n2i EXCEPT ![x] = new] EXCEPT ![y] = old],
                  !.i2n = [[s.i2n EXCEPT ![old] = y] EXCEPT ![new] = x]]

\* increase lambda of the U neighbour behind position aj of the row of a newly created F
CFInc(A, S, s, aj) ==
    IF s.oob \/ ~S[aj] THEN s
    ELSE LET ac   == A.col[aj]
             lama == s.lam[ac]
         IN  IF s.cf[ac] # "U" \/ lama + 1 >= A.n THEN s
             ELSE LET old == s.n2i[ac]
                      new == s.ptr[lama] + s.cnt[lama] - 1
                  IN  IF new \notin 0..(A.n - 1) THEN [s EXCEPT !.oob = TRUE]
                      ELSE LET w == CFSwap(s, old, new)
                           IN  [w EXCEPT !.cnt[lama] = s.cnt[lama] - 1,
                                         !.cnt[lama + 1] = s.cnt[lama + 1] + 1,
                                         !.ptr[lama + 1] = s.ptr[lama] + s.cnt[lama] - 1,
                                         !.lam[ac] = lama + 1]
\* decrease lambda of the U neighbour behind position j of the row of the new C
CFDec(A, S, s, j) ==
    IF s.oob \/ ~S[j] THEN s
    ELSE LET c   == A.col[j]
             lam == s.lam[c]
         IN  IF s.cf[c] # "U" \/ lam = 0 THEN s
             ELSE LET w == CFSwap(s, s.n2i[c], s.ptr[lam])
                  IN  [w EXCEPT !.cnt[lam] = s.cnt[lam] - 1,
                                !.cnt[lam - 1] = s.cnt[lam - 1] + 1,
                                !.ptr[lam] = s.ptr[lam] + 1,
                                !.lam[c] = lam - 1]
CFMakeF(A, S, s, c) ==
    IF s.oob \/ s.cf[c] # "U" THEN s
    ELSE FoldLeft(LAMBDA a, aj : CFInc(A, S, a, aj), [s EXCEPT !.cf[c] = "F"], RowPosSeq(A, c))

CFAdvance(s) == IF s.top = 0 THEN [s EXCEPT !.done = TRUE] ELSE [s EXCEPT !.top = @ - 1]
\* one iteration of the main loop (s.top = the value of `top` inside the body)
CFStep(A, c0, s) ==
    LET i   == s.i2n[s.top]
        lam == s.lam[i]
    IN  IF lam = 0
        THEN [s EXCEPT !.cf = [k \in Rows(A) |-> IF s.cf[k] = "U" THEN "C" ELSE s.cf[k]], !.done = TRUE]
        ELSE LET s1 == [s EXCEPT !.cnt[lam] = @ - 1]
             IN  IF s.cf[i] = "F" THEN CFAdvance(s1)
                 ELSE LET s2 == [s1 EXCEPT !.cf[i] = "C"]
                          s3 == FoldLeft(LAMBDA a, c : CFMakeF(A, c0.S, a, c), s2, c0.ST[i])
                          s4 == FoldLeft(LAMBDA a, j : CFDec(A, c0.S, a, j), s3, RowPosSeq(A, i))
                      IN  IF s4.oob THEN [s4 EXCEPT !.done = TRUE] ELSE CFAdvance(s4)
RECURSIVE CFLoop(_, _, _)
CFLoop(A, c0, s) == IF s.done THEN s ELSE CFLoop(A, c0, CFStep(A, c0, s))
CFSplitRun(A, c0) == CFLoop(A, c0, CFInit(A, c0))

\* ---------------------------------------------------------------- interpolation
RSTrunc(do, eps) == [do |-> do, eps |-> eps]
RSInterpRow(A, S, cf, cidx, tr, TieBug, i) ==
    IF cf[i] = "C" THEN [row |-> << <<cidx[i], ROne>> >>, width |-> 1]
    ELSE
      LET ps    == RowPosSeq(A, i)
          isSC(p) == S[p] /\ cf[A.col[p]] = "C"
          scv   == {A.val[ps[k]] : k \in {q \in 1..Len(ps) : isSC(ps[q])}}
          Amin  == RMul(R(MinOf({0} \cup scv)), tr.eps)
          Amax  == RMul(R(MaxOf({0} \cup scv)), tr.eps)
          keep(v) == ~tr.do \/ RLt(R(v), Amin) \/ RLt(Amax, R(v))            \* count loop
          acc   == FoldLeft(LAMBDA a, p :
                      LET c == A.col[p]
                          v == A.val[p]
                      IN  IF c = i THEN [a EXCEPT !.dia = v]
                          ELSE IF v < 0
                          THEN [a EXCEPT !.anum = @ + v,
                                         !.aden = IF isSC(p) THEN @ + v ELSE @,
                                         !.dneg = IF isSC(p) /\ tr.do /\ (IF TieBug THEN RLt(Amin, R(v)) ELSE RLe(Amin, R(v)))
                                                  THEN @ + v ELSE @]
                          ELSE [a EXCEPT !.bnum = @ + v,
                                         !.bden = IF isSC(p) THEN @ + v ELSE @,
                                         !.dpos = IF isSC(p) /\ tr.do /\ (IF TieBug THEN RLt(R(v), Amax) ELSE RLe(R(v), Amax))
                                                  THEN @ + v ELSE @],
                      [dia |-> 0, anum |-> 0, aden |-> 0, bnum |-> 0, bden |-> 0, dneg |-> 0, dpos |-> 0], ps)
          cfneg == IF tr.do /\ acc.aden - acc.dneg # 0 THEN Norm(Abs(acc.aden), Abs(acc.aden - acc.dneg)) ELSE ROne
          cfpos == IF tr.do /\ acc.bden - acc.dpos # 0 THEN Norm(Abs(acc.bden), Abs(acc.bden - acc.dpos)) ELSE ROne
          dia   == IF 0 < acc.bnum /\ acc.bden = 0 THEN acc.dia + acc.bnum ELSE acc.dia
          alpha == IF acc.aden # 0 /\ dia # 0
                   THEN RNeg(RMul(cfneg, Norm(Abs(acc.anum), Abs(dia) * Abs(acc.aden)))) ELSE RZero
          beta  == IF acc.bden # 0 /\ dia # 0
                   THEN RNeg(RMul(cfpos, Norm(Abs(acc.bnum), Abs(dia) * Abs(acc.bden)))) ELSE RZero
          kept  == SelectSeq(ps, LAMBDA p : isSC(p) /\ ~(tr.do /\ RLe(Amin, R(A.val[p])) /\ RLe(R(A.val[p]), Amax)))
      IN  [row   |-> [k \in 1..Len(kept) |->
                        <<cidx[A.col[kept[k]]], RMul(IF A.val[kept[k]] < 0 THEN alpha ELSE beta, R(A.val[kept[k]]))>>],
           width |-> Cardinality({k \in 1..Len(ps) : isSC(ps[k]) /\ keep(A.val[ps[k]])}),
           nodia |-> dia = 0]

RSInterp(A, S, cf, tr, TieBug) ==
    LET cidx == [i \in Rows(A) |-> Cardinality({j \in Rows(A) : j < i /\ cf[j] = "C"})]
        nc   == Cardinality({j \in Rows(A) : cf[j] = "C"})
        rows == [i1 \in 1..A.n |-> RSInterpRow(A, S, cf, cidx, tr, TieBug, i1 - 1)]
    IN  [P |-> FromRows(A.n, nc, [i1 \in 1..A.n |-> rows[i1].row]), nc |-> nc,
         widthsOK |-> \A i1 \in 1..A.n : rows[i1].width = Len(rows[i1].row)]

\* transfer_operators: `empty` = throw error::empty_level, `oob` = an index left its array
RSRun(A, eps, tr, TieBug, Uninit) ==
    LET c0 == RSConnect(A, eps, Uninit)
        s  == CFSplitRun(A, c0)
    IN  IF s.oob THEN [oob |-> TRUE, empty |-> FALSE, cf |-> s.cf]
        ELSE LET r == RSInterp(A, c0.S, s.cf, tr, TieBug)
             IN  [oob |-> FALSE, empty |-> r.nc = 0, cf |-> s.cf, P |-> r.P, widthsOK |-> r.widthsOK]

\* ------------------------------------------------------------------ predicates
RSHasNeg(A, i)  == RSAmin(A, i) < 0              \* the row has a strong connection (its most negative entry)
RSStrongDef(A, eps, i, c) ==                     \* i depends strongly on c, by the definition used in connect
    i # c /\ RSHasNeg(A, i) /\ \E p \in RowPos(A, i) : A.col[p] = c /\ RSStrongVal(eps, RSAmin(A, i), A.val[p])
RSRows(A) == {i \in Rows(A) : RSHasNeg(A, i)}

\* C/F split read off P alone: every coarse column k belongs to a C point (a row that is exactly
\* (k, 1)) on which every other row using the column depends strongly; every point with a strong
\* connection interpolates from at least one C point
CFSanityOK(A, eps, P, Near(_, _, _)) ==
    LET am == [i \in Rows(A) |-> RSAmin(A, i)]
        dep(i, c) == i # c /\ am[i] < 0 /\ \E p \in RowPos(A, i) : A.col[p] = c /\ RSStrongVal(eps, am[i], A.val[p])
        \* candidate C points: rows that are exactly (k, 1)
        cand == [k \in 0..(P.m - 1) |-> {c \in Rows(A) : RowLen(P, c) = 1 /\ P.col[Ptr(P, c) + 1] = k}]
        users == [k \in 0..(P.m - 1) |-> {i \in Rows(A) : k \in RowCols(P, i)}]
    IN  /\ P.n = A.n /\ WellFormed(P) /\ NoDup(P)
        /\ \A k \in 0..(P.m - 1) :
             \E c \in cand[k] : /\ Near(P, {Ptr(P, c) + 1}, ROne)
                                /\ \A i \in users[k] \ {c} : dep(i, c)
        /\ \A i \in Rows(A) : am[i] < 0 => RowLen(P, i) >= 1
\* empty_level exactly when no row has a negative off-diagonal
RSEmptyOK(A, empty) == empty = (RSRows(A) = {})

\* --- model-level invariants over the internal state
CFBucketsOK(A, s) ==
    s.oob \/ /\ \A x \in 0..(A.n - 1) : s.n2i[s.i2n[x]] = x
             /\ \A v \in Rows(A) : s.i2n[s.n2i[v]] = v
CFSortedOK(A, s) ==          \* the not yet processed positions are ordered by lambda
    (s.oob \/ s.done) \/ \A x, y \in 0..s.top : x < y => s.lam[s.i2n[x]] <= s.lam[s.i2n[y]]
CFInternalOK(A, eps, cf) ==
    LET am == [i \in Rows(A) |-> RSAmin(A, i)]
    IN  /\ \A i \in Rows(A) : cf[i] \in {"C", "F"}
        /\ \A i \in Rows(A) : (cf[i] = "F" /\ am[i] < 0) =>
               \E p \in RowPos(A, i) : A.col[p] # i /\ cf[A.col[p]] = "C" /\ RSStrongVal(eps, am[i], A.val[p])
        /\ \A i \in Rows(A) : ~(am[i] < 0) => cf[i] = "F"
\* "the remaining weights are rescaled so that the total sum remains unchanged"
TruncKeepsSumOK(A, Pt, Pn) ==
    \A i \in Rows(A) : REq(RSumSet(LAMBDA p : Pt.val[p], RowPos(Pt, i)), RSumSet(LAMBDA p : Pn.val[p], RowPos(Pn, i)))
=============================================================================
