CONSTANTS
  Wide = FALSE
INIT Init
NEXT Next
INVARIANTS RingInv CplxInv
CHECK_DEADLOCK FALSE
