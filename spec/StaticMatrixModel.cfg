CONSTANTS
  Wide = FALSE
INIT Init
NEXT Next
INVARIANT RingInv
CHECK_DEADLOCK FALSE
