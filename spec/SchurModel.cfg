CONSTANTS
  NN = 3
  Stride = 1
  ColonParse = FALSE
  AdjustFix = FALSE
INIT Init
NEXT Next
INVARIANTS ReassembleInv SchurOpInv Type1Inv Type2Inv
CHECK_DEADLOCK FALSE
