----------------------------- MODULE Aggregates -----------------------------
(* Transcription of amgcl/coarsening/plain_aggregates.hpp and                       *)
(* pointwise_aggregates.hpp with the granularity of the code:                       *)
(*   1. strong_connection[j] = (c # i) /\ eps^2 * a_ii * a_cc < a_ic^2              *)
(*      (eps is a rational <<num, den>>; data are integers, so the doubles of the   *)
(*      code are exact and the test is an integer comparison),                      *)
(*   2. lonely rows -> removed (-2), others undefined (-1),                         *)
(*   3. the greedy pass, one outer iteration per AggSeed step: seed, [star] claim  *)
(*      strong neighbours (stealing them from earlier aggregates), tentatively mark *)
(*      the undefined neighbours of the neighbours,                                 *)
(*   4. aggregates that vanished in [star] are dropped and the rest renumbered,     *)
(*   5. remove_small_aggregates, pointwise reduction (PointwiseRun of               *)
(*      SparseKernels.tla, Consume = FALSE) and expansion of ids and flags.         *)
(* Property predicates (inputs and outputs only): PartitionOK, PartitionMinOK,      *)
(* StrongFlagsOK, BlockLiftOK (ids + flags), TravelTogetherOK, BlockFlagsOK.         *)
EXTENDS SparseKernels, Rat

Undefined == -1
Removed   == -2

\* row number (0-based) of every storage position 1..nnz
PosRow(A)       == FlattenSeq([i1 \in 1..A.n |-> [k \in 1..RowLen(A, i1 - 1) |-> i1 - 1]])
RowPosSeq(A, i) == [k \in 1..RowLen(A, i) |-> Ptr(A, i) + k]
\* backend::diagonal: the first stored entry with col = row (0 stands for "none")
DiagOf(A, i) == LET ps == {p \in RowPos(A, i) : A.col[p] = i}
                IN  IF ps = {} THEN 0 ELSE A.val[MinOf(ps)]
Diagonal(A)  == [i \in Rows(A) |-> DiagOf(A, i)]

\* eps_squared * dia[i] * dia[c] < v * v   with eps = en/ed
StrongTest(eps, dii, dcc, v) == eps[1] * eps[1] * dii * dcc < eps[2] * eps[2] * v * v

StrongFlags(A, eps) ==
    LET dia == Diagonal(A)
        row == PosRow(A)
    IN  [p \in 1..NNZ(A) |-> A.col[p] # row[p] /\ StrongTest(eps, dia[row[p]], dia[A.col[p]], A.val[p])]

\* ------------------------------------------------------------ plain_aggregates
AggInit(A, S) ==
    [count |-> 0,
     id    |-> [i \in Rows(A) |-> IF \E p \in RowPos(A, i) : S[p] THEN Undefined ELSE Removed]]

\* one iteration of `for(size_t i = 0; i < n; ++i)` of the aggregation loop
AggSeed(A, S, st, i) ==
    IF st.id[i] # Undefined THEN st
    ELSE
      LET cur == st.count
          \* [star] include the strong neighbours, collect them in neib
          s1  == FoldLeft(LAMBDA acc, p :
                            IF S[p] /\ acc.id[A.col[p]] # Removed
                            THEN [id |-> [acc.id EXCEPT ![A.col[p]] = cur], neib |-> Append(acc.neib, A.col[p])]
                            ELSE acc,
                          [id |-> [st.id EXCEPT ![i] = cur], neib |-> <<>>], RowPosSeq(A, i))
          \* temporarily mark the undefined points adjacent to the new aggregate
          id2 == FoldLeft(LAMBDA idn, c :
                            FoldLeft(LAMBDA idm, p :
                                        IF S[p] /\ idm[A.col[p]] = Undefined
                                        THEN [idm EXCEPT ![A.col[p]] = cur] ELSE idm,
                                     idn, RowPosSeq(A, c)),
                          s1.id, s1.neib)
      IN  [count |-> cur + 1, id |-> id2]

\* cnt[id] = 1 for used ids; partial_sum; renumber when some aggregate vanished
AggRenumber(A, st) ==
    LET used == {st.id[i] : i \in Rows(A)} \cap (0 .. (st.count - 1))
        cnt  == [a \in 0..(st.count - 1) |-> Cardinality({u \in used : u <= a})]
        last == cnt[st.count - 1]
    IN  IF st.count > last
        THEN [count |-> last, id |-> [i \in Rows(A) |-> IF st.id[i] >= 0 THEN cnt[st.id[i]] - 1 ELSE st.id[i]]]
        ELSE st

AggLoop(A, S) ==
    LET F[i \in 0..A.n] == IF i = 0 THEN AggInit(A, S) ELSE AggSeed(A, S, F[i - 1], i - 1)
    IN  F[A.n]

\* result record shared by models and traces: id as a sequence 1..n, strong as 0/1
Bits(S)        == [p \in 1..Len(S) |-> IF S[p] THEN 1 ELSE 0]
AggResult(A, S, st, empty) ==
    [count |-> st.count, id |-> [i1 \in 1..A.n |-> st.id[i1 - 1]], strong |-> Bits(S), empty |-> empty]

\* plain_aggregates(A, prm): `empty` stands for  throw error::empty_level
AggFinish(A, S, st) == IF st.count = 0 THEN AggResult(A, S, st, TRUE)
                       ELSE AggResult(A, S, AggRenumber(A, st), FALSE)
AggRun(A, eps) == LET S == StrongFlags(A, eps) IN AggFinish(A, S, AggLoop(A, S))

\* ----------------------------------------------------- remove_small_aggregates
\* r = [count, id (1..n), ...]; ids are >= 0 or Removed
RemoveSmall(n, bs, minaggr, r) ==
    IF minaggr <= 1 THEN r
    ELSE
      LET size == [a \in 0..(r.count - 1) |-> Cardinality({i1 \in 1..n : r.id[i1] = a})]
          keep == [a \in 0..(r.count - 1) |-> ~(bs * size[a] < minaggr)]
          new  == [a \in 0..(r.count - 1) |-> IF keep[a] THEN Cardinality({b \in 0..(a - 1) : keep[b]}) ELSE Removed]
      IN  [r EXCEPT !.count = Cardinality({a \in 0..(r.count - 1) : keep[a]}),
                    !.id    = [i1 \in 1..n |-> IF r.id[i1] # Removed THEN new[r.id[i1]] ELSE Removed]]

\* --------------------------------------------------------- pointwise_aggregates
\* Expansion of the pointwise flags: cursors j[k] walk the bs scalar rows of block row
\* ip block column by block column.  The code tests  A.col[beg] != (ia + k)  *after*
\* the loop `for(k = 0; k < bs; ++k, ++ia)` has advanced ia to (ip+1)*bs, so the
\* excluded column is (ip+1)*bs + k and not the diagonal ip*bs + k  (LiftBug = TRUE:
\* the code as pinned; FALSE: the diagonal is excluded, as intended).
ExpandFlagsRow(A, Ap, pwS, bs, ip, LiftBug, flags) ==
    LET ia0  == ip * bs
        iaX  == IF LiftBug THEN ia0 + bs ELSE ia0
        e    == [k \in 0..(bs - 1) |-> Ptr(A, ia0 + k + 1)]
        RECURSIVE Walk(_, _, _, _, _)
        Walk(fl, beg, k, sp, colend) ==          \* while(beg < end && A.col[beg] < col_end)
            IF beg < e[k] /\ A.col[beg + 1] < colend
            THEN Walk([fl EXCEPT ![beg + 1] = sp /\ A.col[beg + 1] # (iaX + k)], beg + 1, k, sp, colend)
            ELSE [fl |-> fl, beg |-> beg]
        blockstep(acc, jp) ==
            LET cp     == Ap.col[jp]
                sp     == (cp = ip) \/ pwS[jp]
                colend == (cp + 1) * bs
            IN  FoldLeft(LAMBDA a, k : LET w == Walk(a.fl, a.j[k], k, sp, colend)
                                       IN  [fl |-> w.fl, j |-> [a.j EXCEPT ![k] = w.beg]],
                         acc, [kk \in 1..bs |-> kk - 1])
    IN  FoldLeft(blockstep, [fl |-> flags, j |-> [k \in 0..(bs - 1) |-> Ptr(A, ia0 + k)]], RowPosSeq(Ap, ip)).fl

PointwiseAggRun(A, eps, bs, minaggr, LiftBug) ==
    IF bs = 1
    THEN LET r == AggRun(A, eps)
         IN  IF r.empty THEN r ELSE RemoveSmall(A.n, 1, minaggr, r)
    ELSE
      LET Ap  == PointwiseRun(A, bs, FALSE)
          r0  == AggRun(Ap, eps)
      IN  IF r0.empty THEN [count |-> 0, id |-> [i1 \in 1..A.n |-> Removed], strong |-> [p \in 1..NNZ(A) |-> 0], empty |-> TRUE]
          ELSE
            LET pw  == RemoveSmall(Ap.n, bs, minaggr, r0)
                pwS == [p \in 1..NNZ(Ap) |-> pw.strong[p] = 1]
                fl  == FoldLeft(LAMBDA f, ip : ExpandFlagsRow(A, Ap, pwS, bs, ip, LiftBug, f),
                                [p \in 1..NNZ(A) |-> FALSE], [q \in 1..Ap.n |-> q - 1])
            IN  [count  |-> pw.count * bs,
                 id     |-> [r \in 1..A.n |-> bs * pw.id[((r - 1) \div bs) + 1] + ((r - 1) % bs)],
                 strong |-> Bits(fl), empty |-> FALSE]

\* ------------------------------------------------------------------ predicates
HasStrong(A, S, i) == \E p \in RowPos(A, i) : S[p]

\* recorded flags are the definition
StrongFlagsOK(A, eps, strong) == Len(strong) = NNZ(A) /\ strong = Bits(StrongFlags(A, eps))

\* every variable with a strong neighbour is in exactly one aggregate, isolated ones in none,
\* ids are 0..count-1 and every id is used   (`id` is a sequence 1..n)
PartitionOK(A, eps, id, count) ==
    LET S == StrongFlags(A, eps)
    IN  /\ Len(id) = A.n /\ count >= 0
        /\ \A i \in Rows(A) : IF HasStrong(A, S, i) THEN id[i + 1] \in 0..(count - 1) ELSE id[i + 1] < 0
        /\ {id[i1] : i1 \in 1..A.n} \cap Nat = 0..(count - 1)
\* the constructor throws empty_level exactly when there is nothing to aggregate
EmptyOK(A, eps, empty) ==
    LET S == StrongFlags(A, eps) IN empty = (\A i \in Rows(A) : ~HasStrong(A, S, i))

\* with min_aggregate > 1 small aggregates are dissolved: aggregated variables still have a
\* strong neighbour, ids stay contiguous and used, every aggregate is large enough
PartitionMinOK(A, eps, bs, minaggr, id, count) ==
    LET S == StrongFlags(A, eps)
    IN  /\ Len(id) = A.n /\ count >= 0
        /\ \A i \in Rows(A) : (id[i + 1] >= 0 => HasStrong(A, S, i)) /\ id[i + 1] < count
        /\ {id[i1] : i1 \in 1..A.n} \cap Nat = 0..(count - 1)
        /\ \A a \in 0..(count - 1) : bs * Cardinality({i1 \in 1..A.n : id[i1] = a}) >= minaggr

\* definition of the pointwise matrix (entry = largest |a| of the block), cf. PointwiseOK
DefPointwise(A, bs) ==
    FromRows(A.n \div bs, A.m \div bs,
        [ip1 \in 1..(A.n \div bs) |->
            LET ents == UNION {{<<A.col[p] \div bs, Abs(A.val[p])>> : p \in RowPos(A, (ip1 - 1) * bs + k)} : k \in 0..(bs - 1)}
                bcs  == SetToSortSeq({x[1] : x \in ents}, <)
            IN  [q \in 1..Len(bcs) |-> <<bcs[q], MaxOf({x[2] : x \in {y \in ents : y[1] = bcs[q]}})>>]])

\* flags of a block matrix by definition: off-diagonal entries inside the diagonal block are
\* strong, entries of another block are strong iff the two grid nodes are strongly coupled
DefBlockFlags(A, eps, bs) ==
    LET Ap  == DefPointwise(A, bs)
        dia == Diagonal(Ap)
        row == PosRow(A)
    IN  [p \in 1..NNZ(A) |->
            LET r == row[p]
                c == A.col[p]
            IN  /\ r # c
                /\ \/ r \div bs = c \div bs
                   \/ StrongTest(eps, dia[r \div bs], dia[c \div bs], At(Ap, r \div bs, c \div bs))]

\* block_size b: the unknowns of one grid node travel together: id[ip*b+k] = b*g[ip] + k for a
\* node aggregate g[ip] >= 0, or all b ids are negative
TravelIdsOK(A, bs, id, count) ==
    /\ Len(id) = A.n /\ count % bs = 0 /\ A.n % bs = 0
    /\ \A ip \in 0..((A.n \div bs) - 1) :
         \/ \A k \in 0..(bs - 1) : id[ip * bs + k + 1] < 0
         \/ /\ id[ip * bs + 1] >= 0 /\ id[ip * bs + 1] % bs = 0
            /\ \A k \in 0..(bs - 1) : id[ip * bs + k + 1] = id[ip * bs + 1] + k
NodeIds(A, bs, id) ==
    [ip1 \in 1..(A.n \div bs) |-> IF id[(ip1 - 1) * bs + 1] >= 0 THEN id[(ip1 - 1) * bs + 1] \div bs ELSE Removed]
\* ... and the node partition is a valid partition of the pointwise matrix
TravelTogetherOK(A, eps, bs, id, count) ==
    /\ TravelIdsOK(A, bs, id, count)
    /\ PartitionOK(DefPointwise(A, bs), eps, NodeIds(A, bs, id), count \div bs)
TravelMinOK(A, eps, bs, minaggr, id, count) ==
    /\ TravelIdsOK(A, bs, id, count)
    /\ PartitionMinOK(DefPointwise(A, bs), eps, bs, minaggr, NodeIds(A, bs, id), count \div bs)
BlockFlagsOK(A, eps, bs, strong) == Len(strong) = NNZ(A) /\ strong = Bits(DefBlockFlags(A, eps, bs))

\* coarsening A (x) I_b with block_size b = lifted coarsening of A:
\* r1 = result for A (block_size 1), rb = result for Ab = Lift(A, b) with block_size b
BlockLiftIdsOK(A, b, Ab, r1, rb) ==
    /\ rb.empty = r1.empty
    /\ ~r1.empty =>
        /\ rb.count = b * r1.count /\ Len(rb.id) = A.n * b /\ Len(r1.id) = A.n
        /\ \A i \in Rows(A) : \A k \in 0..(b - 1) :
             IF r1.id[i + 1] >= 0 THEN rb.id[i * b + k + 1] = b * r1.id[i + 1] + k ELSE rb.id[i * b + k + 1] < 0
BlockLiftFlagsOK(A, b, Ab, r1, rb) ==
    (~r1.empty /\ ~rb.empty) =>
        /\ Len(rb.strong) = NNZ(Ab) /\ Len(r1.strong) = NNZ(A)
        /\ \A i \in Rows(A) : \A k \in 0..(b - 1) : \A q \in 1..RowLen(A, i) :
             rb.strong[Ptr(Ab, i * b + k) + q] = r1.strong[Ptr(A, i) + q]
BlockLiftOK(A, b, Ab, r1, rb) == BlockLiftIdsOK(A, b, Ab, r1, rb) /\ BlockLiftFlagsOK(A, b, Ab, r1, rb)
=============================================================================
