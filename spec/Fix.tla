-------------------------------- MODULE Fix --------------------------------
(* 40-bit binary fixed point for judging recorded doubles against exact rationals  *)
(* inside TLC's 32-bit integers.  A recorder logs a double v (|v| < 1024) as two    *)
(* integers  hi = floor(v * 2^20)  and  lo = floor((v * 2^20 - hi) * 2^20), i.e.    *)
(* v = (hi * 2^20 + lo) * 2^-40 up to one unit.  FixOf(r) is the same pair for the  *)
(* exact rational r = <<num, den>> by long division in base 1024.                   *)
(* (Helpers beyond spec/Rat.tla, which is shared and not edited.)                   *)
EXTENDS Rat, FiniteSets, FiniteSetsExt

FIXB == 1048576                                   \* 2^20
\* r can be converted without leaving 32 bits
FixJudgeable(r) == r[2] > 0 /\ r[2] < 2097152 /\ RAbsI(r[1]) < 1000 * r[2] /\ RAbsI(r[1]) < 1073741824
FixOf(r) ==
    LET den == r[2]
        I   == r[1] \div den                      \* floor
        r0  == r[1] - I * den
        d1  == (r0 * 1024) \div den
        r1  == r0 * 1024 - d1 * den
        d2  == (r1 * 1024) \div den
        r2  == r1 * 1024 - d2 * den
        d3  == (r2 * 1024) \div den
        r3  == r2 * 1024 - d3 * den
        d4  == (r3 * 1024) \div den
    IN  <<I * FIXB + d1 * 1024 + d2, d3 * 1024 + d4>>
\* |(h * 2^20 + l) - r * 2^40| <= tol   (h, l may be sums of several logged values)
FixClose(h, l, r, tol) ==
    LET e  == FixOf(r)
        dh == h - e[1]
    IN  /\ dh > -500 /\ dh < 500 /\ l < 536870912
        /\ dh * FIXB + (l - e[2]) <= tol
        /\ dh * FIXB + (l - e[2]) >= -tol
FixTol(k) == 16 + 2 * k                           \* units of 2^-40 for a sum of k logged values

\* sum of rationals over a finite set
RSumSet(f(_), S) == FoldSet(LAMBDA x, acc : RAdd(f(x), acc), RZero, S)
=============================================================================
