CONSTANTS
  SMAX = 3
  ZeroAbove = TRUE
  NCALLS = 3
INIT Init
NEXT Next
INVARIANT NoStaleRead
CHECK_DEADLOCK FALSE
