CONSTANTS
  N = 3
  Lazy = FALSE
INIT Init
NEXT Next
INVARIANTS JacobiInv GSInv Spai0Inv Spai1Inv ChebInv Ilu0Inv IlukInv IlupInv IlutInv
CHECK_DEADLOCK FALSE
