------------------------------ MODULE IluNumeric ------------------------------
(* The numeric side of amgcl's incomplete factorisations on exact rationals, and    *)
(* detail/ilu_solve.hpp (serial and level-scheduled triangular solves).             *)
(*   IluOnPattern  IKJ elimination restricted to a given pattern through "work      *)
(*                 pointers" (ilu0.hpp; ilup.hpp = the same on the pattern of       *)
(*                 A^(k+1) filled with zeros), the factors lose their exact zeros    *)
(*   IlukRun       iluk.hpp: pattern and values in one pass over a sparse working    *)
(*                 row.  Lazy = TRUE is the code as it was found: an entry is        *)
(*                 *created* only when a contribution of level <= k arrives, so      *)
(*                 contributions that arrived earlier with a higher level are lost   *)
(*                 although the entry ends up in the admitted pattern (IlukModel     *)
(*                 finds (LU)_ij # a_ij on 5x5; the real code reproduces it, see     *)
(*                 proposed_fixes/C06-iluk-lost-contributions.md).  Lazy = FALSE     *)
(*                 is Saad's ILU(k): every contribution is accumulated, entries of   *)
(*                 level > k are neither used as pivots nor stored.                  *)
(*   IlutRun       ilut.hpp with nothing dropped (tau = 0, p large): complete LU.    *)
(* Factors: [L, U: row -> [col -> value], D: row -> inverted pivot, zero: BOOLEAN].  *)
EXTENDS IluPattern, RatMat

EmptyFn == [c \in {} |-> RZero]
RestrictFn(f, S) == [c \in S |-> f[c]]

\* ---- ilu0.hpp on the pattern S (row -> set of columns, S[i] contains i)
IluRowOnPattern(A, S, st, i, dropzeros) ==
    LET w0   == [c \in S[i] |-> R(At(A, i, c))]
        low  == SetToSortSeq({c \in S[i] : c < i}, <)
        w    == FoldLeft(LAMBDA ww, c :
                    LET tl == QMul(ww[c], st.D[c])
                        w1 == [ww EXCEPT ![c] = tl]
                    IN  FoldLeft(LAMBDA w2, j : IF j \in DOMAIN w2 THEN [w2 EXCEPT ![j] = QSub(@, QMul(tl, st.U[c][j]))] ELSE w2,
                                 w1, SetToSortSeq(DOMAIN st.U[c], <)),
                 w0, low)
        keep(c) == ~dropzeros \/ ~IsZero(w[c])
    IN  IF IsZero(w[i]) THEN [st EXCEPT !.zero = TRUE]
        ELSE [L |-> [st.L EXCEPT ![i] = RestrictFn(w, {c \in S[i] : c < i /\ keep(c)})],
              U |-> [st.U EXCEPT ![i] = RestrictFn(w, {c \in S[i] : c > i /\ keep(c)})],
              D |-> [st.D EXCEPT ![i] = RInv(w[i])], zero |-> FALSE]
EmptyFactors(n) == [L |-> [i \in Idx(n) |-> EmptyFn], U |-> [i \in Idx(n) |-> EmptyFn], D |-> [i \in Idx(n) |-> ROne], zero |-> FALSE]
IluOnPattern(A, S, dropzeros) ==
    FoldLeft(LAMBDA st, i : IF st.zero THEN st ELSE IluRowOnPattern(A, S, st, i, dropzeros), EmptyFactors(A.n), Rng(0, A.n - 1))
Ilu0Run(A)    == IluOnPattern(A, PatternOf(A), TRUE)
IlupRun(A, k) == IluOnPattern(A, PowerPattern(A, k, A.n), TRUE)

\* ---- iluk.hpp: w = [col -> [val, lev]]
RECURSIVE IlukRow(_, _, _, _, _, _)
IlukRow(i, w, done, st, k, Lazy) ==
    LET todo == {c \in DOMAIN w : c < i /\ c \notin done}
    IN  IF todo = {} THEN w
        ELSE LET c == MinOf(todo)
             IN  IF ~Lazy /\ w[c].lev > k THEN IlukRow(i, w, done \cup {c}, st, k, Lazy)     \* repaired: not a pivot, dropped later
                 ELSE
                 LET av == QMul(w[c].val, st.D[c])
                     w1 == [w EXCEPT ![c].val = av]
                     upd(acc, j) ==
                         LET lev == (IF w[c].lev > st.Ulev[c][j] THEN w[c].lev ELSE st.Ulev[c][j]) + 1
                             v   == RNeg(QMul(av, st.U[c][j]))
                         IN  IF j \in DOMAIN acc
                             THEN [acc EXCEPT ![j] = [val |-> QAdd(@.val, v), lev |-> IF lev < @.lev THEN lev ELSE @.lev]]
                             ELSE IF ~Lazy \/ lev <= k
                             THEN [jj \in DOMAIN acc \cup {j} |-> IF jj = j THEN [val |-> v, lev |-> lev] ELSE acc[jj]]
                             ELSE acc
                     w2 == FoldLeft(upd, w1, SetToSortSeq(DOMAIN st.U[c], <))
                 IN  IlukRow(i, w2, done \cup {c}, st, k, Lazy)
IlukRun(A, k, Lazy) ==
    LET n  == A.n
        s0 == EmptyFactors(n) @@ [Ulev |-> [i \in Idx(n) |-> [c \in {} |-> 0]]]
    IN  FoldLeft(LAMBDA st, i :
            IF st.zero THEN st
            ELSE LET w0 == [c \in RowCols(A, i) |-> [val |-> R(At(A, i, c)), lev |-> 0]]
                     wa == IlukRow(i, w0, {}, st, k, Lazy)
                     w  == RestrictFn(wa, {c \in DOMAIN wa : wa[c].lev <= k})
                 IN  IF i \notin DOMAIN w \/ IsZero(w[i].val) THEN [st EXCEPT !.zero = TRUE]     \* the code divides by zero here
                     ELSE [L    |-> [st.L EXCEPT ![i] = [c \in {cc \in DOMAIN w : cc < i} |-> w[c].val]],
                           U    |-> [st.U EXCEPT ![i] = [c \in {cc \in DOMAIN w : cc > i} |-> w[c].val]],
                           Ulev |-> [st.Ulev EXCEPT ![i] = [c \in {cc \in DOMAIN w : cc > i} |-> w[c].lev]],
                           D    |-> [st.D EXCEPT ![i] = RInv(w[i].val)], zero |-> FALSE],
         s0, Rng(0, n - 1))

\* ---- ilut.hpp with tau = 0 and p >= n: no entry is dropped except exact zeros; complete LU
IlutRunNoDrop(A) == IluOnPattern(A, FullPattern(A), TRUE)

\* ------------------------------------------------------------ dense meaning of the factors
LDense(F, n) == [i \in Idx(n) |-> [j \in Idx(n) |-> IF j = i THEN ROne ELSE IF j \in DOMAIN F.L[i] THEN F.L[i][j] ELSE RZero]]
UDense(F, n) == [i \in Idx(n) |-> [j \in Idx(n) |-> IF j = i THEN RInv(F.D[i]) ELSE IF j \in DOMAIN F.U[i] THEN F.U[i][j] ELSE RZero]]
LUEntry(F, n, i, j) == QSumRange(LAMBDA c : QMul(LDense(F, n)[i][c], UDense(F, n)[c][j]), 0, n - 1)
FactorPattern(F, n) == [i \in Idx(n) |-> DOMAIN F.L[i] \cup DOMAIN F.U[i] \cup {i}]

\* (L U)_ij = a_ij on the admitted pattern S, and the factors live inside S
IluOK(A, S, F) ==
    LET n  == A.n
        Ld == LDense(F, n)
        Ud == UDense(F, n)
    IN  /\ PatSubset(FactorPattern(F, n), S, n)
        /\ \A i \in Idx(n) : \A j \in S[i] :
              QEq(QSumRange(LAMBDA c : QMul(Ld[i][c], Ud[c][j]), 0, n - 1), R(At(A, i, j)))
\* when the complete factors fit into S the factorisation is exact: L U = A everywhere
ExactWhenFits(A, S, F) ==
    LET n  == A.n
        Ld == LDense(F, n)
        Ud == UDense(F, n)
    IN  PatSubset(FullPattern(A), S, n) =>
            \A i \in Idx(n) : \A j \in Idx(n) : QEq(QSumRange(LAMBDA c : QMul(Ld[i][c], Ud[c][j]), 0, n - 1), R(At(A, i, j)))

\* ------------------------------------------------------------ detail/ilu_solve.hpp
RowDotF(row, x) == FoldLeft(LAMBDA acc, c : QAdd(acc, QMul(row[c], x[c])), RZero, SetToSortSeq(DOMAIN row, <))
SerialSolve(F, n, x0) ==
    LET y == FoldLeft(LAMBDA x, i : FoldLeft(LAMBDA xx, c : [xx EXCEPT ![i] = QSub(@, QMul(F.L[i][c], xx[c]))], x, SetToSortSeq(DOMAIN F.L[i], <)),
                      x0, Rng(0, n - 1))
    IN  FoldLeft(LAMBDA x, i :
            LET s == FoldLeft(LAMBDA acc, c : QSub(acc, QMul(F.U[i][c], x[c])), x[i], SetToSortSeq(DOMAIN F.U[i], <))
            IN  [x EXCEPT ![i] = QMul(F.D[i], s)],
         y, RngDown(n - 1, 0))
\* sptr_solve: level[i] = max(level[col] + 1) over the row, rows visited 0..n-1 (lower) / n-1..0 (upper)
SolveLevels(rows, n, lower) ==
    FoldLeft(LAMBDA lv, i : [lv EXCEPT ![i] = FoldLeft(LAMBDA l, c : IF lv[c] + 1 > l THEN lv[c] + 1 ELSE l, lv[i], SetToSortSeq(DOMAIN rows[i], <))],
             [i \in Idx(n) |-> 0], IF lower THEN Rng(0, n - 1) ELSE RngDown(n - 1, 0))
\* rows of one level never read what another row of the same level writes
LevelsIndependent(rows, lv, n) == \A i \in Idx(n) : \A c \in DOMAIN rows[i] : lv[c] < lv[i]
\* level after level; inside a level in ascending or descending row order (any interleaving
\* gives the same result once LevelsIndependent holds)
ParSolve(F, n, x0, desc) ==
    LET order(lv) == LET nl == MaxOf({lv[i] : i \in Idx(n)} \cup {0})
                     IN  FlattenSeq([l1 \in 1..(nl + 1) |->
                            LET rs == SetToSortSeq({i \in Idx(n) : lv[i] = l1 - 1}, <)
                            IN  IF desc THEN [k \in 1..Len(rs) |-> rs[Len(rs) - k + 1]] ELSE rs])
        y == FoldLeft(LAMBDA x, i : [x EXCEPT ![i] = QSub(@, RowDotF(F.L[i], x))], x0, order(SolveLevels(F.L, n, TRUE)))
    IN  FoldLeft(LAMBDA x, i : [x EXCEPT ![i] = QMul(F.D[i], QSub(@, RowDotF(F.U[i], x)))], y, order(SolveLevels(F.U, n, FALSE)))
ParallelEqualsSerial(F, n, x0) ==
    /\ LevelsIndependent(F.L, SolveLevels(F.L, n, TRUE), n) /\ LevelsIndependent(F.U, SolveLevels(F.U, n, FALSE), n)
    /\ VecEq(ParSolve(F, n, x0, FALSE), SerialSolve(F, n, x0), n) /\ VecEq(ParSolve(F, n, x0, TRUE), SerialSolve(F, n, x0), n)

\* one sweep / apply of every ILU class:  x + damping * (LU)^-1 (f - A x)
IluSweep(A, F, w, f, x) ==
    LET r == [i \in Idx(A.n) |-> QSub(f[i], FoldLeft(LAMBDA acc, p : QAdd(acc, QMul(R(A.val[p]), x[A.col[p]])), RZero, Rng(Ptr(A, i) + 1, Ptr(A, i + 1))))]
        t == SerialSolve(F, A.n, r)
    IN  [i \in Idx(A.n) |-> QAdd(QMul(w, t[i]), x[i])]
IluApply(F, n, f) == SerialSolve(F, n, f)
\* the factors as the splitting M = L U:  M (x1 - x) = w (f - A x)
IluSplitOK(A, F, w, f, x, x1) ==
    LET n  == A.n
        M  == MatMulR(LDense(F, n), UDense(F, n), n)
        dx == [i \in Idx(n) |-> QSub(x1[i], x[i])]
        r  == [i \in Idx(n) |-> QSub(f[i], FoldLeft(LAMBDA acc, p : QAdd(acc, QMul(R(A.val[p]), x[A.col[p]])), RZero, Rng(Ptr(A, i) + 1, Ptr(A, i + 1))))]
    IN  VecEq(MatVecR(M, dx, n), VScale(w, r, n), n)
=============================================================================
