------------------------------ MODULE X02Trace ------------------------------
(* Trace spec for X02 (extra coverage): coarsening::rigid_body_modes on recorded     *)
(* point clouds.  RigidBody.tla states what is required (the span); the recorder     *)
(* measures the rigid-motion identity in units of 2^-40 relative to |u| |x|.         *)
EXTENDS TraceKit
VARIABLES l, bad
Clauses(r) ==
    << <<"number-of-modes", r.nm = (IF r.ndim = 2 THEN 3 ELSE 6)>>,
       <<"finite", r.finite>>,
       <<"transposed-layout-holds-the-same-numbers", r.layout>>,
       <<"every-vector-is-a-rigid-body-motion", r.rigid <= 4096>>,
       <<"vectors-span-all-rigid-motions(general-position)", r.generic => r.rank = r.nm>> >>
Failed(r) == IF Has(r, "e") THEN (IF r.e = "End" THEN <<>> ELSE <<"recorder:" \o r.e>>) ELSE FailedOf(Clauses(r))
TInit == l = 1 /\ bad = <<>>
TNext == /\ l <= NLog /\ l' = l + 1
         /\ LET f == Failed(Log[l]) IN bad' = IF f = <<>> THEN bad ELSE Append(bad, <<l, f>>)
Verdict == (l = NLog + 1) => VerdictLine(l, bad)
=============================================================================
