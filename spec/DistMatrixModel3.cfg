CONSTANTS
  N = 3
  M = 3
  MinNP = 3
  MaxNP = 3
  SamePart = TRUE
  MaskStride = 64
  MaskOff = 5
INIT Init
NEXT Next
INVARIANTS SplitInv PatternInv GhostInv DistSpmvInv ScalarsInv NoErrInv LogInv
CHECK_DEADLOCK TRUE
