------------------------------- MODULE Skyline -------------------------------
(* amgcl/solver/skyline_lu.hpp transcribed on exact rationals: the profile (one     *)
(* height per row/column of the *permuted* pattern, explicit zeros skipped), the    *)
(* prefix sums, the scatter into L / U / D, Crout's factorisation with the index    *)
(* arithmetic of the code (iBeginCol, jBeginRow, jBeginMult, the i = 0 special      *)
(* case), the two solve loops, the un-permutation.  A zero pivot is the exception   *)
(* the code raises through precondition().  Arrays are functions on 0..len-1.       *)
EXTENDS RatMat

InvPerm(perm, n) == [i \in Idx(n) |-> (CHOOSE k \in 1..n : perm[k] = i) - 1]

\* entries of A as <<i, j, v>> in storage order
SkyEntries(A) == FlattenSeq([i1 \in 1..A.n |->
                    [k \in 1..RowLen(A, i1 - 1) |-> <<i1 - 1, A.col[Ptr(A, i1 - 1) + k], A.val[Ptr(A, i1 - 1) + k]>>]])

SkyHeights(A, perm) ==
    LET inv == InvPerm(perm, A.n)
    IN  FoldLeft(LAMBDA h, e :
                    LET ni == inv[e[1]]
                        nj == inv[e[2]]
                    IN  IF e[3] = 0 THEN h
                        ELSE IF ni > nj THEN (IF h[ni] < ni - nj THEN [h EXCEPT ![ni] = ni - nj] ELSE h)
                        ELSE IF ni < nj THEN (IF h[nj] < nj - ni THEN [h EXCEPT ![nj] = nj - ni] ELSE h)
                        ELSE h,
                 [i \in Idx(A.n) |-> 0], SkyEntries(A))

\* ptr[i] = ptr[i-1] + last; last = old ptr[i]   (i = 1..n, ptr[0] = height of row 0 = 0)
SkyPtr(h, n) ==
    LET P[i \in 0..n] == IF i = 0 THEN h[0] ELSE P[i - 1] + (IF i = 1 THEN 0 ELSE h[i - 1])
    IN  P

SkyBuild(A, perm) ==
    LET n   == A.n
        inv == InvPerm(perm, n)
        ptr == SkyPtr(SkyHeights(A, perm), n)
        nnz == ptr[n]
        st0 == [L |-> [k \in Idx(nnz) |-> RZero], U |-> [k \in Idx(nnz) |-> RZero], D |-> [i \in Idx(n) |-> RZero]]
        st  == FoldLeft(LAMBDA s, e :
                    LET ni == inv[e[1]]
                        nj == inv[e[2]]
                    IN  IF e[3] = 0 THEN s
                        ELSE IF ni < nj THEN [s EXCEPT !.U[ptr[nj + 1] + ni - nj] = R(e[3])]
                        ELSE IF ni = nj THEN [s EXCEPT !.D[ni] = R(e[3])]
                        ELSE [s EXCEPT !.L[ptr[ni + 1] + nj - ni] = R(e[3])],
                 st0, SkyEntries(A))
    IN  [n |-> n, ptr |-> ptr, L |-> st.L, U |-> st.U, D |-> st.D]

Max2(a, b) == IF a > b THEN a ELSE b

\* one k-step of factorize(); s = [L, U, D, zero]
SkyStep(ptr, s, k) ==
    LET iBeginCol == k + 1 - ptr[k + 2] + ptr[k + 1]
        \* A(1,k+1) inside the skyline?
        s0 == IF ptr[k + 1] + k + 1 = ptr[k + 2] THEN [s EXCEPT !.U[ptr[k + 1]] = RMul(s.D[0], s.U[ptr[k + 1]])] ELSE s
        \* column k+1 of U
        sU == FoldLeft(LAMBDA t, i :
                IF i = 0 THEN t
                ELSE LET ie         == ptr[k + 1] + (i - iBeginCol)
                         jBeginRow  == i - ptr[i + 1] + ptr[i]
                         jBeginMult == Max2(iBeginCol, jBeginRow)
                         sum == RSub(t.U[ie], RSumRange(LAMBDA j : RMul(t.L[ptr[i] + j - jBeginRow], t.U[ptr[k + 1] + j - iBeginCol]),
                                                        jBeginMult, i - 1))
                     IN  [t EXCEPT !.U[ie] = RMul(t.D[i], sum)],
                s0, Rng(iBeginCol, k))
        \* row k+1 of L
        sL == FoldLeft(LAMBDA t, i :
                IF i = 0 THEN t
                ELSE LET ie         == ptr[k + 1] + (i - iBeginCol)
                         jBeginCol  == i - ptr[i + 1] + ptr[i]
                         jBeginMult == Max2(jBeginCol, iBeginCol)
                         sum == RSub(t.L[ie], RSumRange(LAMBDA j : RMul(t.L[ptr[k + 1] + j - iBeginCol], t.U[ptr[i] + j - jBeginCol]),
                                                        jBeginMult, i - 1))
                     IN  [t EXCEPT !.L[ie] = sum],
                sU, Rng(iBeginCol, k))
        dsum == RSub(sL.D[k + 1], RSumRange(LAMBDA j : RMul(sL.L[j], sL.U[j]), ptr[k + 1], ptr[k + 2] - 1))
    IN  IF IsZero(dsum) THEN [sL EXCEPT !.zero = TRUE]
        ELSE [sL EXCEPT !.D[k + 1] = RInv(dsum)]

SkyFactorize(B) ==
    IF IsZero(B.D[0]) THEN [n |-> B.n, ptr |-> B.ptr, L |-> B.L, U |-> B.U, D |-> B.D, zero |-> TRUE]
    ELSE LET s0 == [L |-> B.L, U |-> B.U, D |-> [B.D EXCEPT ![0] = RInv(B.D[0])], zero |-> FALSE]
             s  == FoldLeft(LAMBDA t, k : IF t.zero THEN t ELSE SkyStep(B.ptr, t, k), s0, Rng(0, B.n - 2))
         IN  [n |-> B.n, ptr |-> B.ptr, L |-> s.L, U |-> s.U, D |-> s.D, zero |-> s.zero]

\* operator()(rhs, x)
SkySolve(F, perm, f) ==
    LET n   == F.n
        ptr == F.ptr
        y1  == FoldLeft(LAMBDA y, i :
                  LET sum == RSub(f[perm[i + 1]], RSumRange(LAMBDA k : RMul(F.L[k], y[i - ptr[i + 1] + k]), ptr[i], ptr[i + 1] - 1))
                  IN  [y EXCEPT ![i] = RMul(F.D[i], sum)],
               RZeroVec(n), Rng(0, n - 1))
        y2  == FoldLeft(LAMBDA y, j :
                  FoldLeft(LAMBDA z, k : LET i == j - ptr[j + 1] + k IN [z EXCEPT ![i] = RSub(z[i], RMul(F.U[k], z[j]))],
                           y, Rng(ptr[j], ptr[j + 1] - 1)),
               y1, RngDown(n - 1, 0))
    IN  [i \in Idx(n) |-> y2[InvPerm(perm, n)[i]]]          \* x[perm[i]] = y[i]

\* -> [zero, x, ptr]
SkyRun(A, perm, f) ==
    LET B == SkyBuild(A, perm)
        F == SkyFactorize(B)
    IN  [zero |-> F.zero, ptr |-> B.ptr, F |-> F, x |-> IF F.zero THEN RZeroVec(A.n) ELSE SkySolve(F, perm, f)]

\* ------------------------------------------------------------ predicates
\* every stored non-zero of the permuted matrix lies inside the profile
ProfileCovers(A, perm, ptr) ==
    LET inv == InvPerm(perm, A.n)
    IN  \A i \in Rows(A) : \A p \in RowPos(A, i) :
            LET ni == inv[i]
                nj == inv[A.col[p]]
                hi == ptr[Max2(ni, nj) + 1] - ptr[Max2(ni, nj)]
            IN  A.val[p] # 0 => (IF ni > nj THEN ni - nj ELSE nj - ni) <= hi
ProfileMonotone(ptr, n) == ptr[0] = 0 /\ \A i \in 0..(n - 1) : ptr[i] <= ptr[i + 1] /\ ptr[i + 1] - ptr[i] <= i

\* A x = f exactly
SkylineSolveOK(A, f, x) == \A i \in Idx(A.n) : IsZero(ResidualR(A, f, x)[i])

\* no pivoting is needed in the permuted order: every leading principal minor of the
\* permuted matrix is non-zero  <=>  elimination without exchanges never meets a zero pivot
RECURSIVE NoPivLU(_, _, _)
NoPivLU(M, n, c) ==
    IF c = n THEN TRUE
    ELSE IF IsZero(M[c][c]) THEN FALSE
    ELSE NoPivLU([i \in Idx(n) |-> IF i <= c THEN M[i]
                                    ELSE [j \in Idx(n) |-> RSub(M[i][j], RMul(RDiv(M[i][c], M[c][c]), M[c][j]))]], n, c + 1)
PermutedDense(A, perm) == LET D == DenseOf(A) IN [i \in Idx(A.n) |-> [j \in Idx(A.n) |-> D[perm[i + 1]][perm[j + 1]]]]
NeedsNoPivoting(A, perm) == NoPivLU(PermutedDense(A, perm), A.n, 0)
=============================================================================
