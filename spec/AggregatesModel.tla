-------------------------- MODULE AggregatesModel --------------------------
(* Exhaustive small-scope model of plain_aggregates: every pattern mask of          *)
(* CoPatterns (all digraphs on N nodes, or all symmetric graphs when Sym) x every   *)
(* value mode of Modes x every eps = 1/d, d in EpsDens, is pushed through the transcribed      *)
(* greedy aggregation, one outer-loop iteration per step, then vanish-and-renumber. *)
(* Invariants = the input/output predicates that C04Trace evaluates on what the     *)
(* real code returned, plus type/progress invariants of the intermediate states.    *)
EXTENDS Aggregates, CoPatterns, TLC

CONSTANTS N, Sym, Modes, EpsDens        \* eps_strong = 1/d for d in EpsDens
VARIABLES A, eps, S, pc, i, st
vars == <<A, eps, S, pc, i, st>>

\* Init only picks the case (TLC enumerates initial states serially); Gen builds it
Init == /\ A \in CoMasks(N, Sym) \X Modes
        /\ \E d \in EpsDens : eps = <<1, d>>
        /\ S = <<>> /\ pc = "gen" /\ i = 0 /\ st = <<>>
Gen  == /\ pc = "gen" /\ pc' = "seed"
        /\ A' = CoMat(N, Sym, A[1], A[2])
        /\ S' = StrongFlags(A', eps)
        /\ st' = AggInit(A', S')
        /\ UNCHANGED <<eps, i>>

Seed   == pc = "seed" /\ i < N /\ st' = AggSeed(A, S, st, i) /\ i' = i + 1 /\ UNCHANGED <<A, eps, S, pc>>
Finish == pc = "seed" /\ i = N /\ st' = AggFinish(A, S, st) /\ pc' = "done" /\ UNCHANGED <<A, eps, S, i>>
Next == Gen \/ Seed \/ Finish

\* intermediate states: ids are removed / undefined / an aggregate created so far; the rows
\* already visited are decided; removed <=> no strong neighbour
TypeInv == pc = "seed" =>
    /\ \A k \in Rows(A) : st.id[k] \in {Removed, Undefined} \cup (0 .. (st.count - 1))
    /\ \A k \in Rows(A) : (st.id[k] = Removed) = ~HasStrong(A, S, k)
    /\ \A k \in 0..(i - 1) : st.id[k] # Undefined
PartitionInv == pc = "done" =>
    /\ EmptyOK(A, eps, st.empty)
    /\ ~st.empty => PartitionOK(A, eps, st.id, st.count)
FlagsInv == pc = "done" => StrongFlagsOK(A, eps, st.strong)
RunInv == pc = "done" => st = AggRun(A, eps)
\* symmetric values => symmetric strength (what makes the RowSumOne clause of SA applicable)
SymInv == (pc = "done" /\ Sym) =>
    \A r \in Rows(A) : \A p \in RowPos(A, r) : S[p] => \E q \in RowPos(A, A.col[p]) : A.col[q] = r /\ S[q]
=============================================================================
