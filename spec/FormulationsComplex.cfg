CONSTANTS
  R = 3
  C = 3
  B = 1
  KIND = "complex"
  STEP = 1
INIT Init
NEXT NextComplex
INVARIANTS ComplexInv
CHECK_DEADLOCK FALSE
