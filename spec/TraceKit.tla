---------------------------- MODULE TraceKit ----------------------------
(* Shared trace-validation machinery.  A trace is an ndjson file (env TRACE) of      *)
(* integer-only records written by a recorder that executed the real amgcl code.    *)
(* A trace spec EXTENDS TraceKit, defines  Failed(r)  (the sequence of names of the *)
(* property clauses that are FALSE on record r; <<>> = accepted) and uses           *)
(* TKInit / TKNext / TKVerdict:  one step per recorded line, `bad` accumulates the  *)
(* rejected lines, the verdict is printed when the whole trace has been consumed.   *)
EXTENDS Json, IOUtils, TLC, Sequences, Naturals, Integers

Log  == ndJsonDeserialize(IOEnv.TRACE)
NLog == Len(Log)

Has(r, f) == f \in DOMAIN r

\* names of the clauses (pairs <<name, bool>>) that are FALSE
FailedOf(clauses) ==
    LET bad == SelectSeq(clauses, LAMBDA c : ~c[2])
    IN  [k \in 1..Len(bad) |-> bad[k][1]]

VerdictLine(l, bad) ==
    PrintT("VERDICT " \o ToJson([total |-> NLog, consumed |-> l - 1, bad |-> bad]))
=============================================================================
