CONSTANTS
  N = 4
  Sym = FALSE
  Modes = {0, 1, 2, 3, 4, 5, 6, 7, 8, 9, 10, 11, 12, 13, 14, 15, 16, 17, 18, 19, 20, 21, 22, 23}
  EpsDens = {4, 2}
  OmegaCodes = {12, 23}
  BS = 1
  LiftBug = FALSE
INIT Init
NEXT Next
INVARIANTS TentInv SmoothedInv RowSumInv KronInv
CHECK_DEADLOCK FALSE
