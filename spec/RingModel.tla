----------------------------- MODULE RingModel -----------------------------
(* Every push/clear history of a circular buffer up to MaxSteps calls; the ghost    *)
(* `pushed` (values pushed since the last clear) states what the window must be.    *)
EXTENDS Ring, TLC
CONSTANTS Caps, MaxSteps
VARIABLES st, pushed, hist, n
vars == <<st, pushed, hist, n>>
Init == \E c \in Caps : st = R0(c) /\ pushed = <<>> /\ hist = <<"cap:" \o ToString(c)>> /\ n = 0
Push  == st' = RPush(st, n + 1) /\ pushed' = Append(pushed, n + 1) /\ n' = n + 1 /\ hist' = Append(hist, "push")
Clear == st' = RClear(st) /\ pushed' = <<>> /\ UNCHANGED n /\ hist' = Append(hist, "clear")
Next == Len(hist) <= MaxSteps /\ (Push \/ Clear)
Spec == Init /\ [][Next]_vars
Window == WindowOK(st, pushed)
EmitHistories == (Len(hist) = MaxSteps + 1) => PrintT("HIST " \o ToString(hist))
=============================================================================
