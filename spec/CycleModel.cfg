CONSTANTS
  MaxLevels = 3
  SkipClear = FALSE
SPECIFICATION Spec
INVARIANTS NoStaleRead ResultDefined SymmetryTheorem RhsUntouched
PROPERTY Terminates
CHECK_DEADLOCK FALSE
