------------------------------ MODULE C07Trace ------------------------------
(* Trace spec for C07: every recorded call of a real amgcl backend primitive         *)
(* (harness/record_prims.cpp) is judged against the defining formula of VecPrims.tla *)
(* recomputed exactly by TLC on the recorded integer inputs.  Poison (NaN / Inf in   *)
(* an output whose coefficient is zero) arrives as the p-flags of the vectors.       *)
EXTENDS TraceKit, VecPrims

VARIABLES l, bad

KOf(r) == [b |-> r.b, cx |-> r.cx]

\* well-formedness of the recorded operands for each primitive
WF(r) ==
    LET K == KOf(r)
    IN  CASE r.op = "axpby"    -> VecWF(K, r.x) /\ VecWF(K, r.y) /\ VecWF(K, r.out) /\ r.y.n = r.x.n
          [] r.op = "axpbypcz" -> VecWF(K, r.x) /\ VecWF(K, r.y) /\ VecWF(K, r.z) /\ VecWF(K, r.out) /\ r.y.n = r.x.n /\ r.z.n = r.x.n
          [] r.op = "vmul"     -> MVecWF(K, r.x) /\ VecWF(K, r.y) /\ VecWF(K, r.z) /\ VecWF(K, r.out) /\ r.y.n = r.x.n /\ r.z.n = r.x.n
          [] r.op = "copy"     -> VecWF(K, r.x) /\ VecWF(K, r.out)
          [] r.op = "clear"    -> VecWF(K, r.y) /\ VecWF(K, r.out)
          [] r.op = "inner"    -> VecWF(K, r.x) /\ VecWF(K, r.y) /\ r.y.n = r.x.n /\ Len(r.out) = 2
          [] r.op = "lincomb"  -> VecWF(K, r.y) /\ VecWF(K, r.out) /\ Len(r.cs) = Len(r.vs) /\ Len(r.cs) >= 1
                                  /\ \A k \in 1..Len(r.vs) : VecWF(K, r.vs[k]) /\ r.vs[k].n = r.y.n
          [] r.op = "spmv"     -> MatWF(K, r.A) /\ VecWF(K, r.x) /\ VecWF(K, r.y) /\ VecWF(K, r.out) /\ r.x.n = r.A.m /\ r.y.n = r.A.n
          [] r.op = "residual" -> MatWF(K, r.A) /\ VecWF(K, r.x) /\ VecWF(K, r.f) /\ VecWF(K, r.out) /\ r.x.n = r.A.m /\ r.f.n = r.A.n
          [] OTHER -> FALSE

DefOf(r) ==
    LET K == KOf(r)
    IN  CASE r.op = "axpby"    -> DefAxpby(K, Coef(r.a), PVec(K, r.x), Coef(r.bb), PVec(K, r.y))
          [] r.op = "axpbypcz" -> DefAxpbypcz(K, Coef(r.a), PVec(K, r.x), Coef(r.bb), PVec(K, r.y), Coef(r.c), PVec(K, r.z))
          [] r.op = "vmul"     -> DefVmul(K, Coef(r.a), PMVec(K, r.x), PVec(K, r.y), Coef(r.bb), PVec(K, r.z))
          [] r.op = "copy"     -> DefCopy(K, PVec(K, r.x))
          [] r.op = "clear"    -> DefClear(K, r.y.n)
          [] r.op = "lincomb"  -> DefLinComb(K, [k \in 1..Len(r.cs) |-> Coef(r.cs[k])], [k \in 1..Len(r.vs) |-> PVec(K, r.vs[k])],
                                             Coef(r.alpha), PVec(K, r.y))
          [] r.op = "spmv"     -> DefSpmv(K, Coef(r.a), r.A, PVec(K, r.x), Coef(r.bb), PVec(K, r.y))
          [] r.op = "residual" -> DefResidual(K, PVec(K, r.f), r.A, PVec(K, r.x))

\* ---- value-type operations of block values (math::adjoint / zero / is_zero / norm / identity / inverse), N x M blocks,
\*      row-major flat arrays; the inverse is taken of a unimodular integer block, so it is an integer block again
MAt(K, arr, ncols, i, j) == Sc(K, arr, (i - 1) * ncols + j)
ValueOpsClauses(r) ==
    LET K  == KOf(r)
        N  == r.b
        M  == r.c
        sq == Has(r, "id")
        wf == /\ Len(r.m) = N * M * SW(K) /\ Len(r.adj) = N * M * SW(K) /\ Len(r.zero) = N * M * SW(K)
              /\ (sq => (N = M /\ Len(r.id) = N * N * SW(K) /\ Len(r.u) = N * N * SW(K) /\ Len(r.inv) = N * N * SW(K)))
    IN  IF ~wf THEN << <<"wellformed", FALSE>> >>
        ELSE << <<"adjoint = conjugate transpose", \A i \in 1..N, j \in 1..M : MAt(K, r.adj, N, j, i) = SConj(MAt(K, r.m, M, i, j))>>,
                <<"zero / is_zero", /\ \A e \in 1..(N * M) : Sc(K, r.zero, e) = SZero
                                    /\ r.zero_is_zero /\ (r.m_is_zero <=> \A e \in 1..(N * M) : Sc(K, r.m, e) = SZero)>>,
                <<"norm = Frobenius norm", r.norm2 = SSum([e \in 1..(N * M) |-> LET v == Sc(K, r.m, e) IN <<v[1] * v[1] + v[2] * v[2], 0>>])[1]>>,
                <<"identity", sq => \A i \in 1..N, j \in 1..N : MAt(K, r.id, N, i, j) = (IF i = j THEN SOne ELSE SZero)>>,
                <<"inverse: u * inverse(u) = identity", sq => \A i \in 1..N, j \in 1..N :
                       SSum([k \in 1..N |-> SMul(MAt(K, r.u, N, i, k), MAt(K, r.inv, N, k, j))]) = (IF i = j THEN SOne ELSE SZero)>> >>

Clauses(r) ==
    LET K  == KOf(r)
        wf == r.op = "valueops" \/ WF(r)
    IN  IF r.op = "valueops" THEN ValueOpsClauses(r)
        ELSE IF ~wf THEN << <<"wellformed", FALSE>> >>
        ELSE IF r.op = "inner"
        THEN << <<"inner_product=definition(conjugate-linear in 2nd argument)",
                  <<r.out[1], r.out[2]>> = DefInner(K, PVec(K, r.x), PVec(K, r.y))>> >>
        ELSE LET def == DefOf(r)
                 res == PVec(K, r.out)
             IN  << <<"poison-not-read(output finite where the formula is)", FiniteOK(def, res)>>,
                    <<r.op \o "=definition", ValueOK(def, res)>> >>

Failed(r) == IF Has(r, "e") THEN (IF r.e = "End" THEN <<>> ELSE <<"recorder:" \o r.e>>)
             ELSE IF Has(r, "exc") THEN <<"exception">>
             ELSE FailedOf(Clauses(r))

TInit == l = 1 /\ bad = <<>>
TNext == /\ l <= NLog /\ l' = l + 1
         /\ LET f == Failed(Log[l])
            IN  bad' = IF f = <<>> THEN bad ELSE Append(bad, <<l, f>>)
Verdict == (l = NLog + 1) => VerdictLine(l, bad)
=============================================================================
