CONSTANTS
  MinNP = 1
  MaxNP = 3
  MaxLoc = 2
SPECIFICATION Spec
INVARIANTS Correct NoDeadlock
PROPERTY Terminates
CHECK_DEADLOCK FALSE
