------------------------------ MODULE BinModel ------------------------------
(* Exhaustive small-scope model of the binary formats: every NR x NC pattern (rows  *)
(* listed backwards, so that the trailing sort matters) written with the field      *)
(* widths Widths, truncated at every byte class (start / middle / last byte of      *)
(* every field) or with one field turned into another value class, then read back   *)
(* in full and for every row range by the transcribed read_crs / read_dense.        *)
EXTENDS BinaryIO, Patterns

CONSTANTS NR, NC
VARIABLES base, flt, file, out

Widths == { [S |-> 8, P |-> 8, C |-> 8, V |-> 8], [S |-> 8, P |-> 4, C |-> 4, V |-> 8], [S |-> 4, P |-> 8, C |-> 4, V |-> 16] }
Bases == [v : {"crs"}, mask : Masks(NR, NC), sz : Widths] \cup
         [v : {"dense"}, mask : {k \in Masks(NR, NC) : k % 5 = 1}, sz : Widths]
MatOf(b)  == MkCrs(NR, NC, b.mask, 0, TRUE)
DataOf(b) == [q \in 1..(NR * NC) |-> IF Bit(b.mask, q - 1) THEN q ELSE 0]
FileOf(b) == IF b.v = "crs" THEN BinWriteCrs(MatOf(b), b.sz) ELSE BinWriteDense(NR, NC, DataOf(b), b.sz)

\* truncation points: for every field its first byte, a middle byte, its last byte gone
Fs(f) == FieldsOf(f)
Off(f, q) == FieldOffset(f, Fs(f)[q][1], Fs(f)[q][2])
Wd(f, q)  == FieldWidth(f, Fs(f)[q][1])
CutPoints(f) == UNION {{Off(f, q), Off(f, q) + Wd(f, q) \div 2, Off(f, q) + Wd(f, q) - 1} : q \in 1..Len(Fs(f))}
Classes(name) == IF name \in {"n", "m"} THEN {"dec", "inc", "big", "negbig", "hugepos"}
                 ELSE IF name = "ptr" THEN {"dec", "inc", "big", "negbig"}
                 ELSE IF name = "col" THEN {"other", "big", "negbig"} ELSE {"other"}
Mut(v, c) == CASE c = "dec" -> v - 1 [] c = "inc" -> v + 1 [] c = "big" -> v + 200 [] c = "negbig" -> v - 1048576
               [] c = "hugepos" -> v + 1048576 [] OTHER -> v + 3
FaultsOf(f) == {[k |-> "none", at |-> 0, cls |-> ""]} \cup
               {[k |-> "trunc", at |-> p, cls |-> ""] : p \in CutPoints(f)} \cup
               UNION {{[k |-> "field", at |-> q, cls |-> c] : c \in Classes(Fs(f)[q][1])} : q \in 1..Len(Fs(f))}
Apply(f, x) == CASE x.k = "trunc" -> [f EXCEPT !.len = x.at]
                 [] x.k = "field" ->
                        LET nm == Fs(f)[x.at][1]
                            k  == Fs(f)[x.at][2]
                        IN  CASE nm = "n"   -> [f EXCEPT !.n = Mut(@, x.cls)]
                              [] nm = "m"   -> [f EXCEPT !.m = Mut(@, x.cls)]
                              [] nm = "ptr" -> [f EXCEPT !.ptr[k] = Mut(@, x.cls)]
                              [] nm = "col" -> [f EXCEPT !.col[k] = Mut(@, x.cls)]
                              [] OTHER      -> [f EXCEPT !.val[k] = Mut(@, x.cls)]
                 [] OTHER -> f
Dense == base.v = "dense"
Read(f, rb, re) == IF Dense THEN ReadDense(f, rb, re) ELSE ReadCrs(f, rb, re)

Init == /\ base \in Bases /\ flt \in FaultsOf(FileOf(base))
        /\ file = Apply(FileOf(base), flt) /\ out = [st |-> "none"]
Next == out.st = "none" /\ out' = Read(file, -1, -1) /\ UNCHANGED <<base, flt, file>>

Fact == [short |-> flt.k = "trunc"]
FaultInv == out.st # "none" => BinFaultOutcomeOK(Fact, Dense, out)
RoundTripInv == (out.st # "none" /\ flt.k = "none") =>
                    IF Dense THEN BinDenseRoundTripOK(NR, NC, DataOf(base), out) ELSE BinRoundTripOK(MatOf(base), out)
SliceInv == out.st # "none" =>
              \A rb \in 0..NR : \A re \in rb..NR :
                 /\ BinSliceOK(Dense, out, Read(file, rb, re), rb, re)
                 /\ BinFaultOutcomeOK([short |-> FALSE], Dense, Read(file, rb, re))
SizeInv == (out.st # "none" /\ flt.k = "none" /\ ~Dense) => CrsSize(file) = [st |-> "ok", n |-> NR]
=============================================================================
