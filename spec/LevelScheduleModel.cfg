CONSTANTS
  N = 3
  NT = 4
  Forward = TRUE
  AntiDep = TRUE
  Sym = FALSE
  Mode = "gs"
INIT Init
NEXT Next
INVARIANTS SerialEquivalent StaticOK Complete
CHECK_DEADLOCK FALSE
