----------------------------- MODULE Patterns -----------------------------
(* Bitmask encoding of small sparse matrices shared with harness/vrec.hpp          *)
(* (mk_pattern / pat_val): bit (i*c + j) of mask <=> entry (i,j) is stored; the    *)
(* stored value is PatVal(i,j,salt) in {-1,1,2}; rev lists every row in            *)
(* descending column order (an unsorted-row input).                                *)
EXTENDS Crs

Pow2(k) == 2 ^ k
Bit(mask, k) == (mask \div Pow2(k)) % 2 = 1
PatVal(i, j, salt) == LET k == (i * 5 + j * 3 + salt) % 3
                      IN  IF k = 0 THEN -1 ELSE IF k = 1 THEN 1 ELSE 2

PatRow(r, c, mask, salt, rev, i) ==
    LET js  == [jj \in 1..c |-> IF rev THEN c - jj ELSE jj - 1]
        on  == SelectSeq(js, LAMBDA j : Bit(mask, i * c + j))
    IN  [k \in 1..Len(on) |-> <<on[k], PatVal(i, on[k], salt)>>]

MkCrs(r, c, mask, salt, rev) ==
    FromRows(r, c, [i \in 1..r |-> PatRow(r, c, mask, salt, rev, i - 1)])

Masks(r, c) == 0 .. (Pow2(r * c) - 1)
\* masks with a full diagonal (square)
HasDiag(n, mask) == \A i \in 0..(n - 1) : Bit(mask, i * n + i)
\* symmetric pattern (square)
SymPat(n, mask) == \A i, j \in 0..(n - 1) : Bit(mask, i * n + j) = Bit(mask, j * n + i)
=============================================================================
