------------------------- MODULE FormulationsModel -------------------------
(* Exact part of C13: the block formulation and the real-equivalent complex           *)
(* formulation represent the same operator as the scalar / complex matrix.            *)
(*   kind = "block":   every R x C scalar pattern with sorted rows through the        *)
(*                     transcribed block_matrix row iterator (k-way merge over B      *)
(*                     scalar rows) and back through unblock_matrix                   *)
(*   kind = "complex": every R x C pattern with Gaussian-integer values through the   *)
(*                     transcribed complex adapter; the real product of the           *)
(*                     interleaved vector is the interleaved complex product          *)
EXTENDS Adapters, Patterns, TLC

CONSTANTS R, C, B, KIND, STEP      \* STEP = 1: every pattern; STEP > 1: every STEP-th mask (quick-tier sample of the big spaces)
VARIABLES mask, pc, out
vars == <<mask, pc, out>>

A == MkCrs(R, C, mask, 0, FALSE)                                 \* sorted rows (the adapter's documented requirement)
\* Gaussian-integer values for the complex case
Ac == LET P == MkCrs(R, C, mask, 0, FALSE) IN [P EXCEPT !.val = [p \in 1..NNZ(P) |-> <<P.val[p], PatVal(p, P.col[p], 1)>>]]

Init == mask \in {m \in Masks(R, C) : m % STEP = 0} /\ pc = "in" /\ out = <<>>
\* one step: the block matrix produced by the adapter and the scalar matrix unblock_matrix makes of it
Block   == KIND = "block"   /\ pc = "in" /\ pc' = "block"
           /\ LET Bm == Materialize(BlockView(A, B)) IN out' = [blk |-> Bm, unb |-> UnblockRun(Bm, B)]
           /\ UNCHANGED mask
Complex == KIND = "complex" /\ pc = "in" /\ pc' = "complex" /\ out' = Materialize(ComplexView(Ac)) /\ UNCHANGED mask
NextBlock   == Block                      \* FormulationsModel.cfg
NextComplex == Complex                    \* FormulationsComplex.cfg

\* block entries in place (i mod b, j mod b), structurally incomplete blocks zero-filled, no block twice
BlockInv   == pc = "block" => /\ BlockOK(A, B, out.blk)
                              /\ \A i \in 0..(out.blk.n - 1) : \A p \in RowPos(out.blk, i) : (p + 1) \in RowPos(out.blk, i) => out.blk.col[p] < out.blk.col[p + 1]
UnblockInv == pc = "block" => WellFormed(out.unb) /\ SameOperator(out.unb, A) /\ out.unb.n = R /\ out.unb.m = C
\* complex-equivalent matrix = definition, and it acts on interleaved vectors like the complex matrix acts on complex ones
Z  == [j \in 1..C |-> <<j - 2, 3 - j * j>>]
CMulG(u, v) == <<u[1] * v[1] - u[2] * v[2], u[1] * v[2] + u[2] * v[1]>>
CAz == [i \in 1..R |-> LET ps == RowPos(Ac, i - 1)
                       IN  <<MapThenSumSet(LAMBDA p : CMulG(Ac.val[p], Z[Ac.col[p] + 1])[1], ps),
                             MapThenSumSet(LAMBDA p : CMulG(Ac.val[p], Z[Ac.col[p] + 1])[2], ps)>>]
ReIm(z) == FlattenSeq([j \in 1..Len(z) |-> <<z[j][1], z[j][2]>>])
ComplexInv == pc = "complex" => /\ ComplexOK(Ac, out) /\ NNZ(out) = 4 * NNZ(Ac)
                                /\ SpmvDef(out, ReIm(Z)) = ReIm(CAz)
=============================================================================
