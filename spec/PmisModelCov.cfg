CONSTANTS
  NN = 3
  MinNP = 1
  MaxNP = 3
  Sym = TRUE
SPECIFICATION Spec
INVARIANTS GlobalPartitionInv ClosedFormInv CountInv GhostStateInv
PROPERTY Termination
CHECK_DEADLOCK TRUE
