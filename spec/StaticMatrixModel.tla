-------------------------- MODULE StaticMatrixModel --------------------------
(* Ring identities of static_matrix arithmetic on all 2 x 2 integer blocks with     *)
(* small entries (sets VA, VB, VC below).                                                 *)
EXTENDS StaticMatrix, TLC
CONSTANTS Wide                \* FALSE: a over {-1,0,2}, b over {-1,2}, c over {-1,1};  TRUE: a, b, c over {-1,0,2}
VA == {-1, 0, 2}
VB == IF Wide THEN {-1, 0, 2} ELSE {-1, 2}
VC == IF Wide THEN {-1, 0, 2} ELSE {-1, 1}
VARIABLES a, b, c, pc
Init == a \in [1..4 -> VA] /\ b = <<>> /\ c = <<>> /\ pc = "in"
Next == pc = "in" /\ pc' = "ops" /\ b' \in [1..4 -> VB] /\ c' \in [1..4 -> VC] /\ UNCHANGED a
RingInv == pc = "ops" => RingOK(a, b, c, 3, 2) /\ RingOK(c, a, b, -2, 2)
=============================================================================
