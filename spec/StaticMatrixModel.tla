-------------------------- MODULE StaticMatrixModel --------------------------
(* Ring identities of static_matrix arithmetic on all 2 x 2 integer blocks with     *)
(* small entries (sets VA, VB, VC below).                                                 *)
EXTENDS StaticMatrix, TLC
CONSTANTS Wide                \* FALSE: a over {-1,0,2}, b over {-1,2}, c over {-1,1};  TRUE: a, b, c over {-1,0,2}
VA == {-1, 0, 2}
VB == IF Wide THEN {-1, 0, 2} ELSE {-1, 2}
VC == IF Wide THEN {-1, 0, 2} ELSE {-1, 1}
VARIABLES a, b, c, pc
Init == a \in [1..4 -> VA] /\ b = <<>> /\ c = <<>> /\ pc = "in"
Next == pc = "in" /\ pc' = "ops" /\ b' \in [1..4 -> VB] /\ c' \in [1..4 -> VC] /\ UNCHANGED a
\* complex blocks built from the integer ones (a + i b, b + i c): the adjoint is the conjugate transpose
CplxInv == pc = "ops" =>
    LET X == CPairs(a, b)
        Y == CPairs(b, c)
        u == <<X[1], Y[2]>>
        v == <<Y[3], X[4]>>
    IN  CAdjointOK(X, Y, u, v, 2, 2, 2) /\ CAdjointOK(u, <<Y[1]>>, <<X[2]>>, v, 2, 1, 1)
RingInv == pc = "ops" => RingOK(a, b, c, 3, 2) /\ RingOK(c, a, b, -2, 2)
=============================================================================
