------------------------------ MODULE C01Trace ------------------------------
(* Trace spec for C01: every solve recorded by harness/record_solve.cpp through the  *)
(* run-time interface is judged by the predicates of KrylovRet, which are the        *)
(* invariants of the control model KrylovCtl at pc = "Return", plus the class-O      *)
(* truthfulness clauses on the independently recomputed residual.                    *)
(* Residuals are millidecades, md(v) = round(1000 log10 v), clamped to -40000:       *)
(*   rep  reported relative residual            tol  requested tolerance             *)
(*   tru  ||f - A x|| / ||f|| (left: ||P (f - A x)|| / ||f||) recomputed in long double *)
(*   dev  |rep - tru|                                                                *)
(*   flo  rounding floor  eps * || |A||x| + |f| || / ||f||  (times ||P|| est. on the left) *)
EXTENDS TraceKit, KrylovRet

(* Calibration (30 seeds x 289 sampled solves on the unchanged tree, see docs/C01.md):   *)
(*   solvers that recompute the residual (gmres, fgmres, lgmres, richardson):            *)
(*       dev <= flo - 1139 millidecades always              -> SlackNew = 0   (13x margin) *)
(*   recursive residual (cg, bicgstab, bicgstabl, idrs), symmetric families:             *)
(*       dev <= flo + 4271 (BiCGStab(2), ILU(k), graph M-matrix) -> SlackRec = 5500 (17x)  *)
(*   recursive residual on the non-symmetric convection families: the gap between the    *)
(*       recurrence and f - A x is not bounded by anything observable (up to 10^15.6 x   *)
(*       floor: IDR(s)/BiCGStab(L) with a diverging hierarchy report 1e-11 at a true     *)
(*       residual of 1e+14); these solves are held to budget / exit / work only.         *)
CONSTANTS RelMd,        \* relative agreement demanded well above the floor
          SlackRec,     \* slack over the floor, solvers with recursively updated residual
          SlackNew,     \* slack over the floor, solvers that recompute the residual from x
          TolSlack,     \* rep <= tol  =>  tru <= tol + TolSlack (or the floor)
          RateBand,     \* Richardson: |observed - reference| reduction over 4 steps
          DivergeBand   \* Richardson on spd_m: growth of the residual from step 8 to step 40 that counts as divergence

VARIABLES l, bad

Max(a, b) == IF a > b THEN a ELSE b
AbsI(a)   == IF a < 0 THEN -a ELSE a
Slack(r)  == IF r.solver \in Recursive THEN SlackRec ELSE SlackNew
NonSym    == {"convdiff", "convdiff_strong"}

WfRet(r) == /\ \A f \in {"mode", "fam", "solver", "side", "par", "opt", "maxit", "tol", "dflt", "coars", "relax"} : Has(r, f)
            /\ r.solver \in AllSolvers /\ r.side \in {"left", "right"} /\ r.par >= 1
Done(r)  == Has(r, "it") /\ Has(r, "nP") /\ Has(r, "zero") /\ Has(r, "nan")
Judged(r) == Done(r) /\ r.nan = 0 /\ Has(r, "rep") /\ Has(r, "tru") /\ Has(r, "dev") /\ Has(r, "flo")

Conv(r)     == r.rep <= r.tol + 1          \* one millidecade of quantisation
TruthJudged(r) == ~(r.solver \in Recursive /\ r.fam \in NonSym)
Reliable(r) == r.solver = "bicgstabl" /\ r.opt = 1

RetClauses(r) ==
    LET wf == WfRet(r)
        dn == wf /\ Done(r)
        jd == wf /\ Judged(r)
        zr == dn /\ r.zero = 1
        promised == wf /\ r.dflt = 1 /\ r.solver # "richardson"
    IN  <<  <<"wellformed", wf>>,
            \* a C++ exception (amgcl::precondition: breakdown, zero pivot, ...) is a clean failure and
            \* not a return; it is tolerated on sampled configurations only
            <<"no-exception", wf /\ (Has(r, "exc") => (r.mode = "solve" /\ ~promised))>>,
            \* NaN / Inf in the result: tolerated only as divergence on the non-symmetric families
            <<"finite", (dn /\ r.nan = 1) => (r.mode = "solve" /\ r.fam \in NonSym)>>,
            <<"budget", dn => BudgetOK(r.solver, r.par, r.it, r.maxit)>>,
            <<"zero-rhs", zr => (r.it = 0 /\ r.nP = 0 /\ r.xz = 1)>>,
            <<"exit-reason", jd => ExitOK(r.zero = 1, Conv(r), r.it, r.maxit)>>,
            <<"iterations-account-for-work", (jd /\ r.zero = 0) =>
                    WorkOK(r.solver, r.side, r.par, Reliable(r), r.it, r.nP, Conv(r))>>,
            <<"below-tol-is-solved", (jd /\ r.zero = 0 /\ TruthJudged(r) /\ r.rep <= r.tol) =>
                    r.tru <= Max(r.tol + TolSlack, r.flo + Slack(r))>>,
            <<"reported=true-residual", (jd /\ TruthJudged(r)) => r.dev <= Max(r.tru - RelMd, r.flo + Slack(r))>>,
            <<"spd-default-converges", promised => (jd /\ r.it < 100 /\ r.rep <= -8000)>>,
            \* dflt = 2 (modes restart, cyc; family spd_m, contrast <= 10): restarted methods with small restart
            \* lengths over many cycles (fresh and reused object) and cycles without pre-smoothing (npre = 0 with
            \* ncycle / pre_cycles in {2,3}) converge within the budget
            \* mode scale: the same system with the right-hand side multiplied by a power of two (exact in binary
            \* floating point): same iteration count and same reported relative residual as at scale 2^0; the
            \* zero-rhs shortcut is taken only below the library's own threshold ||f|| < 2 eps (flag `zero`)
            <<"scale-invariant", (jd /\ r.mode = "scale" /\ Has(r, "it0") /\ r.it0 >= 0 /\ r.zero = 0) =>
                    (r.it = r.it0 /\ AbsI(r.rep - r.rep0) <= 1)>>,
            <<"converges-within-budget", (wf /\ r.dflt = 2) => (jd /\ r.it < r.maxit /\ r.rep <= r.tol)>> >>

\* Richardson on spd_m: the per-step reduction is the contraction of the cycle (compared
\* while the residual is above 1e-11, i.e. clear of the rounding floor)
RateClauses(r) ==
    LET wf == Has(r, "ok") /\ (r.ok = 1 => \A f \in {"obs12", "obs23", "ref12", "ref23", "r8", "r12"} : Has(r, f))
    IN  <<  <<"rate-wellformed", wf /\ ~Has(r, "exc")>>,
            <<"richardson-rate=cycle-contraction", (wf /\ r.ok = 1) =>
                /\ (r.r8  >= -11000 => AbsI(r.obs12 - r.ref12) <= RateBand)
                /\ (r.r12 >= -11000 => AbsI(r.obs23 - r.ref23) <= RateBand)>>,
            <<"richardson-converges-when-cycle-contracts", (wf /\ r.ok = 1 /\ r.r12 >= -11000) =>
                (r.ref23 < -RateBand => r.obs23 < 0)>> >>

\* recomputed residual of gmres / fgmres / lgmres at the restart boundaries c * (M + K), c = 1..6
RestartClauses(r) ==
    LET wf == Has(r, "ok") /\ Has(r, "inc") /\ Has(r, "seq")
    IN  <<  <<"restart-wellformed", wf>>,
            <<"restart-residual-non-increasing", wf => (r.ok = 1 /\ r.inc <= -9000)>> >>
\* Richardson with the cycle as the only preconditioner: residual after 40 steps against 8 steps
ContractClauses(r) ==
    LET wf == Has(r, "ok") /\ (r.ok = 1 => (Has(r, "r8") /\ Has(r, "r40")))
    IN  <<  <<"contract-wellformed", wf>>,
            <<"richardson-does-not-diverge", wf => (r.ok = 1 /\ (r.r8 <= -11000 \/ r.r40 <= r.r8 + DivergeBand))>> >>

Failed(r) == IF Has(r, "e") THEN (IF r.e = "End" THEN <<>> ELSE <<"recorder:" \o r.e>>)
             ELSE IF ~Has(r, "k") THEN <<"unknown-record">>
             ELSE IF r.k = "ret" THEN FailedOf(RetClauses(r))
             ELSE IF r.k = "rate" THEN FailedOf(RateClauses(r))
             ELSE IF r.k = "restart" THEN FailedOf(RestartClauses(r))
             ELSE IF r.k = "contract" THEN FailedOf(ContractClauses(r))
             ELSE IF r.k = "abort" THEN (IF Has(r, "thrown") THEN <<>> ELSE <<"abort-wellformed">>)
             ELSE <<"unknown-record">>

TInit == l = 1 /\ bad = <<>>
TNext == /\ l <= NLog /\ l' = l + 1
         /\ LET f == Failed(Log[l]) IN bad' = IF f = <<>> THEN bad ELSE Append(bad, <<l, f>>)
Verdict == (l = NLog + 1) => VerdictLine(l, bad)
=============================================================================
