------------------------------ MODULE X03Trace ------------------------------
(* Trace spec for X03 (extra coverage): amgcl/mpi/partition/util.hpp and merge.hpp   *)
(* on recorded multi-rank runs.  Repartition.tla says what a renumbering, its        *)
(* permutation matrix, the renumbered operator and the partitioner graph are;        *)
(* every recorded result is compared with that definition.                           *)
EXTENDS TraceKit, Crs, Repartition
VARIABLES l, bad

NPof(r) == r.np
Seq2(a, b) == <<a, b>>
TripleSet(A) == {<<A[k][1], A[k][2], A[k][3]>> : k \in 1..Len(A)}
PatSet(A)    == {<<A[k][1], A[k][2]>> : k \in 1..Len(A)}
\* entries of a distributed matrix whose rows and local columns are numbered by rng
DTriples(D, rng) ==
    UNION {UNION {{<<rng[q][1] + i - 1, D.loc[q].col[p] + rng[q][1], D.loc[q].val[p]>> : p \in RowPos(D.loc[q], i - 1)}
                  \cup {<<rng[q][1] + i - 1, D.rem[q].col[p], D.rem[q].val[p]>> : p \in RowPos(D.rem[q], i - 1)}
                  : i \in 1..D.loc[q].n} : q \in 1..Len(D.loc)}
DNnz(D) == MapThenSumSet(LAMBDA q : Len(D.loc[q].col) + Len(D.rem[q].col), 1..Len(D.loc))
SizesOK(sz, rows, cols, n) == \A q \in 1..Len(sz) : sz[q] = <<rows[q], cols[q], n, n>>
Width(rng) == [q \in 1..Len(rng) |-> rng[q][2] - rng[q][1]]

PermClauses(r) ==
    << <<"renumbering-is-the-definition", r.perm = PermDef(r.parts)>>,
       <<"returned-range-is-the-range-of-the-rank's-part", \A q \in 1..r.np : r.rng[q] = RangeDef(r.parts, r.npart, q - 1)>>,
       <<"renumbering-is-a-bijection", Bijective(r.parts, r.perm)>>,
       <<"row-goes-to-its-part", GoesToItsPart(r.parts, r.perm)>>,
       <<"order-inside-a-part-is-kept", Stable(r.parts, r.perm)>>,
       <<"ranges-tile-the-new-numbering", RangesTile(r.parts, r.npart, r.rng)>> >>
PmatClauses(r) ==
    << <<"exact", r.exact>>,
       <<"one-unit-entry-per-row-at-the-new-number", \A q \in 1..r.np : PermMatrixOK(r.perm, r.rng, r.I.loc[q], r.I.rem[q], q)>>,
       <<"sizes", SizesOK(r.sizes, [q \in 1..r.np |-> Len(r.perm[q])], Width(r.rng), MapThenSumSet(LAMBDA q : Len(r.perm[q]), 1..r.np))>> >>
RepClauses(r) ==
    LET gp == GlobalPerm(r.parts, r.perm) IN
    << <<"exact", r.exact>>,
       <<"rows-follow-the-new-ranges", \A q \in 1..r.np : r.B.loc[q].n = r.rng[q][2] - r.rng[q][1] /\ r.B.rem[q].n = r.B.loc[q].n
                                                         /\ r.B.loc[q].m = r.rng[q][2] - r.rng[q][1]>>,
       <<"well-formed-parts", \A q \in 1..r.np : WellFormed(r.B.loc[q]) /\ WellFormed(r.B.rem[q])>>,
       <<"renumbered-operator-is-I^T-A-I", DTriples(r.B, r.rng) = Renumbered(TripleSet(r.A), gp)>>,
       <<"no-entry-duplicated-or-lost", DNnz(r.B) = Len(r.A)>>,
       <<"sizes", SizesOK(r.sizes, Width(r.rng), Width(r.rng), r.n)>> >>
GraphOK(r, q) ==
    LET g == r.g[q] lp == g[1] nrows == r.rp[q + 1] - r.rp[q]
        ptr(j) == g[1 + j] col(k) == g[1 + lp + k] IN
    /\ lp = nrows + 1 /\ ptr(1) = 0
    /\ Len(g) = 2 + lp + ptr(lp) /\ g[Len(g)] = ptr(lp)
    /\ \A i \in 1..nrows : /\ ptr(i) <= ptr(i + 1)
                           /\ [k \in 1..(ptr(i + 1) - ptr(i)) |-> col(ptr(i) + k)] = GraphRowDef(PatSet(r.A), r.rp[q] + i - 1, r.rp[q], r.rp[q + 1])
GraphClauses(r) == << <<"symmetrised-graph-is-the-definition", \A q \in 1..r.np : GraphOK(r, q)>> >>
MergeClauses(r) ==
    LET np == r.np
        size(q) == r.rp[q + 1] - r.rp[q]
        nonEmpty == {q \in 1..np : size(q) > 0}
        minN == IF nonEmpty = {} THEN 0 ELSE MinOf({size(q) : q \in nonEmpty})
        need == r.enable /\ Cardinality(nonEmpty) > 1 /\ minN <= r.minpp
        coldom(i) == r.rp[Min2(i * r.shrink, np) + 1]
        perm == [q \in 1..np |-> [i \in 1..size(q) |-> r.rp[q] + i - 1]]
        rng == [q \in 1..np |-> <<coldom(q - 1), coldom(q)>>] IN
    << <<"exact", r.exact>>,
       <<"is_needed-is-the-definition-on-every-rank", \A q \in 1..np : r.need[q] = <<IF need THEN 1 ELSE 0>>>>,
       <<"merge-matrix-keeps-the-numbering-and-merges-column-ranges", \A q \in 1..np : PermMatrixOK(perm, rng, r.I.loc[q], r.I.rem[q], q)>>,
       <<"sizes", SizesOK(r.sizes, [q \in 1..np |-> size(q)], Width(rng), r.rp[np + 1])>> >>
Clauses(r) == CASE r.k = "perm" -> PermClauses(r) [] r.k = "pmat" -> PmatClauses(r) [] r.k = "rep" -> RepClauses(r)
                [] r.k = "graph" -> GraphClauses(r) [] r.k = "merge" -> MergeClauses(r) [] OTHER -> << <<"unknown-record", FALSE>> >>
Failed(r) == IF Has(r, "e") THEN (IF r.e = "End" THEN <<>> ELSE <<"recorder:" \o r.e>>) ELSE FailedOf(Clauses(r))
TInit == l = 1 /\ bad = <<>>
TNext == /\ l <= NLog /\ l' = l + 1
         /\ LET f == Failed(Log[l]) IN bad' = IF f = <<>> THEN bad ELSE Append(bad, <<l, f>>)
Verdict == (l = NLog + 1) => VerdictLine(l, bad)
=============================================================================
