CONSTANTS
  N = 3
  Fixed = TRUE
SPECIFICATION Spec
INVARIANTS NoPoisonRead FMarked
CHECK_DEADLOCK FALSE
