------------------------------ MODULE C06Trace ------------------------------
(* Trace spec for C06: every recorded use of a real amgcl relaxation class (one pre  *)
(* sweep, one post sweep, apply(), as_preconditioner) is judged                      *)
(*  * on the enumerated small cases (rat = TRUE): against the exact rational value   *)
(*    of the class's *definition* recomputed by TLC from the recorded input (matrix, *)
(*    f, x, parameters); doubles arrive as fixed point rint(v * 2^sh) and must agree  *)
(*    within FixTol units;                                                            *)
(*  * everywhere: bitwise fixed point (x* integer, f = A x* exact), finiteness, and   *)
(*    the class-O errors the recorder measured against the dense long-double          *)
(*    definition (millidecades = round(1000 log10 err)).                              *)
(* The operators are those of Smoothers / IluPattern / IluNumeric, i.e. the ones      *)
(* whose predicates are the invariants of RelaxModel / IlukModel.                     *)
EXTENDS TraceKit, Smoothers, IluNumeric

VARIABLES l, bad

Tol     == -12000        \* 1e-12
FixTol  == 2             \* units of 2^-sh

N(r)  == r.A.n
Wq(r) == Norm(r.wn, r.wd)
Fq(r) == RVecOf(r.f)
Xq(r) == RVecOf(r.x)
Close(qs, v, r) == VecCloseFix(qs, v, N(r), r.sh, FixTol)
Rat(r) == r.rat /\ ~r.big

OTol(r) == Tol          \* worst value on the unchanged tree over 30 seeds x {1, 4} threads: -14448 (3.6e-15)
Common(r) ==
    << <<"finite", r.finite>>,
       <<"fixed-point-bitwise", (r.fpx => r.fixbits = 0) /\ r.e_fix <= Tol>>,
       <<"as_preconditioner=apply", r.e_aspre <= OTol(r)>>,
       \* the matrix handed to as_preconditioner as a generic (tuple) matrix with unsorted CRS rows: the same operator
       <<"as_preconditioner(unsorted rows)=definition", ~r.asu_exc /\ r.e_asu <= OTol(r)>>,
       <<"sweep=dense-definition", r.e_pre <= OTol(r) /\ r.e_post <= OTol(r) /\ r.e_app <= OTol(r)>> >>

\* pre / post sweep, apply(), and apply() of as_preconditioner built from the unsorted-row copy (order inside a row is
\* not part of the matrix: the rational definition is computed from the row-as-a-function view)
Sweeps3(r, pre, post, app) == Close(r.pre, pre, r) /\ Close(r.post, post, r) /\ Close(r.app, app, r) /\ Close(r.asu, app, r)

JacobiClauses(r) ==
    LET pre == JacobiSweep(r.A, Wq(r), Fq(r), Xq(r))
    IN  << <<"jacobi: x + w D^-1 (f - A x)", Rat(r) =>
              /\ SplitOK(LAMBDA v : JacobiM(r.A, Wq(r), v), r.A, Fq(r), Xq(r), pre)
              /\ Sweeps3(r, pre, pre, JacobiApply(r.A, Fq(r)))>> >>
GsClauses(r) ==
    LET pre  == GSSweep(r.A, Fq(r), Xq(r), TRUE)
        post == GSSweep(r.A, Fq(r), Xq(r), FALSE)
    IN  << <<"gauss-seidel: forward pre, backward post", Rat(r) =>
              /\ SplitOK(LAMBDA v : GSM(r.A, TRUE, v), r.A, Fq(r), Xq(r), pre)
              /\ SplitOK(LAMBDA v : GSM(r.A, FALSE, v), r.A, Fq(r), Xq(r), post)
              /\ Sweeps3(r, pre, post, GSApply(r.A, Fq(r)))>> >>
Spai0Clauses(r) ==
    LET m   == Spai0M(r.A)
        pre == Spai0Sweep(r.A, Fq(r), Xq(r))
    IN  << <<"spai0-minimiser", r.e_def <= Tol /\ (Rat(r) => (Spai0OK(r.A, m) /\ Close(r.M, m, r)))>>,
           <<"spai0: x + M (f - A x)", Rat(r) => Sweeps3(r, pre, pre, Spai0Apply(r.A, Fq(r)))>> >>
Spai1Clauses(r) ==
    LET M   == Spai1M(r.A)
        mv  == [p \in 1..Len(M.val) |-> M.val[p]]
        pre == Spai1Sweep(r.A, M.val, Fq(r), Xq(r))
        uniq == Rat(r) /\ Spai1Tractable(r.A) /\ M.ok /\ ~r.rankdef
    IN  << <<"spai1-pattern-of-A", r.samepat>>,
           <<"spai1-minimiser", r.e_def <= Tol /\ (uniq =>
                 /\ Spai1OK(r.A, M.val) /\ Len(r.M) = Len(M.val)
                 /\ \A p \in 1..Len(M.val) : FixSafe(M.val[p], r.sh) => CloseFix(r.M[p], M.val[p], r.sh, FixTol))>>,
           <<"spai1: x + M (f - A x)", uniq => Sweeps3(r, pre, pre, Spai1Apply(r.A, M.val, Fq(r)))>> >>
ChebClauses(r) ==
    LET dc  == ChebDC(GershQ(r.A, r.scale), Norm(r.lown, r.lowd), Norm(r.highn, r.highd))
        pre == ChebSolve(r.A, r.scale, dc.d, dc.c, r.deg, Fq(r), Xq(r))
    IN  << <<"chebyshev-bounds", r.e_def <= Tol /\ (Rat(r) =>
                 (FixSafe(dc.d, r.sh) => CloseFix(r.dc[1], dc.d, r.sh, FixTol)) /\ (FixSafe(dc.c, r.sh) => CloseFix(r.dc[2], dc.c, r.sh, FixTol)))>>,
           <<"chebyshev-polynomial", Rat(r) =>
                 /\ ChebPolyOK(r.A, r.scale, dc.d, dc.c, r.deg, Fq(r), Xq(r), pre)
                 /\ Sweeps3(r, pre, pre, ChebApply(r.A, r.scale, dc.d, dc.c, r.deg, Fq(r)))>> >>

\* the admitted pattern and the factorisation on it, by class
IluSpec(r) ==
    CASE r.kind = "ilu0" -> [S |-> PatternOf(r.A), F |-> Ilu0Run(r.A)]
      [] r.kind = "iluk" -> [S |-> PatternDef(r.A, r.kk), F |-> IluOnPattern(r.A, PatternDef(r.A, r.kk), FALSE)]
      [] r.kind = "ilup" -> [S |-> PowerPattern(r.A, r.kk, N(r)), F |-> IlupRun(r.A, r.kk)]
      [] r.kind = "ilut" -> [S |-> FullPattern(r.A), F |-> IlutRunNoDrop(r.A)]
IluClauses(r) ==
    LET sp  == IluSpec(r)
        rat == Rat(r) /\ r.exc = 0 /\ r.nodrop
        pre == IluSweep(r.A, sp.F, Wq(r), Fq(r), Xq(r))
    IN  << <<"ilu-no-exception", r.exc = 0>>,
           <<"ilu: (L U)_ij = a_ij on the admitted pattern", r.exc = 0 => (r.patok /\ r.e_def <= Tol)>>,
           <<"ilu-exact-when-factors-fit", (r.exc = 0 /\ r.fits) => r.e_fit <= Tol>>,
           <<"ilu-parallel-solve=serial", r.exc = 0 => r.e_par <= Tol>>,
           <<"ilu: x + w (L U)^-1 (f - A x)", rat =>
                 /\ ~sp.F.zero /\ IluOK(r.A, sp.S, sp.F)
                 /\ Sweeps3(r, pre, pre, IluApply(sp.F, N(r), Fq(r)))>> >>
\* recorded factor storage against the transcription's (conformance only)
FactorRows(Lc, n) == [i \in Idx(n) |-> {Lc.col[p] : p \in (Lc.ptr[i + 1] + 1)..Lc.ptr[i + 2]}]
IluDrift(r) ==
    Rat(r) /\ r.exc = 0 /\ r.nodrop /\
    LET sp == IluSpec(r)
        run == IF r.kind = "iluk" THEN IlukRun(r.A, r.kk, FALSE) ELSE sp.F
    IN  \/ \E i \in Idx(N(r)) : FactorRows(r.L, N(r))[i] # DOMAIN run.L[i] \/ FactorRows(r.U, N(r))[i] # DOMAIN run.U[i]
        \/ \E i \in Idx(N(r)) : FixSafe(run.D[i], r.sh) /\ ~CloseFix(r.D[i + 1], run.D[i], r.sh, FixTol)

Clauses(r) ==
    IF r.k # "relax" THEN << <<"unknown-record", FALSE>> >>
    ELSE IF r.kind \in {"ilu0", "iluk", "ilup", "ilut", "ilutdrop"} /\ r.exc = 1 THEN << <<"ilu-no-exception", FALSE>> >>
    ELSE Common(r) \o
         (CASE r.kind = "jacobi" -> JacobiClauses(r)
            [] r.kind = "gs"     -> GsClauses(r)
            [] r.kind = "spai0"  -> Spai0Clauses(r)
            [] r.kind = "spai1"  -> Spai1Clauses(r)
            [] r.kind = "cheb"   -> ChebClauses(r)
            [] r.kind \in {"ilu0", "iluk", "ilup", "ilut"} -> IluClauses(r)
            [] r.kind = "ilutdrop" -> <<>>
            [] OTHER -> << <<"unknown-kind", FALSE>> >>)

Drifted(r) == IF Has(r, "e") THEN FALSE
              ELSE r.k = "relax" /\ r.kind \in {"ilu0", "iluk", "ilup", "ilut"} /\ IluDrift(r)

Failed(r) == IF Has(r, "e") THEN (IF r.e = "End" THEN <<>> ELSE <<"recorder:" \o r.e>>)
             ELSE LET f == FailedOf(Clauses(r))
                  IN  IF f # <<>> THEN f ELSE IF Drifted(r) THEN <<"drift:factor-storage-differs-from-transcription">> ELSE <<>>

TInit == l = 1 /\ bad = <<>>
TNext == /\ l <= NLog /\ l' = l + 1
         /\ LET f == Failed(Log[l])
            IN  bad' = IF f = <<>> THEN bad ELSE Append(bad, <<l, f>>)
Verdict == (l = NLog + 1) => VerdictLine(l, bad)
=============================================================================
