CONSTANTS
  NDim = 2
  NPts = 3
  CMax = 2
  Full = FALSE
SPECIFICATION Spec
INVARIANTS ShearIsRigid
CHECK_DEADLOCK FALSE
