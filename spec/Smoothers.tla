------------------------------ MODULE Smoothers ------------------------------
(* The point smoothers of amgcl/relaxation on exact rationals, transcribed with the *)
(* granularity of the code (residual, then the scaled update; Gauss-Seidel row by    *)
(* row in place; the Chebyshev recurrence for alpha, beta, p), and - separately -   *)
(* what each of them is *defined* to be: one sweep is  x' = x + M^-1 (f - A x)  for  *)
(* the documented splitting M, SPAI-0 / SPAI-1 are the row-wise minimisers of        *)
(* ||I - M A||_F on their pattern, Chebyshev is the shifted-and-scaled Chebyshev     *)
(* polynomial of the requested degree on [lo, hi].  A is a CRS record of integers,   *)
(* vectors are functions on 0..n-1 of rationals.                                     *)
EXTENDS RatMat

\* sum over the stored entries of row i, in storage order:  sum t(p)
QRowSum(A, i, t(_)) == FoldLeft(LAMBDA acc, p : QAdd(acc, t(p)), RZero, Rng(Ptr(A, i) + 1, Ptr(A, i + 1)))
AxQ(A, x)      == [i \in Idx(A.n) |-> QRowSum(A, i, LAMBDA p : QMul(R(A.val[p]), x[A.col[p]]))]
ResQ(A, f, x)  == LET ax == AxQ(A, x) IN [i \in Idx(A.n) |-> QSub(f[i], ax[i])]
HasDiagAt(A, i) == \E p \in RowPos(A, i) : A.col[p] = i
FirstDiag(A, i) == A.val[MinOf({p \in RowPos(A, i) : A.col[p] = i})]       \* the entry diagonal() / gauss_seidel pick
\* backend::diagonal(A, invert = true): 0 -> identity
DiagInv(A) == [i \in Idx(A.n) |-> IF FirstDiag(A, i) = 0 THEN ROne ELSE RInv(R(FirstDiag(A, i)))]
VMul(a, d, y, b, z, n) == [i \in Idx(n) |-> QAdd(QMul(QMul(a, d[i]), y[i]), QMul(b, z[i]))]   \* z = a d y + b z

\* ------------------------------------------------------------ damped Jacobi
JacobiSweep(A, w, f, x) == VMul(w, DiagInv(A), ResQ(A, f, x), ROne, x, A.n)
JacobiApply(A, f)       == VMul(ROne, DiagInv(A), f, RZero, f, A.n)          \* note: no damping in apply()
\* splitting M = D / w
JacobiM(A, w, v) == [i \in Idx(A.n) |-> QDiv(QMul(R(FirstDiag(A, i)), v[i]), w)]

\* ------------------------------------------------------------ Gauss-Seidel
GSRow(A, f, x, i) ==
    LET D == IF HasDiagAt(A, i) THEN R(A.val[MaxOf({p \in RowPos(A, i) : A.col[p] = i})]) ELSE ROne   \* last one wins in the code's loop
        X == QSub(f[i], QRowSum(A, i, LAMBDA p : IF A.col[p] = i THEN RZero ELSE QMul(R(A.val[p]), x[A.col[p]])))
    IN  QMul(RInv(D), X)
GSSweep(A, f, x, forward) ==
    FoldLeft(LAMBDA y, i : [y EXCEPT ![i] = GSRow(A, f, y, i)], x,
             IF forward THEN Rng(0, A.n - 1) ELSE RngDown(A.n - 1, 0))
GSApply(A, f) == GSSweep(A, f, GSSweep(A, f, RZeroVec(A.n), TRUE), FALSE)
\* splitting: forward M = D + L (lower triangle), backward M = D + U
GSM(A, forward, v) ==
    [i \in Idx(A.n) |-> QRowSum(A, i, LAMBDA p : IF (forward /\ A.col[p] <= i) \/ (~forward /\ A.col[p] >= i)
                                                  THEN QMul(R(A.val[p]), v[A.col[p]]) ELSE RZero)]

\* ------------------------------------------------------------ SPAI-0
Spai0M(A) == [i \in Idx(A.n) |->
                QDiv(QRowSum(A, i, LAMBDA p : IF A.col[p] = i THEN R(A.val[p]) ELSE RZero),
                     QRowSum(A, i, LAMBDA p : R(A.val[p] * A.val[p])))]
Spai0Sweep(A, f, x) == VMul(ROne, Spai0M(A), ResQ(A, f, x), ROne, x, A.n)
Spai0Apply(A, f)    == VMul(ROne, Spai0M(A), f, RZero, f, A.n)
\* m_i minimises  sum_j (delta_ij - m a_ij)^2 :  m * sum_j a_ij^2 = a_ii
Spai0OK(A, m) == \A i \in Idx(A.n) : QEq(QMul(m[i], QRowSum(A, i, LAMBDA p : R(A.val[p] * A.val[p]))), R(At(A, i, i)))

\* ------------------------------------------------------------ SPAI-1
\* row i: I = columns of row i (storage order), J = sorted union of the columns of the rows in I,
\* B = A(I,J)^T (|J| x |I|, column major in the code), least squares  B m = e_i  by QR.
\* Here: normal equations (B^T B) m = B^T e_i solved exactly.  -> [ok, val] (val aligned with A.col)
Spai1Row(A, i) ==
    LET I   == [k \in 1..RowLen(A, i) |-> A.col[Ptr(A, i) + k]]
        nI  == Len(I)
        Js  == UNION {RowCols(A, I[k]) : k \in 1..nI}
        G   == [k \in Idx(nI) |-> [kk \in Idx(nI) |-> R(MapThenSumSet(LAMBDA j : At(A, I[k + 1], j) * At(A, I[kk + 1], j), Js))]]
        rhs == [k \in Idx(nI) |-> R(At(A, I[k + 1], i))]
        sol == RefSolve(G, rhs, nI)
    IN  [ok |-> sol.ok, m |-> [k \in 1..nI |-> sol.x[k - 1]]]
\* 32-bit rationals follow the Gram systems of rows with at most three entries (or n <= 3)
Spai1Tractable(A) == A.n <= 3 \/ \A i \in Rows(A) : RowLen(A, i) <= 3
Spai1M(A) ==
    LET rows == [i \in 1..A.n |-> Spai1Row(A, i - 1)]
    IN  [ok |-> \A i \in 1..A.n : rows[i].ok, val |-> FlattenSeq([i \in 1..A.n |-> rows[i].m])]
SpmvQ(A, mval, v) == [i \in Idx(A.n) |-> QRowSum(A, i, LAMBDA p : QMul(mval[p], v[A.col[p]]))]
Spai1Sweep(A, mval, f, x) == LET r == ResQ(A, f, x) IN LET mr == SpmvQ(A, mval, r) IN [i \in Idx(A.n) |-> QAdd(x[i], mr[i])]
Spai1Apply(A, mval, f)    == SpmvQ(A, mval, f)
\* optimality: the row residual  m_i^T A - e_i^T  is orthogonal to every row of A that m_i may use
Spai1OK(A, mval) ==
    \A i \in Idx(A.n) :
        LET res(j) == QSub(QRowSum(A, i, LAMBDA p : QMul(mval[p], R(At(A, A.col[p], j)))), IF j = i THEN ROne ELSE RZero)
        IN  \A c \in RowCols(A, i) : IsZero(QSumSeq([j1 \in 1..A.m |-> QMul(res(j1 - 1), R(At(A, c, j1 - 1)))]))

\* ------------------------------------------------------------ Chebyshev
RowAbsSum(A, i) == MapThenSumSet(LAMBDA p : Abs(A.val[p]), RowPos(A, i))
\* spectral_radius<scale>(A, 0): Gershgorin, rows scaled by |1 / a_ii| when scale
GershQ(A, scale) ==
    LET s(i) == IF scale THEN QMul(R(RowAbsSum(A, i)), RAbs(RInv(R(FirstDiag(A, i))))) ELSE R(RowAbsSum(A, i))
    IN  FoldLeft(LAMBDA m, i : RMax(m, s(i)), RZero, Rng(0, A.n - 1))
\* [d, c] from the spectrum bound, prm.lower, prm.higher
ChebDC(hi0, lower, higher) ==
    LET lo == QMul(hi0, lower)
        hi == QMul(hi0, higher)
    IN  [d |-> QMul(<<1, 2>>, QAdd(hi, lo)), c |-> QMul(<<1, 2>>, QSub(hi, lo))]
\* the loop of chebyshev::solve
ChebSolve(A, scale, d, c, degree, f, x0) ==
    LET dinv == DiagInv(A)
        n    == A.n
        two  == R(2)
        step(st, k) ==
            LET r0    == ResQ(A, f, st.x)
                r     == IF scale THEN [i \in Idx(n) |-> QMul(dinv[i], r0[i])] ELSE r0
                alpha == IF k = 0 THEN RInv(d)
                         ELSE IF k = 1 THEN QMul(QMul(two, d), RInv(QSub(QMul(two, QMul(d, d)), QMul(c, c))))
                         ELSE RInv(QSub(d, QMul(<<1, 4>>, QMul(st.alpha, QMul(c, c)))))
                beta  == IF k = 0 THEN RZero ELSE QSub(QMul(alpha, d), ROne)
                p     == [i \in Idx(n) |-> QAdd(QMul(alpha, r[i]), IF k = 0 THEN RZero ELSE QMul(beta, st.p[i]))]
            IN  [x |-> [i \in Idx(n) |-> QAdd(st.x[i], p[i])], p |-> p, alpha |-> alpha]
    IN  FoldLeft(step, [x |-> x0, p |-> RZeroVec(n), alpha |-> RZero], Rng(0, degree - 1)).x
ChebApply(A, scale, d, c, degree, f) == ChebSolve(A, scale, d, c, degree, f, RZeroVec(A.n))
\* definition: with B = A (or D^-1 A), Z = (d I - B) / c, T_k the Chebyshev polynomials and
\* p_k(B) = T_k(Z) / T_k(d / c)   (c > 0),    p_k(B) = (I - B / d)^k   (c = 0)
\* the error obeys x_k - x* = p_k(B) (x_0 - x*); stated on the (scaled) residual r = D^-1 (f - A x),
\* which is B times the error, so that no solve is needed:   r_k = p_k(B) r_0
ChebPolyOK(A, scale, d, c, degree, f, x0, xk) ==
    LET n    == A.n
        dinv == DiagInv(A)
        Bv(v) == LET av == AxQ(A, v) IN IF scale THEN [i \in Idx(n) |-> QMul(dinv[i], av[i])] ELSE av
        Rs(x) == LET r == ResQ(A, f, x) IN IF scale THEN [i \in Idx(n) |-> QMul(dinv[i], r[i])] ELSE r
        Zv(v) == LET bv == Bv(v) IN [i \in Idx(n) |-> QDiv(QSub(QMul(d, v[i]), bv[i]), c)]
        r0   == Rs(x0)
        rk   == Rs(xk)
        V[k \in 0..degree] == IF k = 0 THEN r0 ELSE IF k = 1 THEN Zv(r0)
                              ELSE LET zv == Zv(V[k - 1]) IN [i \in Idx(n) |-> QSub(QMul(R(2), zv[i]), V[k - 2][i])]
        t[k \in 0..degree] == IF k = 0 THEN ROne ELSE IF k = 1 THEN QDiv(d, c)
                              ELSE QSub(QMul(R(2), QMul(QDiv(d, c), t[k - 1])), t[k - 2])
        W[k \in 0..degree] == IF k = 0 THEN r0
                              ELSE LET bv == Bv(W[k - 1]) IN [i \in Idx(n) |-> QSub(W[k - 1][i], QDiv(bv[i], d))]
    IN  IF IsZero(c) THEN \A i \in Idx(n) : QEq(rk[i], W[degree][i])
        ELSE \A i \in Idx(n) : QEq(QMul(rk[i], t[degree]), V[degree][i])

\* ------------------------------------------------------------ the sweep predicates
\* x1 = x + M^-1 (f - A x), M given by its action v |-> M v
SplitOK(Mv(_), A, f, x, x1) == VecEq(Mv([i \in Idx(A.n) |-> QSub(x1[i], x[i])]), ResQ(A, f, x), A.n)
\* x1 = x + N (f - A x), N = M^-1 given by its action
InvSplitOK(Nv(_), A, f, x, x1) == VecEq([i \in Idx(A.n) |-> QSub(x1[i], x[i])], Nv(ResQ(A, f, x)), A.n)
\* the exact solution is a fixed point: with f = A xs, Sweep(f, xs) = xs
FixedPointOK(Sweep(_, _), A, xs) == VecEq(Sweep(AxQ(A, xs), xs), xs, A.n)
=============================================================================
