------------------------------ MODULE C13Trace ------------------------------
(* Trace spec for C13 (harness/record_formulations.cpp).                              *)
(* Exact records (integers): block adapter / hybrid conversion / unblock, complex     *)
(* adapter, as_scalar transfer operators, as_block smoother - judged by the           *)
(* predicates of Adapters.tla.  Observation records (class O, quantised to            *)
(* millidecades = 1000 log10): the same system through several formulations - judged *)
(* by FormsOK: every formulation returns a solution whose TRUE residual is within a   *)
(* decade of the requested tolerance, reports a residual below the tolerance, and all *)
(* solutions agree to 1e-6 relative.                                                  *)
EXTENDS TraceKit, Adapters

VARIABLES l, bad

BlockClauses(r) ==
    LET A  == r.A
        wf == WellFormed(A) /\ BlockWF(r.out, r.b) /\ Len(r.y) = A.n /\ Len(r.x) = A.m
    IN  <<  <<"wellformed", wf>>,
            <<"block rows/cols", r.rows * r.b = A.n /\ r.cols * r.b = A.m>>,
            <<"block entries in place (i mod b, j mod b), incomplete blocks zero-filled", wf /\ BlockOK(A, r.b, r.out)>>,
            <<"generic CRS constructor = row iteration", Has(r, "ctor_same") => r.ctor_same>>,
            <<"spmv with scalar vectors through the block matrix = scalar product", wf /\ r.y = SpmvDef(A, r.x)>>,
            <<"unblock(block(A)) = A", WellFormed(r.unblocked) /\ SameOperator(r.unblocked, A)>> >>

ComplexWF(A) == /\ Len(A.ptr) = A.n + 1 /\ A.ptr[1] = 0 /\ \A i \in 1..A.n : A.ptr[i] <= A.ptr[i + 1]
                /\ Len(A.col) = A.ptr[A.n + 1] /\ Len(A.val) = Len(A.col)
                /\ \A p \in 1..Len(A.col) : A.col[p] >= 0 /\ A.col[p] < A.m /\ Len(A.val[p]) = 2
CviewClauses(r) ==
    LET wf == ComplexWF(r.A) /\ WellFormed(r.out) /\ Len(r.x) = r.out.m /\ Len(r.y) = r.out.n
    IN  <<  <<"wellformed", wf>>,
            <<"rows/cols/nonzeros of the real form", r.rows = 2 * r.A.n /\ r.cols = 2 * r.A.m /\ r.nnz = 4 * NNZ(r.A) /\ r.ctor_nnz = 4 * NNZ(r.A)>>,
            <<"complex-equivalent matrix = definition [[re,-im],[im,re]]", wf /\ ComplexOK(r.A, r.out)>>,
            <<"spmv on the adapter = definition", wf /\ r.y = SpmvDef(r.out, r.x)>>,
            <<"real product of the interleaved vector = interleaved complex product", r.y = r.yc>> >>

AsScalarClauses(r) ==
    LET wf == WellFormed(r.Ps) /\ WellFormed(r.Pb) /\ WellFormed(r.Rs) /\ WellFormed(r.Rb) /\ WellFormed(r.Acs) /\ WellFormed(r.Acb)
    IN  <<  <<"wellformed", wf>>,
            <<"as_scalar: unblock(P) = scalar P, unblock(R) = scalar R", wf /\ SameOperator(r.Pb, r.Ps) /\ SameOperator(r.Rb, r.Rs)>>,
            <<"as_scalar: coarse operator", wf /\ SameOperator(r.Acb, r.Acs)>> >>

\* ---- observations
Max2(a, b) == IF a > b THEN a ELSE b
FormOK(f, tol) == /\ f.exc = ""
                  /\ f.reported_md <= tol                      \* the solver claims convergence ...
                  /\ f.true_md <= tol + 1000                   \* ... and the true residual agrees within a decade (truthful),
                  /\ f.reported_md <= Max2(f.true_md, -13000) + 1000   \* in both directions (above the rounding floor 1e-13)
                  /\ f.diff_md <= -6000                        \* same solution as the reference formulation
FormsOK(r) == \A k \in 1..Len(r.forms) : FormOK(r.forms[k], r.tol_md)
FormNames(r) == [k \in 1..Len(r.forms) |-> IF FormOK(r.forms[k], r.tol_md) THEN "" ELSE r.forms[k].name]

Clauses(r) ==
    CASE r.k = "block"    -> BlockClauses(r)
      [] r.k = "cview"    -> CviewClauses(r)
      [] r.k = "asscalar" -> AsScalarClauses(r)
      [] r.k = "csb"      -> << <<"common_scalar_backend = builtin backend of the scalar type with the higher precision",
                                     r.chosen_is_scalar /\ r.chosen = (IF r.s1 > r.s2 THEN r.s1 ELSE r.s2)>> >>
      [] r.k = "asblock"  -> << <<"as_block smoother = block smoother on the block matrix", r.same \/ r.reldiff_md <= -12000>> >>
      [] r.k = "forms"    -> << <<"every block formulation solves the scalar system truthfully and all agree", Len(r.forms) >= 2 /\ FormsOK(r)>> >>
      [] r.k = "cforms"   -> << <<"complex system (scalar / block value type) and its real form have the same solution", Len(r.forms) >= 2 /\ FormsOK(r)>> >>
      [] r.k = "mixed"    -> << <<"float preconditioner under double solver reaches the tolerance with a truthful residual",
                                     r.iters < r.maxiter /\ r.reported_md <= r.tol_md /\ r.true_md <= r.tol_md + 1000>> >>
      [] OTHER            -> << <<"unknown-record", FALSE>> >>

Failed(r) == IF Has(r, "e") THEN (IF r.e = "End" THEN <<>> ELSE <<"recorder:" \o r.e>>)
             ELSE IF Has(r, "exc") THEN <<"exception">>
             ELSE FailedOf(Clauses(r))

TInit == l = 1 /\ bad = <<>>
TNext == /\ l <= NLog /\ l' = l + 1
         /\ LET f == Failed(Log[l])
            IN  bad' = IF f = <<>> THEN bad ELSE Append(bad, <<l, f>>)
Verdict == (l = NLog + 1) => VerdictLine(l, bad)
=============================================================================
