----------------------------- MODULE DistMatrix -----------------------------
(* amgcl::mpi::distributed_matrix (amgcl/mpi/distributed_matrix.hpp): the split of a   *)
(* row strip into a local part (own column range, local numbering) and a remote part   *)
(* (global numbering, renumbered through the pattern's map when moved to the backend), *)
(* the ghost exchange of mul()/residual() (start_exchange / local product /            *)
(* finish_exchange / remote product) and the predicates that tie every distributed     *)
(* operation to the serial definition of Crs.tla on the assembled global matrix.       *)
(* A distributed matrix is [loc, rem]: sequences 1..np of CRS records (rank r at r+1). *)
EXTENDS Crs, CommPattern

\* ---------------------------------------------------------------- split (constructor, lines 370-436)
\* rank r owns rows rp[r+1]..rp[r+2]-1 and columns cp[r+1]..cp[r+2]-1
SplitRow(A, cp, r, i) ==          \* i = global row; entries in storage order
    LET row == RowSeq(A, i)
    IN  [loc |-> LET s == SelectSeq(row, LAMBDA e : Lo(cp, r) <= e[1] /\ e[1] < Hi(cp, r))
                 IN  [k \in 1..Len(s) |-> <<s[k][1] - Lo(cp, r), s[k][2]>>],
         rem |-> SelectSeq(row, LAMBDA e : ~(Lo(cp, r) <= e[1] /\ e[1] < Hi(cp, r)))]
SplitRun(A, np, rp, cp) ==
    [loc |-> [q \in 1..np |-> FromRows(Hi(rp, q - 1) - Lo(rp, q - 1), Hi(cp, q - 1) - Lo(cp, q - 1),
                                       [i \in 1..(Hi(rp, q - 1) - Lo(rp, q - 1)) |-> SplitRow(A, cp, q - 1, Lo(rp, q - 1) + i - 1).loc])],
     rem |-> [q \in 1..np |-> FromRows(Hi(rp, q - 1) - Lo(rp, q - 1), A.m,
                                       [i \in 1..(Hi(rp, q - 1) - Lo(rp, q - 1)) |-> SplitRow(A, cp, q - 1, Lo(rp, q - 1) + i - 1).rem])]]

\* the global matrix a distributed one stands for: row = local entries shifted back, then remote ones
Assemble(np, rp, cp, D, n, m) ==
    FromRows(n, m, FlattenSeq([q \in 1..np |->
        [i \in 1..D.loc[q].n |->
            LET l == RowSeq(D.loc[q], i - 1)
            IN  [k \in 1..Len(l) |-> <<l[k][1] + Lo(cp, q - 1), l[k][2]>>] \o RowSeq(D.rem[q], i - 1)]]))

\* the parts are well formed, have the partition's shape, local columns are local and remote
\* columns are global ids outside the owner's range
PartsOK(np, rp, cp, D, m) ==
    /\ Len(D.loc) = np /\ Len(D.rem) = np
    /\ \A q \in 1..np :
        /\ D.loc[q].n = Hi(rp, q - 1) - Lo(rp, q - 1) /\ D.rem[q].n = D.loc[q].n
        /\ D.loc[q].m = Hi(cp, q - 1) - Lo(cp, q - 1) /\ D.rem[q].m = m
        /\ WellFormed(D.loc[q]) /\ WellFormed(D.rem[q])
        /\ \A p \in 1..NNZ(D.rem[q]) : ~(Lo(cp, q - 1) <= D.rem[q].col[p] /\ D.rem[q].col[p] < Hi(cp, q - 1))
\* D is the distribution of the operator G over (rp, cp)
DistOf(np, rp, cp, D, G) ==
    /\ PartsOK(np, rp, cp, D, G.m)
    /\ SameOperator(Assemble(np, rp, cp, D, G.n, G.m), G)
NeedOf(np, D) == [q \in 1..np |-> ToSet(D.rem[q].col)]

\* ---------------------------------------------------------------- serial definitions on vectors
Dot(A, i, x) == MapThenSumSet(LAMBDA p : A.val[p] * x[A.col[p] + 1], RowPos(A, i))
SpmvDef(alpha, A, x, beta, y) == [i \in 1..A.n |-> alpha * Dot(A, i - 1, x) + beta * y[i]]
ResidualDef(f, A, x) == [i \in 1..A.n |-> f[i] - Dot(A, i - 1, x)]
InnerDef(x, y) == MapThenSumSet(LAMBDA i : x[i] * y[i], 1..Len(x))

\* ---------------------------------------------------------------- ghost exchange, one rank
\* start_exchange: gather x[send.col] into send.val (then Isend slice i to send.nbr[i])
GatherSend(p, xloc) == [j \in 1..Len(p.scol) |-> xloc[p.scol[j] + 1]]
\* local and remote parts of mul(): y = alpha A_loc x + beta y ;  y += alpha A_rem x_rem
LocalIndex(p, c) == CHOOSE k \in 1..Len(p.rcol) : p.rcol[k] = c          \* renumber(): idx.at(col)
MulLocal(alpha, Aloc, xloc, beta, y) == [i \in 1..Aloc.n |-> alpha * Dot(Aloc, i - 1, xloc) + beta * y[i]]
MulRemote(alpha, Arem, p, xrem, y) ==
    [i \in 1..Arem.n |-> y[i] + alpha * MapThenSumSet(LAMBDA q : Arem.val[q] * xrem[LocalIndex(p, Arem.col[q])], RowPos(Arem, i - 1))]

\* ghost values of rank r are the owners' values of the exchanged vector
GhostOK(p, xrem, xglob) == /\ Len(xrem) = Len(p.rcol)
                           /\ \A k \in 1..Len(p.rcol) : xrem[k] = xglob[p.rcol[k] + 1]

\* closed form of a distributed product in lockstep (definition of the expected result given
\* a correct pattern): used to cross-check the interleaved model and as spec of mul()
DistMulRun(np, rp, cp, D, pat, alpha, x, beta, y) ==
    FlattenSeq([q \in 1..np |->
        LET xl == Slice(x, Lo(cp, q - 1), Hi(cp, q - 1))
            yl == Slice(y, Lo(rp, q - 1), Hi(rp, q - 1))
            xr == [k \in 1..Len(pat[q].rcol) |-> x[pat[q].rcol[k] + 1]]
        IN  MulRemote(alpha, D.rem[q], pat[q], xr, MulLocal(alpha, D.loc[q], xl, beta, yl))])

\* ---------------------------------------------------------------- recorded-operation predicates
AllEqualTo(vals, v) == \A i \in 1..Len(vals) : vals[i] = v
\* remote_rows(C, B): row k of the result is the row of B with global number rcol[k]
\* (columns in global numbering), for every rank
RemoteRowsOK(np, B, rows, rcol) ==
    /\ Len(rows) = np /\ Len(rcol) = np
    /\ \A q \in 1..np :
        /\ rows[q].n = Len(rcol[q]) /\ rows[q].m = B.m /\ WellFormed(rows[q])
        /\ \A k \in 1..Len(rcol[q]) : rcol[q][k] \in Rows(B) /\ SameRow(RowFn(rows[q], k - 1), RowFn(B, rcol[q][k]))
\* sort_rows: every part keeps its entries, rows sorted by column
SortPartsOK(np, D0, D) ==
    \A q \in 1..np : SortOK(D0.loc[q], D.loc[q]) /\ SortOK(D0.rem[q], D.rem[q])
=============================================================================
