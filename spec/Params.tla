------------------------------- MODULE Params -------------------------------
(* C14 - parameter structures of amgcl and their property-tree interface.          *)
(*                                                                                  *)
(* A parameter structure (`struct params` of a component) is described by a SCHEMA: *)
(*   vf   value fields (struct members holding a scalar / enum / string)            *)
(*   ef   the value fields that are enumerations (subset of vf)                     *)
(*   cf   child fields: name -> schema of the nested parameter structure           *)
(*   xk   extra keys the component understands although they are no value field    *)
(*        of its own (keys of a base / derived structure sharing the same tree,    *)
(*        array transport keys such as "weights", "weights_size", "pmask")         *)
(* and by the four hand-written lists of the code (amgcl/util.hpp macros):          *)
(*   impv / impc   AMGCL_PARAMS_IMPORT_VALUE / _IMPORT_CHILD names                  *)
(*   expv / expc   AMGCL_PARAMS_EXPORT_VALUE / _EXPORT_CHILD names                  *)
(*   chk           the names given to check_params                                 *)
(*   lk            how check_params looks a key up in that list: "exact" (the code: *)
(*                 std::set::count) or "prefix" (a key is accepted when it is a     *)
(*                 prefix of a listed name - what a lower_bound + compare does)     *)
(*                                                                                  *)
(* An abstract property tree is  [v |-> [key -> code], c |-> [key -> tree]];        *)
(* value codes: 0 = the component's default, 1, 2 = two distinct non-default        *)
(* values, Bad = a string that is no enumerator.  A parameter OBJECT (the C++       *)
(* struct after construction) has the same shape with total functions.             *)
(*                                                                                  *)
(* Import / Report / Export transcribe  params(ptree), check_params and            *)
(* params::get().  The predicates below mention a schema's FIELDS (vf, ef, cf, xk)  *)
(* and observed inputs / outputs only, so that the trace spec C14Trace can evaluate *)
(* them on what the real constructors / exporters / AMGCL_PARAM_UNKNOWN did.        *)
EXTENDS Naturals, Sequences, FiniteSets, TLC

Bad       == 7
EmptyTree == [v |-> <<>>, c |-> <<>>]

Keys(t)   == DOMAIN t.v \cup DOMAIN t.c
Sub(t, k) == IF k \in DOMAIN t.c THEN t.c[k] ELSE EmptyTree
Fields(S) == S.vf \cup DOMAIN S.cf

WellFormedTree(t) == /\ DOMAIN t = {"v", "c"}

\* strings
IsPrefix(k, n) == Len(k) <= Len(n) /\ SubSeq(n, 1, Len(k)) = k
Understood(S)  == Fields(S) \cup S.xk
\* near misses of the understood names of one structure: every proper prefix and every
\* one-character extension that is not itself understood (truncated / mistyped keys)
NearMiss(S) == (UNION {{SubSeq(n, 1, j) : j \in 1..(Len(n) - 1)} : n \in Understood(S)} \cup {n \o "x" : n \in Understood(S)})
               \ (Understood(S) \cup {""})

------------------------------------------------------------------------------
(* Transcription of the code path  params(const ptree &p)  /  get(ptree&, path).    *)

RECURSIVE Import(_, _), Throws(_, _), Reported(_, _), Export(_, _)

\* AMGCL_PARAMS_IMPORT_VALUE: name(p.get("name", params().name));
\* AMGCL_PARAMS_IMPORT_CHILD: name(p.get_child("name", empty_ptree()))
Import(S, t) ==
    [v |-> [f \in S.vf |-> IF f \in S.impv /\ f \in DOMAIN t.v THEN t.v[f] ELSE 0],
     c |-> [f \in DOMAIN S.cf |-> Import(S.cf[f], IF f \in S.impc THEN Sub(t, f) ELSE EmptyTree)]]

\* the stream extraction of an enumeration throws std::invalid_argument
Throws(S, t) ==
    \/ \E f \in S.ef \cap S.impv : f \in DOMAIN t.v /\ t.v[f] = Bad
    \/ \E f \in S.impc \cap DOMAIN S.cf : Throws(S.cf[f], Sub(t, f))

\* check_params(p, {names}): every key of p that is not in the list goes to
\* AMGCL_PARAM_UNKNOWN(key) - the key only, without its path
Accepted(S, k) == IF S.lk = "exact" THEN k \in S.chk ELSE \E n \in S.chk : IsPrefix(k, n)
Reported(S, t) ==
    {k \in Keys(t) : ~Accepted(S, k)} \cup
    UNION {Reported(S.cf[f], Sub(t, f)) : f \in S.impc \cap DOMAIN S.cf}

\* AMGCL_PARAMS_EXPORT_VALUE: p.put(path + "name", name); _CHILD: name.get(p, path + "name.")
Export(S, o) ==
    [v |-> [f \in S.expv \cap S.vf |-> o.v[f]],
     c |-> [f \in S.expc \cap DOMAIN S.cf |-> Export(S.cf[f], o.c[f])]]

------------------------------------------------------------------------------
(* Property predicates (schema fields + observations only).                         *)

RECURSIVE SchemaOK(_, _), TakesEffect(_, _, _), RoundTrip(_, _, _), UnknownKeys(_, _),
          HasBad(_, _), ShapeOK(_, _), ExportShapeOK(_, _), Ideal(_)

\* the lists of the code agree with the struct: Imported = Exported = Fields,
\* Checked is a superset of the fields and contains no key outside `understood`
TopSchemaOK(S, foreign) ==
    /\ S.impv = S.vf /\ S.expv = S.vf
    /\ S.impc = DOMAIN S.cf /\ S.expc = DOMAIN S.cf
    /\ Fields(S) \cup S.xk \subseteq S.chk
    /\ S.chk \cap foreign = {}
    /\ S.lk = "exact"
SchemaOK(S, foreign) ==
    /\ TopSchemaOK(S, foreign)
    /\ \A f \in DOMAIN S.cf : SchemaOK(S.cf[f], foreign)

\* the observed object has the members of the schema
ShapeOK(S, o) ==
    /\ DOMAIN o = {"v", "c"} /\ DOMAIN o.v = S.vf /\ DOMAIN o.c = DOMAIN S.cf
    /\ \A f \in DOMAIN S.cf : ShapeOK(S.cf[f], o.c[f])

\* "can be set through the property tree and takes effect": every member holds the
\* value of its key if the key is present and the default otherwise (so a key never
\* lands in another member either)
TakesEffect(S, t, o) ==
    /\ \A f \in S.vf : o.v[f] = (IF f \in DOMAIN t.v THEN t.v[f] ELSE 0)
    /\ \A f \in DOMAIN S.cf : TakesEffect(S.cf[f], Sub(t, f), o.c[f])

\* "import followed by export is the identity on value parameters": every value key
\* of the imported tree comes back with the same value, at the same path
RoundTrip(S, t, e) ==
    /\ \A f \in S.vf \cap DOMAIN t.v : t.v[f] # Bad => (f \in DOMAIN e.v /\ e.v[f] = t.v[f])
    /\ \A f \in DOMAIN S.cf \cap DOMAIN t.c :
          RoundTrip(S.cf[f], t.c[f], IF f \in DOMAIN e.c THEN e.c[f] ELSE EmptyTree)

\* the full form: every field is exported (defaults included)
ExportShapeOK(S, e) ==
    /\ S.vf \subseteq DOMAIN e.v /\ DOMAIN S.cf \subseteq DOMAIN e.c
    /\ \A f \in DOMAIN S.cf : ExportShapeOK(S.cf[f], e.c[f])

\* keys that no component understands, at every nesting level
UnknownKeys(S, t) ==
    (Keys(t) \ (Fields(S) \cup S.xk)) \cup
    UNION {UnknownKeys(S.cf[f], t.c[f]) : f \in DOMAIN S.cf \cap DOMAIN t.c}

UnknownReported(S, t, rep) == UnknownKeys(S, t) \subseteq rep
\* an understood key is not reported as unknown (Checked is a superset of the fields)
NoSpurious(S, t, rep)      == rep \subseteq UnknownKeys(S, t)

HasBad(S, t) ==
    \/ \E f \in S.ef \cap DOMAIN t.v : t.v[f] = Bad
    \/ \E f \in DOMAIN S.cf \cap DOMAIN t.c : HasBad(S.cf[f], t.c[f])
BadEnumThrows(S, t, threw) == threw = HasBad(S, t)

\* the schema whose lists are what the struct members require
Ideal(S) ==
    [vf |-> S.vf, ef |-> S.ef, xk |-> S.xk,
     cf |-> [f \in DOMAIN S.cf |-> Ideal(S.cf[f])],
     impv |-> S.vf, expv |-> S.vf, impc |-> DOMAIN S.cf, expc |-> DOMAIN S.cf,
     chk |-> Fields(S) \cup S.xk, lk |-> "exact"]

\* everything the property says about one imported tree
AllOK(S, t, o, rep, e, threw) ==
    /\ BadEnumThrows(S, t, threw)
    /\ ~threw => /\ ShapeOK(S, o) /\ TakesEffect(S, t, o)
                 /\ RoundTrip(S, t, e)
                 /\ UnknownReported(S, t, rep) /\ NoSpurious(S, t, rep)

\* what the transcribed code does with tree t under schema S
RunOK(S, t) ==
    LET thr == Throws(S, t)
        o   == Import(S, t)
    IN  AllOK(S, t, o, Reported(S, t), Export(S, o), thr)

------------------------------------------------------------------------------
(* Tree families.                                                                   *)

RECURSIVE Trees(_, _, _, _), Probes(_, _), Paths(_)

PartialFns(K, V) == UNION {[D -> V] : D \in SUBSET K}

\* unknown key used at the nesting level with identifier lvl (a sequence of child names)
RECURSIVE Join(_)
Join(p) == IF p = <<>> THEN "" ELSE "_" \o Head(p) \o Join(Tail(p))
Unk(lvl) == "zz" \o Join(lvl)

\* every tree over the fields of S (values from vs; Bad on enumerations only) with an
\* optional unknown key at each nesting level; with near = TRUE every level additionally
\* holds all near-miss keys of its structure
NearPart(S, near) == IF near THEN [k \in NearMiss(S) |-> 1] ELSE <<>>
Trees(S, lvl, vs, near) ==
    LET vals == {g \in PartialFns(S.vf \cup {Unk(lvl)}, vs \cup {1, Bad}) :
                    /\ \A k \in DOMAIN g : g[k] = Bad => k \in S.ef
                    /\ Unk(lvl) \in DOMAIN g => g[Unk(lvl)] = 1}
        kids == DOMAIN S.cf
        \* choose for every child: absent or one of its trees
        pick == UNION {[D -> UNION {Trees(S.cf[f], Append(lvl, f), vs, near) : f \in D}] : D \in SUBSET kids}
        ok(h) == \A f \in DOMAIN h : h[f] \in Trees(S.cf[f], Append(lvl, f), vs, near)
    IN  {[v |-> g @@ NearPart(S, near), c |-> h] : g \in vals, h \in {h \in pick : ok(h)}}

\* nesting levels of a schema
Paths(S) == {<<>>} \cup UNION {{<<f>> \o p : p \in Paths(S.cf[f])} : f \in DOMAIN S.cf}

RECURSIVE At(_, _), Wrap(_, _)
At(S, p)   == IF p = <<>> THEN S ELSE At(S.cf[Head(p)], Tail(p))
\* tree holding subtree t at path p and nothing else
Wrap(p, t) == IF p = <<>> THEN t
              ELSE [v |-> <<>>, c |-> (Head(p) :> Wrap(Tail(p), t))]

\* the probe family of the recorder: at every nesting level, every value field set
\* alone (value 1; Bad for enumerations in addition), every understood extra key
\* alone, and one unknown key alone
Probes(S, dummy) ==
    UNION { LET L == At(S, p) IN
            {Wrap(p, [v |-> (f :> 1), c |-> <<>>]) : f \in L.vf} \cup
            {Wrap(p, [v |-> (f :> Bad), c |-> <<>>]) : f \in L.ef} \cup
            {Wrap(p, [v |-> (k :> 1), c |-> <<>>]) : k \in L.xk} \cup
            {Wrap(p, [v |-> (Unk(p) :> 1), c |-> <<>>])} \cup
            (IF NearMiss(L) = {} THEN {} ELSE {Wrap(p, [v |-> [k \in NearMiss(L) |-> 1], c |-> <<>>])})
          : p \in Paths(S) }

\* UnknownKeysRejected: over the prefix closure (and the one-character extensions) of the
\* names a structure understands, every key that is not itself understood is reported -
\* at every nesting level.  A property of the transcribed check (ParamsModel invariant);
\* on the real code the same trees are judged by UnknownReported.
UnknownKeysRejected(S) ==
    \A p \in Paths(S) :
        LET L == At(S, p)
            t == Wrap(p, [v |-> [k \in NearMiss(L) |-> 1], c |-> <<>>])
        IN  NearMiss(L) \subseteq Reported(S, t)
=============================================================================
