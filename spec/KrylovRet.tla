----------------------------- MODULE KrylovRet -----------------------------
(* Predicates on what an amgcl iterative solver RETURNS (C01).  They mention only   *)
(* the configuration and the returned / observed numbers, so that they are used     *)
(* twice: as the invariants of the control model KrylovCtl at pc = "Return" and as  *)
(* the acceptance conditions of C01Trace on executions recorded from the real code. *)
(*                                                                                  *)
(*   solver  "cg" "bicgstab" "bicgstabl" "gmres" "fgmres" "lgmres" "idrs"           *)
(*           "richardson"                                                           *)
(*   side    "left" | "right"   (only bicgstab, bicgstabl, gmres, lgmres have the   *)
(*           parameter; the others are recorded as "right")                         *)
(*   par     restart length M (gmres, fgmres; M+K for lgmres), L (bicgstabl),       *)
(*           s (idrs); 1 otherwise                                                  *)
(*   it      returned iteration count          maxit   configured maximum           *)
(*   nP      number of preconditioner applications the solve performed (the work)   *)
(*   conv    the last convergence test the solver evaluated had passed              *)
(*   zero    the zero right-hand-side shortcut was taken                            *)
EXTENDS Integers

Sided == {"bicgstab", "bicgstabl", "gmres", "lgmres"}
AllSolvers == {"cg", "bicgstab", "bicgstabl", "gmres", "fgmres", "lgmres", "idrs", "richardson"}
\* solvers whose reported residual is updated by recurrence (never recomputed from x)
Recursive == {"cg", "bicgstab", "bicgstabl", "idrs"}

LeftExtra(solver, side) == IF solver \in Sided /\ side = "left" THEN 1 ELSE 0
CeilDiv(a, b) == (a + b - 1) \div b

\* iteration budget: iter <= maxiter, BiCGStab(L) may overshoot by L-1
BudgetOK(solver, par, it, maxit) ==
    it >= 0 /\ it <= maxit + (IF solver = "bicgstabl" THEN par - 1 ELSE 0)

\* a solver returns only after a passed test, an exhausted budget or the zero-rhs shortcut
ExitOK(zero, conv, it, maxit) == zero \/ conv \/ it >= maxit

\* the returned iteration count is truthful about the work done: the number of
\* preconditioner applications is the one the counted iterations account for.
\*   reliable = BiCGStab(L) with delta > 0 (each refresh costs one more application)
WorkOK(solver, side, par, reliable, it, nP, conv) ==
    LET lx == LeftExtra(solver, side)
    IN  CASE solver \in {"cg", "richardson", "fgmres"} -> nP = it
          [] solver = "bicgstab"  ->
                \* two applications per full iteration, one if the iteration was left on ||s||
                \/ nP = 2 * it + lx
                \/ conv /\ it >= 1 /\ nP = 2 * it - 1 + lx
          [] solver = "bicgstabl" ->
                \* it counts BiCG steps: two applications each; +1 for the initial residual
                \* (left) or for the final x += P X (right); a block of L steps may be
                \* followed by one refresh when delta > 0
                IF reliable THEN nP >= 2 * it + 1 /\ nP <= 2 * it + 1 + CeilDiv(it, par)
                            ELSE nP = 2 * it + 1
          [] solver \in {"gmres", "lgmres"} ->
                \* one application per Arnoldi step plus one per restart cycle: per cycle
                \* update on the right, per residual evaluation (cycles + 1) on the left;
                \* a cycle has at most `par` steps and at least one
                /\ nP - lx >= it + CeilDiv(it, par)
                /\ nP - lx <= 2 * it
          [] solver = "idrs" ->
                \* the step that meets the tolerance inside an s-block is not counted
                nP = it \/ (conv /\ nP = it + 1)
          [] OTHER -> FALSE
=============================================================================
