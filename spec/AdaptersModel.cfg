CONSTANTS
  R = 3
  C = 3
  ORD = "all"
  SAMPLE = 1
  PSTEP = 1
INIT Init
NEXT Next
INVARIANTS TupleInv ZeroCopyInv BuilderInv OrderInv ReorderInv ScaledInv
CHECK_DEADLOCK FALSE
