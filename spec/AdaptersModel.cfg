CONSTANTS
  R = 3
  C = 3
  ORD = "all"
INIT Init
NEXT Next
INVARIANTS TupleInv ZeroCopyInv BuilderInv OrderInv ReorderInv ScaledInv
CHECK_DEADLOCK FALSE
