------------------------------ MODULE C17Trace ------------------------------
(* Trace spec for C17: what the real adapters showed through backend::rows / cols /  *)
(* nonzeros / row_begin / spmv (harness/record_adapters.cpp), the observed ownership  *)
(* behaviour of backend::crs under copy / move / assign / destroy, and the            *)
(* preconditioner / solver observations (harness/record_adapters_pc.cpp) are judged   *)
(* by the predicates of Adapters.tla and Ownership.tla.  Clauses whose name starts    *)
(* with "note:" are reported as notes, not as property violations (see checks/C17.py).*)
EXTENDS TraceKit, Adapters, Ownership

VARIABLES l, bad

Seq0(s) == s       \* recorded index vectors hold 0-based values in 1-based sequences

\* 4 / sqrt|d| for d in {1, 4, 16} (0: not a power of four - never equal to a recorded scale)
S4(d) == LET a == IF d < 0 THEN -d ELSE d IN IF a = 1 THEN 4 ELSE IF a = 4 THEN 2 ELSE IF a = 16 THEN 1 ELSE 0
SquareOnly(ad) == ad \in {"crs_tuple", "crs_tuple/range", "crs_builder", "ublas"}

ViewClauses(r) ==
    LET A   == r.A
        wf  == WellFormed(A) /\ WellFormed(r.out) /\ Len(r.x) = r.out.m /\ Len(r.y) = r.out.n
        exp == \* the operator the view must show
            CASE r.ad = "reorder"       -> wf /\ IsPerm(r.perm, A.n) /\ ReorderOK(A, r.perm, r.out)
              \* given scale: out = S A S; scale_diagonal: s and out arrive as 4 s and 16 (S A S) (dyadic fixed point),
              \* and s must be 1/sqrt|a_ii| whatever the order of the row entries (diagonals are powers of 4)
              [] r.ad = "scaled_matrix" -> wf /\ Len(r.s) = A.n /\ ScaledOK(A, r.s, r.out)
                                           /\ (r.it = "scale_diagonal" =>
                                                 /\ \A i \in Rows(A) : r.s[i + 1] = S4(At(A, i, i))
                                                 /\ r.vs = [i \in 1..A.n |-> r.s[i] * r.vx[i]])
              [] OTHER                  -> wf /\ SameOperator(r.out, A)
    IN  <<  <<"wellformed", wf /\ (Has(r, "enumeration_sane") => r.enumeration_sane)>>,
            <<"rows/cols/nonzeros agree with the source", r.rows = A.n /\ r.cols = A.m /\ r.nnz = NNZ(A)>>,
            <<"view is the same operator", exp>>,
            <<"generic CRS constructor = row iteration", r.ctor_same>>,
            <<"row iterators are independent objects (two alive at once = each read alone)", Has(r, "iters_independent") => r.iters_independent>>,
            <<"spmv on the adapter = definition", wf /\ r.y = SpmvDef(r.out, r.x)>>,
            <<"zero-copy: same pointers, not owned", Has(r, "ident") => (r.ident /\ ~r.own /\ r.bytes0)>>,
            <<"scaled_problem: results of separate rhs() calls do not alias (the first is still S b1 after the second call)", Has(r, "rhs_independent") => r.rhs_independent>>,
            <<"reordered_vector / forward / inverse",
                 (Has(r, "vfw") => (r.vfw = Forward(r.perm, r.vx) /\ r.vback = r.vx)) /\ (Has(r, "roundtrip") => r.roundtrip)>> >>

BlockClauses(r) ==
    LET A  == r.A
        wf == WellFormed(A) /\ BlockWF(r.out, r.b) /\ Len(r.y) = A.n
    IN  <<  <<"wellformed", wf>>,
            <<"block rows/cols", r.rows * r.b = A.n /\ r.cols * r.b = A.m>>,
            <<"block entries in place, incomplete blocks zero-filled", wf /\ BlockOK(A, r.b, r.out)>>,
            <<"spmv with scalar vectors through the block matrix = definition", wf /\ r.y = SpmvDef(A, r.x)>>,
            <<"unblock(block(A)) = A", WellFormed(r.unblocked) /\ SameOperator(r.unblocked, A)>> >>

\* ---- ownership: the recorded operation sequence against the observed memory behaviour
OwnClauses(r) ==
    LET ops  == r.ops
        st(k) == Run(Init0(r.H), SubSeq(ops, 1, k))
        legal == \A k \in 1..Len(ops) : Enabled(st(k - 1), ops[k])
        predicted(k) == [h \in 1..r.H |-> LET e == st(k).hs[h] IN <<IF e.alive THEN 1 ELSE 0, IF e.alive THEN e.mem ELSE 0, IF e.alive /\ e.own THEN 1 ELSE 0>>]
        conform == \A k \in 1..Len(ops) : r.obs[k].hs = predicted(k) /\ r.obs[k].live = LiveBlocks(st(k))
    IN  <<  <<"wellformed", Len(r.obs) = Len(ops) /\ legal>>,
            <<"user memory never freed or written", r.ufreed = 0 /\ ~r.uwritten>>,
            <<"no double free", r.dfree = 0>>,
            <<"note:owned memory freed exactly once (leak)", r.leak = 0>>,
            <<"note:drift: observed ownership = transcription", legal => conform>> >>

\* ---- part 2 records (preconditioners built from shuffled rows, reorder / scaled solves)
\* single-threaded: apply() agrees bitwise (every class works on a sorted private copy, so nothing may depend on
\* the user's row order); several threads: bitwise or <= 1e-12 relative (quantised, millidecades)
PrecondClauses(r) ==
    <<  <<"built from shuffled rows = built from sorted rows (apply agrees)",
            r.exc_sorted = r.exc_shuffled /\ (r.exc_sorted = "" => (r.bitwise \/ (r.nt > 1 /\ r.reldiff_md <= -12000)))>> >>
\* true relative residual of the ORIGINAL system (long double) within a decade of the tolerance band
SolveClauses(r) ==
    <<  <<"solver converged (reported)", r.reported_md <= r.tol_md>>,
        <<"back-transformed solution solves the original system", r.true_md <= r.tol_md + r.band_md>> >>

Clauses(r) ==
    CASE r.k = "view"    -> ViewClauses(r)
      [] r.k = "block"   -> BlockClauses(r)
      [] r.k = "zc"      -> << <<"zero-copy: canaries and user arrays intact", r.canary>> >>
      [] r.k = "own"     -> OwnClauses(r)
      [] r.k = "precond" -> PrecondClauses(r)
      [] r.k = "solve"   -> SolveClauses(r)
      [] r.k = "shared"  -> << <<"shared CRS from zero_copy: solver uses the user's arrays, acts like the copying one, arrays intact",
                                  r.ident /\ r.system_matrix_is_users /\ r.same /\ r.canary>> >>
      [] OTHER           -> << <<"unknown-record", FALSE>> >>

Failed(r) == IF Has(r, "e") THEN (IF r.e = "End" THEN <<>> ELSE <<"recorder:" \o r.e>>)
             ELSE IF Has(r, "exc") THEN <<"exception">>
             ELSE FailedOf(Clauses(r))

TInit == l = 1 /\ bad = <<>>
TNext == /\ l <= NLog /\ l' = l + 1
         /\ LET f == Failed(Log[l])
            IN  bad' = IF f = <<>> THEN bad ELSE Append(bad, <<l, f>>)
Verdict == (l = NLog + 1) => VerdictLine(l, bad)
=============================================================================
