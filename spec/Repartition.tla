----------------------------- MODULE Repartition -----------------------------
(* amgcl/mpi/partition/util.hpp : the renumbering behind every repartitioning      *)
(* (ParMETIS, PT-Scotch, merge).  A partitioner hands every rank a vector          *)
(* part[i] in 0..npart-1 for its local rows; graph_perm_index turns it into a      *)
(* global renumbering perm and the new row range of the calling rank;              *)
(* graph_perm_matrix turns perm into the distributed permutation matrix I, and the *)
(* caller forms I^T A I.  symm_graph is the graph handed to the partitioner.       *)
(* Constants-only definitions (used by RepartitionModel and X03Trace).             *)
(* parts = sequence 1..np (rank r at r+1) of sequences of 0-based part ids.        *)
EXTENDS Naturals, Integers, Sequences, FiniteSets, FiniteSetsExt

Min2(a, b) == IF a < b THEN a ELSE b
SumOver(S, F(_)) == MapThenSumSet(F, S)

CountIn(s, p, upto) == Cardinality({i \in 1..upto : s[i] = p})
LocCnt(parts, q, p)  == CountIn(parts[q], p, Len(parts[q]))
GloCnt(parts, p)     == SumOver(1..Len(parts), LAMBDA q : LocCnt(parts, q, p))
GloBeg(parts, p)     == SumOver(0..(p - 1), LAMBDA pp : GloCnt(parts, pp))
Total(parts)         == SumOver(1..Len(parts), LAMBDA q : Len(parts[q]))

\* ---------------------------------------------------------------- definition
\* new number of local row i (1-based position) of rank q-1: rows are grouped by part,
\* inside a part ordered by (rank, local index)
PermDef(parts) ==
    [q \in 1..Len(parts) |-> [i \in 1..Len(parts[q]) |->
        LET p == parts[q][i]
        IN  GloBeg(parts, p) + SumOver(1..(q - 1), LAMBDA qq : LocCnt(parts, qq, p)) + CountIn(parts[q], p, i - 1)]]
\* new row range [beg, end) of rank r (0-based): part r, nothing for ranks >= npart
RangeDef(parts, npart, r) == <<GloBeg(parts, Min2(npart, r)), GloBeg(parts, Min2(npart, r + 1))>>

\* ---------------------------------------------------------------- what a renumbering must satisfy
Image(perm) == UNION {{perm[q][i] : i \in 1..Len(perm[q])} : q \in 1..Len(perm)}
Bijective(parts, perm) ==
    /\ Len(perm) = Len(parts) /\ \A q \in 1..Len(parts) : Len(perm[q]) = Len(parts[q])
    /\ Image(perm) = 0..(Total(parts) - 1)
    /\ \A q1, q2 \in 1..Len(perm) : \A i1 \in 1..Len(perm[q1]) : \A i2 \in 1..Len(perm[q2]) :
          perm[q1][i1] = perm[q2][i2] => (q1 = q2 /\ i1 = i2)
\* a row goes to the range of the part it was assigned to
GoesToItsPart(parts, perm) ==
    \A q \in 1..Len(parts) : \A i \in 1..Len(parts[q]) :
        LET p == parts[q][i] IN GloBeg(parts, p) <= perm[q][i] /\ perm[q][i] < GloBeg(parts, p + 1)
\* order inside a part follows (rank, local index)
Stable(parts, perm) ==
    \A q1, q2 \in 1..Len(parts) : \A i1 \in 1..Len(parts[q1]) : \A i2 \in 1..Len(parts[q2]) :
        (parts[q1][i1] = parts[q2][i2] /\ (q1 < q2 \/ (q1 = q2 /\ i1 < i2))) => perm[q1][i1] < perm[q2][i2]
\* the ranges tile 0..N-1 in rank order and rank r receives exactly the rows of part r
RangesTile(parts, npart, rng) ==
    /\ rng[1][1] = 0 /\ rng[Len(rng)][2] = Total(parts)
    /\ \A q \in 1..Len(rng) : rng[q][1] <= rng[q][2] /\ (q < Len(rng) => rng[q][2] = rng[q + 1][1])
    /\ \A q \in 1..Len(rng) : rng[q][2] - rng[q][1] = (IF q - 1 < npart THEN GloCnt(parts, q - 1) ELSE 0)

\* ---------------------------------------------------------------- permutation matrix
\* (records as in Crs.tla: n, m, ptr, col, val; local part in local numbering, remote part global)
PermMatrixOK(perm, rng, Iloc, Irem, q) ==
    LET n == Len(perm[q]) beg == rng[q][1] end == rng[q][2] IN
    /\ Iloc.n = n /\ Irem.n = n /\ Iloc.m = end - beg
    /\ Len(Iloc.ptr) = n + 1 /\ Len(Irem.ptr) = n + 1 /\ Iloc.ptr[1] = 0 /\ Irem.ptr[1] = 0
    /\ \A i \in 1..n :
          LET j == perm[q][i] own == beg <= j /\ j < end
              nl == Iloc.ptr[i + 1] - Iloc.ptr[i] nr == Irem.ptr[i + 1] - Irem.ptr[i] IN
          /\ nl = (IF own THEN 1 ELSE 0) /\ nr = (IF own THEN 0 ELSE 1)
          /\ own  => (Iloc.col[Iloc.ptr[i] + 1] = j - beg /\ Iloc.val[Iloc.ptr[i] + 1] = 1)
          /\ ~own => (Irem.col[Irem.ptr[i] + 1] = j /\ Irem.val[Irem.ptr[i] + 1] = 1)
    /\ Len(Iloc.col) = Iloc.ptr[n + 1] /\ Len(Irem.col) = Irem.ptr[n + 1]

\* ---------------------------------------------------------------- renumbered operator
\* A and B as sets of <<row, col, value>> (global numbering, no duplicates): B = I^T A I
GlobalPerm(parts, perm) ==      \* old global row (0-based, ranks own consecutive strips) -> new
    LET off(q) == SumOver(1..(q - 1), LAMBDA qq : Len(parts[qq]))
    IN  [g \in 0..(Total(parts) - 1) |->
            LET q == CHOOSE qq \in 1..Len(parts) : off(qq) <= g /\ g < off(qq) + Len(parts[qq])
            IN  perm[q][g - off(q) + 1]]
Renumbered(A, gp) == {<<gp[e[1]], gp[e[2]], e[3]>> : e \in A}

\* ---------------------------------------------------------------- partitioner graph
\* row i of the symmetrised graph: own-range neighbours of A + A^T without i, ascending,
\* then the neighbours owned by other ranks, ascending; all in global numbering
SortedSeqOf(S) == LET RECURSIVE srt(_) srt(T) == IF T = {} THEN <<>> ELSE LET m == CHOOSE x \in T : \A y \in T : x <= y IN <<m>> \o srt(T \ {m})
                  IN  srt(S)
GraphRowDef(Apat, g, beg, end) ==       \* Apat: set of <<row, col>>
    LET nb == ({e[2] : e \in {x \in Apat : x[1] = g}} \cup {e[1] : e \in {x \in Apat : x[2] = g}})
        own == {c \in nb : beg <= c /\ c < end /\ c # g}
        oth == {c \in nb : ~(beg <= c /\ c < end)}
    IN  SortedSeqOf(own) \o SortedSeqOf(oth)
=============================================================================
