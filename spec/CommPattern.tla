---------------------------- MODULE CommPattern ----------------------------
(* Transcription of the constructor of amgcl::mpi::comm_pattern                       *)
(* (amgcl/mpi/distributed_matrix.hpp:87-185) with the granularity of the code:        *)
(*   1. domain = exclusive_sum(n_loc_cols)              (MPI_Allgather + partial_sum) *)
(*   2. rem_cols = sort + unique of the remote columns                                 *)
(*   3. one scan over rem_cols: owner d advances while rem_cols[i] >= domain[d+1];     *)
(*      ++rcounts[d]; a new neighbour is counted when d exceeds `last`;                *)
(*      idx[col] = (rnbr-1, i)            (the renumbering map of remote columns)      *)
(*   4. recv.nbr / recv.ptr from rcounts                                               *)
(*   5. MPI_Alltoall(rcounts -> scounts);  send.nbr / send.ptr from scounts            *)
(*   6. Irecv send.col slices from send.nbr[i] / Isend rem_cols slices to recv.nbr[i]  *)
(*      (tag_exc_cols), Waitall                                                        *)
(*   7. send.col -= loc_beg                                                            *)
(* Ranks are 0..np-1; a contiguous partition is the sequence of its np+1 boundaries    *)
(* (cp[r+1] = first column of rank r, cp[np+1] = number of columns) = `domain`.        *)
(* Patterns of all ranks are kept as a sequence 1..np of records                       *)
(*   [snbr, sptr, scol, rnbr, rptr, rcol, rdom]   (rcol[i+1] = global column with      *)
(* local index i, rdom[i+1] = its neighbour index): the shape the recorder logs.       *)
EXTENDS Naturals, Integers, Sequences, FiniteSets, SequencesExt, FiniteSetsExt, TLC

TagCols == 1002
TagVals == 1003

PRanks(np) == 0 .. (np - 1)
Lo(cp, r) == cp[r + 1]
Hi(cp, r) == cp[r + 2]
IsPartition(cp, np, n) == /\ Len(cp) = np + 1 /\ cp[1] = 0 /\ cp[np + 1] = n
                          /\ \A r \in 1..np : cp[r] <= cp[r + 1]
OwnerOf(cp, np, c) == CHOOSE d \in PRanks(np) : Lo(cp, d) <= c /\ c < Hi(cp, d)

SortUnique(s) == SetToSortSeq(ToSet(s), LAMBDA a, b : a < b)
Slice(s, lo, hi) == [i \in 1..(hi - lo) |-> s[lo + i]]          \* 0-based half-open [lo, hi)

\* ---- step 3: the scan (while (rem_cols[i] >= domain[d + 1]) ++d;)
RECURSIVE AdvanceD(_, _, _)
AdvanceD(cp, d, c) == IF c >= cp[d + 2] THEN AdvanceD(cp, d + 1, c) ELSE d

PatScan(np, cp, rc) ==
    FoldLeft(LAMBDA st, c :
                LET d    == AdvanceD(cp, st.d, c)
                    newn == st.last < d
                    rn   == IF newn THEN st.rnbr + 1 ELSE st.rnbr
                IN  [d |-> d, last |-> IF newn THEN d ELSE st.last, rnbr |-> rn,
                     rcounts |-> [st.rcounts EXCEPT ![d] = @ + 1],
                     rdom |-> Append(st.rdom, rn - 1)],
             [d |-> 0, last |-> -1, rnbr |-> 0, rcounts |-> [d \in PRanks(np) |-> 0], rdom |-> <<>>], rc)

\* ---- steps 4/5: neighbour and pointer lists from a count vector [rank -> count]
NbrOf(np, counts) == SelectSeq([d \in 1..np |-> d - 1], LAMBDA d : counts[d] > 0)
PtrOf(counts, nbr) ==
    LET p[k \in 0..Len(nbr)] == IF k = 0 THEN 0 ELSE p[k - 1] + counts[nbr[k]]
    IN  [k \in 1..(Len(nbr) + 1) |-> p[k - 1]]

\* local phase of rank r (steps 2-4): remcols = stored remote column ids (any order, repeats)
PatLocal(np, cp, remcols) ==
    LET rc == SortUnique(remcols)
        sc == PatScan(np, cp, rc)
        nb == NbrOf(np, sc.rcounts)
    IN  [rcol |-> rc, rdom |-> sc.rdom, rcounts |-> sc.rcounts, rnbr |-> nb, rptr |-> PtrOf(sc.rcounts, nb),
         nbrcount |-> sc.rnbr]

\* position of rank d in a neighbour list (0 if absent)
NbrIndex(nbr, d) == IF \E k \in 1..Len(nbr) : nbr[k] = d THEN CHOOSE k \in 1..Len(nbr) : nbr[k] = d ELSE 0

\* what rank s sends to its recv-neighbour number k (step 6): a slice of its rem_cols
ColsMsg(L, k) == Slice(L.rcol, L.rptr[k], L.rptr[k + 1])

\* closed form for all ranks (collectives are barriers, the column messages travel on
\* distinct channels into distinct slices, so the result does not depend on the schedule;
\* DistMatrixModel runs the same steps on MpiChan under every schedule and compares)
PatternRun(np, cp, rem) ==            \* rem : [rank -> Seq of remote column ids]
    LET L  == [r \in PRanks(np) |-> PatLocal(np, cp, rem[r])]
        sc == [r \in PRanks(np) |-> [d \in PRanks(np) |-> L[d].rcounts[r]]]          \* Alltoall
        sn == [r \in PRanks(np) |-> NbrOf(np, sc[r])]
        sp == [r \in PRanks(np) |-> PtrOf(sc[r], sn[r])]
        got == [r \in PRanks(np) |-> FlattenSeq([i \in 1..Len(sn[r]) |->
                                        ColsMsg(L[sn[r][i]], NbrIndex(L[sn[r][i]].rnbr, r))])]
    IN  [q \in 1..np |->
            LET r == q - 1
            IN  [snbr |-> sn[r], sptr |-> sp[r], scol |-> [i \in 1..Len(got[r]) |-> got[r][i] - Lo(cp, r)],
                 rnbr |-> L[r].rnbr, rptr |-> L[r].rptr, rcol |-> L[r].rcol, rdom |-> L[r].rdom]]

\* ---------------------------------------------------------------- the property
StrictlyIncreasing(s) == \A i \in 1..(Len(s) - 1) : s[i] < s[i + 1]
PtrWF(ptr, nbr, total) == /\ Len(ptr) = Len(nbr) + 1 /\ ptr[1] = 0 /\ ptr[Len(ptr)] = total
                          /\ \A k \in 1..Len(nbr) : ptr[k] < ptr[k + 1]

\* need[r+1] = set of global columns rank r references outside its own column range.
\* For every rank r and needed column c owned by d: c has a local index, r lists d as a
\* neighbour, and d's send list for r holds c (in d's local numbering) at the position r
\* expects it; nobody sends or expects anything else.
PatternOK(np, cp, need, pat) ==
    /\ Len(pat) = np
    /\ \A q \in 1..np :
        LET r == q - 1
            p == pat[q]
        IN  /\ ToSet(p.rcol) = need[q] /\ StrictlyIncreasing(p.rcol)
            /\ \A c \in need[q] : c >= 0 /\ c < cp[np + 1] /\ ~(Lo(cp, r) <= c /\ c < Hi(cp, r))
            /\ StrictlyIncreasing(p.rnbr) /\ PtrWF(p.rptr, p.rnbr, Len(p.rcol))
            /\ Len(p.rdom) = Len(p.rcol)
            /\ \A k \in 1..Len(p.rnbr) :
                 LET d == p.rnbr[k]
                 IN  /\ d \in PRanks(np) /\ d # r
                     /\ \A i \in (p.rptr[k] + 1)..p.rptr[k + 1] :
                           /\ Lo(cp, d) <= p.rcol[i] /\ p.rcol[i] < Hi(cp, d)        \* owner
                           /\ p.rdom[i] = k - 1                                        \* renumbering map
                     /\ LET s == pat[d + 1]
                            j == NbrIndex(s.snbr, r)
                        IN  /\ j > 0
                            /\ j + 1 <= Len(s.sptr)
                            /\ s.sptr[j + 1] - s.sptr[j] = p.rptr[k + 1] - p.rptr[k]
                            /\ s.sptr[j + 1] <= Len(s.scol)
                            /\ \A i \in 1..(p.rptr[k + 1] - p.rptr[k]) :
                                  s.scol[s.sptr[j] + i] + Lo(cp, d) = p.rcol[p.rptr[k] + i]
            /\ StrictlyIncreasing(p.snbr) /\ PtrWF(p.sptr, p.snbr, Len(p.scol))
            /\ \A j \in 1..Len(p.snbr) :
                 /\ p.snbr[j] \in PRanks(np) /\ p.snbr[j] # r
                 /\ NbrIndex(pat[p.snbr[j] + 1].rnbr, r) > 0                         \* no phantom neighbour
            /\ \A i \in 1..Len(p.scol) : p.scol[i] >= 0 /\ p.scol[i] < Hi(cp, r) - Lo(cp, r)
=============================================================================
