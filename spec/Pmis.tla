-------------------------------- MODULE Pmis --------------------------------
(* Transcription of the distributed aggregation amgcl::mpi::coarsening::pmis           *)
(* (amgcl/mpi/coarsening/pmis.hpp, squared_interface 144-333, aggregates 417-709):     *)
(*   * S = symbolic square of the strength graph A, computed only for rows that reach  *)
(*     another rank (S_rem(i) # {}), so S_loc(i) = {} for interior rows                *)
(*   * lonely nodes (|A_loc(i)| + |S_rem(i)| = 1) are deleted                          *)
(*   * rounds: every rank walks its undecided points in order;                         *)
(*       boundary point (S_rem(i) # {}): selectable iff no S_rem neighbour is undecided*)
(*         *and* lives on a higher rank; a selected point becomes a root, takes ALL    *)
(*         its A_loc neighbours (whatever their state), claims ALL its A_rem           *)
(*         neighbours and the still undecided S_loc / S_rem neighbours;                *)
(*       interior point: becomes a root, takes every non-deleted A_loc neighbour and   *)
(*         the undecided A_loc neighbours of those;                                    *)
(*     claims (column, id) go to the owners of the claimed columns, which apply them   *)
(*     unconditionally in the order of their send-neighbour list (the last claim wins),*)
(*     then the states of the ghost points are exchanged and n_undone is all-reduced   *)
(*   * aggregates that lost all their points are dropped and the rest renumbered; the  *)
(*     new ids of remotely owned points are sent to their home ranks                   *)
(* Sets replace the CRS arrays (the order inside a row does not influence the result:  *)
(* every neighbour is visited at most once per root); the order of the roots and of    *)
(* the claims is kept.  Nodes 0..n-1, ranks 0..np-1, rp = partition boundaries.        *)
EXTENDS Naturals, Integers, Sequences, FiniteSets, FiniteSetsExt, SequencesExt, TLC

Undone  == -2
Deleted == -1

\* G = [n |-> n, adj |-> [0..n-1 -> SUBSET 0..n-1]] : adj[i] = strong connections of row i (with i itself)
Nodes(G)       == 0 .. (G.n - 1)
PmRanks(np)    == 0 .. (np - 1)
LocalSet(rp, r) == rp[r + 1] .. (rp[r + 2] - 1)
Home(rp, np, i) == CHOOSE r \in PmRanks(np) : i \in LocalSet(rp, r)
ALoc(G, rp, r, i) == G.adj[i] \cap LocalSet(rp, r)
ARem(G, rp, r, i) == G.adj[i] \ LocalSet(rp, r)
N2(G, i)          == UNION {G.adj[j] : j \in G.adj[i]}
SRem(G, rp, r, i) == N2(G, i) \ LocalSet(rp, r)
SLoc(G, rp, r, i) == IF SRem(G, rp, r, i) = {} THEN {} ELSE N2(G, i) \cap LocalSet(rp, r)
\* columns of the communication pattern of S on rank r, and who needs r's columns
RecvCols(G, rp, r) == UNION {SRem(G, rp, r, i) : i \in LocalSet(rp, r)}
Asc(S) == SetToSortSeq(S, LAMBDA a, b : a < b)

\* state of the algorithm:
\*   state, owner : [node -> Int]      (loc_state / loc_owner of the home rank of each node)
\*   rem          : [rank -> [RecvCols -> Int]]   (rem_state)
\*   und, naggr   : [rank -> Int]
\*   out          : [rank -> [rank -> Seq(<<col, id>>)]]   (send_pts of the current round)
PmInit(G, np, rp) ==
    LET lonely(i) == LET r == Home(rp, np, i) IN Cardinality(ALoc(G, rp, r, i)) + Cardinality(SRem(G, rp, r, i)) = 1
        st0 == [i \in Nodes(G) |-> IF lonely(i) THEN Deleted ELSE Undone]
    IN  [state |-> st0,
         owner |-> [i \in Nodes(G) |-> -1],
         rem   |-> [r \in PmRanks(np) |-> [c \in RecvCols(G, rp, r) |-> st0[c]]],      \* first state exchange
         und   |-> [r \in PmRanks(np) |-> Cardinality({i \in LocalSet(rp, r) : st0[i] = Undone})],
         naggr |-> [r \in PmRanks(np) |-> 0],
         out   |-> [r \in PmRanks(np) |-> [d \in PmRanks(np) |-> <<>>]]]

\* set of local points S gets (rank r, id); n_undone decreases by the undecided ones among them
Take(st, r, S, id) ==
    [st EXCEPT !.state = [i \in DOMAIN @ |-> IF i \in S THEN id ELSE @[i]],
               !.owner = [i \in DOMAIN @ |-> IF i \in S THEN r ELSE @[i]],
               !.und[r] = @ - Cardinality({i \in S : st.state[i] = Undone})]
\* claim remote columns (ascending): rem_state[c] = id, (c, id) appended to the list for c's home
Claim(st, np, rp, r, S, id) ==
    FoldLeft(LAMBDA s, c : [s EXCEPT !.rem[r][c] = id, !.out[r][Home(rp, np, c)] = Append(@, <<c, id>>)], st, Asc(S))

Selectable(G, np, rp, r, st, i) ==
    \A c \in SRem(G, rp, r, i) : ~(st.rem[r][c] = Undone /\ Home(rp, np, c) > r)

\* one iteration of `for(i = 0; i < n; ++i)` in the round
DecideOne(G, np, rp, r, st, i) ==
    IF st.state[i] # Undone THEN st
    ELSE IF SRem(G, rp, r, i) # {} THEN
        IF ~Selectable(G, np, rp, r, st, i) THEN st
        ELSE LET id == st.naggr[r]
                 s1 == Take([st EXCEPT !.naggr[r] = id + 1], r, {i}, id)
                 s2 == Take(s1, r, ALoc(G, rp, r, i) \ {i}, id)                          \* A gives immediate neighbours
                 s3 == Claim(s2, np, rp, r, ARem(G, rp, r, i), id)
                 s4 == Take(s3, r, {c \in SLoc(G, rp, r, i) \ {i} : s3.state[c] = Undone}, id)   \* S gives removed neighbours
             IN  Claim(s4, np, rp, r, {c \in SRem(G, rp, r, i) : s4.rem[r][c] = Undone}, id)
    ELSE LET id  == st.naggr[r]
             s1  == Take([st EXCEPT !.naggr[r] = id + 1], r, {i}, id)
             nbr == {c \in ALoc(G, rp, r, i) \ {i} : s1.state[c] # Deleted}
             s2  == Take(s1, r, nbr, id)
             far == {c \in UNION {ALoc(G, rp, r, k) \ {k} : k \in nbr} : s2.state[c] = Undone}
         IN  Take(s2, r, far, id)

\* the decision sweep of rank r (skipped when n_undone = 0), send lists cleared first
Decide(G, np, rp, r, st) ==
    LET s0 == [st EXCEPT !.out[r] = [d \in PmRanks(np) |-> <<>>]]
    IN  IF s0.und[r] = 0 THEN s0
        ELSE FoldLeft(LAMBDA s, i : DecideOne(G, np, rp, r, s, i), s0, Asc(LocalSet(rp, r)))

\* rank r receives the claims of its send-neighbours in ascending rank order and applies them
ApplyClaims(np, r, st) ==
    LET msgs == FlattenSeq([q \in 1..np |-> [k \in 1..Len(st.out[q - 1][r]) |-> <<q - 1, st.out[q - 1][r][k]>>]])
    IN  FoldLeft(LAMBDA s, m : [s EXCEPT !.und[r] = IF s.state[m[2][1]] = Undone THEN @ - 1 ELSE @,
                                         !.owner[m[2][1]] = m[1],
                                         !.state[m[2][1]] = m[2][2]], st, msgs)
\* state exchange: ghosts get the owners' states
Exchange(G, np, rp, st) ==
    [st EXCEPT !.rem = [r \in PmRanks(np) |-> [c \in RecvCols(G, rp, r) |-> st.state[c]]]]
TotalUndone(np, st) == MapThenSumSet(LAMBDA r : st.und[r], PmRanks(np))

\* one full round in lockstep
Round(G, np, rp, st) ==
    LET d == FoldLeft(LAMBDA s, r : Decide(G, np, rp, r, s), st, Asc(PmRanks(np)))
        c == FoldLeft(LAMBDA s, r : ApplyClaims(np, r, s), d, Asc(PmRanks(np)))
    IN  Exchange(G, np, rp, c)

\* drop empty aggregates and renumber (lines 628-703)
UsedIds(G, np, rp, r, st) ==
    {st.state[i] : i \in {j \in LocalSet(rp, r) : st.owner[j] = r /\ st.state[j] >= 0}}
    \cup {st.rem[r][c] : c \in {k \in RecvCols(G, rp, r) : st.owner[k] = r /\ st.rem[r][k] >= 0}}
Renumber(G, np, rp, st) ==
    LET used(r)   == UsedIds(G, np, rp, r, st)
        newid(r, k) == Cardinality({u \in used(r) : u < k})
        vanished  == MapThenSumSet(LAMBDA r : st.naggr[r] - Cardinality(used(r)), PmRanks(np))
    IN  IF vanished = 0 THEN [state |-> st.state, owner |-> st.owner, naggr |-> st.naggr, renumbered |-> FALSE]
        ELSE [state |-> [i \in Nodes(G) |->
                            LET o == st.owner[i]
                                h == Home(rp, np, i)
                            IN  IF st.state[i] < 0 \/ o < 0 THEN st.state[i]
                                ELSE IF o = h THEN newid(o, st.state[i])          \* own point
                                ELSE newid(o, st.rem[o][i])],                       \* id sent by the owner o
              owner |-> st.owner,
              naggr |-> [r \in PmRanks(np) |-> Cardinality(used(r))],
              renumbered |-> TRUE]

\* closed form: rounds until the all-reduced n_undone is 0 (at least one round, as in the code)
RECURSIVE Rounds(_, _, _, _, _)
Rounds(G, np, rp, st, k) ==
    LET s == Round(G, np, rp, st)
    IN  IF TotalUndone(np, s) = 0 \/ k = 0 THEN [st |-> s, left |-> k] ELSE Rounds(G, np, rp, s, k - 1)
PmisRun(G, np, rp) ==
    LET rr == Rounds(G, np, rp, PmInit(G, np, rp), 4 * G.n + 4)
    IN  [fin |-> Renumber(G, np, rp, rr.st), terminated |-> TotalUndone(np, rr.st) = 0, rounds |-> 4 * G.n + 5 - rr.left]

\* ---------------------------------------------------------------- the property
\* fin = [state, owner, naggr]: every unknown with a strong neighbour is in exactly one aggregate
\* (state >= 0, a function), nobody is left undecided, the owner is a rank and the id is one of
\* the owner's aggregates, and no aggregate is empty.
GlobalPartitionOK(G, np, fin) ==
    /\ \A i \in Nodes(G) :
        /\ fin.state[i] # Undone /\ fin.state[i] >= Undone
        /\ (G.adj[i] \ {i} # {}) => fin.state[i] >= 0
        /\ fin.state[i] >= 0 => /\ fin.owner[i] \in PmRanks(np)
                                /\ fin.state[i] < fin.naggr[fin.owner[i]]
    /\ \A r \in PmRanks(np) : \A a \in 0..(fin.naggr[r] - 1) :
          \E i \in Nodes(G) : fin.owner[i] = r /\ fin.state[i] = a

\* the number of (owner, id) pairs in use equals the sum of naggr
CoarseSize(np, fin) == MapThenSumSet(LAMBDA r : fin.naggr[r], PmRanks(np))
=============================================================================
