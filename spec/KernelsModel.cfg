CONSTANTS
  RA = 2
  CA = 3
  CB = 3
INIT Init
NEXT Next
INVARIANTS TransposeInv SaadInv SaadSortInv RmergeInv AgreeInv SumInv SortInv
CHECK_DEADLOCK FALSE
