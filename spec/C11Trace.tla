------------------------------ MODULE C11Trace ------------------------------
(* Trace spec for C11: every operation the recorder harness/record_dist.cpp ran on the *)
(* real amgcl::mpi::distributed_matrix (under mpirun, N ranks, results gathered to     *)
(* rank 0) is judged with the predicates of DistMatrix / CommPattern / MpiChan / Crs   *)
(* -- the same operators that are the invariants of DistMatrixModel.                   *)
EXTENDS TraceKit, DistMatrix, MpiChan, SparseKernels

VARIABLES l, bad, drift

Flat(ll) == FlattenSeq(ll)
WFCase(r) == /\ IsPartition(r.rp, r.np, r.A.n) /\ IsPartition(r.cp, r.np, r.A.m) /\ WellFormed(r.A)
SizesAre(sz, want) == \A q \in 1..Len(sz) : sz[q] = want
StoredNNZ(D) == MapThenSumSet(LAMBDA q : NNZ(D.loc[q]) + NNZ(D.rem[q]), 1..Len(D.loc))
Zeros(n) == [i \in 1..n |-> 0]

BuildClauses(r) ==
    << <<"split=serial", DistOf(r.np, r.rp, r.cp, r.D, r.A)>>,
       <<"sizes-identical-on-all-ranks",
            /\ Len(r.sizes) = r.np
            /\ \A q \in 1..r.np : /\ r.sizes[q][1] = r.A.n /\ r.sizes[q][2] = r.A.m /\ r.sizes[q][3] = NNZ(r.A)
                                  /\ r.sizes[q][4] = Hi(r.rp, q - 1) - Lo(r.rp, q - 1)
                                  /\ r.sizes[q][5] = Hi(r.cp, q - 1) - Lo(r.cp, q - 1)
                                  /\ r.sizes[q][7] = Lo(r.cp, q - 1)>> >>

PatternClauses(r) ==
    << <<"PatternOK", PartsOK(r.np, r.rp, r.cp, r.D, r.A.m) /\ PatternOK(r.np, r.cp, NeedOf(r.np, r.D), r.pat)>> >>

SpmvClauses(r) ==
    << <<"spmv=serial",     r.out  = SpmvDef(r.alpha, r.A, r.x,  r.beta, r.y0)>>,
       <<"second-exchange", r.out2 = SpmvDef(r.alpha, r.A, r.x2, r.beta, r.y0)>>,
       <<"residual=serial", r.res  = ResidualDef(r.f, r.A, r.x)>> >>

TransposeClauses(r) ==
    LET wf == PartsOK(r.np, r.cp, r.rp, r.T, r.A.n)
        G  == Assemble(r.np, r.cp, r.rp, r.T, r.A.m, r.A.n)
    IN  << <<"transpose-parts", wf>>,
           <<"transpose=serial", wf /\ TransposeOK(r.A, G)>>,
           <<"transpose-sizes", wf /\ SizesAre(r.sizes, <<r.A.m, r.A.n, NNZ(r.A)>>)>> >>

ProductClauses(r) ==
    LET wf == IsPartition(r.cq, r.np, r.B.m) /\ WellFormed(r.B) /\ PartsOK(r.np, r.rp, r.cq, r.C, r.B.m)
        G  == Assemble(r.np, r.rp, r.cq, r.C, r.A.n, r.B.m)
    IN  << <<"product-parts", wf>>,
           <<"product=serial", wf /\ ProductOK(r.A, r.B, G)>>,
           <<"product-sizes", wf /\ SizesAre(r.sizes, <<r.A.n, r.B.m, StoredNNZ(r.C)>>)>> >>

Clauses(r) ==
    CASE r.k = "build"     -> BuildClauses(r)
      [] r.k = "pattern"   -> PatternClauses(r)
      \* after move_to_backend(bprm, keep_src = TRUE) the kept blocks still describe the same matrix
      [] r.k = "kept"      -> << <<"kept-source=serial-after-move", DistOf(r.np, r.rp, r.cp, r.D, r.A)>> >>
      [] r.k = "spmv"      -> SpmvClauses(r)
      [] r.k = "inner"     -> << <<"inner=serial-on-all-ranks", Len(r.out) = r.np /\ AllEqualTo(Flat(r.out), InnerDef(r.x, r.y))>> >>
      \* a copy obtained through the converting constructors is the same distributed matrix, bookkeeping included
      [] r.k = "converted" -> BuildClauses(r)
      \* complex values: sum_i x_i conj(y_i), both parts, on every rank
      [] r.k = "cinner"    -> << <<"complex-inner=serial-on-all-ranks",
                                    /\ Len(r.out) = r.np
                                    /\ \A q \in 1..r.np : r.out[q] = << MapThenSumSet(LAMBDA i : r.xr[i] * r.yr[i] + r.xi[i] * r.yi[i], 1..Len(r.xr)),
                                                                        MapThenSumSet(LAMBDA i : r.xi[i] * r.yr[i] - r.xr[i] * r.yi[i], 1..Len(r.xr)) >> >> >>
      [] r.k = "transpose" -> TransposeClauses(r)
      [] r.k = "product"   -> ProductClauses(r)
      [] r.k = "rrows"     -> << <<"remote_rows=rows-of-B", WellFormed(r.B) /\ RemoteRowsOK(r.np, r.B, r.rows, r.rcol)>> >>
      [] r.k = "scale"     -> << <<"scale=serial", DistOf(r.np, r.rp, r.cp, r.D, [r.A EXCEPT !.val = [p \in 1..Len(@) |-> r.s * @[p]]])>> >>
      [] r.k = "sort"      -> << <<"sort-keeps-operator", DistOf(r.np, r.rp, r.cp, r.D, r.A)>>,
                                 <<"sort_rows=serial", PartsOK(r.np, r.rp, r.cp, r.D0, r.A.m) /\ SortPartsOK(r.np, r.D0, r.D)>> >>
      [] r.k = "copy"      -> << <<"copy=serial", DistOf(r.np, r.rp, r.cp, r.F, r.A) /\ DistOf(r.np, r.rp, r.cp, r.G, r.A)>>,
                                 <<"copy-sizes", SizesAre(r.sizes, <<r.A.n, r.A.m, NNZ(r.A), r.A.n, r.A.m, NNZ(r.A)>>)>>,
                                 <<"copy-spmv", r.out = SpmvDef(1, r.A, r.x, 0, Zeros(r.A.n))>> >>
      [] r.k = "gersh"     -> << <<"gershgorin-identical-on-all-ranks", Len(r.out) = r.np /\ AllEqualTo(Flat(r.out), Flat(r.out)[1])>>,
                                 <<"gershgorin=serial", r.serial = GershgorinDef(r.A) /\ AllEqualTo(Flat(r.out), GershgorinDef(r.A))>> >>
      [] r.k = "specbits"  -> << <<"scaled-gershgorin=serial-bitwise", \A q \in 1..r.np : r.gs[q] = r.gs_serial>>,
                                 <<"power-method-identical-on-all-ranks", \A q \in 1..r.np : r.pw[q] = r.pw[1] /\ r.pu[q] = r.pu[1]>> >>
      [] r.k = "msgs"      -> << <<"FifoMatch", FifoMatch(r.log.ev)>>,
                                 <<"Completed", Completed(r.log.ev) /\ AllEqualTo(r.log.open, 0) /\ AllEqualTo(r.log.lost, 0)>>,
                                 <<"CollectiveLockstep", CollectiveLockstep(r.log.ev)>> >>
      [] OTHER             -> << <<"unknown-record", FALSE>> >>

\* structural conformance with the transcription (drift only, never a verdict)
DriftedRec(r) ==
    IF Has(r, "e") THEN FALSE
    ELSE CASE r.k = "pattern" -> r.pat # PatternRun(r.np, r.cp, [q \in PRanks(r.np) |-> r.D.rem[q + 1].col])
           [] r.k = "build"   -> r.D # SplitRun(r.A, r.np, r.rp, r.cp)
           [] OTHER -> FALSE

\* C11MODE=drift turns the same machinery into the drift pass (recorded pattern / split differ from
\* the transcription's storage although the predicates hold): informational, never a verdict
Mode == IF "C11MODE" \in DOMAIN IOEnv THEN IOEnv.C11MODE ELSE "judge"
Failed(r) == IF Mode = "drift" THEN (IF DriftedRec(r) THEN <<"storage-differs-from-transcription">> ELSE <<>>)
             ELSE IF Has(r, "e") THEN (IF r.e = "End" THEN <<>> ELSE <<"recorder:" \o r.e>>)
             ELSE IF r.k = "msgs" THEN FailedOf(Clauses(r))
             ELSE IF ~WFCase(r) THEN <<"malformed-case">>
             ELSE FailedOf(Clauses(r))

TInit == l = 1 /\ bad = <<>> /\ drift = 0
TNext == /\ l <= NLog /\ l' = l + 1
         /\ LET f == Failed(Log[l])
            IN  /\ bad' = IF f = <<>> THEN bad ELSE Append(bad, <<l, f>>)
                /\ drift' = drift
Verdict == (l = NLog + 1) => VerdictLine(l, bad)
=============================================================================
