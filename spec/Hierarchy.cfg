CONSTANTS
  MaxRows = 6
  MaxVersions = 3
SPECIFICATION Spec
INVARIANTS ShapeInv VersionInv
PROPERTY StructureStable
CHECK_DEADLOCK FALSE
