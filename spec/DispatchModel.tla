--------------------------- MODULE DispatchModel ---------------------------
(* State machine over the dispatch tables of the four run-time wrappers.  The       *)
(* tables are those scanned from the headers of the tree under test (ndjson file    *)
(* named by the environment variable DISPATCH, written by checks/C14.py; one line   *)
(* per wrapper) or, with DISPATCH unset, the tables a correct header has.  For      *)
(* every wrapper and every configuration string (all documented names, one unknown  *)
(* name, and the default taken when the key is absent) the behaviour                *)
(*     Parse -> Call(constructor) -> Call(method 2) -> ... -> Call(last method)     *)
(* is generated; the invariants say that every method lands in the component the    *)
(* string names, and that an unknown string throws in Parse and constructs nothing. *)
EXTENDS Dispatch, Json, IOUtils

Tables == IF "DISPATCH" \in DOMAIN IOEnv
          THEN ndJsonDeserialize(IOEnv.DISPATCH)
          ELSE <<IdealTable("solver"), IdealTable("relaxation"),
                 IdealTable("coarsening"), IdealTable("precond")>>

VARIABLES k, str, pc, en, reached, step
vars == <<k, str, pc, en, reached, step>>

W == Tables[k]
Strings(w) == Range(Expected[w].names) \cup {"nonsense", "#absent"}

Init == /\ k \in DOMAIN Tables /\ str \in Strings(Tables[k].w)
        /\ pc = "parse" /\ en = "" /\ reached = <<>> /\ step = 0

Parse == /\ pc = "parse"
         /\ en' = (IF str = "#absent" THEN W.default ELSE ParseStr(W, str))
         /\ pc' = (IF en' = "#throw" THEN "threw" ELSE "call")
         /\ step' = 1 /\ UNCHANGED <<k, str, reached>>
Call  == /\ pc = "call" /\ step <= Len(W.switches)
         /\ reached' = Append(reached, Reach(W, step, en))
         /\ step' = step + 1
         /\ pc' = (IF step = Len(W.switches) THEN "done" ELSE "call")
         /\ UNCHANGED <<k, str, en>>
Next == Parse \/ Call

Want == LET E == Expected[W.w] IN
        IF str = "#absent" THEN E.target[E.default] ELSE E.target[str]

\* the static judgement of each table
TablesOK == DispatchOK(W)
\* the dynamic reading: every method reaches the component the string names
ReachOK == pc \in {"call", "done"} =>
              /\ str # "nonsense"
              /\ \A i \in DOMAIN reached :
                    \/ reached[i] = Want
                    \/ reached[i] = "#nothing" /\ W.switches[i].fn \in Expected[W.w].partial
BadThrows == str = "nonsense" => pc \in {"parse", "threw"}
=============================================================================
