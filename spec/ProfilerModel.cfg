CONSTANTS
  Order <- OrderAB
  MaxSteps = 6
  MaxDepth = 3
  Steps = {1, 3, 1200}
SPECIFICATION Spec
INVARIANTS SelfTime Root Shape Delta ReportComplete
CHECK_DEADLOCK FALSE
