----------------------------- MODULE SchurModel -----------------------------
(* Exhaustive small-scope model of schur_pressure_correction on exact rationals:    *)
(* every stored pattern of an NN x NN matrix (diagonal entries 3 / 4, the others    *)
(* PatVal in {-1, 1, 2}), every pressure mask with at least one u and one p         *)
(* unknown, every adjust_p and simplec_dia; inner solves are exact.                 *)
EXTENDS Schur, Patterns, TLC

CONSTANTS NN, Stride
VARIABLES km, pm, adjust, simplec, st, pc

vars == <<km, pm, adjust, simplec, st, pc>>
Val(i, j) == IF i = j THEN 3 + (i % 2) ELSE PatVal(i, j, 1)
KOf(mask) == LET P == MkCrs(NN, NN, mask, 1, FALSE)
             IN  [P EXCEPT !.val = [p \in 1..Len(P.val) |->
                    LET i == CHOOSE r \in 0..(NN - 1) : Ptr(P, r) < p /\ p <= Ptr(P, r + 1) IN Val(i, P.col[p])]]
K == KOf(km)
PMasks == {m \in [1..NN -> {0, 1}] : \E a, b \in 1..NN : m[a] = 0 /\ m[b] = 1}

\* the setup (sub-blocks, Kuu_dia, Ld, Lm, matrix for PSolver) is computed once per configuration
Prepared(mask, m, adj, sc) ==
    LET S == Setup(KOf(mask), m, adj, sc)
        dd == DiaDefined(S.uu, sc)
    IN  [S EXCEPT !.adjust = adj] @@ [dd |-> dd, usable |-> (adj = 0 \/ dd) /\ Solvable(S)]
Init == /\ km \in {k \in Masks(NN, NN) : k % Stride = 0} /\ pm \in PMasks
        /\ adjust \in 0..2 /\ simplec \in BOOLEAN /\ pc = "setup"
        /\ st = Prepared(km, pm, adjust, simplec)
Next == /\ st.usable
        /\ \/ pc = "setup" /\ pc' = "sop"
           \/ pc = "sop"   /\ pc' = "type1"
           \/ pc = "type1" /\ pc' = "type2"
        /\ UNCHANGED <<km, pm, adjust, simplec, st>>

St == st
Usable == st.usable

ReassembleInv == pc = "setup" => ReassembleOK(K, pm, Kuu(K, pm), Kup(K, pm), Kpu(K, pm), Kpp(K, pm))
SchurOpInv    == (pc = "sop" /\ Usable) => SchurOpOK(St, FALSE) /\ (st.dd => SchurOpOK(St, TRUE))
Type1Inv      == (pc = "type1" /\ Usable) => Type1ExactInverse(K, pm, St)
Type2Inv      == (pc = "type2" /\ Usable) => Type2UpperOK(K, pm, St)
=============================================================================
