----------------------------- MODULE SchurModel -----------------------------
(* Exhaustive small-scope model of schur_pressure_correction on exact rationals:    *)
(* every stored pattern of an NN x NN matrix (diagonal entries 3 / 4, the others    *)
(* PatVal in {-1, 1, 2}), every pressure mask with at least one u and one p         *)
(* unknown, every adjust_p and simplec_dia; inner solves are exact.                 *)
EXTENDS Schur, Patterns, TLC

CONSTANTS NN, Stride
VARIABLES km, pm, adjust, simplec, pc

vars == <<km, pm, adjust, simplec, pc>>
Val(i, j) == IF i = j THEN 3 + (i % 2) ELSE PatVal(i, j, 1)
K == LET P == MkCrs(NN, NN, km, 1, FALSE)
     IN  [P EXCEPT !.val = [p \in 1..Len(P.val) |->
            LET i == CHOOSE r \in 0..(NN - 1) : Ptr(P, r) < p /\ p <= Ptr(P, r + 1) IN Val(i, P.col[p])]]
PMasks == {m \in [1..NN -> {0, 1}] : \E a, b \in 1..NN : m[a] = 0 /\ m[b] = 1}

Init == /\ km \in {k \in Masks(NN, NN) : k % Stride = 0} /\ pm \in PMasks
        /\ adjust \in 0..2 /\ simplec \in BOOLEAN /\ pc = "setup"
Next == \/ pc = "setup" /\ pc' = "sop"   /\ UNCHANGED <<km, pm, adjust, simplec>>
        \/ pc = "sop"   /\ pc' = "type1" /\ UNCHANGED <<km, pm, adjust, simplec>>
        \/ pc = "type1" /\ pc' = "type2" /\ UNCHANGED <<km, pm, adjust, simplec>>

St == Setup(K, pm, adjust, simplec)
Usable == (adjust = 0 \/ DiaDefined(St.uu, simplec)) /\ Solvable(St)

ReassembleInv == pc = "setup" => ReassembleOK(K, pm, Kuu(K, pm), Kup(K, pm), Kpu(K, pm), Kpp(K, pm))
SchurOpInv    == (pc = "sop" /\ Usable) => SchurOpOK(St, FALSE) /\ (DiaDefined(St.uu, simplec) => SchurOpOK(St, TRUE))
Type1Inv      == (pc = "type1" /\ Usable) => Type1ExactInverse(K, pm, St)
Type2Inv      == (pc = "type2" /\ Usable) => Type2UpperOK(K, pm, St)
=============================================================================
