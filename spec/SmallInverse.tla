---------------------------- MODULE SmallInverse ----------------------------
(* amgcl/detail/inverse.hpp transcribed on exact rationals: in-place LU with       *)
(* partial pivoting through the row permutation p (strict `mag > pivot_mag`, so     *)
(* the first row of largest magnitude wins), multipliers stored below the diagonal, *)
(* the inverted pivot on it, then the two triangular solves per unit vector.        *)
(* A and t are the flat row-major arrays of the code (functions on 0..n*n-1).       *)
EXTENDS RatMat

\* one column of the elimination; s = [A, p, sing]
InvColumn(n, s, col) ==
    LET A == s.A
        p == s.p
        \* pivot search
        pick == FoldLeft(LAMBDA b, i :
                    LET mag == RAbs(A[p[i] * n + col])
                    IN  IF RLt(b.mag, mag) THEN [mag |-> mag, i |-> i] ELSE b,
                 [mag |-> RZero, i |-> col], Rng(col, n - 1))
        p1   == [p EXCEPT ![col] = p[pick.i], ![pick.i] = p[col]]
        prow == p1[col]
    IN  IF IsZero(A[prow * n + col]) THEN [s EXCEPT !.sing = TRUE]       \* assert(!is_zero(d)) in the code
        ELSE
        LET d  == RInv(A[prow * n + col])
            A1 == FoldLeft(LAMBDA M, i :
                     LET row == p1[i]
                         m   == RMul(M[row * n + col], d)
                         M1  == [M EXCEPT ![row * n + col] = m]
                     IN  FoldLeft(LAMBDA M2, j : [M2 EXCEPT ![row * n + j] = RSub(M2[row * n + j], RMul(m, M2[prow * n + j]))],
                                  M1, Rng(col + 1, n - 1)),
                  A, Rng(col + 1, n - 1))
        IN  [A |-> [A1 EXCEPT ![prow * n + col] = d], p |-> p1, sing |-> FALSE]

InvSolveColumn(n, A, p, t, k) ==
    LET lower == FoldLeft(LAMBDA tt, i :
                    LET row == p[i]
                        b0  == IF row = k THEN ROne ELSE RZero
                        b   == FoldLeft(LAMBDA acc, j : RSub(acc, RMul(A[row * n + j], tt[j * n + k])), b0, Rng(0, i - 1))
                    IN  [tt EXCEPT ![i * n + k] = b],
                 t, Rng(0, n - 1))
    IN  FoldLeft(LAMBDA tt, i :
            LET row == p[i]
                v   == FoldLeft(LAMBDA acc, j : RSub(acc, RMul(A[row * n + j], tt[j * n + k])), tt[i * n + k], Rng(i + 1, n - 1))
            IN  [tt EXCEPT ![i * n + k] = RMul(v, A[row * n + i])],
         lower, RngDown(n - 1, 0))

\* A0: flat row-major function of rationals -> [sing, inv (flat), swaps (did the search move a row?)]
InverseRun(n, A0) ==
    LET lu == FoldLeft(LAMBDA s, col : IF s.sing THEN s ELSE InvColumn(n, s, col),
                       [A |-> A0, p |-> [i \in Idx(n) |-> i], sing |-> FALSE], Rng(0, n - 1))
        t  == FoldLeft(LAMBDA tt, k : InvSolveColumn(n, lu.A, lu.p, tt, k), [i \in Idx(n * n) |-> RZero], Rng(0, n - 1))
    IN  [sing |-> lu.sing, inv |-> IF lu.sing THEN A0 ELSE t, swaps |-> lu.p # [i \in Idx(n) |-> i]]

FlatOf(ints, n)   == [k \in Idx(n * n) |-> R(ints[k + 1])]
DenseOfFlat(F, n) == [i \in Idx(n) |-> [j \in Idx(n) |-> F[i * n + j]]]

\* A * inv(A) = I  and  inv(A) * A = I, exactly
InverseOK(n, A, Ai) == /\ MatEq(MatMulR(DenseOfFlat(A, n), DenseOfFlat(Ai, n), n), IdentR(n), n)
                       /\ MatEq(MatMulR(DenseOfFlat(Ai, n), DenseOfFlat(A, n), n), IdentR(n), n)
NonsingularFlat(n, A) == Nonsingular(DenseOfFlat(A, n), n)
\* the elimination needs a row exchange: some leading pivot position holds 0 or a smaller entry
=============================================================================
