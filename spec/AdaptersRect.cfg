CONSTANTS
  R = 2
  C = 3
  ORD = "all"
  SAMPLE = 1
  PSTEP = 1
INIT Init
NEXT NextRect
INVARIANTS TupleInv ZeroCopyInv BuilderInv OrderInv
CHECK_DEADLOCK FALSE
