CONSTANTS
  R = 2
  C = 3
  ORD = "all"
INIT Init
NEXT NextRect
INVARIANTS TupleInv ZeroCopyInv BuilderInv OrderInv
CHECK_DEADLOCK FALSE
