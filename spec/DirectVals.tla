----------------------------- MODULE DirectVals -----------------------------
(* Value assignments on mask-encoded patterns for the direct-kernel / relaxation    *)
(* models, mirrored by harness/vdense.hpp (vd::mk_matrix):                           *)
(*   "raw"  PatVal everywhere (may need pivoting / hit a zero pivot),                *)
(*   "dom"  PatVal off the diagonal, diagonal = 1 + sum |off-diagonal| of the row    *)
(*          (strictly row diagonally dominant: no pivoting in any symmetric order),  *)
(*   "spd"  symmetric masks only: a_ij = a_ji = PatVal(min,max), dominant positive   *)
(*          diagonal  => symmetric positive definite,                                *)
(*   "p2"   PatVal off the diagonal, diagonal = smallest power of two > sum |off|    *)
(*          (dominant *and* exactly invertible in binary floating point).            *)
EXTENDS Patterns

RowOf(A, p)   == CHOOSE i \in Rows(A) : p \in RowPos(A, i)
OffAbsSum(A, i) == MapThenSumSet(LAMBDA p : IF A.col[p] = i THEN 0 ELSE Abs(A.val[p]), RowPos(A, i))
RECURSIVE P2Above(_, _)
P2Above(s, t) == IF t > s THEN t ELSE P2Above(s, 2 * t)
WithDiag(A, d(_)) == [A EXCEPT !.val = [p \in 1..NNZ(A) |-> LET i == RowOf(A, p) IN IF A.col[p] = i THEN d(i) ELSE A.val[p]]]
SymVals(n, mask, salt) ==
    FromRows(n, n, [i1 \in 1..n |->
        LET on == SelectSeq([jj \in 1..n |-> jj - 1], LAMBDA j : Bit(mask, (i1 - 1) * n + j))
        IN  [k \in 1..Len(on) |-> <<on[k], PatVal(IF i1 - 1 < on[k] THEN i1 - 1 ELSE on[k], IF i1 - 1 < on[k] THEN on[k] ELSE i1 - 1, salt)>>]])

MkMatrix(n, mask, salt, scheme) ==
    LET raw == MkCrs(n, n, mask, salt, FALSE)
    IN  CASE scheme = "raw" -> raw
          [] scheme = "dom" -> WithDiag(raw, LAMBDA i : OffAbsSum(raw, i) + 1)
          [] scheme = "p2"  -> WithDiag(raw, LAMBDA i : P2Above(OffAbsSum(raw, i), 1))
          [] scheme = "spd" -> LET s == SymVals(n, mask, salt) IN WithDiag(s, LAMBDA i : OffAbsSum(s, i) + 1)
DiagMasks(n) == {m \in Masks(n, n) : HasDiag(n, m)}
SchemeOK(n, mask, scheme) == scheme = "spd" => SymPat(n, mask)
\* right-hand side / start vector families (small integers)
VecA(n) == [i \in 1..n |-> ((i * 7) % 5) - 2]          \* -1 1 -2 0 2 ...  -> i=1:0? see vdense.hpp
VecB(n) == [i \in 1..n |-> IF i % 2 = 1 THEN i ELSE -i + 1]
=============================================================================
