CONSTANTS
  NR = 2
  NC = 3
  Checked = FALSE
INIT Init
NEXT Next
INVARIANTS FaultInv RoundTripInv SliceInv SizeInv
CHECK_DEADLOCK FALSE
