CONSTANTS
  RebuildAll = TRUE
  K = 2
  MaxRestarts = 3
  MaxCalls = 3
  AlwaysReset = TRUE
  Kinds = {"solve", "solve_guess", "solve_unit", "solve_mtx", "zero_rhs", "converged_guess", "nan_rhs", "throw_inside", "throw_late", "poison_inside", "diverge", "rebuild"}
SPECIFICATION Spec
INVARIANTS OneVersion NoLeak DistinctSlots RingBounded ResetClears
CHECK_DEADLOCK FALSE
