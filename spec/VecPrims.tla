------------------------------ MODULE VecPrims ------------------------------
(* The vector and matrix-vector primitives of amgcl/backend/interface.hpp as        *)
(* implemented by backend/builtin.hpp, detail/matrix_ops.hpp (row-iterator spmv /   *)
(* residual and the scalar<->block `reinterpret' overloads), backend/block_crs.hpp  *)
(* (bcrs conversion + block spmv with ragged edges) and backend/eigen.hpp.          *)
(*                                                                                  *)
(* Values.  One description covers every value type: a kind K = [b, cx] is a block  *)
(* of b scalars (b = 1: plain scalar) that are integers (cx = FALSE) or Gaussian    *)
(* integers (cx = TRUE).  Internally every scalar is a pair <<re, im>>, a vector    *)
(* value is a sequence of b scalars, a matrix value a row-major sequence of b*b     *)
(* scalars.  Recorded vectors are flat integer arrays  [n, v, p]  (v: SW(K) ints    *)
(* per scalar, p: one flag per value, 1 = the value is Poison / non-finite).        *)
(*                                                                                  *)
(* Poison.  An output whose scaling coefficient is zero is write-only: its old      *)
(* content is not part of the defining formula (OldTerm).  Poison is absorbing      *)
(* under every arithmetic operation, so a transcription (or the real code) that     *)
(* reads the old content when it must not yields a poisoned result where the        *)
(* definition is clean.  Def* are the defining formulas, *Run the transcriptions    *)
(* (they also report readOld), PrimOK the predicate used on models and traces.      *)
EXTENDS Crs

\* ------------------------------------------------------------------ scalars
SZero == <<0, 0>>
SOne  == <<1, 0>>
SAdd(u, v)  == <<u[1] + v[1], u[2] + v[2]>>
SNeg(u)     == <<-u[1], -u[2]>>
SMul(u, v)  == <<u[1] * v[1] - u[2] * v[2], u[1] * v[2] + u[2] * v[1]>>
SConj(u)    == <<u[1], -u[2]>>
SSum(s)     == FoldLeft(LAMBDA acc, e : SAdd(acc, e), SZero, s)
IsZeroC(a)  == a = SZero

\* ------------------------------------------------------------------ kinds, flat arrays
SW(K) == IF K.cx THEN 2 ELSE 1                \* integers per scalar
W(K)  == K.b * SW(K)                          \* integers per vector value
MW(K) == K.b * K.b * SW(K)                    \* integers per matrix value
Sc(K, arr, s) == IF K.cx THEN <<arr[2 * s - 1], arr[2 * s]>> ELSE <<arr[s], 0>>
Coef(a)       == IF Len(a) = 2 THEN <<a[1], a[2]>> ELSE <<a[1], 0>>     \* recorded [re] or [re, im]
Val(K, x, i)  == [r \in 1..K.b |-> Sc(K, x.v, (i - 1) * K.b + r)]
MValAt(K, arr, p) == [e \in 1..(K.b * K.b) |-> Sc(K, arr, (p - 1) * K.b * K.b + e)]
ZeroV(K)      == [r \in 1..K.b |-> SZero]
VecWF(K, x)   == x.n >= 0 /\ Len(x.v) = x.n * W(K) /\ Len(x.p) = x.n
MVecWF(K, x)  == x.n >= 0 /\ Len(x.v) = x.n * MW(K) /\ Len(x.p) = x.n
MatWF(K, A)   == /\ A.n >= 0 /\ A.m >= 0 /\ Len(A.ptr) = A.n + 1 /\ A.ptr[1] = 0
                 /\ \A i \in 1..A.n : A.ptr[i] <= A.ptr[i + 1]
                 /\ Len(A.col) = A.ptr[A.n + 1] /\ Len(A.val) = Len(A.col) * MW(K)
                 /\ \A p \in 1..Len(A.col) : A.col[p] >= 0 /\ A.col[p] < A.m

\* ------------------------------------------------------------------ value algebra
VAdd(u, v)    == [r \in 1..Len(u) |-> SAdd(u[r], v[r])]
CMul(a, v)    == [r \in 1..Len(v) |-> SMul(a, v[r])]                    \* coefficient * value
MMul(K, m, v) == [r \in 1..K.b |-> SSum([c \in 1..K.b |-> SMul(m[(r - 1) * K.b + c], v[c])])]
\* math::inner_product(x, y) = sum x(i) * adjoint(y(i)): conjugate-linear in the SECOND argument
Inner(K, u, v) == SSum([r \in 1..K.b |-> SMul(u[r], SConj(v[r]))])

\* ------------------------------------------------------------------ poisoned values <<flag, value>>
Fl(a, b)      == IF a = 1 \/ b = 1 THEN 1 ELSE 0
PAdd(u, v)    == <<Fl(u[1], v[1]), VAdd(u[2], v[2])>>
PScale(a, u)  == <<u[1], CMul(a, u[2])>>
PZero(K)      == <<0, ZeroV(K)>>
PVec(K, x)    == [i \in 1..x.n |-> <<x.p[i], Val(K, x, i)>>]           \* vector of rhs values
PMVec(K, x)   == [i \in 1..x.n |-> <<x.p[i], MValAt(K, x.v, i)>>]      \* vector of matrix values (vmul)
\* a vector of scalars seen as a vector of K-blocks: reinterpret_as_rhs (length rounds down)
Reinterpret(K, x) ==
    LET K1 == [b |-> 1, cx |-> K.cx]
        nb == x.n \div K.b
    IN  [i \in 1..nb |-> <<IF \E r \in 1..K.b : x.p[(i - 1) * K.b + r] = 1 THEN 1 ELSE 0,
                           [r \in 1..K.b |-> Sc(K1, x.v, (i - 1) * K.b + r)]>>]
\* the term of the output's own old content: absent when its coefficient is zero
OldTerm(K, c, Y, i) == IF IsZeroC(c) THEN PZero(K) ELSE PScale(c, Y[i])

\* ------------------------------------------------------------------ defining formulas
RowEntries(A, i) == [k \in 1..RowLen(A, i) |-> Ptr(A, i) + k]          \* positions of row i (0-based i)
RowSum(K, A, X, i) ==                                                   \* sum_j A_ij x_j
    FoldLeft(LAMBDA acc, p : PAdd(acc, <<X[A.col[p] + 1][1], MMul(K, MValAt(K, A.val, p), X[A.col[p] + 1][2])>>),
             PZero(K), RowEntries(A, i))

DefAxpby(K, a, X, b, Y)          == [i \in 1..Len(X) |-> PAdd(PScale(a, X[i]), OldTerm(K, b, Y, i))]
DefAxpbypcz(K, a, X, b, Y, c, Z) == [i \in 1..Len(X) |-> PAdd(PAdd(PScale(a, X[i]), PScale(b, Y[i])), OldTerm(K, c, Z, i))]
DefVmul(K, a, XM, Y, b, Z)       == [i \in 1..Len(XM) |->
                                        PAdd(<<Fl(XM[i][1], Y[i][1]), CMul(a, MMul(K, XM[i][2], Y[i][2]))>>, OldTerm(K, b, Z, i))]
DefCopy(K, X)                    == X
DefClear(K, n)                   == [i \in 1..n |-> PZero(K)]
DefInner(K, X, Y)                == SSum([i \in 1..Len(X) |-> Inner(K, X[i][2], Y[i][2])])
DefSpmv(K, alpha, A, X, beta, Y) == [i \in 1..A.n |-> PAdd(PScale(alpha, RowSum(K, A, X, i - 1)), OldTerm(K, beta, Y, i))]
DefResidual(K, F, A, X)          == [i \in 1..A.n |-> PAdd(F[i], PScale(SNeg(SOne), RowSum(K, A, X, i - 1)))]
\* y = alpha y + sum_k c_k v_k
DefLinComb(K, cs, VS, alpha, Y)  ==
    [i \in 1..Len(Y) |-> FoldLeft(LAMBDA acc, k : PAdd(acc, PScale(cs[k], VS[k][i])),
                                  OldTerm(K, alpha, Y, i), [k \in 1..Len(cs) |-> k])]

\* ------------------------------------------------------------------ the predicate
\* wherever the definition is clean the result is clean and equal to it
PrimOK(def, res) == /\ Len(res) = Len(def)
                    /\ \A i \in 1..Len(def) : def[i][1] = 0 => res[i] = def[i]
FiniteOK(def, res) == Len(res) = Len(def) /\ \A i \in 1..Len(def) : def[i][1] = 0 => res[i][1] = 0
ValueOK(def, res)  == Len(res) = Len(def) /\ \A i \in 1..Len(def) : (def[i][1] = 0 /\ res[i][1] = 0) => res[i][2] = def[i][2]

\* ------------------------------------------------------------------ transcriptions
\* builtin.hpp: `if (!math::is_zero(b)) y = a x + b y  else  y = a x`
AxpbyRun(K, a, X, b, Y) ==
    IF ~IsZeroC(b) THEN [res |-> [i \in 1..Len(X) |-> PAdd(PScale(a, X[i]), PScale(b, Y[i]))], readOld |-> Len(X) > 0]
    ELSE                [res |-> [i \in 1..Len(X) |-> PScale(a, X[i])], readOld |-> FALSE]
AxpbypczRun(K, a, X, b, Y, c, Z) ==
    IF ~IsZeroC(c) THEN [res |-> [i \in 1..Len(X) |-> PAdd(PAdd(PScale(a, X[i]), PScale(b, Y[i])), PScale(c, Z[i]))], readOld |-> Len(X) > 0]
    ELSE                [res |-> [i \in 1..Len(X) |-> PAdd(PScale(a, X[i]), PScale(b, Y[i]))], readOld |-> FALSE]
VmulRun(K, a, XM, Y, b, Z) ==
    LET prod(i) == <<Fl(XM[i][1], Y[i][1]), CMul(a, MMul(K, XM[i][2], Y[i][2]))>>
    IN  IF ~IsZeroC(b) THEN [res |-> [i \in 1..Len(XM) |-> PAdd(prod(i), PScale(b, Z[i]))], readOld |-> Len(XM) > 0]
        ELSE                [res |-> [i \in 1..Len(XM) |-> prod(i)], readOld |-> FALSE]
\* matrix_ops.hpp spmv_impl: one row at a time, sum = zero; sum += a.value() * x[a.col()]
SpmvRun(K, alpha, A, X, beta, Y) ==
    IF ~IsZeroC(beta) THEN [res |-> [i \in 1..A.n |-> PAdd(PScale(alpha, RowSum(K, A, X, i - 1)), PScale(beta, Y[i]))], readOld |-> A.n > 0]
    ELSE                   [res |-> [i \in 1..A.n |-> PScale(alpha, RowSum(K, A, X, i - 1))], readOld |-> FALSE]
ResidualRun(K, F, A, X) ==
    [res |-> [i \in 1..A.n |-> PAdd(F[i], PScale(SNeg(SOne), RowSum(K, A, X, i - 1)))], readOld |-> FALSE]

\* interface.hpp lin_comb: axpby(c0, v0, alpha, y); pairs through axpbypcz(.., 1, y); tail through axpby(.., 1, y)
RECURSIVE LinCombPairs(_, _, _, _, _)
LinCombPairs(K, cs, VS, i, st) ==           \* i is the C++ index (0-based) of the next unused vector
    LET n == Len(cs)
    IN  IF i + 1 < n THEN
            LET r == AxpbypczRun(K, cs[i + 1], VS[i + 1], cs[i + 2], VS[i + 2], SOne, st.res)
            IN  LinCombPairs(K, cs, VS, i + 2, [res |-> r.res, readOld |-> st.readOld])
        ELSE IF i < n THEN
            LET r == AxpbyRun(K, cs[i + 1], VS[i + 1], SOne, st.res)
            IN  LinCombPairs(K, cs, VS, i + 1, [res |-> r.res, readOld |-> st.readOld])
        ELSE st
LinCombRun(K, cs, VS, alpha, Y) == LinCombPairs(K, cs, VS, 1, AxpbyRun(K, cs[1], VS[1], alpha, Y))

\* inner product: serial Kahan loop (compensation is exactly zero on integers) and the parallel
\* version: static chunks, one partial sum per thread, std::accumulate over the threads
Chunk(n, nt, t) == LET q == n \div nt
                       r == n % nt
                       lo == t * q + (IF t < r THEN t ELSE r)
                   IN  [lo |-> lo, len |-> q + (IF t < r THEN 1 ELSE 0)]
InnerSerialRun(K, X, Y) ==
    FoldLeft(LAMBDA st, i : LET d == SAdd(Inner(K, X[i][2], Y[i][2]), SNeg(st.c))
                                t == SAdd(st.s, d)
                            IN  [s |-> t, c |-> SAdd(SAdd(t, SNeg(st.s)), SNeg(d))],
             [s |-> SZero, c |-> SZero], [i \in 1..Len(X) |-> i]).s
InnerParallelRun(K, X, Y, nt) ==
    SSum([t1 \in 1..nt |-> LET ch == Chunk(Len(X), nt, t1 - 1)
                           IN  SSum([k \in 1..ch.len |-> Inner(K, X[ch.lo + k][2], Y[ch.lo + k][2])])])
\* backend/eigen.hpp: y.dot(x) (Eigen's dot conjugates its left operand)
InnerEigenRun(K, X, Y) == SSum([i \in 1..Len(X) |-> SSum([r \in 1..K.b |-> SMul(SConj(Y[i][2][r]), X[i][2][r])])])

\* ------------------------------------------------------------------ block_crs.hpp
\* bcrs(A, bs): scalar CRS -> blocks of bs x bs, dimensions need not be divisible.  A block row is a
\* sequence of <<block column, values (bs*bs, row-major)>> in order of first appearance (marker).
IK == [b |-> 1, cx |-> FALSE]
Ceil(n, b) == (n + b - 1) \div b
BcrsRow(A, bs, ib) ==
    LET ents == FlattenSeq([k1 \in 1..bs |->
                    IF ib * bs + k1 - 1 < A.n
                    THEN [q \in 1..RowLen(A, ib * bs + k1 - 1) |->
                            <<k1 - 1, A.col[Ptr(A, ib * bs + k1 - 1) + q], A.val[Ptr(A, ib * bs + k1 - 1) + q]>>]
                    ELSE <<>>])
        zero == [e \in 1..(bs * bs) |-> 0]
        put(row, e) ==
            LET cb  == e[2] \div bs
                cc  == e[2] % bs
                pos == {q \in 1..Len(row) : row[q][1] = cb}       \* marker[cb] >= row_beg
            IN  IF pos = {} THEN Append(row, <<cb, [zero EXCEPT ![bs * e[1] + cc + 1] = e[3]]>>)
                ELSE LET q == CHOOSE q \in pos : TRUE
                     IN  [row EXCEPT ![q] = <<cb, [@[2] EXCEPT ![bs * e[1] + cc + 1] = e[3]]>>]
    IN  FoldLeft(put, <<>>, ents)
BcrsBuild(A, bs) == [bs |-> bs, n |-> A.n, m |-> A.m, brows |-> Ceil(A.n, bs), bcols |-> Ceil(A.m, bs),
                     rows |-> [ib1 \in 1..Ceil(A.n, bs) |-> BcrsRow(A, bs, ib1 - 1)]]
BMin(a, b) == IF a < b THEN a ELSE b
\* spmv: y *= beta (if beta # 1) or clear(y); then y[y0 + i] += alpha * sum_{j < nx} blk[i*dim + j] x[x0 + j]
BcrsSpmvRun(alpha, B, X, beta, Y) ==            \* X, Y: PVec over IK
    LET bs == B.bs
        Y0 == IF ~IsZeroC(beta)
              THEN (IF beta # SOne THEN [i \in 1..Len(Y) |-> IF i <= B.n THEN PScale(beta, Y[i]) ELSE Y[i]] ELSE Y)
              ELSE [i \in 1..Len(Y) |-> PZero(IK)]
        blocks == FlattenSeq([ib1 \in 1..B.brows |-> [q \in 1..Len(B.rows[ib1]) |-> <<ib1 - 1, B.rows[ib1][q]>>]])
        prod(y, e) ==
            LET x0 == e[2][1] * bs
                y0 == e[1] * bs
                nx == BMin(bs, B.m - x0)
                ny == BMin(bs, B.n - y0)
            IN  [i \in 1..Len(y) |->
                    IF i - 1 >= y0 /\ i - 1 < y0 + ny
                    THEN PAdd(y[i], PScale(alpha,
                              FoldLeft(LAMBDA acc, j : PAdd(acc, <<X[x0 + j][1], CMul(<<e[2][2][(i - 1 - y0) * bs + j], 0>>, X[x0 + j][2])>>),
                                       PZero(IK), [j \in 1..nx |-> j])))
                    ELSE y[i]]
    IN  [res |-> FoldLeft(prod, Y0, blocks), readOld |-> ~IsZeroC(beta) /\ Len(Y) > 0]
\* residual: copy(rhs, r); spmv(-1, A, x, 1, r)
BcrsResidualRun(F, B, X) == [res |-> BcrsSpmvRun(SNeg(SOne), B, X, SOne, F).res, readOld |-> FALSE]

\* flat recorded output -> PVec, and its comparison with a definition
OutOK(K, def, out) == VecWF(K, out) /\ PrimOK(def, PVec(K, out))
=============================================================================
