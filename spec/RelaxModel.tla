------------------------------ MODULE RelaxModel ------------------------------
(* Exhaustive small-scope model of every relaxation class: every N x N pattern with *)
(* a full diagonal x value scheme (raw: point smoothers only; dom / p2: all) is      *)
(* pushed through the transcribed smoothers one class per step; the invariants are   *)
(* the property's predicates (SweepOK as SplitOK / InvSplitOK, FixedPointOK,         *)
(* Spai0OK / Spai1OK, ChebPolyOK, IluOK, PatternMonotone, ExactWhenFits,             *)
(* ParallelEqualsSerial), i.e. the operators C06Trace evaluates on the real code.    *)
EXTENDS Smoothers, IluNumeric, DirectVals, TLC

CONSTANTS N, Lazy
VARIABLES mask, scheme, pc, A

vars == <<mask, scheme, pc, A>>
F  == RVecOf(VecB(N))
X  == RVecOf(VecA(N))
XS == RVecOf(VecB(N))                 \* integer "exact solution" for the fixed-point clause
W  == <<3, 4>>                        \* dyadic damping
Lower == <<1, 2>>
Higher == ROne

Kinds == <<"in", "jacobi", "gs", "spai0", "spai1", "cheb", "ilu0", "iluk", "ilup", "ilut">>
NextKind(k) == LET i == CHOOSE j \in 1..Len(Kinds) : Kinds[j] = k IN Kinds[i + 1]

Init == /\ mask \in DiagMasks(N) /\ scheme \in {"raw", "dom", "p2"} /\ pc = "in" /\ A = MkMatrix(N, mask, 0, scheme)
Next == pc # "ilut" /\ pc' = NextKind(pc) /\ UNCHANGED <<mask, scheme, A>>

Dominant == scheme # "raw"

JacobiInv == pc = "jacobi" =>
    /\ SplitOK(LAMBDA v : JacobiM(A, W, v), A, F, X, JacobiSweep(A, W, F, X))
    /\ FixedPointOK(LAMBDA f, x : JacobiSweep(A, W, f, x), A, XS)
GSInv == pc = "gs" =>
    /\ SplitOK(LAMBDA v : GSM(A, TRUE, v), A, F, X, GSSweep(A, F, X, TRUE))
    /\ SplitOK(LAMBDA v : GSM(A, FALSE, v), A, F, X, GSSweep(A, F, X, FALSE))
    /\ FixedPointOK(LAMBDA f, x : GSSweep(A, f, x, TRUE), A, XS) /\ FixedPointOK(LAMBDA f, x : GSSweep(A, f, x, FALSE), A, XS)
    /\ SplitOK(LAMBDA v : GSM(A, FALSE, v), A, F, GSSweep(A, F, RZeroVec(N), TRUE), GSApply(A, F))
Spai0Inv == pc = "spai0" =>
    LET m == Spai0M(A)
    IN  /\ Spai0OK(A, m)
        /\ InvSplitOK(LAMBDA r : [i \in Idx(N) |-> QMul(m[i], r[i])], A, F, X, Spai0Sweep(A, F, X))
        /\ FixedPointOK(LAMBDA f, x : Spai0Sweep(A, f, x), A, XS)
Spai1Inv == pc = "spai1" /\ Spai1Tractable(A) =>
    LET M == Spai1M(A)
    IN  M.ok => /\ Spai1OK(A, M.val)
                /\ InvSplitOK(LAMBDA r : SpmvQ(A, M.val, r), A, F, X, Spai1Sweep(A, M.val, F, X))
                /\ FixedPointOK(LAMBDA f, x : Spai1Sweep(A, M.val, f, x), A, XS)
\* 32-bit rationals: the generic interval [hi/2, hi] up to degree 2, the degenerate ones
\* (lo = 0: c = d, and lo = hi: c = 0, plain Richardson) up to degree 3 - all three branches
\* of the alpha / beta recurrence are exercised
\* the scaled variant (D^-1 A) only with power-of-two diagonals, again for the sake of 32 bits
ChebInv == pc = "cheb" /\ Dominant =>
    \A scale \in (IF scheme = "p2" THEN BOOLEAN ELSE {FALSE}) :
        LET hi0 == GershQ(A, scale)
            dc  == ChebDC(hi0, Lower, Higher)
            dc0 == ChebDC(hi0, RZero, Higher)
            dc1 == ChebDC(hi0, ROne, Higher)
        IN  /\ \A deg \in 1..2 : ChebPolyOK(A, scale, dc.d, dc.c, deg, F, X, ChebSolve(A, scale, dc.d, dc.c, deg, F, X))
            /\ ChebPolyOK(A, scale, dc0.d, dc0.c, 3, F, X, ChebSolve(A, scale, dc0.d, dc0.c, 3, F, X))
            /\ ChebPolyOK(A, scale, dc1.d, dc1.c, 3, F, X, ChebSolve(A, scale, dc1.d, dc1.c, 3, F, X))
            /\ FixedPointOK(LAMBDA f, x : ChebSolve(A, scale, dc.d, dc.c, 2, f, x), A, XS)
            \* Gershgorin: every (scaled) absolute row sum is <= the bound used
            /\ \A i \in Idx(N) : RLe(IF scale THEN QMul(R(RowAbsSum(A, i)), RAbs(RInv(R(FirstDiag(A, i))))) ELSE R(RowAbsSum(A, i)), hi0)

IluCommon(S, Fct) ==
    /\ ~Fct.zero
    /\ IluOK(A, S, Fct) /\ ExactWhenFits(A, S, Fct)
    /\ ParallelEqualsSerial(Fct, N, F)
    /\ IluSplitOK(A, Fct, W, F, X, IluSweep(A, Fct, W, F, X))
    /\ FixedPointOK(LAMBDA f, x : IluSweep(A, Fct, W, f, x), A, XS)
Ilu0Inv == pc = "ilu0" /\ Dominant =>
    /\ IluCommon(PatternOf(A), Ilu0Run(A))
    /\ (IsTridiagonal(A) \/ IsArrow(A)) => PatSubset(FullPattern(A), PatternOf(A), N)
IlukInv == pc = "iluk" /\ Dominant =>
    \A k \in {1, 2, N} :
        /\ IluCommon(IlukPattern(A, k), IlukRun(A, k, Lazy))
        /\ IlukPattern(A, k) = PatternDef(A, k)                              \* the row loop computes the definition's levels
        /\ PatSubset(IlukPatternSumRule(A, k), IlukPattern(A, k), N)           \* the max rule admits at least the textbook pattern
        /\ PatternMonotone(A, k)
        /\ (k >= N => PatSubset(FullPattern(A), IlukPattern(A, k), N))
IlupInv == pc = "ilup" /\ Dominant =>
    \A k \in {1, 2} : IluCommon(PowerPattern(A, k, N), IlupRun(A, k))
IlutInv == pc = "ilut" /\ Dominant =>
    LET Fct == IlutRunNoDrop(A)
        ref == RefSolve(DenseOf(A), F, N)
    IN  IluCommon(FullPattern(A), Fct) /\ ref.ok /\ VecEq(IluApply(Fct, N, F), ref.x, N)
=============================================================================
