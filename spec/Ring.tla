-------------------------------- MODULE Ring --------------------------------
(* amgcl::circular_buffer<T> (amgcl/util.hpp; the window of the last vectors kept   *)
(* by IDR(s), LGMRES, ...): a bounded FIFO window.  push_back on a full buffer      *)
(* overwrites the oldest element; operator[](i) is the i-th oldest kept element.    *)
(* State: a record [cap, win] -- the window as a sequence, oldest first.            *)
EXTENDS Naturals, Sequences

R0(cap) == [cap |-> cap, win |-> <<>>]
RPush(s, v) == [s EXCEPT !.win = IF Len(@) < s.cap THEN Append(@, v) ELSE Append(Tail(@), v)]
RClear(s)   == [s EXCEPT !.win = <<>>]
RSize(s)    == Len(s.win)

\* what a user relies on: the window is the last min(cap, #pushes since clear) values pushed, in order
SuffixOf(w, all) == Len(w) <= Len(all) /\ w = SubSeq(all, Len(all) - Len(w) + 1, Len(all))
WindowOK(s, pushed) == /\ Len(s.win) = (IF Len(pushed) < s.cap THEN Len(pushed) ELSE s.cap)
                       /\ SuffixOf(s.win, pushed)
=============================================================================
