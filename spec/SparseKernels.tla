-------------------------- MODULE SparseKernels --------------------------
(* Step-wise transcriptions of amgcl's sparse kernels (backend/builtin.hpp,        *)
(* detail/spgemm.hpp, detail/sort_row.hpp) with the granularity of the code: the   *)
(* same auxiliary arrays (marker, per-row heads, three merge buffers), the same    *)
(* iteration order.  Each kernel is given as per-row step operators (used as       *)
(* actions by SpgemmModel) and as a closed form  XRun(input)  = iterate of steps.  *)
(* The property predicates (TransposeOK, ProductOK, ...) live in Crs.tla and       *)
(* mention inputs and outputs only.                                                *)
EXTENDS Crs

Adj(v) == v                 \* integers: math::adjoint is the identity

\* ------------------------------------------------------------------ sort_row
\* insertion sort of one row, as in detail/sort_row.hpp (stable; `col[i] > c`)
RECURSIVE SiftDown(_, _, _)
SiftDown(row, i, e) ==      \* while (i >= 1 /\ row[i].col > e.col) shift right
    IF i >= 1 /\ row[i][1] > e[1]
    THEN SiftDown([row EXCEPT ![i + 1] = row[i]], i - 1, e)
    ELSE [row EXCEPT ![i + 1] = e]
SortRowRun(row) ==
    LET step(acc, j) == SiftDown(acc, j - 1, acc[j])
        F[j \in 1..Len(row)] == IF j = 1 THEN row ELSE step(F[j - 1], j)
    IN  IF Len(row) = 0 THEN row ELSE F[Len(row)]

SortRowsRun(A) == FromRows(A.n, A.m, [i \in 1..A.n |-> SortRowRun(RowSeq(A, i - 1))])

\* ----------------------------------------------------------------- transpose
\* counting transpose: ++ptr[col+1]; scan; scatter with per-column heads; rotate
TransposeRun(A) ==
    LET m    == A.m
        nnz  == NNZ(A)
        cnt  == [j \in 0..m |-> Cardinality({p \in 1..nnz : A.col[p] + 1 = j})]
        scan[j \in 0..m] == IF j = 0 THEN cnt[0] ELSE scan[j - 1] + cnt[j]
        ents == FlattenSeq([i1 \in 1..A.n |->
                   [k \in 1..RowLen(A, i1 - 1) |-> <<i1 - 1, A.col[Ptr(A, i1 - 1) + k], A.val[Ptr(A, i1 - 1) + k]>>]])
        fill == FoldLeft(LAMBDA st, e :
                    LET head == st.ptr[e[2]]
                    IN  [ptr |-> [st.ptr EXCEPT ![e[2]] = @ + 1],
                         col |-> [st.col EXCEPT ![head + 1] = e[1]],
                         val |-> [st.val EXCEPT ![head + 1] = Adj(e[3])]],
                    [ptr |-> scan, col |-> [p \in 1..nnz |-> 0], val |-> [p \in 1..nnz |-> 0]],
                    ents)
        rot  == [j \in 0..m |-> IF j = 0 THEN 0 ELSE fill.ptr[j - 1]]   \* std::rotate + ptr[0] = 0
    IN  [n |-> m, m |-> A.n, ptr |-> [j \in 1..(m + 1) |-> rot[j - 1]], col |-> fill.col, val |-> fill.val]

\* ------------------------------------------------------------- spgemm_saad
\* terms of row ia in the order the double loop visits them: <<cb, va*vb>>
SaadTerms(A, B, ia) ==
    FlattenSeq([k \in 1..RowLen(A, ia) |->
        LET ca == A.col[Ptr(A, ia) + k]
            va == A.val[Ptr(A, ia) + k]
        IN  [q \in 1..RowLen(B, ca) |-> <<B.col[Ptr(B, ca) + q], va * B.val[Ptr(B, ca) + q]>>]])

FreshMarker(B) == [c \in 0..(B.m - 1) |-> -1]

\* pass 1, one row: marker[cb] != ia  ->  count
SaadCountRow(A, B, marker, ia) ==
    FoldLeft(LAMBDA st, t :
                IF st.marker[t[1]] # ia
                THEN [marker |-> [st.marker EXCEPT ![t[1]] = ia], w |-> st.w + 1]
                ELSE st,
             [marker |-> marker, w |-> 0], SaadTerms(A, B, ia))

\* pass 2, one row: marker[cb] < row_beg -> new entry at row_end, else accumulate
SaadFillRow(A, B, marker, rowbeg, ia) ==
    FoldLeft(LAMBDA st, t :
                IF st.marker[t[1]] < rowbeg
                THEN [marker |-> [st.marker EXCEPT ![t[1]] = rowbeg + Len(st.row)],
                      row    |-> Append(st.row, t)]
                ELSE [st EXCEPT !.row[st.marker[t[1]] - rowbeg + 1] = <<@[1], @[2] + t[2]>>],
             [marker |-> marker, row |-> <<>>], SaadTerms(A, B, ia))

\* single-thread closed form: the marker is carried from row to row
SaadRun(A, B, sort) ==
    LET P1[i \in 0..A.n] ==            \* state after counting rows 0..i-1
            IF i = 0 THEN [marker |-> FreshMarker(B), w |-> <<>>]
            ELSE LET r == SaadCountRow(A, B, P1[i - 1].marker, i - 1)
                 IN  [marker |-> r.marker, w |-> Append(P1[i - 1].w, r.w)]
        widths == P1[A.n].w
        ptrf[i \in 0..A.n] == IF i = 0 THEN 0 ELSE ptrf[i - 1] + widths[i]
        P2[i \in 0..A.n] ==
            IF i = 0 THEN [marker |-> FreshMarker(B), rows |-> <<>>]
            ELSE LET r == SaadFillRow(A, B, P2[i - 1].marker, ptrf[i - 1], i - 1)
                 IN  [marker |-> r.marker,
                      rows |-> Append(P2[i - 1].rows, IF sort THEN SortRowRun(r.row) ELSE r.row)]
        C == FromRows(A.n, B.m, P2[A.n].rows)
    IN  [C |-> C, widthsOK |-> \A i \in 1..A.n : widths[i] = Len(P2[A.n].rows[i])]

\* ----------------------------------------------------------- spgemm_rmerge
ScaleRow(a, r) == [k \in 1..Len(r) |-> <<r[k][1], a * r[k][2]>>]

RECURSIVE MergeRows(_, _, _, _)
MergeRows(a1, r1, a2, r2) ==
    IF r1 = <<>> THEN ScaleRow(a2, r2)
    ELSE IF r2 = <<>> THEN ScaleRow(a1, r1)
    ELSE LET c1 == r1[1][1]
             c2 == r2[1][1]
         IN  IF c1 < c2 THEN <<<<c1, a1 * r1[1][2]>>>> \o MergeRows(a1, Tail(r1), a2, r2)
             ELSE IF c1 = c2 THEN <<<<c1, a1 * r1[1][2] + a2 * r2[1][2]>>>> \o MergeRows(a1, Tail(r1), a2, Tail(r2))
             ELSE <<<<c2, a2 * r2[1][2]>>>> \o MergeRows(a1, r1, a2, Tail(r2))

\* prod_row: 0 / 1 / 2 rows, then pairs + optional tail, rotating three buffers.
\* `buf` tracks which physical buffer tm1 / tm3 name, to check the swap logic:
\* a merge never writes the buffer it reads, and the result ends in (or is copied to) `out`.
RECURSIVE ProdPairs(_, _, _, _, _)
ProdPairs(arow, B, k, acc, buf) ==     \* acc lives in buf.tm1; k = next unread entry of arow
    IF k + 1 <= Len(arow) THEN
        LET t2  == MergeRows(arow[k][2], RowSeq(B, arow[k][1]), arow[k + 1][2], RowSeq(B, arow[k + 1][1]))
            t3  == MergeRows(1, acc, 1, t2)
        IN  ProdPairs(arow, B, k + 2, t3,
                      [tm1 |-> buf.tm3, tm3 |-> buf.tm1, alias |-> buf.alias \/ buf.tm3 \in {buf.tm1, "tm2"}])
    ELSE IF k <= Len(arow) THEN
        [row |-> MergeRows(1, acc, arow[k][2], RowSeq(B, arow[k][1])),
         buf |-> [tm1 |-> buf.tm3, tm3 |-> buf.tm1, alias |-> buf.alias \/ buf.tm3 = buf.tm1]]
    ELSE [row |-> acc, buf |-> buf]

ProdRow(arow, B) ==
    LET n == Len(arow)
    IN  IF n = 0 THEN [row |-> <<>>, alias |-> FALSE, branch |-> "zero"]
        ELSE IF n = 1 THEN [row |-> ScaleRow(arow[1][2], RowSeq(B, arow[1][1])), alias |-> FALSE, branch |-> "one"]
        ELSE IF n = 2 THEN [row |-> MergeRows(arow[1][2], RowSeq(B, arow[1][1]), arow[2][2], RowSeq(B, arow[2][1])),
                            alias |-> FALSE, branch |-> "two"]
        ELSE LET first == MergeRows(arow[1][2], RowSeq(B, arow[1][1]), arow[2][2], RowSeq(B, arow[2][1]))
                 r == ProdPairs(arow, B, 3, first, [tm1 |-> "out", tm3 |-> "tm3", alias |-> FALSE])
             IN  [row |-> r.row, alias |-> r.buf.alias, branch |-> IF n % 2 = 0 THEN "even" ELSE "odd"]

\* prod_row_width works on columns only; its result must be the length of prod_row's row
ColsOnly(r) == [k \in 1..Len(r) |-> <<r[k][1], 1>>]
ProdRowWidth(arow, B) ==
    LET Bc == [B EXCEPT !.val = [p \in 1..Len(B.val) |-> 1]]
    IN  Len(ProdRow([k \in 1..Len(arow) |-> <<arow[k][1], 1>>], Bc).row)

RmergeRun(A, B) ==
    LET rows == [i \in 1..A.n |-> ProdRow(RowSeq(A, i - 1), B)]
    IN  [C |-> FromRows(A.n, B.m, [i \in 1..A.n |-> rows[i].row]),
         widthsOK |-> \A i \in 1..A.n : ProdRowWidth(RowSeq(A, i - 1), B) = Len(rows[i].row),
         alias |-> \E i \in 1..A.n : rows[i].alias,
         branches |-> {rows[i].branch : i \in 1..A.n}]

\* ----------------------------------------------------------------------- sum
SumFillRow(alpha, A, beta, B, marker, rowbeg, i) ==
    LET terms == ScaleRow(alpha, RowSeq(A, i)) \o ScaleRow(beta, RowSeq(B, i))
    IN  FoldLeft(LAMBDA st, t :
                IF st.marker[t[1]] < rowbeg
                THEN [marker |-> [st.marker EXCEPT ![t[1]] = rowbeg + Len(st.row)], row |-> Append(st.row, t)]
                ELSE [st EXCEPT !.row[st.marker[t[1]] - rowbeg + 1] = <<@[1], @[2] + t[2]>>],
             [marker |-> marker, row |-> <<>>], terms)
SumRun(alpha, A, beta, B, sort) ==
    LET S[i \in 0..A.n] ==
            IF i = 0 THEN [marker |-> [c \in 0..(A.m - 1) |-> -1], rows |-> <<>>, beg |-> 0]
            ELSE LET r == SumFillRow(alpha, A, beta, B, S[i - 1].marker, S[i - 1].beg, i - 1)
                 IN  [marker |-> r.marker, beg |-> S[i - 1].beg + Len(r.row),
                      rows |-> Append(S[i - 1].rows, IF sort THEN SortRowRun(r.row) ELSE r.row)]
    IN  FromRows(A.n, A.m, S[A.n].rows)

\* ----------------------------------------------------------- pointwise_matrix
\* k-way block-column merge of the bs scalar rows of one block row.  In the pinned
\* snapshot the scan of row k consumed (beg++) the entry that proves the block column
\* is finished *before* testing it (Consume = TRUE): PointwiseModel finds the violation
\* (4x4 mask 9, bs 2), the real code reproduced it, repaired by a "fix:" commit in /repo.
\* Consume = FALSE is the code as it is now.
RECURSIVE PWLoop(_, _, _, _, _, _, _, _)
PWLoop(A, bs, j, e, cur, done, out, Consume) ==
    IF done THEN out
    ELSE
      LET bc     == cur \div bs
          colend == (bc + 1) * bs
          \* scan row k from position j[k]: entries with col < colend belong to this block
          RECURSIVE Scan(_, _)
          Scan(k, beg) ==       \* -> [beg, vals (set of norms), next (col that ended it or -1)]
              IF beg >= e[k] THEN [beg |-> beg, vals |-> {}, next |-> -1]
              ELSE LET c == A.col[beg + 1]
                       v == Abs(A.val[beg + 1])
                   IN  IF c >= colend
                       THEN [beg |-> IF Consume THEN beg + 1 ELSE beg, vals |-> {}, next |-> c]
                       ELSE LET r == Scan(k, beg + 1)
                            IN  [beg |-> r.beg, vals |-> r.vals \cup {v}, next |-> r.next]
          sc     == [k \in 0..(bs - 1) |-> Scan(k, j[k])]
          vals   == UNION {sc[k].vals : k \in 0..(bs - 1)}
          nexts  == {sc[k].next : k \in 0..(bs - 1)} \ {-1}
          val    == IF vals = {} THEN 0 ELSE MaxOf(vals)
      IN  PWLoop(A, bs, [k \in 0..(bs - 1) |-> sc[k].beg], e,
                 IF nexts = {} THEN cur ELSE MinOf(nexts), nexts = {},
                 Append(out, <<bc, val>>), Consume)

PWRow(A, bs, ip, Consume) ==
    LET ia   == ip * bs
        j0   == [k \in 0..(bs - 1) |-> Ptr(A, ia + k)]
        e    == [k \in 0..(bs - 1) |-> Ptr(A, ia + k + 1)]
        ne   == {k \in 0..(bs - 1) : j0[k] < e[k]}
        cur0 == IF ne = {} THEN 0 ELSE MinOf({A.col[j0[k] + 1] : k \in ne})
    IN  PWLoop(A, bs, j0, e, cur0, ne = {}, <<>>, Consume)

PointwiseRun(A, bs, Consume) ==
    FromRows(A.n \div bs, A.m \div bs, [ip \in 1..(A.n \div bs) |-> PWRow(A, bs, ip - 1, Consume)])

\* definition: entry (I,J) present iff the bs x bs block holds a stored entry; value = largest |a|
PointwiseOK(A, bs, Ap) ==
    /\ Ap.n = A.n \div bs /\ Ap.m = A.m \div bs /\ WellFormed(Ap) /\ Sorted(Ap)
    /\ \A ip \in Rows(Ap) :
         LET ents == UNION {{<<A.col[p] \div bs, Abs(A.val[p])>> : p \in RowPos(A, ip * bs + k)} : k \in 0..(bs - 1)}
             bcs  == {x[1] : x \in ents}
         IN  /\ RowCols(Ap, ip) = bcs
             /\ \A bc \in bcs : At(Ap, ip, bc) = MaxOf({x[2] : x \in {y \in ents : y[1] = bc}})

\* ------------------------------------------------------- diagonal / gershgorin
\* diagonal(A, invert): first stored entry with col = row; rows without one are undefined
DiagonalOK(A, d) == \A i \in Rows(A) : (i \in RowCols(A, i) /\ Cardinality({p \in RowPos(A, i) : A.col[p] = i}) = 1)
                        => d[i + 1] = At(A, i, i)
\* Gershgorin bound, unscaled: max_i sum_j |a_ij| (exact on integers)
GershgorinDef(A) == IF A.n = 0 THEN 0
                    ELSE MaxOf({MapThenSumSet(LAMBDA p : Abs(A.val[p]), RowPos(A, i)) : i \in Rows(A)})
\* scaled by the inverse diagonal (every row has exactly one diagonal entry, a power of two): * 2^8
GershgorinScaledDef(A) == IF A.n = 0 THEN 0
                          ELSE MaxOf({(256 * MapThenSumSet(LAMBDA p : Abs(A.val[p]), RowPos(A, i))) \div Abs(At(A, i, i)) : i \in Rows(A)})
=============================================================================
