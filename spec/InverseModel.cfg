CONSTANTS
  NI = 2
  NegLo = 2
  Hi = 2
INIT Init
NEXT Next
INVARIANTS SingInv InverseInv
CHECK_DEADLOCK FALSE
