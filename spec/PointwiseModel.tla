-------------------------- MODULE PointwiseModel --------------------------
(* pointwise_matrix (block-to-pointwise reduction) on every N x N pattern with     *)
(* block size BS, transcribed as written (Consume = TRUE) or repaired (FALSE).     *)
EXTENDS SparseKernels, Patterns, TLC
CONSTANTS N, BS, Consume
VARIABLES am, pc, out
Init == am \in Masks(N, N) /\ pc = "in" /\ out = <<>>
A == MkCrs(N, N, am, 0, FALSE)
Next == pc = "in" /\ pc' = "pw" /\ out' = PointwiseRun(A, BS, Consume) /\ UNCHANGED am
PwInv == pc = "pw" => PointwiseOK(A, BS, out)
=============================================================================
