CONSTANTS
  Solvers = {"cg", "bicgstab", "bicgstabl", "gmres", "fgmres", "lgmres", "idrs", "richardson"}
  MaxIter = 6
  MaxPar = 3
  Consistent = FALSE
  WithBreakdown = TRUE
SPECIFICATION FairSpec
INVARIANTS TypeOK Budget ExitReason Provenance CheckAfter0 Work Flushed
PROPERTY Termination
CHECK_DEADLOCK FALSE
