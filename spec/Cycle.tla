-------------------------------- MODULE Cycle --------------------------------
(* The multigrid cycle of amgcl::amg (amg.hpp: apply / cycle) as a program over     *)
(* OpMachine: registers rhs, x (caller) and f@l, u@l, t@l (level vectors).          *)
(* Program(p) is the exact sequence of primitives one apply() issues for           *)
(* parameters p = [levels, ncycle, npre, npost, pre_cycles, direct].                *)
EXTENDS OpMachine

Reg(n, l) == <<n, l>>                      \* level register, e.g. <<"f", 2>>
RHS == <<"rhs", 0>>
X   == <<"x", 0>>
Mat(n, l) == <<n, l>>                      \* matrices are never written: names only

Rep(k, s) == LET F[i \in 0..k] == IF i = 0 THEN <<>> ELSE F[i - 1] \o s IN F[k]

OpRelax(kind, l, rhs, x) == [name |-> "relax", kind |-> kind, lvl |-> l, a |-> <<rhs, x, Reg("t", l)>>, z |-> <<>>]
OpCoarse(l, rhs, x)      == [name |-> "coarse", kind |-> "direct", lvl |-> l, a |-> <<rhs, x>>, z |-> <<>>]
OpResid(l, rhs, x)       == [name |-> "residual", kind |-> "cycle", lvl |-> l, a |-> <<rhs, Mat("A", l), x, Reg("t", l)>>, z |-> <<>>]
OpRestrict(l)            == [name |-> "spmv", kind |-> "restrict", lvl |-> l, a |-> <<Mat("R", l), Reg("t", l), Reg("f", l + 1)>>, z |-> <<0, 1>>]
OpClearU(l)              == [name |-> "clear", kind |-> "clearu", lvl |-> l, a |-> <<Reg("u", l)>>, z |-> <<>>]
OpProlong(l, x)          == [name |-> "spmv", kind |-> "prolong", lvl |-> l, a |-> <<Mat("P", l), Reg("u", l + 1), x>>, z |-> <<0, 0>>]

RECURSIVE CycleOps(_, _, _, _)
CycleOps(p, l, rhs, x) ==
    IF l = p.levels
    THEN IF p.direct THEN <<OpCoarse(l, rhs, x)>>
         ELSE Rep(p.npre, <<OpRelax("pre", l, rhs, x)>>) \o Rep(p.npost, <<OpRelax("post", l, rhs, x)>>)
    ELSE Rep(p.ncycle,
             Rep(p.npre, <<OpRelax("pre", l, rhs, x)>>)
             \o <<OpResid(l, rhs, x), OpRestrict(l), OpClearU(l + 1)>>
             \o CycleOps(p, l + 1, Reg("f", l + 1), Reg("u", l + 1))
             \o <<OpProlong(l, x)>>
             \o Rep(p.npost, <<OpRelax("post", l, rhs, x)>>))

Program(p) ==
    IF p.pre_cycles = 0
    THEN <<[name |-> "copy", kind |-> "copy", lvl |-> 1, a |-> <<RHS, X>>, z |-> <<>>]>>
    ELSE <<[name |-> "clear", kind |-> "clearx", lvl |-> 1, a |-> <<X>>, z |-> <<>>]>>
         \o Rep(p.pre_cycles, CycleOps(p, 1, RHS, X))

\* the shape of a cycle: relax / coarse / restrict / prolong events only
Shape(prog) == LET s == SelectSeq(prog, LAMBDA e : e.kind \in {"pre", "post", "direct", "restrict", "prolong"})
               IN  [k \in 1..Len(s) |-> <<s[k].kind, s[k].lvl>>]

\* error-propagation word of one cycle and its reverse adjoint (pre <-> post sweeps are
\* mutually adjoint for the symmetric smoothers, R = P^T, the coarse solve is self-adjoint)
AdjTok(t) == CASE t[1] = "pre" -> <<"post", t[2]>> [] t[1] = "post" -> <<"pre", t[2]>>
               [] t[1] = "restrict" -> <<"prolong", t[2]>> [] t[1] = "prolong" -> <<"restrict", t[2]>>
               [] OTHER -> t
RevAdj(w) == [k \in 1..Len(w) |-> AdjTok(w[Len(w) + 1 - k])]
Palindrome(p) == LET w == Shape(CycleOps(p, 1, RHS, X)) IN w = RevAdj(w)
=============================================================================
