----------------------------- MODULE KrylovCtl -----------------------------
(* Control skeletons of the eight iterative solvers of amgcl/solver/*.hpp,          *)
(* transcribed from each operator()(A, P, rhs, x): the loop structure, the places   *)
(* where a residual norm is computed and tested, where the iteration counter moves, *)
(* where the caller's x is written and where the preconditioner is applied.         *)
(* Numbers are abstracted away: the ENVIRONMENT decides the outcome of every        *)
(* convergence test (and, optionally, of every breakdown `precondition`).           *)
(*                                                                                  *)
(* Ghost state                                                                      *)
(*   clock    a fresh stamp for every new value of a solution vector                *)
(*   xVer     stamp of the caller's x                                               *)
(*   effVer   stamp of the "effective" solution the recurrences work on when it is  *)
(*            not x itself: x + P X in BiCGStab(L) (X is added to x only at `done`  *)
(*            or by a reliable update), the smoothed x_s in IDR(s)                  *)
(*   resVer   stamp of the solution the carried / reported residual norm belongs to *)
(*   nP       number of preconditioner applications (the work done)                 *)
(*   hist     the environment's choices, i.e. the control path                      *)
(*   lastAct  name of the last action (readable behaviours)                         *)
(* Which residual is reported (what the code does):                                 *)
(*   cg, bicgstab, bicgstabl, idrs  - the recursively updated residual (never       *)
(*        recomputed from x, except idrs with `replacement` and bicgstabl's refresh) *)
(*   gmres, lgmres, fgmres, richardson - recomputed from x before every test        *)
(* In both cases the model records to which x-version that vector belongs;          *)
(* Provenance says that at Return this is the version that is handed back.          *)
EXTENDS KrylovRet, Sequences, TLC, Json

CONSTANTS Solvers,        \* subset of AllSolvers
          MaxIter,        \* maxiter ranges over 0..MaxIter
          MaxPar,         \* M, L, s range over 1..MaxPar
          Consistent,     \* TRUE: the recomputed residual of GMRES agrees with the estimate
          WithBreakdown,  \* TRUE: the environment may fail a `precondition` (exception)
          CheckAfterGuarded \* BiCGStab check_after: TRUE = as repaired by proposed_fixes/C01-bicgstab-check-after
                            \* (res = norm(r); one forced iteration unless res = 0), FALSE = the pinned tree
                            \* (res = 2 eps, a number that is not the residual of anything)

VARIABLES cfg, pc, iter, j, nrest, first, force, conv, est, zero, broke,
          clock, xVer, effVer, resVer, nP, hist, lastAct

vars  == <<cfg, pc, iter, j, nrest, first, force, conv, est, zero, broke, clock, xVer, effVer, resVer, nP, hist, lastAct>>

IsS(s)   == cfg.solver = s
Left     == cfg.side = "left"
LX       == LeftExtra(cfg.solver, cfg.side)
Par      == cfg.par

\* opt: bicgstab = check_after, bicgstabl = reliable updates (delta > 0),
\*      idrs = residual smoothing; unused otherwise
Configs == { c \in [solver : Solvers, side : {"left", "right"}, par : 1..MaxPar, opt : BOOLEAN, maxit : 0..MaxIter] :
               /\ (c.side = "left" => c.solver \in Sided)
               /\ (c.par > 1 => c.solver \in {"bicgstabl", "gmres", "fgmres", "lgmres", "idrs"})
               /\ (c.opt => c.solver \in {"bicgstab", "bicgstabl", "idrs"}) }

Init == /\ cfg \in Configs
        /\ pc = "Start" /\ iter = 0 /\ j = 0 /\ nrest = 0 /\ first = TRUE /\ force = FALSE
        /\ conv = FALSE /\ est = FALSE /\ zero = FALSE /\ broke = FALSE
        /\ clock = 0 /\ xVer = 0 /\ effVer = 0 /\ resVer = -1 /\ nP = 0
        /\ hist = <<>> /\ lastAct = "init"

\* ------------------------------------------------------------------ helpers
Act(name, from, to) == pc = from /\ pc' = to /\ lastAct' = name
Keep(vs) == UNCHANGED vs
\* the environment decides the test on a freshly computed residual norm
NewConv(c)  == conv' = c /\ hist' = Append(hist, IF c THEN "c" ELSE "n")
\* a new value of x; the residual carried along is updated with it
StepX       == clock' = clock + 1 /\ xVer' = clock + 1 /\ resVer' = clock + 1
Throw(name) == /\ WithBreakdown /\ broke' = TRUE /\ pc' = "Return" /\ lastAct' = name
               /\ hist' = Append(hist, "B")
               /\ Keep(<<cfg, iter, j, nrest, first, force, conv, est, zero, clock, xVer, effVer, resVer, nP>>)

\* ------------------------------------------------- prologue (all solvers)
\* norm_rhs < eps(1) and not ns_search: clear(x); return (0, norm_rhs)
\* (x = 0 and the reported number ||rhs|| is its absolute residual)
ZeroRhs == /\ Act("zero_rhs", "Start", "Return")
           /\ zero' = TRUE /\ StepX /\ effVer' = clock + 1
           /\ hist' = Append(hist, "Z")
           /\ Keep(<<cfg, iter, j, nrest, first, force, conv, est, broke, nP>>)
NonZeroRhs == /\ Act("start", "Start", IF cfg.solver \in {"gmres", "fgmres", "lgmres"} THEN "Outer" ELSE "Init0")
              /\ Keep(<<cfg, iter, j, nrest, first, force, conv, est, zero, broke, clock, xVer, effVer, resVer, nP, hist>>)

\* ---------------------------------------------------- CG and Richardson
\* residual(rhs, A, x, r); res_norm = norm(r);
\* for(; iter < maxiter && res_norm > eps; ++iter) { P.apply; x += ..; r updated; res_norm = norm(r) }
\* (cg: r -= alpha q, recursively; richardson: r = rhs - A x, recomputed)
LinSolver == IsS("cg") \/ IsS("richardson")
LinInit == /\ LinSolver /\ Act("lin.residual", "Init0", "Head")
           /\ resVer' = xVer /\ \E c \in BOOLEAN : NewConv(c)
           /\ Keep(<<cfg, iter, j, nrest, first, force, est, zero, broke, clock, xVer, effVer, nP>>)
LinHead == /\ LinSolver /\ Act("lin.test", "Head", IF iter < cfg.maxit /\ ~conv THEN "Body" ELSE "Return")
           /\ Keep(<<cfg, iter, j, nrest, first, force, conv, est, zero, broke, clock, xVer, effVer, resVer, nP, hist>>)
LinBody == /\ LinSolver /\ Act("lin.iterate", "Body", "Head")
           /\ nP' = nP + 1 /\ StepX /\ iter' = iter + 1 /\ \E c \in BOOLEAN : NewConv(c)
           /\ Keep(<<cfg, j, nrest, first, force, est, zero, broke, effVer>>)

\* ----------------------------------------------------------------- BiCGStab
\* r = [P](rhs - A x); res = check_after ? 2 eps : norm(r);
\* for(first = true; res > eps && iter < maxiter; ++iter) {        (guarded: (res > eps || (first && force)))
\*    [precondition rho2 != 0]; v = A P p; x += alpha p; s = r - alpha v;
\*    if ((res = norm(s)) > eps) { t = A P s; [precondition omega != 0]; x += omega s; r = s - omega t; res = norm(r) } }
BsInit == /\ IsS("bicgstab") /\ Act("bicgstab.residual", "Init0", "Head")
          /\ nP' = nP + LX
          /\ IF cfg.opt /\ ~CheckAfterGuarded
             THEN \* res = 2 eps: not a residual of anything
                  conv' = FALSE /\ resVer' = -1 /\ hist' = Append(hist, "k") /\ force' = FALSE
             ELSE /\ resVer' = xVer
                  /\ \E c \in BOOLEAN : \E nz \in (IF cfg.opt /\ c THEN BOOLEAN ELSE {TRUE}) :   \* nz: res # 0
                        /\ conv' = c /\ force' = (cfg.opt /\ nz)
                        /\ hist' = Append(hist, (IF c THEN "c" ELSE "n") \o (IF cfg.opt /\ c /\ nz THEN "k" ELSE ""))
          /\ Keep(<<cfg, iter, j, nrest, first, est, zero, broke, clock, xVer, effVer>>)
BsHead == /\ IsS("bicgstab") /\ Act("bicgstab.test", "Head", IF (~conv \/ (first /\ force)) /\ iter < cfg.maxit THEN "Half1" ELSE "Return")
          /\ Keep(<<cfg, iter, j, nrest, first, force, conv, est, zero, broke, clock, xVer, effVer, resVer, nP, hist>>)
BsHalf1 == /\ IsS("bicgstab") /\ Act("bicgstab.bicg_half", "Half1", "Mid")
           /\ nP' = nP + 1 /\ StepX /\ first' = FALSE /\ \E c \in BOOLEAN : NewConv(c)
           /\ Keep(<<cfg, iter, j, nrest, force, est, zero, broke, effVer>>)
BsZeroRho == IsS("bicgstab") /\ pc = "Half1" /\ ~first /\ Throw("bicgstab.zero_rho")
BsMid == /\ IsS("bicgstab") /\ Act("bicgstab.test_s", "Mid", IF ~conv THEN "Half2" ELSE "Inc")
         /\ Keep(<<cfg, iter, j, nrest, first, force, conv, est, zero, broke, clock, xVer, effVer, resVer, nP, hist>>)
BsHalf2 == /\ IsS("bicgstab") /\ Act("bicgstab.mr_half", "Half2", "Inc")
           /\ nP' = nP + 1 /\ StepX /\ \E c \in BOOLEAN : NewConv(c)
           /\ Keep(<<cfg, iter, j, nrest, first, force, est, zero, broke, effVer>>)
BsZeroOmega == IsS("bicgstab") /\ pc = "Half2" /\ Throw("bicgstab.zero_omega")
BsInc == /\ IsS("bicgstab") /\ Act("bicgstab.inc", "Inc", "Head") /\ iter' = iter + 1
         /\ Keep(<<cfg, j, nrest, first, force, conv, est, zero, broke, clock, xVer, effVer, resVer, nP, hist>>)

\* -------------------------------------------------------------- BiCGStab(L)
\* B = [P](rhs - A x); zeta = norm(B); X = 0;
\* for(; iter < maxiter && zeta >= eps; iter += L) {
\*    for(j = 0; j < L; ++j) { ..U[j+1] = A P U[j]; X += alpha U[0]; R[i] -= alpha U[i+1]; R[j+1] = A P R[j];
\*                             zeta = norm(R[0]); if (zeta < eps) { iter += j+1; goto done; } }
\*    polynomial part: X += sum gamma R; R[0] -= ...; zeta = norm(R[0]);
\*    if (delta > 0 && ..) { R[0] = B - A P X; if (update_x) { x += [P] X; X = 0; B = R[0]; } } }
\* done: x += [P] X
BlInit == /\ IsS("bicgstabl") /\ Act("bicgstabl.residual", "Init0", "Head")
          /\ nP' = nP + LX /\ resVer' = xVer /\ effVer' = xVer /\ \E c \in BOOLEAN : NewConv(c)
          /\ Keep(<<cfg, iter, j, nrest, first, force, est, zero, broke, clock, xVer>>)
BlHead == /\ IsS("bicgstabl") /\ Act("bicgstabl.test", "Head", IF iter < cfg.maxit /\ ~conv THEN "BiCG" ELSE "Done")
          /\ j' = 0
          /\ Keep(<<cfg, iter, nrest, first, force, conv, est, zero, broke, clock, xVer, effVer, resVer, nP, hist>>)
BlBiCG == /\ IsS("bicgstabl") /\ pc = "BiCG" /\ lastAct' = "bicgstabl.bicg_step"
          /\ nP' = nP + 2
          /\ clock' = clock + 1 /\ effVer' = clock + 1 /\ resVer' = clock + 1      \* X += alpha U0; R[0] -= alpha U1
          /\ \E c \in BOOLEAN :
                /\ NewConv(c)
                /\ IF c THEN iter' = iter + j + 1 /\ pc' = "Done" /\ j' = j
                        ELSE iter' = iter /\ j' = j + 1 /\ pc' = (IF j + 1 = Par THEN "Poly" ELSE "BiCG")
          /\ Keep(<<cfg, nrest, first, force, est, zero, broke, xVer>>)
BlBreak == IsS("bicgstabl") /\ pc \in {"BiCG", "Poly"} /\ Throw("bicgstabl.breakdown")
BlPoly == /\ IsS("bicgstabl") /\ Act("bicgstabl.poly", "Poly", "Head")
          /\ clock' = clock + 1 /\ effVer' = clock + 1 /\ resVer' = clock + 1
          /\ iter' = iter + Par
          /\ \E c \in BOOLEAN : \E b \in (IF cfg.opt THEN {"", "r", "u"} ELSE {""}) :
                /\ conv' = c /\ hist' = Append(hist, (IF c THEN "c" ELSE "n") \o b)
                /\ nP' = nP + (IF b = "" THEN 0 ELSE 1)           \* R[0] = B - A P X: refreshed, same version
                /\ xVer' = (IF b = "u" THEN clock + 1 ELSE xVer)   \* x += [P] X; X = 0
          /\ Keep(<<cfg, j, nrest, first, force, est, zero, broke>>)
BlDone == /\ IsS("bicgstabl") /\ Act("bicgstabl.done", "Done", "Return")
          /\ nP' = nP + (IF Left THEN 0 ELSE 1) /\ xVer' = effVer
          /\ Keep(<<cfg, iter, j, nrest, first, force, conv, est, zero, broke, clock, effVer, resVer, hist>>)

\* --------------------------------------------------- GMRES, LGMRES, FGMRES
\* while(true) { r = [P](rhs - A x); norm_r = norm(r); if (norm_r < eps || iter >= maxiter) break;
\*    j = 0; while(true) { v[j+1] = A P v[j] ..; inner_res = |s[j+1]|; ++j, ++iter;
\*                         if (iter >= maxiter || j >= M || inner_res <= eps) break; }
\*    x += [P] (V y) }
\* fgmres: z[j] = P v[j] inside the Arnoldi step, x += Z y, no side parameter
GmSolver == cfg.solver \in {"gmres", "fgmres", "lgmres"}
GmOuter == /\ GmSolver /\ Act("gmres.residual", "Outer", "OuterTest")
           /\ nP' = nP + LX /\ resVer' = xVer
           /\ \E c \in (IF Consistent /\ nrest > 0 THEN {est} ELSE BOOLEAN) : NewConv(c)
           /\ Keep(<<cfg, iter, j, nrest, first, force, est, zero, broke, clock, xVer, effVer>>)
GmOuterTest == /\ GmSolver /\ Act("gmres.test", "OuterTest", IF conv \/ iter >= cfg.maxit THEN "Return" ELSE "Inner")
               /\ j' = 0
               /\ Keep(<<cfg, iter, nrest, first, force, conv, est, zero, broke, clock, xVer, effVer, resVer, nP, hist>>)
GmInner == /\ GmSolver /\ pc = "Inner" /\ lastAct' = "gmres.arnoldi_step"
           /\ nP' = nP + 1 /\ j' = j + 1 /\ iter' = iter + 1
           /\ \E e \in BOOLEAN :
                /\ est' = e /\ hist' = Append(hist, IF e THEN "e" ELSE "f")
                /\ pc' = (IF iter + 1 >= cfg.maxit \/ j + 1 >= Par \/ e THEN "Update" ELSE "Inner")
           /\ Keep(<<cfg, nrest, first, force, conv, zero, broke, clock, xVer, effVer, resVer>>)
GmUpdate == /\ GmSolver /\ Act("gmres.update_x", "Update", "Outer")
            /\ nP' = nP + (IF IsS("fgmres") \/ Left THEN 0 ELSE 1)
            /\ clock' = clock + 1 /\ xVer' = clock + 1          \* the carried norm_r is now stale ...
            /\ nrest' = nrest + 1                                \* ... and is recomputed at "Outer"
            /\ Keep(<<cfg, iter, j, first, force, conv, est, zero, broke, effVer, resVer, hist>>)

\* ------------------------------------------------------------------- IDR(s)
\* r = rhs - A x; res_norm = norm(r); if (res_norm <= eps) return (0, ..);
\* [x_s = x; r_s = r]
\* while(iter < maxiter && res_norm > eps) {
\*    for(k = 0; k < s; ++k) { t = P v; ...; [precondition M(k,k) != 0]; r -= beta G[k]; x += beta U[k];
\*        res_norm = norm(r); [smoothing: r_s, x_s updated; res_norm = norm(r_s)]
\*        if (res_norm <= eps || ++iter >= maxiter) break; }
\*    if (res_norm <= eps || iter >= maxiter) break;
\*    v = P r; t = A v; [precondition om != 0]; r -= om t; x += om v; [replacement: r = rhs - A x]
\*    res_norm = norm(r); [smoothing ...]; ++iter; }
\* [smoothing: x = x_s]
IdInit == /\ IsS("idrs") /\ pc = "Init0" /\ lastAct' = "idrs.residual"
          /\ resVer' = xVer /\ effVer' = xVer
          /\ \E c \in BOOLEAN : NewConv(c) /\ pc' = (IF c THEN "Return" ELSE "While")
          /\ Keep(<<cfg, iter, j, nrest, first, force, est, zero, broke, clock, xVer, nP>>)
IdWhile == /\ IsS("idrs") /\ Act("idrs.test", "While", IF iter < cfg.maxit /\ ~conv THEN "KStep" ELSE "Finish")
           /\ j' = 0
           /\ Keep(<<cfg, iter, nrest, first, force, conv, est, zero, broke, clock, xVer, effVer, resVer, nP, hist>>)
\* x and r move together; with smoothing (x_s, r_s) move together and res_norm = norm(r_s)
IdVectors == IF cfg.opt THEN /\ clock' = clock + 2 /\ xVer' = clock + 1
                             /\ effVer' = clock + 2 /\ resVer' = clock + 2
                        ELSE StepX /\ effVer' = effVer
IdKStep == /\ IsS("idrs") /\ pc = "KStep" /\ lastAct' = "idrs.k_step"
           /\ nP' = nP + 1 /\ IdVectors
           /\ \E c \in BOOLEAN :
                /\ NewConv(c)
                /\ IF c THEN iter' = iter /\ j' = j /\ pc' = "AfterK"              \* ++iter not evaluated
                   ELSE /\ iter' = iter + 1
                        /\ IF iter + 1 >= cfg.maxit THEN j' = j /\ pc' = "AfterK"
                           ELSE IF j + 1 < Par THEN j' = j + 1 /\ pc' = "KStep"
                           ELSE j' = j /\ pc' = "AfterK"
           /\ Keep(<<cfg, nrest, first, force, est, zero, broke>>)
IdBreak == IsS("idrs") /\ pc \in {"KStep", "Omega"} /\ Throw("idrs.breakdown")
IdAfterK == /\ IsS("idrs") /\ Act("idrs.test_after_block", "AfterK", IF conv \/ iter >= cfg.maxit THEN "Finish" ELSE "Omega")
            /\ Keep(<<cfg, iter, j, nrest, first, force, conv, est, zero, broke, clock, xVer, effVer, resVer, nP, hist>>)
IdOmega == /\ IsS("idrs") /\ Act("idrs.omega_step", "Omega", "While")
           /\ nP' = nP + 1 /\ IdVectors /\ iter' = iter + 1 /\ \E c \in BOOLEAN : NewConv(c)
           /\ Keep(<<cfg, j, nrest, first, force, est, zero, broke>>)
IdFinish == /\ IsS("idrs") /\ Act("idrs.finish", "Finish", "Return")
            /\ xVer' = (IF cfg.opt THEN effVer ELSE xVer)            \* copy(x_s, x)
            /\ Keep(<<cfg, iter, j, nrest, first, force, conv, est, zero, broke, clock, effVer, resVer, nP, hist>>)

Next == \/ ZeroRhs \/ NonZeroRhs
        \/ LinInit \/ LinHead \/ LinBody
        \/ BsInit \/ BsHead \/ BsHalf1 \/ BsZeroRho \/ BsMid \/ BsHalf2 \/ BsZeroOmega \/ BsInc
        \/ BlInit \/ BlHead \/ BlBiCG \/ BlBreak \/ BlPoly \/ BlDone
        \/ GmOuter \/ GmOuterTest \/ GmInner \/ GmUpdate
        \/ IdInit \/ IdWhile \/ IdKStep \/ IdBreak \/ IdAfterK \/ IdOmega \/ IdFinish

Spec     == Init /\ [][Next]_vars
FairSpec == Spec /\ WF_vars(Next)

\* ---------------------------------------------------------------- properties
AtReturn == pc = "Return"
TypeOK == /\ cfg \in Configs /\ iter \in 0..(MaxIter + MaxPar) /\ j \in 0..MaxPar /\ nP >= 0
          /\ xVer \in 0..clock /\ effVer \in 0..clock /\ resVer \in -1..clock
\* the iteration budget is respected
Budget == AtReturn => BudgetOK(cfg.solver, Par, iter, cfg.maxit)
\* Return only after a passed test, an exhausted budget, the zero-rhs shortcut or a breakdown
ExitReason == AtReturn => broke \/ ExitOK(zero, conv, iter, cfg.maxit)
\* the reported residual belongs to the x that is handed back
\* (violated by bicgstab with check_after and maxiter = 0 when CheckAfterGuarded = FALSE:
\*  the pinned tree returns the constant 2 eps / ||rhs||; KrylovCtlPinned.cfg shows the trace)
Provenance == AtReturn /\ ~broke => resVer = xVer
\* the counted iterations account for the work that was done
Work == AtReturn /\ ~broke /\ ~zero => WorkOK(cfg.solver, cfg.side, Par, IsS("bicgstabl") /\ cfg.opt, iter, nP, conv)
\* nothing pending: the effective solution has been written to x
Flushed == AtReturn /\ ~broke /\ cfg.solver \in {"bicgstabl", "idrs"} => xVer = effVer \/ (IsS("idrs") /\ ~cfg.opt)
Termination == <>(pc = "Return")

\* ------------------------------------------------- export of the control paths
\* one JSON line per maximal control path (terminal state), for the replay binding
Sig == [solver |-> cfg.solver, side |-> cfg.side, par |-> Par, opt |-> cfg.opt, maxit |-> cfg.maxit,
        zero |-> zero, conv |-> conv, it |-> iter, nP |-> nP, path |-> hist]
Emit == AtReturn /\ ~broke => PrintT("PATH " \o ToJson(Sig))
=============================================================================
