---------------------------- MODULE Consolidation ----------------------------
(* Transcription of amgcl::mpi::direct::solver_base::init / operator()                 *)
(* (amgcl/mpi/direct_solver/solver_base.hpp:50-166, 209-247): the ranks that own rows  *)
(* are grouped, the first rank of a group is its master, the others ship their row     *)
(* widths / columns / values there (init) and, per solve, their slice of the rhs; the  *)
(* master solves the consolidated system and ships the slices of the solution back.    *)
(* Model: every np in 1..MaxNP, every contiguous partition of NR >= 1 rows, every      *)
(* number of masters the direct solver may ask for (comm_size).                        *)
EXTENDS Naturals, Integers, Sequences, FiniteSets, SequencesExt, TLC

CONSTANTS MaxNP, NR, MaxCS
VARIABLES np, rp, cs, phase, consf, xback

vars == <<np, rp, cs, phase, consf, xback>>
CRanks == 0 .. (np - 1)
Parts(n, k) == {s \in [1..(k + 1) -> 0..n] : s[1] = 0 /\ s[k + 1] = n /\ \A j \in 1..k : s[j] <= s[j + 1]}
RowsOf(r) == [i \in 1..(rp[r + 2] - rp[r + 1]) |-> rp[r + 1] + i - 1]            \* global row numbers of rank r
Min2(a, b) == IF a < b THEN a ELSE b

Active   == SelectSeq([r \in 1..np |-> r - 1], LAMBDA r : rp[r + 2] - rp[r + 1] > 0)
NMasters == Min2(Len(Active), cs)
PerMaster == (Len(Active) + NMasters - 1) \div NMasters
ActiveRank(r) == IF \E k \in 1..Len(Active) : Active[k] = r THEN (CHOOSE k \in 1..Len(Active) : Active[k] = r) - 1 ELSE 0
GroupBeg(r)  == (ActiveRank(r) \div PerMaster) * PerMaster
MasterOf(r)  == Active[GroupBeg(r) + 1]
IsMaster(r)  == rp[r + 2] - rp[r + 1] > 0 /\ MasterOf(r) = r
\* slaves of master m, in the order the master posts its receives
Slaves(m) == [j \in 1..(Min2(GroupBeg(m) + PerMaster, Len(Active)) - GroupBeg(m) - 1) |-> Active[GroupBeg(m) + 1 + j]]
\* global rows of the consolidated matrix of master m, in storage order
ConsRows(m) == RowsOf(m) \o FlattenSeq([j \in 1..Len(Slaves(m)) |-> RowsOf(Slaves(m)[j])])

F(g) == 100 + g                       \* rhs value of global row g
X(g) == 1000 + 7 * g                  \* solution value of global row g (what the master's solve returns)

Init == /\ np \in 1..MaxNP /\ rp \in Parts(NR, np) /\ cs \in 1..MaxCS
        /\ phase = "init" /\ consf = <<>> /\ xback = <<>>
\* operator(): masters receive the rhs slices behind their own (shift = n, += counts[j])
GatherRhs == /\ phase = "init"
             /\ consf' = [r \in CRanks |-> IF IsMaster(r)
                             THEN [k \in 1..Len(ConsRows(r)) |-> F(ConsRows(r)[k])] ELSE <<>>]
             /\ phase' = "solved" /\ UNCHANGED <<np, rp, cs, xback>>
\* ... solve, then ship cons_x[shift .. shift + counts[j]) back
Scatter == /\ phase = "solved"
           /\ xback' = [r \in CRanks |->
                 IF rp[r + 2] - rp[r + 1] = 0 THEN <<>>
                 ELSE LET m   == MasterOf(r)
                          cx  == [k \in 1..Len(ConsRows(m)) |-> X(ConsRows(m)[k])]
                          off == rp[r + 1] - rp[m + 1]                       \* shift of r's slice in cons_x
                      IN  [i \in 1..(rp[r + 2] - rp[r + 1]) |-> cx[off + i]]]
           /\ phase' = "done" /\ UNCHANGED <<np, rp, cs, consf>>
Next == GatherRhs \/ Scatter \/ (phase = "done" /\ UNCHANGED vars)

\* every row is held by exactly one master, in global order, at the offset the code assumes
\* (A.ptr[domain[i] - d0]: the consolidated block is the contiguous row range starting at the master's)
ConsolidationOK ==
    /\ \A r \in CRanks : rp[r + 2] - rp[r + 1] > 0 => IsMaster(MasterOf(r))
    /\ \A g \in 0..(NR - 1) : Cardinality({m \in CRanks : IsMaster(m) /\ \E k \in 1..Len(ConsRows(m)) : ConsRows(m)[k] = g}) = 1
    /\ \A m \in CRanks : IsMaster(m) => \A k \in 1..Len(ConsRows(m)) : ConsRows(m)[k] = rp[m + 1] + k - 1
    /\ Cardinality({m \in CRanks : IsMaster(m)}) <= NMasters       \* (4 active ranks, 3 requested: 2 groups of 2)
RhsOK == phase # "init" => \A m \in CRanks : IsMaster(m) => \A k \in 1..Len(consf[m]) : consf[m][k] = F(rp[m + 1] + k - 1)
SolutionOK == phase = "done" => \A r \in CRanks : \A i \in 1..Len(xback[r]) : xback[r][i] = X(rp[r + 1] + i - 1)
=============================================================================
