---------------------------- MODULE MatrixMarket ----------------------------
(* amgcl/io/mm.hpp: the MatrixMarket reader (class mm_reader) transcribed as a      *)
(* state machine  Banner -> Comments -> Sizes -> Call -> Entry(k) -> Assemble ->    *)
(* Sort -> Done  with every `precondition` (and every std::vector length_error)     *)
(* an edge to Error, the two writers mm_write, the row-range filter used by the     *)
(* distributed loaders and the symmetric expansion.                                 *)
(*                                                                                  *)
(* A file is abstract: a banner (sequence of keyword strings, "?" = anything that   *)
(* is not a keyword) and a body, a sequence of lines  [cm, t]  (cm: the line starts *)
(* with '%'; t: its whitespace separated tokens).  Tokens are classified by what    *)
(* operator>> makes of them:                                                        *)
(*   [c |-> "int",  v]        optional sign + digits, fits the index type           *)
(*   [c |-> "real", v, ip]    a decimal / scientific number (value id v); an         *)
(*                            integer extraction consumes its integer part ip and   *)
(*                            leaves a "frac" remainder on the stream               *)
(*   [c |-> "frac"]           ".5e+00" left behind by such an extraction            *)
(*   [c |-> "garb"]           not a number (also: an integer that overflows)        *)
(* a missing token is a shorter line, a missing line a shorter body.                *)
(*                                                                                  *)
(* Checked = FALSE transcribes the pinned tree; Checked = TRUE adds the range       *)
(* checks of proposed_fixes/C19-mm-reader-range-checks.md.                          *)
EXTENDS SparseKernels, TLC

CONSTANT Checked

Keywords == {"%%MatrixMarket", "matrix", "coordinate", "array", "real", "complex", "integer",
             "general", "symmetric"}
FRACV == 77          \* value id of a "frac" remainder read as a real number

TInt(v)      == [c |-> "int", v |-> v]
TReal(v, ip) == [c |-> "real", v |-> v, ip |-> ip]
TFrac        == [c |-> "frac"]
TGarb        == [c |-> "garb"]
Line(ts)     == [cm |-> FALSE, t |-> ts]
Comment      == [cm |-> TRUE, t |-> <<>>]

\* ------------------------------------------------------------ stream extraction
\* is >> (integer):  [ok, v, rest]
GetInt(ts) ==
    IF ts = <<>> THEN [ok |-> FALSE, v |-> 0, rest |-> <<>>]
    ELSE LET t == Head(ts)
         IN  IF t.c = "int" THEN [ok |-> TRUE, v |-> t.v, rest |-> Tail(ts)]
             ELSE IF t.c = "real" THEN [ok |-> TRUE, v |-> t.ip, rest |-> <<TFrac>> \o Tail(ts)]
             ELSE [ok |-> FALSE, v |-> 0, rest |-> ts]
\* is >> (floating point)
GetReal(ts) ==
    IF ts = <<>> THEN [ok |-> FALSE, v |-> 0, rest |-> <<>>]
    ELSE LET t == Head(ts)
         IN  IF t.c \in {"int", "real"} THEN [ok |-> TRUE, v |-> t.v, rest |-> Tail(ts)]
             ELSE IF t.c = "frac" THEN [ok |-> TRUE, v |-> FRACV, rest |-> Tail(ts)]
             ELSE [ok |-> FALSE, v |-> 0, rest |-> ts]
\* read_value<Val>: kind = "real" | "complex" | "integer"; complex values are pairs
GetValue(kind, ts) ==
    IF kind = "integer" THEN GetInt(ts)
    ELSE IF kind = "real" THEN GetReal(ts)
    ELSE LET a == GetReal(ts)
             b == GetReal(a.rest)
         IN  IF a.ok /\ b.ok THEN [ok |-> TRUE, v |-> <<a.v, b.v>>, rest |-> b.rest]
             ELSE [ok |-> FALSE, v |-> 0, rest |-> ts]

\* -------------------------------------------------------------------- reader
\* req = [kind, dense, rb, re]   (rb, re = -1: the default "all rows")
NoMat == [n |-> 0, m |-> 0, ptr |-> <<0>>, col |-> <<>>, val |-> <<>>]

RdInit(file, req) ==
    [pc |-> "Banner", why |-> "", req |-> req, banner |-> file.banner, rest |-> file.body,
     line |-> <<>>, sym |-> FALSE, sparse |-> TRUE, dtype |-> "real",
     n |-> 0, m |-> 0, nnz |-> 0, rb |-> 0, re |-> 0, k |-> 0, cnt |-> 0,
     trip |-> <<>>, rows |-> <<>>, out |-> NoMat]

Err(rd, why)   == [rd EXCEPT !.pc = "Error", !.why = why]
Crash(rd, why) == [rd EXCEPT !.pc = "Crash", !.why = why]
Terminal(rd)   == rd.pc \in {"Done", "Error", "Crash"}

\* constructor: banner line
StepBanner(rd) ==
    LET b == rd.banner
    IN  IF Len(b) < 5 THEN Err(rd, "format")                     \* also: empty file (getline fails)
        ELSE IF b[1] # "%%MatrixMarket" THEN Err(rd, "no banner")
        ELSE IF b[2] # "matrix" THEN Err(rd, "not a matrix")
        ELSE IF b[5] \notin {"general", "symmetric"} THEN Err(rd, "storage")
        ELSE IF b[3] \notin {"coordinate", "array"} THEN Err(rd, "coordinate type")
        ELSE IF b[4] \notin {"real", "complex", "integer"} THEN Err(rd, "data type")
        ELSE [rd EXCEPT !.pc = "Comments", !.sym = (b[5] = "symmetric"),
                        !.sparse = (b[3] = "coordinate"), !.dtype = b[4]]

\* do { getline } while (line[0] == '%')   -- one getline per step
StepComments(rd) ==
    IF rd.rest = <<>> THEN Err(rd, "unexpected eof")
    ELSE LET ln == Head(rd.rest)
         IN  IF ln.cm THEN [rd EXCEPT !.rest = Tail(rd.rest)]
             ELSE [rd EXCEPT !.rest = Tail(rd.rest), !.line = ln.t, !.pc = "Sizes"]

\* is >> nrows >> ncols  (size_t: a negative number is accepted and wraps)
StepSizes(rd) ==
    LET a == GetInt(rd.line)
        b == GetInt(a.rest)
    IN  IF a.ok /\ b.ok THEN [rd EXCEPT !.pc = "Call"] ELSE Err(rd, "format")

\* operator()(ptr, col, val, row_beg, row_end) up to the entry loop
StepCallSparse(rd) ==
    LET a == GetInt(rd.line)
        b == GetInt(a.rest)
        c == GetInt(b.rest)
        rb == IF rd.req.rb < 0 THEN 0 ELSE rd.req.rb
        re == IF rd.req.re < 0 THEN a.v ELSE rd.req.re
        chunk == re - rb
    IN  IF ~rd.sparse THEN Err(rd, "not a sparse matrix")
        ELSE IF (rd.req.kind = "complex") # (rd.dtype = "complex") THEN Err(rd, "complex kind")
        ELSE IF (rd.req.kind = "integer") # (rd.dtype = "integer") THEN Err(rd, "integer kind")
        ELSE IF ~(a.ok /\ b.ok /\ c.ok) THEN Err(rd, "format")
        ELSE IF Checked /\ (a.v < 0 \/ b.v < 0) THEN Err(rd, "negative size")
        ELSE IF Checked /\ rd.sym /\ a.v # b.v THEN Err(rd, "symmetric matrix is not square")
        ELSE IF ~(rb >= 0 /\ re <= a.v) THEN Err(rd, "wrong subset")
        ELSE IF Checked /\ rb > re THEN Err(rd, "wrong subset")
        ELSE IF c.v < 0 THEN Err(rd, "length_error")              \* reserve(huge)
        ELSE IF chunk + 1 < 0 THEN Err(rd, "length_error")         \* ptr.resize(huge)
        ELSE [rd EXCEPT !.pc = "Entry", !.n = a.v, !.m = b.v, !.nnz = c.v, !.rb = rb, !.re = re, !.k = 0]

\* one iteration of  for (k = 0; k < nnz; ++k)
StepEntry(rd) ==
    IF rd.k >= rd.nnz THEN [rd EXCEPT !.pc = "Assemble"]
    ELSE IF rd.rest = <<>> THEN Err(rd, "unexpected eof")
    ELSE LET ts == Head(rd.rest).t             \* a comment line here is just a line whose tokens fail
             gi == GetInt(IF Head(rd.rest).cm THEN <<TGarb>> ELSE ts)
             gj == GetInt(gi.rest)
             gv == GetValue(rd.req.kind, gj.rest)
             i  == gi.v - 1
             j  == gj.v - 1
             in(r) == rd.rb <= r /\ r < rd.re
             t1 == IF in(i) THEN <<<<i - rd.rb, j, gv.v>>>> ELSE <<>>
             t2 == IF rd.sym /\ i # j /\ in(j) THEN <<<<j - rd.rb, i, gv.v>>>> ELSE <<>>
         IN  IF ~(gi.ok /\ gj.ok) THEN Err(rd, "format")
             ELSE IF Checked /\ ~(0 <= i /\ i < rd.n /\ 0 <= j /\ j < rd.m) THEN Err(rd, "index out of range")
             ELSE IF ~gv.ok THEN Err(rd, "format")
             ELSE [rd EXCEPT !.rest = Tail(rd.rest), !.k = rd.k + 1, !.trip = rd.trip \o t1 \o t2]

\* partial_sum / scatter by row heads / rotate: rows in the order the entries came
StepAssemble(rd) ==
    LET chunk == rd.re - rd.rb
    IN  IF chunk + 1 = 0 THEN Crash(rd, "ptr.back() of an empty vector")
        ELSE [rd EXCEPT !.pc = "Sort",
                        !.rows = [r \in 1..chunk |->
                                    LET mine == SelectSeq(rd.trip, LAMBDA t : t[1] = r - 1)
                                    IN  [q \in 1..Len(mine) |-> <<mine[q][2], mine[q][3]>>]]]

StepSort(rd) ==
    LET chunk == rd.re - rd.rb
    IN  [rd EXCEPT !.pc = "Done",
                   !.out = FromRows(chunk, rd.m, [r \in 1..chunk |-> SortRowRun(rd.rows[r])])]

\* dense: operator()(val, row_beg, row_end); the whole column-major loop is one step
RECURSIVE DenseLoop(_, _, _, _, _, _, _, _)
DenseLoop(kind, rest, n, m, rb, re, q, acc) ==       \* q = j * n + i, the running line number
    IF q >= n * m \/ m <= 0 \/ n <= 0 THEN [ok |-> TRUE, why |-> "", val |-> acc]
    ELSE IF rest = <<>> THEN [ok |-> FALSE, why |-> "unexpected eof", val |-> acc]
    ELSE LET i == q % n
             j == q \div n
             ln == Head(rest)
             g  == GetValue(kind, IF ln.cm THEN <<TGarb>> ELSE ln.t)
         IN  IF rb <= i /\ i < re
             THEN IF g.ok THEN DenseLoop(kind, Tail(rest), n, m, rb, re, q + 1,
                                         [acc EXCEPT ![(i - rb) * m + j + 1] = g.v])
                  ELSE [ok |-> FALSE, why |-> "format", val |-> acc]
             ELSE DenseLoop(kind, Tail(rest), n, m, rb, re, q + 1, acc)

StepCallDense(rd) ==
    LET a == GetInt(rd.line)
        b == GetInt(a.rest)
        rb == IF rd.req.rb < 0 THEN 0 ELSE rd.req.rb
        re == IF rd.req.re < 0 THEN a.v ELSE rd.req.re
        sz == (re - rb) * b.v
    IN  IF rd.sparse THEN Err(rd, "not a dense array")
        ELSE IF (rd.req.kind = "complex") # (rd.dtype = "complex") THEN Err(rd, "complex kind")
        ELSE IF (rd.req.kind = "integer") # (rd.dtype = "integer") THEN Err(rd, "integer kind")
        ELSE IF ~(a.ok /\ b.ok) THEN Err(rd, "format")
        ELSE IF Checked /\ (a.v < 0 \/ b.v < 0) THEN Err(rd, "negative size")
        ELSE IF ~(rb >= 0 /\ re <= a.v) THEN Err(rd, "wrong subset")
        ELSE IF Checked /\ rb > re THEN Err(rd, "wrong subset")
        ELSE IF sz < 0 THEN Err(rd, "length_error")
        ELSE LET r == DenseLoop(rd.req.kind, rd.rest, a.v, b.v, rb, re, 0, [q \in 1..sz |-> 0])
             IN  IF r.ok THEN [rd EXCEPT !.pc = "Done", !.n = a.v, !.m = b.v,
                                         !.out = [n |-> re - rb, m |-> b.v, ptr |-> <<0>>, col |-> <<>>, val |-> r.val]]
                 ELSE Err(rd, r.why)

Step(rd) ==
    CASE rd.pc = "Banner"   -> StepBanner(rd)
      [] rd.pc = "Comments" -> StepComments(rd)
      [] rd.pc = "Sizes"    -> StepSizes(rd)
      [] rd.pc = "Call"     -> IF rd.req.dense THEN StepCallDense(rd) ELSE StepCallSparse(rd)
      [] rd.pc = "Entry"    -> StepEntry(rd)
      [] rd.pc = "Assemble" -> StepAssemble(rd)
      [] rd.pc = "Sort"     -> StepSort(rd)
      [] OTHER              -> rd

RECURSIVE RunFrom(_)
RunFrom(rd) == IF Terminal(rd) THEN rd ELSE RunFrom(Step(rd))
\* closed form: outcome of reading `file` with request `req`
MMRead(file, req) ==
    LET rd == RunFrom(RdInit(file, req))
    IN  [st |-> IF rd.pc = "Done" THEN "ok" ELSE IF rd.pc = "Error" THEN "err" ELSE "crash",
         why |-> rd.why, A |-> rd.out]
Req(kind, dense, rb, re) == [kind |-> kind, dense |-> dense, rb |-> rb, re |-> re]

\* -------------------------------------------------------------------- writers
Banner(coord, dtype, storage) == <<"%%MatrixMarket", "matrix", coord, dtype, storage>>
ValTokens(dtype, v) == IF dtype = "complex" THEN <<TInt(v[1]), TInt(v[2])>> ELSE <<TInt(v)>>
\* mm_write(fname, A): rows in storage order, 1-based indices; always "general"
MMWriteSparse(A, dtype) ==
    [banner |-> Banner("coordinate", dtype, "general"),
     body   |-> <<Line(<<TInt(A.n), TInt(A.m), TInt(NNZ(A))>>)>> \o
                FlattenSeq([i \in 1..A.n |->
                    [q \in 1..RowLen(A, i - 1) |->
                        Line(<<TInt(i), TInt(A.col[Ptr(A, i - 1) + q] + 1)>> \o
                             ValTokens(dtype, A.val[Ptr(A, i - 1) + q]))]])]
\* mm_write(fname, data, rows, cols): data row-major, file column-major
MMWriteDense(data, rows, cols, dtype) ==
    [banner |-> Banner("array", dtype, "general"),
     body   |-> <<Line(<<TInt(rows), TInt(cols)>>)>> \o
                [q \in 1..(rows * cols) |-> Line(ValTokens(dtype, data[((q - 1) % rows) * cols + ((q - 1) \div rows) + 1]))]]
\* a symmetric-storage file: the entries of A on and below the diagonal
LowerOf(A) == FromRows(A.n, A.m, [i \in 1..A.n |-> SelectSeq(RowSeq(A, i - 1), LAMBDA e : e[1] <= i - 1)])
MMWriteSymmetric(A, dtype) == [MMWriteSparse(LowerOf(A), dtype) EXCEPT !.banner = Banner("coordinate", dtype, "symmetric")]

\* ------------------------------------------------------------------ predicates
\* (they mention the file that was written / damaged and what a read returned)
\* the first line is a banner this reader supports
ValidBanner(b) == /\ Len(b) >= 5 /\ b[1] = "%%MatrixMarket" /\ b[2] = "matrix"
                  /\ b[3] \in {"coordinate", "array"} /\ b[4] \in {"real", "complex", "integer"}
                  /\ b[5] \in {"general", "symmetric"}

\* what the reader hands back as a sparse matrix is structurally valid
MMWellFormed(A) == A.n >= 0 /\ A.m >= 0 /\ WellFormed(A)
\* (n * m is never formed: damaged sizes may have a product that overflows TLC's integers)
DenseSizesMatch(n, m, len) == IF n = 0 \/ m = 0 THEN len = 0 ELSE (len % m = 0 /\ len \div m = n)
DenseWellFormed(A) == A.n >= 0 /\ A.m >= 0 /\ DenseSizesMatch(A.n, A.m, Len(A.val))

\* rows rb..re-1 of a full read
Slice(A, rb, re) == FromRows(re - rb, A.m, [r \in 1..(re - rb) |-> RowSeq(A, rb + r - 1)])
DenseSlice(A, rb, re) == [n |-> re - rb, m |-> A.m, ptr |-> <<0>>, col |-> <<>>,
                          val |-> [q \in 1..((re - rb) * A.m) |-> A.val[rb * A.m + q]]]
\* range read = slice of the full read (full, part: outcomes [st, A])
SliceOK(dense, full, part, rb, re) ==
    (full.st = "ok" /\ (IF dense THEN DenseWellFormed(full.A) ELSE MMWellFormed(full.A))
        /\ 0 <= rb /\ rb <= re /\ re <= full.A.n) =>
        /\ part.st = "ok"
        /\ IF dense THEN part.A = DenseSlice(full.A, rb, re) ELSE SameStorage(part.A, Slice(full.A, rb, re))

\* writing A and reading it back returns A with its rows sorted: same values, same structure
RoundTripOK(A, out) == out.st = "ok" /\ SameStorage(out.A, SortRowsRun(A))
DenseRoundTripOK(data, rows, cols, out) ==
    out.st = "ok" /\ out.A.n = rows /\ out.A.m = cols /\ out.A.val = data

\* a symmetric-storage file of the lower triangle L is expanded to L + L^T - diag(L)
SymmetricOK(L, out) ==
    /\ out.st = "ok" /\ MMWellFormed(out.A) /\ out.A.n = L.n /\ out.A.m = L.m
    /\ \A i \in Rows(L) : \A j \in 0..(L.m - 1) :
          At(out.A, i, j) = (IF j \in RowCols(L, i) THEN At(L, i, j)
                             ELSE IF j < L.n /\ i \in RowCols(L, j) THEN At(L, j, i) ELSE 0)
    /\ NNZ(out.A) = 2 * NNZ(L) - Cardinality({i \in Rows(L) : i \in RowCols(L, i)})

\* facts about a lexically clean file (every token a number) that make it inconsistent:
\* fewer data lines than announced, a negative size, an index outside the announced sizes
DataLines(file) ==
    LET first == CHOOSE q \in 1..(Len(file.body) + 1) : (q = Len(file.body) + 1 \/ ~file.body[q].cm) /\
                                                       \A p \in 1..(q - 1) : file.body[p].cm
    IN  [q \in 1..(IF first > Len(file.body) THEN 0 ELSE Len(file.body) - first) |-> file.body[first + q]]
SizeLine(file) ==
    LET ns == SelectSeq(file.body, LAMBDA ln : ~ln.cm)
    IN  IF ns = <<>> THEN <<>> ELSE ns[1].t
IntsOnly(ts, k) == Len(ts) >= k /\ \A q \in 1..k : ts[q].c = "int"
InconsistentSparse(file) ==
    LET sz == SizeLine(file)
        dl == DataLines(file)
    IN  /\ IntsOnly(sz, 3)
        /\ \/ sz[1].v < 0 \/ sz[2].v < 0 \/ sz[3].v < 0
           \/ sz[3].v > Len(dl)
           \/ \E q \in 1..(IF sz[3].v < Len(dl) THEN sz[3].v ELSE Len(dl)) :
                 /\ ~dl[q].cm /\ IntsOnly(dl[q].t, 2)
                 /\ ~(1 <= dl[q].t[1].v /\ dl[q].t[1].v <= sz[1].v /\ 1 <= dl[q].t[2].v /\ dl[q].t[2].v <= sz[2].v)
InconsistentDense(file) ==
    LET sz == SizeLine(file)
    IN  /\ IntsOnly(sz, 2)
        /\ \/ sz[1].v < 0 \/ sz[2].v < 0
           \/ (sz[1].v > 0 /\ sz[2].v > 0 /\ sz[1].v * sz[2].v > Len(DataLines(file)))

\* the reader must throw:  fact = [hdr, cutlast, kind, incons]
MustError(fact) == fact.hdr \/ fact.cutlast \/ fact.kind \/ fact.incons
\* the clauses of "bad files fail cleanly", by name (the trace spec reports the false ones)
FaultClauses(fact, dense, out) ==
    << <<"no-crash", out.st # "crash">>,
       <<"corrupted-header=>error", fact.hdr => out.st # "ok">>,
       <<"truncated-before-last-data-line=>error", fact.cutlast => out.st # "ok">>,
       <<"wrong-value-kind=>error", fact.kind => out.st # "ok">>,
       <<"inconsistent-sizes=>error", fact.incons => out.st # "ok">>,
       <<"returned-structure-valid", out.st = "ok" => (IF dense THEN DenseWellFormed(out.A) ELSE MMWellFormed(out.A))>> >>
FaultOutcomeOK(fact, dense, out) == \A q \in 1..6 : FaultClauses(fact, dense, out)[q][2]
=============================================================================
