------------------------------ MODULE C09Trace ------------------------------
(* Trace spec for C09.                                                              *)
(*  "sched" records: the schedule tables the real code built (read through the      *)
(*   AMGCL_VERIF friend accessor), the bitwise comparison of the level-scheduled    *)
(*   with the serial sweep, and the observed execution order of the rows (hook H4). *)
(*  "det" records: digests of results computed by one recorder under different      *)
(*   OMP_NUM_THREADS; judged by DetOK (bitwise class / rounding class).             *)
EXTENDS TraceKit, LevelSchedule

VARIABLES l, bad, drift

F0(s) == [i \in 0..(Len(s) - 1) |-> s[i + 1]]        \* 0-based view of a recorded array

SchedClauses(r) ==
    LET rc == F0(r.rc)
        sc == F0(r.sched)
        shape == Len(r.rc) = r.n /\ Len(r.sched) = r.nt
        ok == shape /\ ScheduleOK(r.n, rc, r.fwd, r.mode, sc)
    IN  << <<"schedule-respects-dataflow", ok>>,
           <<"thread-copies-are-the-rows", r.copies>>,
           <<"parallel-sweep=serial-sweep-bitwise", r.mode = "gs" => r.same>>,
           <<"parallel-solve=serial-solve-rounding", r.mode = "tri" => r.ulps <= 16 * (r.n + 16)>>,
           <<"executed-order-respects-dataflow",
             (ok /\ Has(r, "ev")) => ExecOK(r.n, rc, r.fwd, r.mode, sc, r.ev)>> >>

\* digests per thread count (r.ts); r.nlow = number of listed counts <= 16, i.e. on the
\* spgemm_saad side of product()'s 16-thread switch.
\*  bitwise class : equal digests inside each group; across the switch too (for results that
\*                  are reached through product() this clause is the known finding of
\*                  DESIGN 6.1 when the difference is a few ulp; anything else alarms)
\*  rounding class: relative spread (units of 2^-52, saturated) below the stated bound
DetClauses(r) ==
    LET m == Len(r.d)
        g1 == 1..r.nlow
        g2 == (r.nlow + 1)..m
    IN  << <<"bitwise-within-thread-count-group",
             r.cls = "bitwise" => ((\A k \in g1 : r.d[k] = r.d[1]) /\ (\A k \in g2 : r.d[k] = r.d[r.nlow + 1]))>>,
           <<"bitwise-across-spgemm-switch",
             (r.cls = "bitwise" /\ r.nlow >= 1 /\ r.nlow < m) => r.d[1] = r.d[r.nlow + 1]>>,
           <<"rounding-across-thread-counts", r.cls = "rounding" => r.spread <= r.bound>>,
           \* the same thread count twice gives the same bits (items whose reduction order is fixed by the
           \* static schedule; the unordered critical-section accumulation of emin is exempt: repro = FALSE)
           <<"reproducible-at-fixed-thread-count", r.repro => r.repeat_same>> >>

Clauses(r) == CASE r.k = "sched" -> SchedClauses(r)
                [] r.k = "det" -> DetClauses(r)
                [] r.k = "team" -> << <<"reduction-independent-of-the-executing-team-size", r.top <= r.bound /\ r.nested <= r.bound>> >>
                [] OTHER -> << <<"unknown-record", FALSE>> >>

Failed(r) == IF Has(r, "e") THEN (IF r.e = "End" THEN <<>> ELSE <<"recorder:" \o r.e>>)
             ELSE FailedOf(Clauses(r))

Drifted(r) == /\ ~Has(r, "e") /\ r.k = "sched" /\ r.n <= 40
              /\ F0(r.sched) # Schedule(r.n, F0(r.rc), r.fwd, TRUE, r.nt)

TInit == l = 1 /\ bad = <<>> /\ drift = 0
TNext == /\ l <= NLog /\ l' = l + 1
         /\ LET f == Failed(Log[l])
            IN  /\ bad' = IF f = <<>> THEN bad ELSE Append(bad, <<l, f>>)
                /\ drift' = IF f = <<>> /\ Drifted(Log[l]) THEN drift + 1 ELSE drift
Verdict == (l = NLog + 1) => VerdictLine(l, bad) /\ PrintT(<<"DRIFT", drift>>)
=============================================================================
