CONSTANTS
  RelMd = 1500
  SlackRec = 5500
  SlackNew = 0
  TolSlack = 10
  RateBand = 5
  DivergeBand = 700
INIT TInit
NEXT TNext
INVARIANT Verdict
CHECK_DEADLOCK FALSE
