CONSTANTS
  RelMd = 1500
  SlackRec = 6000
  SlackNew = 3000
  TolSlack = 10
  RateBand = 5
INIT TInit
NEXT TNext
INVARIANT Verdict
CHECK_DEADLOCK FALSE
