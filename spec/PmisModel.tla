----------------------------- MODULE PmisModel -----------------------------
(* State machine for the distributed PMIS aggregation: Init enumerates every strength  *)
(* graph on NN nodes (undirected when Sym, else every digraph), np in MinNP..MaxNP and *)
(* every contiguous partition (empty ranks included).  The ranks take their decision   *)
(* sweep and apply the received claims in any order (the phases of different ranks     *)
(* commute; TLC checks that they do), the state exchange and the all-reduce of         *)
(* n_undone are barriers.  There is no round counter in the state, so a round          *)
(* structure that does not terminate is a cycle that the temporal property finds.      *)
EXTENDS Pmis

CONSTANTS NN, MinNP, MaxNP, Sym
VARIABLES gm, gr, np, rp, st, phase, turn, fin

vars == <<gm, gr, np, rp, st, phase, turn, fin>>

Pairs == IF Sym THEN {p \in (0..(NN - 1)) \X (0..(NN - 1)) : p[1] < p[2]}
         ELSE {p \in (0..(NN - 1)) \X (0..(NN - 1)) : p[1] # p[2]}
PairSeq == SetToSortSeq(Pairs, LAMBDA a, b : a[1] * NN + a[2] < b[1] * NN + b[2])
EdgeOn(mask, k) == (mask \div (2 ^ (k - 1))) % 2 = 1
Edges(mask) == {PairSeq[k] : k \in {j \in 1..Len(PairSeq) : EdgeOn(mask, j)}}
Graph(mask) == LET E == Edges(mask)
               IN  [n |-> NN, adj |-> [i \in 0..(NN - 1) |->
                        {i} \cup {j \in 0..(NN - 1) : <<i, j>> \in E \/ (Sym /\ <<j, i>> \in E)}]]
G == gr            \* = Graph(gm), computed once per behaviour
Parts(n, k) == {s \in [1..(k + 1) -> 0..n] : s[1] = 0 /\ s[k + 1] = n /\ \A j \in 1..k : s[j] <= s[j + 1]}

Init == /\ gm \in 0..(2 ^ Cardinality(Pairs) - 1)
        /\ gr = Graph(gm)
        /\ np \in MinNP..MaxNP
        /\ rp \in Parts(NN, np)
        /\ st = PmInit(Graph(gm), np, rp)
        /\ phase = "decide" /\ turn = {} /\ fin = <<>>

DecideAct(r) == /\ phase = "decide" /\ r \notin turn
                /\ st' = Decide(G, np, rp, r, st)
                /\ turn' = IF turn \cup {r} = PmRanks(np) THEN {} ELSE turn \cup {r}
                /\ phase' = IF turn \cup {r} = PmRanks(np) THEN "claims" ELSE "decide"
                /\ UNCHANGED <<gm, gr, np, rp, fin>>
ClaimsAct(r) == /\ phase = "claims" /\ r \notin turn
                /\ st' = ApplyClaims(np, r, st)
                /\ turn' = IF turn \cup {r} = PmRanks(np) THEN {} ELSE turn \cup {r}
                /\ phase' = IF turn \cup {r} = PmRanks(np) THEN "exchange" ELSE "claims"
                /\ UNCHANGED <<gm, gr, np, rp, fin>>
ExchangeAct == /\ phase = "exchange"
               /\ st' = Exchange(G, np, rp, st)
               /\ phase' = IF TotalUndone(np, st) = 0 THEN "renumber" ELSE "decide"       \* comm.reduce(MPI_SUM, n_undone)
               /\ UNCHANGED <<gm, gr, np, rp, turn, fin>>
RenumberAct == /\ phase = "renumber"
               /\ fin' = Renumber(G, np, rp, st)
               /\ phase' = "done"
               /\ UNCHANGED <<gm, gr, np, rp, st, turn>>
Finished == phase = "done" /\ UNCHANGED vars

Next == (\E r \in PmRanks(np) : DecideAct(r) \/ ClaimsAct(r)) \/ ExchangeAct \/ RenumberAct \/ Finished
Spec == Init /\ [][Next]_vars /\ WF_vars(Next)

\* ---------------------------------------------------------------- properties
GlobalPartitionInv == phase = "done" => GlobalPartitionOK(G, np, fin)
\* the closed form used on recorded runs is what the interleaved machine computes
ClosedFormInv == phase = "done" => LET run == PmisRun(G, np, rp) IN run.terminated /\ run.fin = fin
\* n_undone is the number of undecided local points whenever a round starts or ends
CountInv == (turn = {}) => \A r \in PmRanks(np) : st.und[r] = Cardinality({i \in LocalSet(rp, r) : st.state[i] = Undone})
\* ghost states agree with the owners at the start of every round
GhostStateInv == (phase = "decide" /\ turn = {}) => \A r \in PmRanks(np) : \A c \in RecvCols(G, rp, r) : st.rem[r][c] = st.state[c]
\* a point that is decided stays decided
Termination == <>(phase = "done")
=============================================================================
