"""Driver library for the amgcl TLA+ model-based verification (stdlib only).

A check (checks/Cxx.py) defines   def run(c: Check): ...   and uses

  c.tlc_model(module, cfg, ...)     exhaustive / simulation run of a spec under spec/
  c.build(name, sources, ...)       compile a recorder against /repo's working tree
  c.record(binary, args, out, ...)  run a recorder, producing an ndjson trace
  c.tlc_trace(module, trace, ...)   validate a recorded trace with a trace spec
  c.violation / c.drift / c.note    verdict bookkeeping
  c.finish()                        evidence file, verdict lines, exit code

Verdict rules (DESIGN 2.5): VIOLATION only for a property predicate that is FALSE on
an execution of the real code; model/transcription mismatch = SPEC-DRIFT (exit 0);
infrastructure failure = ERROR, exit 2.
"""
import hashlib, json, os, re, shlex, shutil, subprocess, sys, tempfile, time, glob

VERIF = os.path.dirname(os.path.dirname(os.path.abspath(__file__)))
REPO = os.environ.get("REPO", "/repo")
SPEC = os.path.join(VERIF, "spec")
HARNESS = os.path.join(VERIF, "harness")
BUILD = os.path.join(VERIF, ".build")
# evidence describes runs against /repo itself; self-test runs against scratch copies (REPO=...) write elsewhere
EVID = os.path.join(VERIF, "evidence") if os.path.realpath(REPO) == "/repo" else os.path.join(BUILD, "evidence-scratch")
REPLAY = os.path.join(VERIF, "replay")
TLAJAR = "/opt/veriftools/tla/tla2tools.jar:/opt/veriftools/tla/CommunityModules-deps.jar"
GUARD = "AMGCL_VERIF"
NCPU = os.cpu_count() or 4


class InfraError(Exception):
    pass


def sha(path):
    h = hashlib.sha1()
    try:
        with open(path, "rb") as f:
            h.update(f.read())
    except OSError:
        return "missing"
    return h.hexdigest()


def load_known():
    p = os.path.join(VERIF, "known_findings.json")
    if not os.path.exists(p):
        return []
    return json.load(open(p))["findings"]


def sig_match(match, sig):
    """match: dict key -> value | {"in":[..]} | {"min":n} | {"max":n}; all keys must match."""
    for k, want in match.items():
        if k not in sig:
            return False
        v = sig[k]
        if isinstance(want, dict):
            if "in" in want and v not in want["in"]:
                return False
            if "min" in want and not (v >= want["min"]):
                return False
            if "max" in want and not (v <= want["max"]):
                return False
        elif v != want:
            return False
    return True


class Check:
    def __init__(self, pid, tier="quick", seed=0, replay=None):
        self.pid = pid
        self.tier = tier
        self.seed = seed
        self.replay = replay
        self.t0 = time.time()
        self.scratch = tempfile.mkdtemp(prefix="verif-%s-" % pid)
        self.violations = []      # (what, replay_path, sig)
        self.known_hits = {}      # finding id -> count
        self.drifts = []
        self.notes = []
        self.states = 0
        self.transitions = 0
        self.distinct = 0
        self.traces = 0           # recorded executions accepted by trace specs
        self.evaluations = 0
        self.nontrivial = set()
        self.samples = []
        self.models = []          # per TLC model run summary
        self.tracesum = []        # per trace validation summary
        self.assumptions = []
        self.mechanism = {}
        self.rule = ""
        self.exhaustive = False
        self.vacuous = []
        self.known = [f for f in load_known() if f.get("property") == pid]
        import threading
        self._lock = threading.Lock()
        # X.. = extra coverage beyond the listed properties: same machinery, evidence kept apart
        self.evid = os.path.join(EVID, "extras") if pid.startswith("X") else EVID
        os.makedirs(BUILD, exist_ok=True)
        os.makedirs(self.evid, exist_ok=True)
        os.makedirs(REPLAY, exist_ok=True)
        for old in ([] if replay else glob.glob(os.path.join(REPLAY, pid + "-*.json"))):
            try:
                os.remove(old)
            except OSError:
                pass

    # ------------------------------------------------------------------ util
    def log(self, *a):
        print("[%s %6.1fs]" % (self.pid, time.time() - self.t0), *a, file=sys.stderr, flush=True)

    def thorough(self):
        return self.tier == "thorough"

    def path(self, name):
        return os.path.join(self.scratch, name)

    def sh(self, cmd, env=None, timeout=600, cwd=None, stdout=None, check=False, stdin=None):
        e = dict(os.environ)
        if env:
            e.update({k: str(v) for k, v in env.items()})
        out = open(stdout, "wb") if stdout else subprocess.PIPE
        try:
            p = subprocess.run(cmd, env=e, cwd=cwd, stdout=out, stderr=subprocess.PIPE,
                               timeout=timeout, stdin=stdin)
            rc, err = p.returncode, p.stderr.decode("utf-8", "replace")
            so = "" if stdout else p.stdout.decode("utf-8", "replace")
        except subprocess.TimeoutExpired as ex:
            rc, err, so = 124, "TIMEOUT after %ss" % timeout, ""
            if not stdout and ex.stdout:
                so = ex.stdout.decode("utf-8", "replace")
        finally:
            if stdout:
                out.close()
        if check and rc != 0:
            raise InfraError("command failed rc=%s: %s\n%s" % (rc, " ".join(map(str, cmd)), err[-3000:]))
        return rc, so, err

    # ----------------------------------------------------------------- build
    def build(self, name, sources, flags=(), mpi=False, san=None, omp=True, cxx=None,
              opt="-O1", std="-std=c++17", libs=(), guard=True, ndebug=True, timeout=900):
        """Compile harness sources (relative to harness/) against REPO. Cached by the
        content hash of every file the previous compilation read (from -MMD), so an edit
        anywhere under /repo forces exactly the affected rebuilds."""
        srcs = [s if os.path.isabs(s) else os.path.join(HARNESS, s) for s in sources]
        if cxx is None:
            cxx = "mpicxx" if mpi else ("clang++-14" if san else "g++")
        cmd = [cxx, std, opt, "-g1", "-w", "-I" + REPO, "-I" + HARNESS, "-I/usr/include/eigen3"]
        if guard:
            cmd.append("-D" + GUARD)
        if ndebug:
            cmd.append("-DNDEBUG")
        if omp:
            cmd.append("-fopenmp")
        if san:
            cmd += ["-fsanitize=" + san, "-fno-omit-frame-pointer", "-fno-sanitize-recover=all"]
        cmd += list(flags)
        key = hashlib.sha1((" ".join(cmd) + "|" + "|".join(srcs) + "|" + " ".join(libs)).encode()).hexdigest()[:12]
        out = os.path.join(BUILD, "%s-%s" % (name, key))
        dep = out + ".d"
        stamp = out + ".deps.json"
        if os.path.exists(out) and os.path.exists(stamp):
            try:
                rec = json.load(open(stamp))
                if all(sha(p) == h for p, h in rec.items()):
                    return out
            except Exception:
                pass
        t = time.time()
        full = cmd + ["-MMD", "-MF", dep, "-o", out] + srcs + list(libs)
        if len(srcs) > 1:
            # -MF with several sources is not allowed: compile separately
            objs = []
            deps = {}
            for s in srcs:
                o = out + "." + os.path.basename(s) + ".o"
                d = o + ".d"
                rc, so, err = self.sh(cmd + ["-c", "-MMD", "-MF", d, "-o", o, s], timeout=timeout)
                if rc != 0:
                    raise InfraError("compile failed: %s\n%s" % (s, err[-4000:]))
                objs.append(o)
                deps.update(self._read_deps(d))
            rc, so, err = self.sh(cmd + ["-o", out] + objs + list(libs), timeout=timeout)
            if rc != 0:
                raise InfraError("link failed: %s\n%s" % (name, err[-4000:]))
        else:
            rc, so, err = self.sh(full, timeout=timeout)
            if rc != 0:
                raise InfraError("compile failed: %s\n%s" % (name, err[-4000:]))
            deps = self._read_deps(dep)
        for s in srcs:
            deps[s] = sha(s)
        json.dump(deps, open(stamp, "w"))
        self.log("built %s in %.1fs" % (name, time.time() - t))
        return out

    def _read_deps(self, dep):
        deps = {}
        try:
            txt = open(dep).read().replace("\\\n", " ")
        except OSError:
            return deps
        for tok in txt.split():
            if tok.endswith(":"):
                continue
            if tok.startswith(REPO) or tok.startswith(VERIF):
                deps[tok] = sha(tok)
        return deps

    def parallel(self, thunks, max_workers=None):
        """Run independent stages (callables) concurrently; returns their results in order.
        The first InfraError is re-raised."""
        from concurrent.futures import ThreadPoolExecutor
        with ThreadPoolExecutor(max_workers=max_workers or len(thunks)) as ex:
            futs = [ex.submit(t) for t in thunks]
            return [f.result() for f in futs]

    def build_many(self, specs):
        """specs: list of dict(kwargs for build). Builds in parallel; returns list of paths."""
        from concurrent.futures import ThreadPoolExecutor
        with ThreadPoolExecutor(max_workers=min(len(specs), NCPU)) as ex:
            futs = [ex.submit(lambda s=s: self.build(**s)) for s in specs]
            return [f.result() for f in futs]

    # ------------------------------------------------------------------- TLC
    def _tlc(self, module, cfg, extra, env, timeout, workers, heap="8g", deque=False):
        meta = tempfile.mkdtemp(prefix="tlc-", dir=self.scratch)
        jopts = (["-XX:+UseSerialGC"] if int(workers) == 1 else
                 ["-XX:+UseParallelGC", "-XX:ParallelGCThreads=%d" % max(2, int(workers) // 2)]) + ["-Xmx" + heap, "-Xss128m",
                                                                                                 "-Djava.io.tmpdir=" + self.scratch]   # TLC leaves an empty tlc-<n> directory per run in the JVM's temp dir
        if deque:
            jopts.append("-Dtlc2.tool.queue.IStateQueue=StateDeque")
        cmd = ["java"] + jopts + ["-cp", TLAJAR, "tlc2.TLC", "-workers", str(workers),
                                   "-metadir", meta, "-config", cfg, "-noGenerateSpecTE"] + extra + [module]
        rc, so, err = self.sh(cmd, env=env, timeout=timeout, cwd=SPEC)
        shutil.rmtree(meta, ignore_errors=True)
        return rc, so + err

    def tlc_model(self, module, cfg=None, workers=None, simulate=None, depth=None, timeout=900,
                  env=None, heap="12g", coverage=True, expect_violation=False, constants=None):
        """Run TLC on spec/<module>.tla with spec/<cfg>. Returns summary dict. A model-level
        invariant violation is *returned* (ok=False), not turned into a verdict (rule 3)."""
        cfg = cfg or (module + ".cfg")
        cfgpath = os.path.join(SPEC, cfg)
        if constants:
            # derive a config with substituted constants: lines 'NAME = value'
            txt = open(cfgpath).read()
            for k, v in constants.items():
                txt, n = re.subn(r"(?m)^(\s*%s\s*=\s*).*$" % re.escape(k), lambda m: m.group(1) + str(v), txt)
                if n == 0:
                    raise InfraError("constant %s not in %s" % (k, cfg))
            cfgpath = self.path("%s-%d.cfg" % (cfg.replace("/", "_"), len(self.models)))
            open(cfgpath, "w").write(txt)
        extra = []
        if simulate:
            extra += ["-simulate", "num=%d" % simulate]
            if depth:
                extra += ["-depth", str(depth)]
        if coverage:
            extra += ["-coverage", "1"]
        t = time.time()
        rc, out = self._tlc(module + ".tla", cfgpath, extra, env, timeout, workers or NCPU, heap)
        res = self._parse_tlc(out, rc)
        if rc != 124 and res["error"] and not res["violated"]:
            # a JVM that could not start or died (memory pressure on a shared machine) is not a statement about
            # the model: run it once more, alone in time, before giving up as an infrastructure failure
            self.log("TLC %s/%s failed (rc=%s), retrying once: %s" % (module, cfg, rc, out[-300:].replace("\n", " | ")))
            time.sleep(5)
            rc, out = self._tlc(module + ".tla", cfgpath, extra, env, timeout, workers or NCPU, heap)
            res = self._parse_tlc(out, rc)
        res.update(module=module, cfg=cfg, wall_s=round(time.time() - t, 1), simulate=bool(simulate))
        if constants:
            res["constants"] = {k: str(v) for k, v in constants.items()}
        if rc == 124:
            raise InfraError("TLC timeout on %s/%s" % (module, cfg))
        if res["error"] and not res["violated"]:
            raise InfraError("TLC failed on %s/%s:\n%s" % (module, cfg, out[-3000:]))
        self.states += res["states"]
        self.transitions += res["states"]  # generated states = transitions explored
        self.distinct += res["distinct"]
        self.models.append({k: res[k] for k in res if k not in ("output", "printed")})
        for a in res.get("never_taken", []):
            self.vacuous.append("%s: action %s never taken" % (module, a))
        self.log("TLC %s/%s: %d states, %d distinct, %s, %.1fs" % (
            module, cfg, res["states"], res["distinct"],
            "VIOLATED " + str(res["violated"]) if res["violated"] else "ok", res["wall_s"]))
        return res

    def _parse_tlc(self, out, rc):
        res = dict(states=0, distinct=0, violated=None, error=False, output=out, printed=[], depth=0)
        m = re.findall(r"(\d+) states generated, (\d+) distinct states found", out)
        if m:
            res["states"], res["distinct"] = int(m[-1][0]), int(m[-1][1])
        m = re.search(r"The depth of the complete state graph search is (\d+)", out)
        if m:
            res["depth"] = int(m.group(1))
        m = re.search(r"Invariant (\S+) is violated", out)
        if m:
            res["violated"] = m.group(1)
        m2 = re.search(r"(Temporal properties were violated|Deadlock reached|Action property \S+ is violated)", out)
        if m2 and not res["violated"]:
            res["violated"] = m2.group(1)
        if "Error:" in out and not res["violated"]:
            res["error"] = True
        if rc not in (0, 12, 13) and not res["violated"]:
            # 12 = safety violation, 13 = liveness violation
            res["error"] = True
        # simulation mode reports differently
        m = re.search(r"The number of states generated: (\d+)", out)
        if m and res["states"] == 0:
            res["states"] = int(m.group(1))
            res["distinct"] = 0
        # coverage: "<Action line ... of module M>: taken:generated"
        never = []
        for mm in re.finditer(r"^<(\w+) line \d+, col \d+ to line \d+, col \d+ of module \w+>: (\d+):(\d+)", out, re.M):
            if int(mm.group(3)) == 0 and mm.group(1) not in ("Init",):
                never.append(mm.group(1))
        res["never_taken"] = sorted(set(never))
        res["printed"] = [l for l in out.splitlines() if l.startswith("<<") or l.startswith('"') or l.startswith("{") or l.startswith("[")]
        return res

    def tlc_trace(self, module, trace, cfg=None, timeout=900, env=None, heap="8g", label=None,
                  classify=None, deque=False, chunk=None):
        """Validate an ndjson trace with trace spec spec/<module>.tla (EXTENDS TraceKit).
        The trace spec consumes one line per step, keeps `bad` (rejected line numbers with
        failed clause names) and prints  <<"VERDICT", total, consumed, bad>>  at the end.
        Returns dict(total, consumed, bad=[(lineno, clauses)], lines).  Large traces are
        validated in parallel chunks of `chunk` lines (stateless traces only)."""
        cfg = cfg or (module + ".cfg")
        lines = open(trace).read().splitlines()
        lines = [x for x in lines if x.strip()]
        if not lines:
            raise InfraError("empty trace %s" % trace)
        parts = [(0, trace)]
        if chunk and len(lines) > chunk:
            parts = []
            for i in range(0, len(lines), chunk):
                p = self.path("chunk-%s-%d.ndjson" % (os.path.basename(trace), i))
                open(p, "w").write("\n".join(lines[i:i + chunk]) + "\n")
                parts.append((i, p))
        t = time.time()
        results = []

        def one(off_path):
            off, p = off_path
            e = dict(env or {})
            e["TRACE"] = p
            rc, out = self._tlc(module + ".tla", os.path.join(SPEC, cfg), [], e, timeout, 1, heap, deque)
            if rc != 124 and not re.search(r'^"VERDICT ', out, re.M) and ("Error:" in out or "The depth of the complete" not in out):
                self.log("trace spec %s gave no verdict (rc=%s), retrying once" % (module, rc))
                time.sleep(5)
                rc, out = self._tlc(module + ".tla", os.path.join(SPEC, cfg), [], e, timeout, 1, heap, deque)
            return off, p, rc, out
        if len(parts) == 1:
            results = [one(parts[0])]
        else:
            from concurrent.futures import ThreadPoolExecutor
            with ThreadPoolExecutor(max_workers=min(len(parts), NCPU)) as ex:
                results = list(ex.map(one, parts))
        total = consumed = 0
        bad = []
        st = 0
        for off, p, rc, out in results:
            if rc == 124:
                raise InfraError("TLC trace timeout on %s" % module)
            m = re.search(r'^"VERDICT (\{.*\})"\s*$', out, re.M)
            if m:
                v = json.loads(m.group(1).replace('\\"', '"'))
                n, k = int(v["total"]), int(v["consumed"])
                for b in v["bad"]:
                    cl = b[1] if isinstance(b[1], list) else [b[1]]
                    bad.append((int(b[0]) + off, [str(x) for x in cl]))
            else:
                # stateful trace spec that got stuck prints no verdict: the depth of the
                # search tells how many lines were consumed
                md = re.search(r"The depth of the complete state graph search is (\d+)", out)
                if not md or "Error:" in out:
                    raise InfraError("trace spec %s gave no verdict (rc=%s):\n%s" % (module, rc, out[-3000:]))
                n = len(open(p).read().splitlines())
                k = int(md.group(1)) - 1
            total += n
            consumed += k
            if k < n:
                # stateful trace spec got stuck: first unconsumed line is the rejection
                bad.append((off + k + 1, ["no-enabled-action"]))
            ms = re.findall(r"(\d+) states generated, (\d+) distinct states found", out)
            if ms:
                st += int(ms[-1][0])
        self.states += st
        self.transitions += st
        accepted = total - len(bad)
        self.traces += max(accepted, 0)
        self.evaluations += total
        summary = dict(module=module, label=label or os.path.basename(trace), lines=total,
                       rejected=len(bad), wall_s=round(time.time() - t, 1))
        self.tracesum.append(summary)
        self.log("trace %s [%s]: %d lines, %d rejected, %.1fs" % (module, summary["label"], total, len(bad), summary["wall_s"]))
        return dict(total=total, consumed=consumed, bad=bad, lines=lines, module=module, cfg=cfg)

    # -------------------------------------------------------------- recorders
    def record(self, binary, args=(), out=None, env=None, timeout=900, mpi=None, ok_rc=(0,),
               hang_is_violation=False, sig=None):
        """Run a recorder against the real code. A crash (signal / abort / uncaught exception
        via the terminate handler, rc 3) of the real code on valid input is a property
        violation (no result was produced); the partial trace is still returned."""
        out = out or self.path(os.path.basename(binary) + "-%d.ndjson" % len(self.tracesum))
        cmd = [binary] + [str(a) for a in args]
        if mpi:
            cmd = ["mpirun", "--allow-run-as-root", "--oversubscribe", "-n", str(mpi)] + cmd
        e = {"VERIF_SEED": self.seed, "VERIF_TIER": self.tier, "OMP_NUM_THREADS": 1, "OMP_WAIT_POLICY": "passive"}
        e.update(env or {})
        rc, so, err = self.sh(cmd, env=e, timeout=timeout, stdout=out)
        if rc in ok_rc:
            return out
        last = ""
        try:
            ls = open(out).read().splitlines()
            last = ls[-1][:2000] if ls else ""
        except OSError:
            pass
        data = {"cmd": cmd, "env": {k: str(v) for k, v in e.items()}, "rc": rc, "stderr": err[-2000:], "last_line": last}
        s = {"stage": "recorder-crash", "recorder": os.path.basename(binary).split("-")[0], "args": " ".join(map(str, args))}
        s.update(sig or {})
        if rc == 124:
            if hang_is_violation:
                self.violation("real code did not terminate within %ss in %s %s" % (timeout, s["recorder"], s["args"]), data, s)
                return out
            raise InfraError("recorder timeout: %s" % " ".join(cmd))
        # 77 = a harness allocator found its end-of-block canary overwritten (heap overflow in the real code)
        if rc < 0 or rc in (3, 77, 134, 136, 139) or (mpi and rc != 0):
            self.violation("real code crashed (rc=%s) in %s %s" % (rc, s["recorder"], s["args"]), data, s)
            return out
        raise InfraError("recorder %s rc=%s\n%s" % (" ".join(cmd), rc, err[-3000:]))

    # ---------------------------------------------------------------- verdict
    def sample(self, obj, limit=6):
        if len(self.samples) < limit:
            if isinstance(obj, str):
                try:
                    obj = json.loads(obj)
                except Exception:
                    pass
            s = json.dumps(obj)
            if len(s) > 1500:
                obj = s[:1500] + "..."
            self.samples.append(obj)

    def tag(self, *tags):
        for t in tags:
            self.nontrivial.add(t)

    def count_tags(self, lines, key="tag"):
        """Count distinct non-trivial cases from recorded lines: a line is non-trivial if it
        carries a non-empty tag; distinctness by (tag, digest of the input part)."""
        for ln in lines:
            try:
                r = json.loads(ln)
            except Exception:
                continue
            tg = r.get(key)
            if tg:
                inp = {k: v for k, v in r.items() if k not in ("out", "obs")}
                self.nontrivial.add((str(tg), hashlib.sha1(json.dumps(inp, sort_keys=True).encode()).hexdigest()[:10]))

    def violation(self, what, data, sig=None):
        """Register a property violation observed on the real code. `sig` classifies it for
        known-finding matching."""
        sig = sig or {}
        with self._lock:
            for f in self.known:
                if f.get("status") == "open" and sig_match(f.get("match", {}), sig):
                    self.known_hits.setdefault(f["id"], [0, f])[0] += 1
                    return False
            n = len(self.violations)
            p = os.path.join(REPLAY, "%s-%d.json" % (self.pid, n))
            self.violations.append((what, p, sig))
        json.dump({"property": self.pid, "what": what, "sig": sig, "data": data, "tier": self.tier,
                   "seed": self.seed}, open(p, "w"), indent=1)
        return True

    def judge(self, res, what, sigfn=None, stage=None, maxrep=5):
        """Turn rejected lines of a trace validation into violations."""
        for ln, clauses in res["bad"][:200]:
            line = res["lines"][ln - 1] if 0 < ln <= len(res["lines"]) else ""
            try:
                rec = json.loads(line)
            except Exception:
                rec = {"raw": line}
            sig = {"stage": stage or what, "clauses": ",".join(clauses)}
            if sigfn:
                sig.update(sigfn(rec, clauses) or {})
            self.violation("%s: %s" % (what, ",".join(clauses)),
                           {"line": rec, "lineno": ln, "clauses": clauses, "trace_module": res.get("module"), "trace_cfg": res.get("cfg")}, sig)

    def do_replay(self):
        """--replay <file>: re-judge the recorded case (stateless trace line) with its trace spec,
        or re-run the recorder command that crashed. Exit 1 + VIOLATION line if it repeats."""
        rp = json.load(open(self.replay))
        data = rp.get("data", {})
        if "line" in data and data.get("trace_module"):
            t = self.path("replay.ndjson")
            open(t, "w").write(json.dumps(data["line"]) + "\n")
            res = self.tlc_trace(data["trace_module"], t, cfg=data.get("trace_cfg"), label="replay")
            if res["bad"]:
                print("VIOLATION property=%s replay=%s  (replayed: %s)" % (self.pid, self.replay, ",".join(res["bad"][0][1])))
                return 1
            print("OK property=%s replay accepted (the recorded case no longer violates)" % self.pid)
            return 0
        if "cmd" in data:
            env = dict(data.get("env", {}))
            rc, so, err = self.sh(data["cmd"], env=env, timeout=1800, stdout=self.path("replay.out"))
            if rc != 0:
                print("VIOLATION property=%s replay=%s  (replayed: recorder rc=%s)" % (self.pid, self.replay, rc))
                return 1
            print("OK property=%s replay: command completed normally" % self.pid)
            return 0
        print("ERROR property=%s replay file has nothing replayable" % self.pid, file=sys.stderr)
        return 2

    def drift(self, what):
        self.drifts.append(what)
        print("SPEC-DRIFT: property=%s %s" % (self.pid, what), file=sys.stderr)

    def note(self, s):
        self.notes.append(s)

    def finish(self):
        wall = time.time() - self.t0
        cov = {
            "states": max(self.states, 0),
            "transitions": max(self.transitions, 0),
            "distinct_states": self.distinct,
            "traces_validated_against_impl": self.traces,
            "evaluations": self.evaluations,
            "distinct_nontrivial": len(self.nontrivial),
            "rule": self.rule,
            "samples": self.samples or ["(no sample recorded)"],
            "exhaustive": self.exhaustive,
            "models": self.models,
            "trace_validations": self.tracesum,
            "drift_cases": self.drifts[:50],
            "vacuous": self.vacuous,
            "mechanism": self.mechanism,
            "known_findings_hit": {k: v[0] for k, v in self.known_hits.items()},
            "notes": self.notes,
        }
        ev = {"property_id": self.pid, "tier": self.tier, "seed": self.seed, "level": "model_checking",
              "coverage": cov, "assumptions": self.assumptions, "wall_s": round(wall, 1),
              "violations": len(self.violations)}
        tmp = os.path.join(self.evid, self.pid + ".json.tmp")
        json.dump(ev, open(tmp, "w"), indent=1)
        os.replace(tmp, os.path.join(self.evid, self.pid + ".json"))
        shutil.rmtree(self.scratch, ignore_errors=True)
        for fid, (n, f) in self.known_hits.items():
            print("KNOWN-FINDING: property=%s %s [%s, %d case(s)]" % (self.pid, f["what"], fid, n))
        seen = {}
        for what, p, sig in self.violations:
            seen.setdefault(what, []).append(p)
        for n, (what, ps) in enumerate(seen.items()):
            if n >= 12:
                print("... and %d more kinds of violation (see %s)" % (len(seen) - 12, REPLAY))
                break
            print("VIOLATION property=%s replay=%s  (%s; %d case(s) of this kind)" % (self.pid, ps[0], what, len(ps)))
        if self.violations:
            return 1
        print("OK property=%s tier=%s states=%d traces=%d wall=%.0fs" % (self.pid, self.tier, self.states, self.traces, wall))
        return 0
