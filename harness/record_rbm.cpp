// X02: coarsening::rigid_body_modes on random integer point clouds.  Every returned vector must be an
// infinitesimal rigid body motion of the cloud, the vectors must span all of them (rank 3 / 6 for a
// cloud in general position), and the transposed layout must hold the same numbers.  Orthonormality
// is observed, not demanded (see docs/X02.md).
#include <vrec.hpp>
#include <Eigen/Dense>
#include <amgcl/coarsening/rigid_body_modes.hpp>

int main() {
    vr::install_terminate();
    vr::rng g(vr::env_seed() + 4242);
    int reps = vr::thorough() ? 4000 : 600;
    for (int r = 0; r < reps; ++r) {
        int ndim = 2 + (r % 2), np = g.range(ndim + 1, 14), n = np * ndim;
        std::vector<double> coo(n);
        bool degenerate = r % 7 == 0;            // all points on one line
        for (int p = 0; p < np; ++p) for (int d = 0; d < ndim; ++d) coo[p * ndim + d] = degenerate ? (p + 1) * (d + 1) : g.range(-6, 6);
        std::vector<double> B, Bt;
        int nm = amgcl::coarsening::rigid_body_modes(ndim, coo, B, false);
        int nmt = amgcl::coarsening::rigid_body_modes(ndim, coo, Bt, true);
        bool layout = nm == nmt && B.size() == Bt.size() && (int)B.size() == n * nm;
        if (layout) for (int i = 0; i < n; ++i) for (int m = 0; m < nm; ++m) if (std::memcmp(&B[i * nm + m], &Bt[m * n + i], 8) != 0) layout = false;
        bool finite = true; for (double v : B) if (!std::isfinite(v)) finite = false;
        // rigid motion test per mode
        double worst = 0, xmax = 1;
        for (double v : coo) xmax = std::max(xmax, std::fabs(v));
        if (layout && finite) for (int m = 0; m < nm; ++m) {
            double umax = 0; for (int i = 0; i < n; ++i) umax = std::max(umax, std::fabs(B[i * nm + m]));
            for (int p = 0; p < np; ++p) for (int q = 0; q < p; ++q) {
                long double s = 0; for (int d = 0; d < ndim; ++d) s += ((long double)B[(p * ndim + d) * nm + m] - B[(q * ndim + d) * nm + m]) * ((long double)coo[p * ndim + d] - coo[q * ndim + d]);
                worst = std::max(worst, (double)std::fabs(s) / (umax * xmax + 1e-300));
            }
        }
        // rank and (observed) orthonormality
        Eigen::MatrixXd M(n, nm); if (layout && finite) for (int i = 0; i < n; ++i) for (int m = 0; m < nm; ++m) M(i, m) = B[i * nm + m]; else M.setZero();
        Eigen::VectorXd sv = Eigen::JacobiSVD<Eigen::MatrixXd>(M).singularValues();
        int rank = 0; for (int k = 0; k < sv.size(); ++k) if (sv(k) > 1e-9 * sv(0)) ++rank;
        Eigen::MatrixXd G = M.transpose() * M; double offd = 0, unit = 0;
        for (int a = 0; a < nm; ++a) for (int b = 0; b < nm; ++b) { if (a == b) unit = std::max(unit, std::fabs(G(a, a) - 1)); else offd = std::max(offd, std::fabs(G(a, b))); }
        // general position: the centred coordinates have full rank
        Eigen::MatrixXd C(np, ndim); for (int p = 0; p < np; ++p) for (int d = 0; d < ndim; ++d) C(p, d) = coo[p * ndim + d];
        C.rowwise() -= C.colwise().mean();
        Eigen::VectorXd cs = Eigen::JacobiSVD<Eigen::MatrixXd>(C).singularValues();
        bool generic = cs(ndim - 1) > 1e-9 * std::max(1.0, cs(0));
        vr::obj o; o.str("k", "rbm").i("ndim", ndim).i("np", np).i("nm", nm).b("layout", layout).b("finite", finite)
            .i("rigid", (long long)std::min(1e9, std::ldexp(worst, 40))).i("rank", rank).b("generic", generic)
            .i("offd6", (long long)std::llround(offd * 1e6)).i("unit6", (long long)std::llround(unit * 1e6));
        vr::emit(o.done());
    }
    vr::obj o; o.str("e", "End"); vr::emit(o.done());
    return 0;
}
