/* PMPI shim for the C11 / C12 recorders (valid C and C++; the recorders #include it).
 *
 * Own definitions of the MPI entry points amgcl uses; each logs one event
 *     { kind, peer, tag, bytes, comm, ref }
 * into a per-rank in-memory log (per-rank sequence number = index in the log) and
 * forwards to the PMPI_ entry point.  `ref` of a completion event (EV_DONE) is the
 * sequence number of the Isend/Irecv it completes.  The recorder brackets each case with
 * vshim_begin() / vshim_take() and ships the log to rank 0 with PMPI_ calls (so the
 * harness' own traffic is never logged).  Logging is off outside the brackets.
 */
#include <mpi.h>
#include <stdlib.h>
#include <string.h>

#ifdef __cplusplus
extern "C" {
#endif

enum { EV_ISEND = 1, EV_IRECV = 2, EV_SEND = 3, EV_RECV = 4, EV_DONE = 5,
       EV_ALLTOALL = 10, EV_ALLGATHER = 11, EV_ALLREDUCE = 12, EV_IALLTOALL = 13,
       EV_EXSCAN = 14, EV_GATHER = 15, EV_BARRIER = 16, EV_COMMSPLIT = 17, EV_BCAST = 18,
       EV_ALLGATHERV = 19, EV_GATHERV = 20, EV_SCAN = 21, EV_ALLTOALLV = 22 };

#define VSHIM_W 6
static int  vshim_on = 0;
static int *vshim_log = 0;
static int  vshim_n = 0, vshim_cap = 0;

/* outstanding non-blocking requests: handle -> sequence number of the posting event */
static MPI_Request *vshim_rq = 0;
static int *vshim_rqseq = 0;
static int  vshim_nrq = 0, vshim_rqcap = 0;
static int  vshim_lost = 0;           /* completions of requests the shim never saw */

/* communicators seen: index 0 = MPI_COMM_WORLD */
static MPI_Comm vshim_comms[64];
static int vshim_ncomms = 0;

static int vshim_comm_id(MPI_Comm c) {
    int i;
    /* handles are compared by value (amgcl copies the handle, never duplicates the
     * communicator); a freed handle must not be passed to MPI_Comm_compare */
    if (vshim_ncomms == 0) { vshim_comms[0] = MPI_COMM_WORLD; vshim_ncomms = 1; }
    for (i = 0; i < vshim_ncomms; ++i)
        if (c == vshim_comms[i]) return i;
    if (vshim_ncomms < 64) { vshim_comms[vshim_ncomms] = c; return vshim_ncomms++; }
    return 63;
}

static int vshim_bytes(int count, MPI_Datatype t) {
    int sz = 0; PMPI_Type_size(t, &sz); return count * sz;
}

static int vshim_push(int kind, int peer, int tag, int bytes, MPI_Comm comm, int ref) {
    int *e;
    if (!vshim_on) return -1;
    if (vshim_n == vshim_cap) {
        vshim_cap = vshim_cap ? 2 * vshim_cap : 1024;
        vshim_log = (int*)realloc(vshim_log, sizeof(int) * VSHIM_W * vshim_cap);
    }
    e = vshim_log + VSHIM_W * vshim_n;
    e[0] = kind; e[1] = peer; e[2] = tag; e[3] = bytes; e[4] = vshim_comm_id(comm); e[5] = ref;
    return vshim_n++;
}

static void vshim_track(MPI_Request rq, int seq) {
    if (!vshim_on || seq < 0) return;
    if (vshim_nrq == vshim_rqcap) {
        vshim_rqcap = vshim_rqcap ? 2 * vshim_rqcap : 256;
        vshim_rq = (MPI_Request*)realloc(vshim_rq, sizeof(MPI_Request) * vshim_rqcap);
        vshim_rqseq = (int*)realloc(vshim_rqseq, sizeof(int) * vshim_rqcap);
    }
    vshim_rq[vshim_nrq] = rq; vshim_rqseq[vshim_nrq] = seq; ++vshim_nrq;
}

/* called BEFORE the PMPI wait with the still valid handle */
static int vshim_untrack(MPI_Request rq) {
    int i, s;
    if (!vshim_on || rq == MPI_REQUEST_NULL) return -2;
    for (i = vshim_nrq - 1; i >= 0; --i) if (vshim_rq[i] == rq) {
        s = vshim_rqseq[i];
        vshim_rq[i] = vshim_rq[vshim_nrq - 1]; vshim_rqseq[i] = vshim_rqseq[vshim_nrq - 1]; --vshim_nrq;
        return s;
    }
    ++vshim_lost;
    return -1;
}

/* ------------------------------------------------------------- recorder interface */
void vshim_begin(void) { vshim_n = 0; vshim_nrq = 0; vshim_lost = 0; vshim_on = 1; }
/* stops logging; returns the log (VSHIM_W ints per event), the number of events, the number
 * of requests still outstanding and the number of unknown completions */
int *vshim_take(int *nev, int *outstanding, int *lost) {
    vshim_on = 0; *nev = vshim_n; *outstanding = vshim_nrq; *lost = vshim_lost; return vshim_log;
}
int vshim_active(void) { return vshim_on; }

/* ------------------------------------------------------------- point to point */
int MPI_Isend(const void *buf, int count, MPI_Datatype t, int dst, int tag, MPI_Comm comm, MPI_Request *rq) {
    int rc = PMPI_Isend(buf, count, t, dst, tag, comm, rq);
    vshim_track(*rq, vshim_push(EV_ISEND, dst, tag, vshim_bytes(count, t), comm, -1));
    return rc;
}
int MPI_Irecv(void *buf, int count, MPI_Datatype t, int src, int tag, MPI_Comm comm, MPI_Request *rq) {
    int rc = PMPI_Irecv(buf, count, t, src, tag, comm, rq);
    vshim_track(*rq, vshim_push(EV_IRECV, src, tag, vshim_bytes(count, t), comm, -1));
    return rc;
}
int MPI_Send(const void *buf, int count, MPI_Datatype t, int dst, int tag, MPI_Comm comm) {
    vshim_push(EV_SEND, dst, tag, vshim_bytes(count, t), comm, -1);
    return PMPI_Send(buf, count, t, dst, tag, comm);
}
int MPI_Recv(void *buf, int count, MPI_Datatype t, int src, int tag, MPI_Comm comm, MPI_Status *st) {
    int rc = PMPI_Recv(buf, count, t, src, tag, comm, st);
    vshim_push(EV_RECV, src, tag, vshim_bytes(count, t), comm, -1);
    return rc;
}
int MPI_Wait(MPI_Request *rq, MPI_Status *st) {
    int s = vshim_untrack(*rq);
    int rc = PMPI_Wait(rq, st);
    if (s != -2) vshim_push(EV_DONE, -1, -1, 0, MPI_COMM_WORLD, s);
    return rc;
}
int MPI_Waitall(int n, MPI_Request *rq, MPI_Status *st) {
    int i, rc;
    int *s = (int*)malloc(sizeof(int) * (n > 0 ? n : 1));
    for (i = 0; i < n; ++i) s[i] = vshim_untrack(rq[i]);
    rc = PMPI_Waitall(n, rq, st);
    for (i = 0; i < n; ++i) if (s[i] != -2) vshim_push(EV_DONE, -1, -1, 0, MPI_COMM_WORLD, s[i]);
    free(s);
    return rc;
}

/* ------------------------------------------------------------- collectives */
int MPI_Alltoall(const void *sb, int sc, MPI_Datatype st, void *rb, int rc_, MPI_Datatype rt, MPI_Comm comm) {
    vshim_push(EV_ALLTOALL, -1, -1, vshim_bytes(sc, st), comm, -1);
    return PMPI_Alltoall(sb, sc, st, rb, rc_, rt, comm);
}
int MPI_Ialltoall(const void *sb, int sc, MPI_Datatype st, void *rb, int rc_, MPI_Datatype rt, MPI_Comm comm, MPI_Request *rq) {
    int rc = PMPI_Ialltoall(sb, sc, st, rb, rc_, rt, comm, rq);
    vshim_track(*rq, vshim_push(EV_IALLTOALL, -1, -1, vshim_bytes(sc, st), comm, -1));
    return rc;
}
int MPI_Allgather(const void *sb, int sc, MPI_Datatype st, void *rb, int rc_, MPI_Datatype rt, MPI_Comm comm) {
    vshim_push(EV_ALLGATHER, -1, -1, vshim_bytes(sc, st), comm, -1);
    return PMPI_Allgather(sb, sc, st, rb, rc_, rt, comm);
}
int MPI_Allreduce(const void *sb, void *rb, int c, MPI_Datatype t, MPI_Op op, MPI_Comm comm) {
    int opid = op == MPI_SUM ? 1 : op == MPI_MAX ? 2 : op == MPI_MIN ? 3 : op == MPI_PROD ? 4 : 9;
    vshim_push(EV_ALLREDUCE, -1, opid, vshim_bytes(c, t), comm, -1);
    return PMPI_Allreduce(sb, rb, c, t, op, comm);
}
int MPI_Exscan(const void *sb, void *rb, int c, MPI_Datatype t, MPI_Op op, MPI_Comm comm) {
    vshim_push(EV_EXSCAN, -1, -1, vshim_bytes(c, t), comm, -1);
    return PMPI_Exscan(sb, rb, c, t, op, comm);
}
int MPI_Gather(const void *sb, int sc, MPI_Datatype st, void *rb, int rc_, MPI_Datatype rt, int root, MPI_Comm comm) {
    vshim_push(EV_GATHER, root, -1, vshim_bytes(sc, st), comm, -1);
    return PMPI_Gather(sb, sc, st, rb, rc_, rt, root, comm);
}
int MPI_Bcast(void *b, int c, MPI_Datatype t, int root, MPI_Comm comm) {
    vshim_push(EV_BCAST, root, -1, vshim_bytes(c, t), comm, -1);
    return PMPI_Bcast(b, c, t, root, comm);
}
int MPI_Barrier(MPI_Comm comm) {
    vshim_push(EV_BARRIER, -1, -1, 0, comm, -1);
    return PMPI_Barrier(comm);
}
int MPI_Comm_split(MPI_Comm comm, int color, int key, MPI_Comm *out) {
    vshim_push(EV_COMMSPLIT, -1, -1, 0, comm, -1);
    return PMPI_Comm_split(comm, color, key, out);
}

#ifdef __cplusplus
}
#endif
