// C13 recorder: block, complex and mixed-precision formulations of the same system.
//   PART 1 (exact, integers):  block adapter / unblock / hybrid conversion for static_matrix and Eigen
//          blocks (b = 2..4, structurally incomplete blocks), complex adapter (interface, spmv on
//          interleaved vectors against the complex product), coarsening::as_scalar transfer operators
//          against the scalar coarsening, relaxation::as_block against the block smoother;
//          observations: complex Hermitian / shifted systems vs their real 2n x 2n form, float
//          preconditioner under a double solver
//   PART 2, 3, 4 (observations, b = 2, 3, 4): one block-structured SPD system solved through the
//          scalar solver, the block value type (own block CRS, block adapter, Eigen blocks),
//          make_block_solver, as_block relaxation, as_scalar coarsening and the hybrid backend;
//          TRUE scalar residual (long double) and mutual agreement, quantised to millidecades
// The verdict is taken by TLC (spec/C13Trace.tla).
#include <vrec.hpp>
#include <limits>
#include <map>
#include <amgcl/value_type/static_matrix.hpp>
#include <amgcl/value_type/complex.hpp>
#include <amgcl/value_type/eigen.hpp>
#include <amgcl/adapter/crs_tuple.hpp>
#include <amgcl/adapter/block_matrix.hpp>
#include <amgcl/adapter/complex.hpp>
#include <amgcl/backend/builtin_hybrid.hpp>
#include <amgcl/backend/detail/mixing.hpp>
#include <amgcl/make_solver.hpp>
#include <amgcl/make_block_solver.hpp>
#include <amgcl/amg.hpp>
#include <amgcl/coarsening/smoothed_aggregation.hpp>
#include <amgcl/coarsening/aggregation.hpp>
#include <amgcl/coarsening/as_scalar.hpp>
#include <amgcl/relaxation/spai0.hpp>
#include <amgcl/relaxation/ilu0.hpp>
#include <amgcl/relaxation/damped_jacobi.hpp>
#include <amgcl/relaxation/as_block.hpp>
#include <amgcl/solver/cg.hpp>
#include <amgcl/solver/bicgstab.hpp>
#include <amgcl/solver/gmres.hpp>
#include <omp.h>

#ifndef PART
#  define PART 1
#endif

using namespace amgcl;
typedef backend::crs<double, ptrdiff_t, ptrdiff_t> M;
typedef backend::builtin<double> SB;
typedef std::complex<double> cd;

static int md(long double v) { if (!std::isfinite((double)v)) return 99999;   /* NaN / Inf: never "small" */
    if (!(v > 0)) return -99999; double q = 1000.0 * std::log10((double)v); return q < -99999 ? -99999 : (q > 99999 ? 99999 : (int)std::lrint(q)); }
static std::string J(const M &A, vr::obj &o) { bool ex = true; std::string s = vr::crs_json(A, ex); if (!ex) o.exact = false; return s; }
static void put(vr::obj &o) { o.i("nt", omp_get_max_threads()); if (o.exact) vr::emit(o.done()); else { vr::obj x; x.str("e", "Inexact"); vr::emit(x.done()); } }

struct arrays { size_t n; std::vector<ptrdiff_t> ptr, col; std::vector<double> val; };
static arrays to_arrays(const M &A) { arrays a; a.n = A.nrows; a.ptr.assign(A.ptr, A.ptr + A.nrows + 1); a.col.assign(A.col, A.col + A.nnz); a.val.assign(A.val, A.val + A.nnz); return a; }

template <class Blk> struct bt;
template <class T, int N> struct bt< static_matrix<T, N, N> > { enum { B = N }; typedef static_matrix<T, N, 1> rhs; static const char* name() { return "static_matrix"; } };
template <class T, int N> struct bt< Eigen::Matrix<T, N, N> > { enum { B = N }; typedef Eigen::Matrix<T, N, 1> rhs; static const char* name() { return "Eigen::Matrix"; } };

#if PART == 1
// ---------------------------------------------------------------- exact: block views
template <class Blk, class BM> std::string block_json(const BM &Bm, vr::obj &o) {
    const int B = bt<Blk>::B; size_t n = backend::rows(Bm), m = backend::cols(Bm);
    std::ostringstream q, cs, vs; q << "{\"n\":" << n << ",\"m\":" << m << ",\"ptr\":[0"; size_t cnt = 0;
    for (size_t i = 0; i < n; ++i) {
        for (auto a = backend::row_begin(Bm, i); a; ++a) {
            cs << (cnt ? "," : "") << a.col(); Blk v = a.value(); vs << (cnt ? "," : "") << "[";
            for (int r = 0; r < B; ++r) for (int c = 0; c < B; ++c) { if (!vr::small_int(v(r, c))) o.exact = false; vs << (r + c ? "," : "") << (long long)v(r, c); }
            vs << "]"; ++cnt;
        }
        q << "," << cnt;
    }
    q << "],\"col\":[" << cs.str() << "],\"val\":[" << vs.str() << "]}";
    return q.str();
}
template <class Blk> void v_block(const M &A, const char *via, const char *tag) {
    const int B = bt<Blk>::B;
    vr::obj o; o.str("k", "block").str("ad", via).str("ty", bt<Blk>::name()).i("b", B).str("tag", tag);
    try {
        std::shared_ptr< backend::crs<Blk, ptrdiff_t, ptrdiff_t> > Bm;
        if (std::string(via) == "builtin_hybrid") {
            typedef backend::builtin_hybrid<Blk> HB;
            Bm = HB::copy_matrix(std::make_shared<M>(A), typename HB::params());
            o.i("rows", backend::rows(*Bm)).i("cols", backend::cols(*Bm)).raw("out", block_json<Blk>(*Bm, o));
        } else {
            auto V = adapter::block_matrix<Blk>(A);
            o.i("rows", backend::rows(V)).i("cols", backend::cols(V)).raw("out", block_json<Blk>(V, o));
            Bm = std::make_shared< backend::crs<Blk, ptrdiff_t, ptrdiff_t> >(V);
            std::string viaview = block_json<Blk>(V, o), viacrs = block_json<Blk>(*Bm, o);
            o.b("ctor_same", viaview == viacrs);
        }
        std::vector<double> x(A.ncols), y(A.nrows, std::numeric_limits<double>::quiet_NaN());
        for (size_t j = 0; j < A.ncols; ++j) x[j] = (double)((j * 7 + 3) % 5) - 2;
        backend::spmv(1.0, *Bm, x, 0.0, y);                      // scalar vectors through the block matrix
        auto U = adapter::unblock_matrix(*Bm);
        o.raw("A", J(A, o)).dbls("x", x).dbls("y", y).raw("unblocked", J(*U, o));
    } catch (const std::exception &e) { o.str("exc", e.what()); }
    put(o);
}

// ---------------------------------------------------------------- exact: complex adapter
static void v_complex(vr::rng &g, int n, int m_, const char *tag) {
    int m = n; (void)m_;
    typedef backend::crs<cd, ptrdiff_t, ptrdiff_t> CM;
    CM A; A.set_size(n, m, true);
    std::vector<std::vector<int>> cols(n);
    for (int i = 0; i < n; ++i) for (int j = 0; j < m; ++j) if (g.coin(0.4)) cols[i].push_back(j);
    for (int i = 0; i < n; ++i) { if (g.coin(0.3)) for (size_t k = cols[i].size(); k > 1; --k) std::swap(cols[i][k - 1], cols[i][g.below((int)k)]); A.ptr[i + 1] = cols[i].size(); }
    A.set_nonzeros(A.scan_row_sizes());
    for (int i = 0; i < n; ++i) { ptrdiff_t h = A.ptr[i]; for (int c : cols[i]) { A.col[h] = c; A.val[h] = cd(g.range(-3, 3), g.range(-3, 3)); ++h; } }
    vr::obj o; o.str("k", "cview").str("tag", tag);
    try {
        // (the complex adapter wraps matrices whose row iterator exports col_type: tuples of arrays; square by construction)
        size_t tn = n; std::vector<ptrdiff_t> tptr(A.ptr, A.ptr + n + 1), tcol(A.col, A.col + A.nnz); std::vector<cd> tval(A.val, A.val + A.nnz);
        auto TA = std::tie(tn, tptr, tcol, tval);
        auto V = adapter::complex_matrix(TA);
        size_t rn = backend::rows(V), rm = backend::cols(V);
        o.i("rows", rn).i("cols", rm).i("nnz", backend::nonzeros(V));
        std::vector<long long> ptr(1, 0), col; std::vector<double> val;
        for (size_t i = 0; i < rn; ++i) { for (auto a = backend::row_begin(V, i); a; ++a) { col.push_back(a.col()); val.push_back(a.value()); } ptr.push_back((long long)col.size()); }
        vr::obj q; q.i("n", rn).i("m", rm).ints("ptr", ptr).ints("col", col).dbls("val", val); if (!q.exact) o.exact = false;
        std::ostringstream a; a << "{\"n\":" << n << ",\"m\":" << m << ",\"ptr\":["; for (int i = 0; i <= n; ++i) a << (i ? "," : "") << A.ptr[i];
        a << "],\"col\":["; for (size_t p = 0; p < A.nnz; ++p) a << (p ? "," : "") << A.col[p];
        a << "],\"val\":["; for (size_t p = 0; p < A.nnz; ++p) a << (p ? "," : "") << "[" << (long long)A.val[p].real() << "," << (long long)A.val[p].imag() << "]"; a << "]}";
        // complex product and the real product on the interleaved vector (complex_range)
        std::vector<cd> z(m), az(n, cd(std::numeric_limits<double>::quiet_NaN(), 0));
        for (int j = 0; j < m; ++j) z[j] = cd(g.range(-3, 3), g.range(-3, 3));
        backend::spmv(1.0, A, z, 0.0, az);
        auto xr = adapter::complex_range(z);
        std::vector<double> x(xr.begin(), xr.end()), y(rn, std::numeric_limits<double>::quiet_NaN());
        backend::spmv(1.0, V, x, 0.0, y);
        auto yr = adapter::complex_range(az); std::vector<double> yc(yr.begin(), yr.end());
        M R(V);
        o.raw("A", a.str()).raw("out", q.done()).dbls("x", x).dbls("y", y).dbls("yc", yc).i("ctor_nnz", R.nnz);
    } catch (const std::exception &e) { o.str("exc", e.what()); }
    put(o);
}

// ---------------------------------------------------------------- exact: as_scalar coarsening, as_block relaxation
template <int B> void v_as_scalar(vr::rng &g, const char *tag) {
    typedef static_matrix<double, B, B> Blk; typedef backend::builtin<Blk> BB;
    vr::obj o; o.str("k", "asscalar").i("b", B).str("tag", tag);
    try {
        int nb = g.range(4, 14);
        auto P0 = vr::random_mmatrix(g, nb, 0.3, 3, 1);
        // block matrix with structurally incomplete blocks: P0 (x) I + I (x) tridiag
        std::vector<std::vector<std::pair<int,double>>> rows(nb * B);
        for (int i = 0; i < nb; ++i) for (int r = 0; r < B; ++r) for (ptrdiff_t p = P0->ptr[i]; p < P0->ptr[i+1]; ++p) {
            int j = (int)P0->col[p];
            if (j != i) rows[i * B + r].push_back(std::make_pair(j * B + r, P0->val[p]));
            else for (int c = 0; c < B; ++c) if (std::abs(c - r) <= 1) rows[i * B + r].push_back(std::make_pair(j * B + c, c == r ? P0->val[p] + 2 : -1.0));
        }
        auto A = vr::from_rows(nb * B, nb * B, rows);
        backend::crs<Blk, ptrdiff_t, ptrdiff_t> Bm(adapter::block_matrix<Blk>(*A));
        typedef coarsening::aggregation<SB> CS; typename CS::params ps; ps.aggr.block_size = B; ps.aggr.eps_strong = 0; ps.over_interp = 2;
        typedef typename coarsening::as_scalar<coarsening::aggregation>::template type<BB> CB; typename CB::params pb; pb.aggr.block_size = B; pb.aggr.eps_strong = 0; pb.over_interp = 2;
        CS cs(ps); CB cb(pb);
        auto Ts = cs.transfer_operators(*adapter::unblock_matrix(Bm));
        auto Tb = cb.transfer_operators(Bm);
        auto Pb = adapter::unblock_matrix(*std::get<0>(Tb)), Rb = adapter::unblock_matrix(*std::get<1>(Tb));
        o.raw("A", J(*A, o)).raw("Ps", J(*std::get<0>(Ts), o)).raw("Rs", J(*std::get<1>(Ts), o)).raw("Pb", J(*Pb, o)).raw("Rb", J(*Rb, o));
        // coarse operator through both: Galerkin product of integers
        auto Acs = cs.coarse_operator(*adapter::unblock_matrix(Bm), *std::get<0>(Ts), *std::get<1>(Ts));
        auto Acb = cb.coarse_operator(Bm, *std::get<0>(Tb), *std::get<1>(Tb));
        { bool ex = true; o.raw("Acs", vr::crs_json(*Acs, ex, 1)).raw("Acb", vr::crs_json(*adapter::unblock_matrix(*Acb), ex, 1)); if (!ex) o.exact = false; }
    } catch (const std::exception &e) { o.str("exc", e.what()); }
    put(o);
}
template <int B> void v_as_block(vr::rng &g, const char *tag) {
    typedef static_matrix<double, B, B> Blk; typedef static_matrix<double, B, 1> Rhs; typedef backend::builtin<Blk> BB;
    vr::obj o; o.str("k", "asblock").i("b", B).str("tag", tag);
    try {
        int nb = g.range(4, 20);
        auto A = vr::random_int(g, nb * B, nb * B, 0.25, 3, false, true);
        for (size_t i = 0; i < A->nrows; ++i) for (ptrdiff_t p = A->ptr[i]; p < A->ptr[i+1]; ++p) if (A->col[p] == (ptrdiff_t)i) A->val[p] = 16;   // strong diagonal
        typedef typename relaxation::as_block<BB, relaxation::damped_jacobi>::template type<SB> W;
        typedef relaxation::damped_jacobi<BB> D;
        typename W::params pw; typename D::params pd;
        W w(*A, pw, SB::params());
        backend::crs<Blk, ptrdiff_t, ptrdiff_t> Bm(adapter::block_matrix<Blk>(*A));
        D d(Bm, pd, typename BB::params());
        size_t n = A->nrows; std::vector<double> f(n), x1(n), x2(n), t1(n), t2(n);
        for (size_t i = 0; i < n; ++i) { f[i] = g.range(-4, 4); x1[i] = x2[i] = g.range(-2, 2); }
        w.apply_pre(*A, f, x1, t1);                             // scalar matrix, scalar vectors, block smoother inside
        auto F = backend::reinterpret_as_rhs<Blk>(f); auto X = backend::reinterpret_as_rhs<Blk>(x2); auto T = backend::reinterpret_as_rhs<Blk>(t2);
        d.apply_pre(Bm, F, X, T);
        bool same = std::memcmp(x1.data(), x2.data(), n * sizeof(double)) == 0;
        long double dmax = 0, amax = 0; for (size_t i = 0; i < n; ++i) { dmax = std::max<long double>(dmax, std::fabs((long double)x1[i] - x2[i])); amax = std::max<long double>(amax, std::fabs((long double)x2[i])); }
        o.i("n", n).b("same", same).i("reldiff_md", dmax == 0 ? -99999 : md(dmax / (amax > 0 ? amax : 1)));
    } catch (const std::exception &e) { o.str("exc", e.what()); }
    put(o);
}

// ---- backend::detail::common_scalar_backend: for a pair of builtin backends of which at least one is block valued it is the
//      builtin backend of the scalar type with the HIGHER precision (compile-time facts, recorded as numbers)
template <class V1, class V2> void v_csb(const char *n1, const char *n2) {
    typedef typename backend::detail::common_scalar_backend< backend::builtin<V1>, backend::builtin<V2> >::type CB;
    typedef typename math::scalar_of<V1>::type S1; typedef typename math::scalar_of<V2>::type S2;
    vr::obj o; o.str("k", "csb").str("v1", n1).str("v2", n2).i("s1", sizeof(S1)).i("s2", sizeof(S2)).i("v1bytes", sizeof(V1)).i("v2bytes", sizeof(V2));
    o.i("chosen", sizeof(typename CB::value_type)).b("chosen_is_scalar", math::static_rows<typename CB::value_type>::value == 1);
    put(o);
}
static void csb_table() {
    typedef static_matrix<float,2,2> F2; typedef static_matrix<float,3,3> F3; typedef static_matrix<float,4,4> F4;
    typedef static_matrix<double,2,2> D2; typedef static_matrix<double,3,3> D3;
    v_csb<F2, double>("static_matrix<float,2,2>", "double"); v_csb<double, F2>("double", "static_matrix<float,2,2>");
    v_csb<F3, double>("static_matrix<float,3,3>", "double"); v_csb<double, F4>("double", "static_matrix<float,4,4>");
    v_csb<F4, D2>("static_matrix<float,4,4>", "static_matrix<double,2,2>"); v_csb<D2, F4>("static_matrix<double,2,2>", "static_matrix<float,4,4>");
    v_csb<D3, float>("static_matrix<double,3,3>", "float"); v_csb<float, D2>("float", "static_matrix<double,2,2>");
    v_csb<F2, float>("static_matrix<float,2,2>", "float"); v_csb<D2, double>("static_matrix<double,2,2>", "double");
    v_csb<F2, F3>("static_matrix<float,2,2>", "static_matrix<float,3,3>"); v_csb<D2, D3>("static_matrix<double,2,2>", "static_matrix<double,3,3>");
    v_csb<F4, long double>("static_matrix<float,4,4>", "long double"); v_csb<long double, D3>("long double", "static_matrix<double,3,3>");
}

// ---------------------------------------------------------------- observations: complex vs real-equivalent
template <class Solver, class Mat, class Vec> void run_solver(const Mat &A, const Vec &f, Vec &x, double tol, size_t &it, double &err) {
    typename Solver::params prm; prm.solver.tol = tol; prm.solver.maxiter = 1000; prm.precond.coarse_enough = 30;
    Solver S(A, prm); std::tie(it, err) = S(f, x);
}
static void complex_forms(vr::rng &g, bool shifted) {
    int n = g.range(60, vr::thorough() ? 500 : 220);
    auto P = vr::random_mmatrix(g, n, 2.5 / n, 3, 3);
    typedef backend::crs<cd, ptrdiff_t, ptrdiff_t> CM; typedef backend::builtin<cd> CB;
    CM A; A.set_size(n, n, true); for (int i = 0; i < n; ++i) A.ptr[i + 1] = P->ptr[i + 1] - P->ptr[i]; A.set_nonzeros(A.scan_row_sizes());
    // Hermitian: real symmetric part P, imaginary skew part +-1/4 on the off-diagonals; shifted: + i sigma on the diagonal
    for (int i = 0; i < n; ++i) for (ptrdiff_t p = P->ptr[i]; p < P->ptr[i+1]; ++p) { ptrdiff_t j = P->col[p]; A.col[p] = j;
        A.val[p] = j == i ? cd(P->val[p], shifted ? 1.5 : 0.0) : cd(P->val[p], (i < j ? 0.25 : -0.25) * (((i + j) % 3) - 1)); }
    std::vector<cd> f(n), z(n, cd(0, 0)); for (int i = 0; i < n; ++i) f[i] = cd(g.range(-4, 4), g.range(-4, 4));
    const double tol = 1e-10;
    vr::obj o; o.str("k", "cforms").str("sys", shifted ? "shifted" : "hermitian").i("n", n).i("tol_md", -10000);
    std::ostringstream forms; std::vector<cd> zc(n), zr(n);
    auto true_res = [&](const std::vector<cd> &x) { long double rn = 0, fn = 0; for (int i = 0; i < n; ++i) { std::complex<long double> s(f[i].real(), f[i].imag());
            for (ptrdiff_t p = A.ptr[i]; p < A.ptr[i+1]; ++p) s -= std::complex<long double>(A.val[p].real(), A.val[p].imag()) * std::complex<long double>(x[A.col[p]].real(), x[A.col[p]].imag());
            rn += std::norm(s); fn += std::norm(std::complex<long double>(f[i].real(), f[i].imag())); } return std::sqrt(rn / fn); };
    {   std::string exc; size_t it = 0; double err = 1;
        try { if (shifted) run_solver< make_solver< amg<CB, coarsening::smoothed_aggregation, relaxation::spai0>, solver::bicgstab<CB> > >(A, f, z, tol, it, err);
              else         run_solver< make_solver< amg<CB, coarsening::smoothed_aggregation, relaxation::spai0>, solver::cg<CB> > >(A, f, z, tol, it, err); } catch (const std::exception &e) { exc = e.what(); }
        zc = z; vr::obj q; q.str("name", "complex value type").str("exc", exc).i("iters", it).i("reported_md", md(err)).i("true_md", md(true_res(zc))).i("diff_md", -99999); forms << q.done(); }
    {   std::string exc; size_t it = 0; double err = 1; std::vector<double> fr(adapter::complex_range(f).begin(), adapter::complex_range(f).end()), xr(2 * n, 0.0);
        size_t tn = n; std::vector<ptrdiff_t> tptr(A.ptr, A.ptr + n + 1), tcol(A.col, A.col + A.nnz); std::vector<cd> tval(A.val, A.val + A.nnz);
        auto TA = std::tie(tn, tptr, tcol, tval);
        try { if (shifted) run_solver< make_solver< amg<SB, coarsening::smoothed_aggregation, relaxation::spai0>, solver::bicgstab<SB> > >(adapter::complex_matrix(TA), fr, xr, tol, it, err);
              else         run_solver< make_solver< amg<SB, coarsening::smoothed_aggregation, relaxation::spai0>, solver::cg<SB> > >(adapter::complex_matrix(TA), fr, xr, tol, it, err); } catch (const std::exception &e) { exc = e.what(); }
        for (int i = 0; i < n; ++i) zr[i] = cd(xr[2 * i], xr[2 * i + 1]);
        long double dn = 0, zn = 0; for (int i = 0; i < n; ++i) { dn += std::norm(std::complex<long double>(zr[i].real() - zc[i].real(), zr[i].imag() - zc[i].imag())); zn += std::norm(std::complex<long double>(zc[i].real(), zc[i].imag())); }
        vr::obj q; q.str("name", "real 2n x 2n form (complex adapter)").str("exc", exc).i("iters", it).i("reported_md", md(err)).i("true_md", md(true_res(zr))).i("diff_md", md(std::sqrt(dn / (zn > 0 ? zn : 1)))); forms << "," << q.done(); }
    o.raw("forms", "[" + forms.str() + "]"); put(o);
}
// complex system with 2x2 block structure: scalar complex value type vs block value type static_matrix<complex,2,2>
// (block_matrix adapter, block-valued vectors; make_block_solver / reinterpret_as_rhs do not exist for complex blocks)
// vs the real 4n x 4n form through the complex adapter
template <template <class> class IterSolver>
static void cblock_forms(vr::rng &g, bool shifted, const char *solver) {
    typedef static_matrix<cd, 2, 2> CBlk; typedef static_matrix<cd, 2, 1> CRhs;
    typedef backend::builtin<cd> CB; typedef backend::builtin<CBlk> CBB;
    int nb = g.range(40, vr::thorough() ? 300 : 120);
    auto P = vr::random_mmatrix(g, nb, 2.5 / nb, 3, 2);
    const cd I(0, 1);
    const cd E[2][2] = {{1.0, 0.4 * I}, {0.2 * I, 0.8}};                 // coupling with a higher-numbered node (lower: E^H)
    const cd D[2][2] = {{0.0, 0.5 * I}, {-0.5 * I, 0.0}};               // Hermitian part added to 1.5 P_ii on the diagonal block
    size_t n = 2 * nb; std::vector<ptrdiff_t> ptr(1, 0), col; std::vector<cd> val;
    for (int i = 0; i < nb; ++i) for (int r = 0; r < 2; ++r) {
        for (ptrdiff_t p = P->ptr[i]; p < P->ptr[i+1]; ++p) { int j = (int)P->col[p];
            for (int c = 0; c < 2; ++c) {
                cd v = j == i ? (r == c ? cd(1.5 * P->val[p], shifted ? 1.5 : 0.0) : cd(0)) + D[r][c] : (i < j ? P->val[p] * E[r][c] : P->val[p] * std::conj(E[c][r]));
                col.push_back(2 * j + c); val.push_back(v); } }
        ptr.push_back((ptrdiff_t)col.size());
    }
    std::vector<cd> f(n); for (size_t i = 0; i < n; ++i) f[i] = std::polar(1.0 + 0.5 * std::sin(0.3 * i), 0.7 * i);   // a different phase in every entry
    auto T = std::tie(n, ptr, col, val);
    const double tol = 1e-10;
    auto true_res = [&](const std::vector<cd> &x) { long double rn = 0, fn = 0; for (size_t i = 0; i < n; ++i) { std::complex<long double> s(f[i].real(), f[i].imag());
            for (ptrdiff_t p = ptr[i]; p < ptr[i+1]; ++p) s -= std::complex<long double>(val[p].real(), val[p].imag()) * std::complex<long double>(x[col[p]].real(), x[col[p]].imag());
            rn += std::norm(s); fn += std::norm(std::complex<long double>(f[i].real(), f[i].imag())); } return std::sqrt(rn / fn); };
    std::vector<cd> ref; std::ostringstream forms; int cnt = 0;
    auto report = [&](const char *name, const std::string &exc, size_t it, double err, const std::vector<cd> &x) {
        if (ref.empty()) ref = x;
        long double dn = 0, zn = 0; for (size_t i = 0; i < n; ++i) { dn += std::norm(std::complex<long double>(x[i].real() - ref[i].real(), x[i].imag() - ref[i].imag())); zn += std::norm(std::complex<long double>(ref[i].real(), ref[i].imag())); }
        vr::obj q; q.str("name", name).str("exc", exc).i("iters", it).i("reported_md", md(err)).i("true_md", md(true_res(x))).i("diff_md", md(std::sqrt(dn / (zn > 0 ? zn : 1))));
        forms << (cnt++ ? "," : "") << q.done(); };
    {   std::vector<cd> x(n, cd(0)); size_t it = 0; double err = 1; std::string exc;
        try { run_solver< make_solver< amg<CB, coarsening::smoothed_aggregation, relaxation::spai0>, IterSolver<CB> > >(T, f, x, tol, it, err); } catch (const std::exception &e) { exc = e.what(); }
        report("scalar complex value type", exc, it, err, x); }
    {   std::vector<cd> x(n, cd(0)); size_t it = 0; double err = 1; std::string exc;
        try { std::vector<CRhs> F(nb), X(nb); for (int i = 0; i < nb; ++i) for (int r = 0; r < 2; ++r) { F[i](r) = f[2 * i + r]; X[i](r) = cd(0); }
              run_solver< make_solver< amg<CBB, coarsening::aggregation, relaxation::spai0>, IterSolver<CBB> > >(adapter::block_matrix<CBlk>(T), F, X, tol, it, err);
              for (int i = 0; i < nb; ++i) for (int r = 0; r < 2; ++r) x[2 * i + r] = X[i](r); } catch (const std::exception &e) { exc = e.what(); }
        report("block value type static_matrix<complex,2,2> (block_matrix adapter)", exc, it, err, x); }
    {   std::vector<cd> x(n, cd(0)); size_t it = 0; double err = 1; std::string exc;
        std::vector<double> fr(adapter::complex_range(f).begin(), adapter::complex_range(f).end()), xr(2 * n, 0.0);
        try { run_solver< make_solver< amg<SB, coarsening::smoothed_aggregation, relaxation::spai0>, IterSolver<SB> > >(adapter::complex_matrix(T), fr, xr, tol, it, err); } catch (const std::exception &e) { exc = e.what(); }
        for (size_t i = 0; i < n; ++i) x[i] = cd(xr[2 * i], xr[2 * i + 1]);
        report("real form (complex adapter)", exc, it, err, x); }
    vr::obj o; o.str("k", "cforms").str("sys", std::string(shifted ? "block shifted, " : "block hermitian, ") + solver).i("n", n).i("tol_md", -10000).raw("forms", "[" + forms.str() + "]"); put(o);
}

// float preconditioner under a double solver (examples/mixed_precision.cpp) on Poisson-type problems
static void mixed_precision(vr::rng &g, int which) {
    std::shared_ptr<M> A; std::string name;
    if (which == 0) { A = vr::poisson2d(40, 40); name = "poisson2d 40x40"; }
    else if (which == 1) { A = vr::poisson2d(60, 25, 1, 4); name = "anisotropic poisson2d 60x25 (1:4)"; }
    else if (which == 2) { A = vr::random_mmatrix(g, 600, 0.006, 3, 1); name = "random M-matrix 600"; }
    else { A = vr::poisson2d(g.range(20, 70), g.range(20, 70), g.range(1, 3), g.range(1, 3)); name = "poisson2d random size/anisotropy"; }
    arrays a = to_arrays(*A); size_t n = a.n; std::vector<double> f(n), x(n, 0.0); for (size_t i = 0; i < n; ++i) f[i] = g.range(-5, 5) + 0.5;
    typedef backend::builtin<float> FB;
    typedef make_solver< amg<FB, coarsening::smoothed_aggregation, relaxation::spai0>, solver::cg<SB> > Solver;
    vr::obj o; o.str("k", "mixed").str("sys", name).i("n", n).i("tol_md", -8000);
    try {
        Solver::params prm; Solver S(std::tie(a.n, a.ptr, a.col, a.val), prm);     // default tolerance 1e-8, default maxiter
        size_t it; double err; std::tie(it, err) = S(std::tie(a.n, a.ptr, a.col, a.val), f, x);
        long double rn = 0, fn = 0; for (size_t i = 0; i < n; ++i) { long double s = f[i]; for (ptrdiff_t p = a.ptr[i]; p < a.ptr[i+1]; ++p) s -= (long double)a.val[p] * x[a.col[p]]; rn += s * s; fn += (long double)f[i] * f[i]; }
        o.i("iters", it).i("maxiter", prm.solver.maxiter).i("reported_md", md(err)).i("true_md", md(std::sqrt(rn / fn)));
    } catch (const std::exception &e) { o.str("exc", e.what()); }
    put(o);
}

// the same set-up asked to solve on the preconditioner's own float matrix, solve(rhs, x): (i) a second solve on the same
// object warm-started from the previous solution, (ii) restarted GMRES (r = f - A x is recomputed at every restart).
// The matrix values are integers (exact in float), so the matrix the solver uses IS the double one: the true residual
// is recomputed against it in long double and must agree with the reported one at tol 1e-10.
template <class P> auto set_restart(P &p, int m) -> decltype(p.M = m, void()) { p.M = m; }      // gmres: restart length
inline void set_restart(...) {}
template <template <class> class IterSolver>
static void mixed_residual(vr::rng &g, int which, const char *how, bool warm) {
    std::shared_ptr<M> A; std::string name;
    if (which % 3 == 0) { A = vr::poisson2d(30, 30); name = "poisson2d 30x30"; }
    else if (which % 3 == 1) { A = vr::poisson2d(g.range(15, 45), g.range(15, 45), g.range(1, 3), g.range(1, 3)); name = "poisson2d random size/anisotropy"; }
    else { A = vr::random_mmatrix(g, 400, 0.008, 3, 1); name = "random M-matrix 400"; }
    arrays a = to_arrays(*A); size_t n = a.n; std::vector<double> f(n), x(n, 0.0); for (size_t i = 0; i < n; ++i) f[i] = g.range(-50, 50) + 0.5;
    typedef backend::builtin<float> FB;
    typedef make_solver< amg<FB, coarsening::smoothed_aggregation, relaxation::spai0>, IterSolver<SB> > Solver;
    vr::obj o; o.str("k", "mixed").str("sys", name + ", solve(rhs, x) on the float matrix, " + how).i("n", n).i("tol_md", -10000);
    try {
        typename Solver::params prm; prm.solver.tol = 1e-10; prm.solver.maxiter = 300; prm.precond.coarse_enough = 100; set_restart(prm.solver, 4);
        Solver S(std::tie(a.n, a.ptr, a.col, a.val), prm);
        size_t it; double err; std::tie(it, err) = S(f, x);
        if (warm) { for (size_t i = 0; i < n; ++i) f[i] += (double)((i * 7) % 5) - 2; std::tie(it, err) = S(f, x); }   // new rhs, previous solution as initial guess
        long double rn = 0, fn = 0; for (size_t i = 0; i < n; ++i) { long double s = f[i]; for (ptrdiff_t p = a.ptr[i]; p < a.ptr[i+1]; ++p) s -= (long double)a.val[p] * x[a.col[p]]; rn += s * s; fn += (long double)f[i] * f[i]; }
        o.i("iters", it).i("maxiter", prm.solver.maxiter).i("reported_md", md(err)).i("true_md", md(std::sqrt(rn / fn)));
    } catch (const std::exception &e) { o.str("exc", e.what()); }
    put(o);
}
#endif

#if PART >= 2
// ---------------------------------------------------------------- observations: one block system, many formulations
template <int B> struct forms {
    typedef static_matrix<double, B, B> Blk; typedef static_matrix<double, B, 1> Rhs;
    typedef Eigen::Matrix<double, B, B> EBlk; typedef Eigen::Matrix<double, B, 1> ERhs;
    typedef backend::builtin<Blk> BB; typedef backend::builtin<EBlk> EB; typedef backend::builtin_hybrid<Blk> HB;

    const M &K; arrays a; std::vector<double> f, ref; std::ostringstream out; int count; double tol;
    forms(const M &K, const std::vector<double> &f, double tol) : K(K), a(to_arrays(K)), f(f), count(0), tol(tol) {}

    template <class Prm> void common(Prm &prm) { prm.solver.tol = tol; prm.solver.maxiter = 1000; prm.precond.coarse_enough = 10 * B; }
    void report(const char *name, const std::string &exc, size_t it, double err, const std::vector<double> &x) {
        size_t n = a.n; long double rn = 0, fn = 0, dn = 0, xn = 0;
        for (size_t i = 0; i < n; ++i) { long double s = f[i]; for (ptrdiff_t p = a.ptr[i]; p < a.ptr[i+1]; ++p) s -= (long double)a.val[p] * x[a.col[p]]; rn += s * s; fn += (long double)f[i] * f[i]; }
        if (ref.empty()) ref = x;
        for (size_t i = 0; i < n; ++i) { dn += ((long double)x[i] - ref[i]) * ((long double)x[i] - ref[i]); xn += (long double)ref[i] * ref[i]; }
        vr::obj q; q.str("name", name).str("exc", exc).i("iters", it).i("reported_md", md(err)).i("true_md", md(std::sqrt(rn / fn))).i("diff_md", md(std::sqrt(dn / (xn > 0 ? xn : 1))));
        out << (count++ ? "," : "") << q.done();
    }
    template <class F> void guarded(const char *name, F fn) {
        std::vector<double> x(a.n, 0.0); size_t it = 0; double err = 1; std::string exc;
        try { fn(x, it, err); } catch (const std::exception &e) { exc = e.what(); if (exc.empty()) exc = "exception"; }
        report(name, exc, it, err, x);
    }
    void run() {
        auto T = std::tie(a.n, a.ptr, a.col, a.val);
        guarded("scalar", [&](std::vector<double> &x, size_t &it, double &err) {
            typedef make_solver< amg<SB, coarsening::smoothed_aggregation, relaxation::spai0>, solver::cg<SB> > S; typename S::params prm; common(prm);
            S s(T, prm); std::tie(it, err) = s(f, x); });
        guarded("block value type (own block CRS)", [&](std::vector<double> &x, size_t &it, double &err) {
            typedef make_solver< amg<BB, coarsening::smoothed_aggregation, relaxation::spai0>, solver::cg<BB> > S; typename S::params prm; common(prm);
            // the harness' own expansion: block (i,j) gathers K(iB+r, jB+c), absent entries are zero
            size_t nb = a.n / B; std::vector<ptrdiff_t> bp(1, 0), bc; std::vector<Blk> bv;
            for (size_t ib = 0; ib < nb; ++ib) { std::map<ptrdiff_t, Blk> row;
                for (int r = 0; r < B; ++r) for (ptrdiff_t p = a.ptr[ib * B + r]; p < a.ptr[ib * B + r + 1]; ++p) { ptrdiff_t jb = a.col[p] / B; if (!row.count(jb)) row[jb] = math::zero<Blk>(); row[jb](r, (int)(a.col[p] % B)) = a.val[p]; }
                for (auto &e : row) { bc.push_back(e.first); bv.push_back(e.second); } bp.push_back((ptrdiff_t)bc.size()); }
            std::vector<Rhs> F(nb), X(nb); for (size_t i = 0; i < nb; ++i) for (int r = 0; r < B; ++r) { F[i](r) = f[i * B + r]; X[i](r) = 0; }
            S s(std::tie(nb, bp, bc, bv), prm); std::tie(it, err) = s(F, X);
            for (size_t i = 0; i < nb; ++i) for (int r = 0; r < B; ++r) x[i * B + r] = X[i](r); });
        guarded("block_matrix adapter", [&](std::vector<double> &x, size_t &it, double &err) {
            typedef make_solver< amg<BB, coarsening::smoothed_aggregation, relaxation::spai0>, solver::cg<BB> > S; typename S::params prm; common(prm);
            S s(adapter::block_matrix<Blk>(T), prm);
            auto F = backend::reinterpret_as_rhs<Blk>(f); auto X = backend::reinterpret_as_rhs<Blk>(x); std::tie(it, err) = s(F, X); });
        guarded("block_matrix adapter, Eigen blocks", [&](std::vector<double> &x, size_t &it, double &err) {
            typedef make_solver< amg<EB, coarsening::smoothed_aggregation, relaxation::spai0>, solver::cg<EB> > S; typename S::params prm; common(prm);
            S s(adapter::block_matrix<EBlk>(T), prm);
            auto F = backend::reinterpret_as_rhs<EBlk>(f); auto X = backend::reinterpret_as_rhs<EBlk>(x); std::tie(it, err) = s(F, X); });
        guarded("make_block_solver", [&](std::vector<double> &x, size_t &it, double &err) {
            typedef make_block_solver< amg<BB, coarsening::smoothed_aggregation, relaxation::spai0>, solver::cg<BB> > S; typename S::params prm; common(prm);
            S s(T, prm); std::tie(it, err) = s(f, x); });
        guarded("as_block relaxation (scalar backend, block ILU0 smoother)", [&](std::vector<double> &x, size_t &it, double &err) {
            typedef make_solver< amg<SB, coarsening::smoothed_aggregation, relaxation::as_block<BB, relaxation::ilu0>::template type>, solver::cg<SB> > S; typename S::params prm; common(prm);
            prm.precond.coarsening.aggr.block_size = B;
            S s(T, prm); std::tie(it, err) = s(f, x); });
        guarded("as_scalar coarsening (block backend)", [&](std::vector<double> &x, size_t &it, double &err) {
            typedef make_solver< amg<BB, coarsening::as_scalar<coarsening::smoothed_aggregation>::template type, relaxation::spai0>, solver::cg<BB> > S; typename S::params prm; common(prm);
            prm.precond.coarsening.aggr.block_size = B;
            S s(adapter::block_matrix<Blk>(T), prm);
            auto F = backend::reinterpret_as_rhs<Blk>(f); auto X = backend::reinterpret_as_rhs<Blk>(x); std::tie(it, err) = s(F, X); });
        guarded("block double solver / block float preconditioner from a double-block adapter (tutorial/2.Serena)", [&](std::vector<double> &x, size_t &it, double &err) {
            typedef static_matrix<float, B, B> FBlk; typedef backend::builtin<FBlk> FBB;
            typedef make_solver< amg<FBB, coarsening::smoothed_aggregation, relaxation::spai0>, solver::cg<BB> > S; typename S::params prm; common(prm);
            auto Ab = adapter::block_matrix<Blk>(T);
            S s(Ab, prm);                                  // every double block is converted to a float block here
            auto F = backend::reinterpret_as_rhs<Blk>(f); auto X = backend::reinterpret_as_rhs<Blk>(x); std::tie(it, err) = s(Ab, F, X); });
        // ---- call history on one object: built for A0 (the system with a heavier diagonal), later asked to solve the
        //      caller's matrix A1 = K with operator()(A1, rhs, x): solution and residual must be those of A1
        guarded("make_block_solver built for A0, then operator()(A1 = K, rhs, x)", [&](std::vector<double> &x, size_t &it, double &err) {
            typedef make_block_solver< amg<BB, coarsening::smoothed_aggregation, relaxation::spai0>, solver::cg<BB> > S; typename S::params prm; common(prm);
            arrays a0 = a; for (size_t i = 0; i < a0.n; ++i) for (ptrdiff_t p = a0.ptr[i]; p < a0.ptr[i+1]; ++p) if (a0.col[p] == (ptrdiff_t)i) a0.val[p] *= 1.25;
            S s(std::tie(a0.n, a0.ptr, a0.col, a0.val), prm);
            { std::vector<double> x0(a.n, 0.0); s(f, x0); }                    // first use: the A0 system
            std::tie(it, err) = s(T, f, x); });
        guarded("make_solver (block backend) built for A0, then operator()(block A1 = K, rhs, x)", [&](std::vector<double> &x, size_t &it, double &err) {
            typedef make_solver< amg<BB, coarsening::smoothed_aggregation, relaxation::spai0>, solver::cg<BB> > S; typename S::params prm; common(prm);
            arrays a0 = a; for (size_t i = 0; i < a0.n; ++i) for (ptrdiff_t p = a0.ptr[i]; p < a0.ptr[i+1]; ++p) if (a0.col[p] == (ptrdiff_t)i) a0.val[p] *= 1.25;
            auto T0 = std::tie(a0.n, a0.ptr, a0.col, a0.val);
            S s(adapter::block_matrix<Blk>(T0), prm);
            backend::crs<Blk, ptrdiff_t, ptrdiff_t> K1(adapter::block_matrix<Blk>(T));
            auto F = backend::reinterpret_as_rhs<Blk>(f); auto X = backend::reinterpret_as_rhs<Blk>(x); std::tie(it, err) = s(K1, F, X); });
        // ---- mixed precision through the block wrappers: float preconditioner backend under a double solver backend,
        //      scalar double vectors from the caller (tutorial/5.Nullspace/nullspace_hybrid.cpp)
        guarded("hybrid backend, float preconditioner / double solver", [&](std::vector<double> &x, size_t &it, double &err) {
            typedef static_matrix<float, B, B> FBlk; typedef backend::builtin_hybrid<FBlk> FHB;
            typedef make_solver< amg<FHB, coarsening::smoothed_aggregation, relaxation::spai0>, solver::cg<HB> > S; typename S::params prm; common(prm);
            prm.precond.coarsening.aggr.block_size = B;
            S s(T, prm); std::tie(it, err) = s(T, f, x); });       // the caller's double matrix (operator()(rhs, x) would solve the float copy)
        guarded("make_block_solver, float preconditioner / double solver", [&](std::vector<double> &x, size_t &it, double &err) {
            typedef static_matrix<float, B, B> FBlk; typedef backend::builtin<FBlk> FBB;
            typedef make_block_solver< amg<FBB, coarsening::smoothed_aggregation, relaxation::spai0>, solver::cg<BB> > S; typename S::params prm; common(prm);
            S s(T, prm); std::tie(it, err) = s(T, f, x); });
        guarded("as_block relaxation, float preconditioner / double solver", [&](std::vector<double> &x, size_t &it, double &err) {
            typedef static_matrix<float, B, B> FBlk; typedef backend::builtin<FBlk> FBB; typedef backend::builtin<float> FSB;
            typedef make_solver< amg<FSB, coarsening::smoothed_aggregation, relaxation::as_block<FBB, relaxation::ilu0>::template type>, solver::cg<SB> > S; typename S::params prm; common(prm);
            prm.precond.coarsening.aggr.block_size = B;
            S s(T, prm); std::tie(it, err) = s(T, f, x); });
        guarded("hybrid backend", [&](std::vector<double> &x, size_t &it, double &err) {
            typedef make_solver< amg<HB, coarsening::smoothed_aggregation, relaxation::spai0>, solver::cg<HB> > S; typename S::params prm; common(prm);
            prm.precond.coarsening.aggr.block_size = B;
            S s(T, prm); std::tie(it, err) = s(f, x); });
    }
};

// non-symmetric blocks with a dominant skew part: K = L (x) [[1,-3],[3,1]] (L an M-matrix). Block smoothers and the
// transfer operators need math::adjoint of the blocks, so the block value types must transpose them.
static void skew_forms(vr::rng &g) {
    typedef static_matrix<double,2,2> Blk; typedef Eigen::Matrix<double,2,2> EBlk;
    typedef backend::builtin<Blk> BB; typedef backend::builtin<EBlk> EB;
    int nb = g.range(60, vr::thorough() ? 400 : 200);
    auto L = vr::random_mmatrix(g, nb, 2.5 / nb, 3, 1);
    static const double Sb[2][2] = {{1, -3}, {3, 1}};
    std::vector<std::vector<std::pair<int,double>>> rows(nb * 2);
    for (int i = 0; i < nb; ++i) for (int r = 0; r < 2; ++r) for (ptrdiff_t p = L->ptr[i]; p < L->ptr[i+1]; ++p) for (int c = 0; c < 2; ++c)
        rows[i * 2 + r].push_back(std::make_pair((int)(L->col[p] * 2 + c), L->val[p] * Sb[r][c]));
    auto K = vr::from_rows(nb * 2, nb * 2, rows);
    arrays a = to_arrays(*K); size_t n = a.n; std::vector<double> f(n); for (auto &v : f) v = g.range(-5, 5) + 0.25;
    auto T = std::tie(a.n, a.ptr, a.col, a.val);
    std::vector<double> ref; std::ostringstream out; int count = 0;
    auto report = [&](const char *name, const std::string &exc, size_t it, double err, const std::vector<double> &x) {
        long double rn = 0, fn = 0, dn = 0, xn = 0;
        for (size_t i = 0; i < n; ++i) { long double s = f[i]; for (ptrdiff_t p = a.ptr[i]; p < a.ptr[i+1]; ++p) s -= (long double)a.val[p] * x[a.col[p]]; rn += s * s; fn += (long double)f[i] * f[i]; }
        if (ref.empty()) ref = x;
        for (size_t i = 0; i < n; ++i) { dn += ((long double)x[i] - ref[i]) * ((long double)x[i] - ref[i]); xn += (long double)ref[i] * ref[i]; }
        vr::obj q; q.str("name", name).str("exc", exc).i("iters", it).i("reported_md", md(err)).i("true_md", md(std::sqrt(rn / fn))).i("diff_md", md(std::sqrt(dn / (xn > 0 ? xn : 1))));
        out << (count++ ? "," : "") << q.done(); };
    {   std::vector<double> x(n, 0.0); size_t it = 0; double err = 1; std::string exc;
        try { typedef make_solver< amg<BB, coarsening::smoothed_aggregation, relaxation::spai0>, solver::bicgstab<BB> > S; typename S::params prm; prm.solver.tol = 1e-10; prm.solver.maxiter = 500; prm.precond.coarse_enough = 20;
              S s(adapter::block_matrix<Blk>(T), prm); auto F = backend::reinterpret_as_rhs<Blk>(f); auto X = backend::reinterpret_as_rhs<Blk>(x); std::tie(it, err) = s(F, X); } catch (const std::exception &e) { exc = e.what(); }
        report("static_matrix blocks (block_matrix adapter)", exc, it, err, x); }
    {   std::vector<double> x(n, 0.0); size_t it = 0; double err = 1; std::string exc;
        try { typedef make_solver< amg<EB, coarsening::smoothed_aggregation, relaxation::spai0>, solver::bicgstab<EB> > S; typename S::params prm; prm.solver.tol = 1e-10; prm.solver.maxiter = 500; prm.precond.coarse_enough = 20;
              S s(adapter::block_matrix<EBlk>(T), prm); auto F = backend::reinterpret_as_rhs<EBlk>(f); auto X = backend::reinterpret_as_rhs<EBlk>(x); std::tie(it, err) = s(F, X); } catch (const std::exception &e) { exc = e.what(); }
        report("Eigen blocks (block_matrix adapter)", exc, it, err, x); }
    {   std::vector<double> x(n, 0.0); size_t it = 0; double err = 1; std::string exc;
        try { typedef make_block_solver< amg<BB, coarsening::smoothed_aggregation, relaxation::spai0>, solver::bicgstab<BB> > S; typename S::params prm; prm.solver.tol = 1e-10; prm.solver.maxiter = 500; prm.precond.coarse_enough = 20;
              S s(T, prm); std::tie(it, err) = s(f, x); } catch (const std::exception &e) { exc = e.what(); }
        report("make_block_solver", exc, it, err, x); }
    vr::obj o; o.str("k", "forms").str("sys", "skew-dominant blocks L (x) [[1,-3],[3,1]], bicgstab").i("b", 2).i("n", n).i("tol_md", -10000).raw("forms", "[" + out.str() + "]"); put(o);
}
template <int B> void block_forms(vr::rng &g, int reps) {
    for (int rep = 0; rep < reps; ++rep) {
        int nb = g.range(40, vr::thorough() ? 300 : 130);
        auto P0 = vr::random_mmatrix(g, nb, 2.5 / nb, 3, 1);
        bool kron = rep % 2 == 1;
        // rep even: P0 (x) I + I (x) tridiag(-1, 2, -1): structurally incomplete blocks; rep odd: Kronecker product with a dense SPD block
        std::vector<std::vector<std::pair<int,double>>> rows(nb * B);
        for (int i = 0; i < nb; ++i) for (int r = 0; r < B; ++r) for (ptrdiff_t p = P0->ptr[i]; p < P0->ptr[i+1]; ++p) {
            int j = (int)P0->col[p];
            if (kron) { for (int c = 0; c < B; ++c) rows[i * B + r].push_back(std::make_pair(j * B + c, P0->val[p] * (c == r ? 3.0 : 1.0 / (1 + std::abs(c - r))))); }
            else if (j != i) rows[i * B + r].push_back(std::make_pair(j * B + r, P0->val[p]));
            else for (int c = 0; c < B; ++c) if (std::abs(c - r) <= 1) rows[i * B + r].push_back(std::make_pair(j * B + c, c == r ? P0->val[p] + 2 : -1.0));
        }
        auto K = vr::from_rows(nb * B, nb * B, rows);
        std::vector<double> f(K->nrows); for (auto &v : f) v = g.range(-5, 5) + 0.25;
        forms<B> F(*K, f, 1e-10); F.run();
        vr::obj o; o.str("k", "forms").str("sys", kron ? "kronecker" : "incomplete blocks").i("b", B).i("n", K->nrows).i("tol_md", -10000).raw("forms", "[" + F.out.str() + "]"); put(o);
    }
}
#endif

int main(int argc, char **argv) {
    vr::install_terminate();
    uint64_t seed = vr::env_seed(); bool th = vr::thorough();
    vr::rng g(seed * 31 + PART);
#if PART == 1
    std::string mode = argc > 1 ? argv[1] : "exact";
    if (mode == "exact") {
        // every sorted 4x4 pattern through the adapter with b = 2 is already recorded by C17's recorder; here: samples of it for
        // Eigen blocks / hybrid, all 3x3 with b = 3, seeded random matrices with incomplete blocks for b = 2, 3, 4
        for (unsigned mask = 0; mask < (1u << 16); mask += (th ? 3 : 37)) { auto A = vr::mk_pattern(4, 4, mask, 0, false);
            v_block< Eigen::Matrix<double,2,2> >(*A, "block_matrix", "small"); v_block< static_matrix<double,2,2> >(*A, "builtin_hybrid", "small"); v_block< static_matrix<double,2,2> >(*A, "block_matrix", "small"); }
        for (unsigned mask = 0; mask < 512; ++mask) v_block< static_matrix<double,3,3> >(*vr::mk_pattern(3, 3, mask, 0, false), "block_matrix", "small");
        for (int r = 0; r < (th ? 200 : 40); ++r) {
            int nb = g.range(1, 8), mb = g.range(1, 8); double d = 0.08 + 0.4 * g.unit();
            v_block< static_matrix<double,2,2> >(*vr::random_int(g, nb * 2, mb * 2, d, 5, false), "block_matrix", "rand");
            v_block< static_matrix<double,3,3> >(*vr::random_int(g, nb * 3, mb * 3, d, 5, false), "builtin_hybrid", "rand");
            v_block< static_matrix<double,4,4> >(*vr::random_int(g, nb * 4, mb * 4, d, 5, false), "block_matrix", "rand");
            v_block< Eigen::Matrix<double,3,3> >(*vr::random_int(g, nb * 3, mb * 3, d, 5, false), "block_matrix", "rand");
            v_block< static_matrix<double,4,4> >(*vr::random_int(g, nb * 4, mb * 4, d, 5, false), "builtin_hybrid", "rand");
            v_complex(g, g.range(1, 9), g.range(1, 9), "rand");
            if (r % 2 == 0) { v_as_scalar<2>(g, "rand"); v_as_scalar<3>(g, "rand"); v_as_block<2>(g, "rand"); v_as_block<3>(g, "rand"); v_as_block<4>(g, "rand"); }
        }
        for (int n = 1; n <= 3; ++n) for (int m = 1; m <= 3; ++m) for (int k = 0; k < 6; ++k) v_complex(g, n, m, "small");
        csb_table();
    } else {
        for (int r = 0; r < (th ? 12 : 3); ++r) { complex_forms(g, false); complex_forms(g, true); }
        for (int r = 0; r < (th ? 6 : 2); ++r) { cblock_forms<solver::cg>(g, false, "cg"); cblock_forms<solver::gmres>(g, false, "gmres");
                                                 cblock_forms<solver::bicgstab>(g, true, "bicgstab"); cblock_forms<solver::gmres>(g, true, "gmres"); }
        for (int w = 0; w < (th ? 12 : 5); ++w) mixed_precision(g, w);
        for (int w = 0; w < (th ? 9 : 3); ++w) { mixed_residual<solver::cg>(g, w, "cg warm start", true); mixed_residual<solver::gmres>(g, w, "gmres cold start", false);
                                                 mixed_residual<solver::bicgstab>(g, w, "bicgstab warm start", true); }
    }
#elif PART == 2
    block_forms<2>(g, vr::env_int("VERIF_REPS", th ? 12 : 3));
    for (int r = 0; r < (th ? 8 : 3); ++r) skew_forms(g);
#elif PART == 3
    block_forms<3>(g, vr::env_int("VERIF_REPS", th ? 10 : 2));
#elif PART == 4
    block_forms<4>(g, vr::env_int("VERIF_REPS", th ? 8 : 2));
#endif
    vr::obj o; o.str("e", "End"); vr::emit(o.done());
    return 0;
}
