// C10 recorder: degenerate and regular inputs through the whole run-time pipeline
// (every coarsening x relaxation x solver) with
//   mode fill : every fresh heap allocation pre-filled with 0x00 / 0xFF / 0xAA / pseudo-random
//               bytes (operator new / new[] replaced) after a heap-dirtying prelude; the complete
//               outcome (class, iterations, residual bits, solution bits, exception text) must be
//               identical for all fills and for two constructions in one process;
//   mode degen: each configuration once, outcome class + truthfulness logged; the same source
//               is also built with ASan+UBSan by the check (a sanitizer abort = crash = violation).
// usage: record_fill fill|degen <matrix index | all> ; judged by spec/C10Trace.tla
#include <cstdlib>
#include <cstring>
#include <new>
#include <cstdint>

static int      g_fill_mode = -1;         // -1 off, 0: 0x00, 1: 0xFF, 2: 0xAA, 3: pseudo-random
static uint64_t g_fill_state = 88172645463325252ull;
static void fill_block(void *p, std::size_t n) {
    if (g_fill_mode < 0) return;
    if (g_fill_mode == 3) { unsigned char *c = (unsigned char*)p; for (std::size_t i = 0; i < n; ++i) { g_fill_state ^= g_fill_state << 13; g_fill_state ^= g_fill_state >> 7; g_fill_state ^= g_fill_state << 17; c[i] = (unsigned char)g_fill_state; } }
    else std::memset(p, g_fill_mode == 0 ? 0x00 : (g_fill_mode == 1 ? 0xFF : 0xAA), n);
}
void* operator new(std::size_t n)   { void *p = std::malloc(n ? n : 1); if (!p) throw std::bad_alloc(); fill_block(p, n); return p; }
void* operator new[](std::size_t n) { void *p = std::malloc(n ? n : 1); if (!p) throw std::bad_alloc(); fill_block(p, n); return p; }
void operator delete(void *p) noexcept { std::free(p); }
void operator delete[](void *p) noexcept { std::free(p); }
void operator delete(void *p, std::size_t) noexcept { std::free(p); }
void operator delete[](void *p, std::size_t) noexcept { std::free(p); }

#include <vrec.hpp>
#include <omp.h>
#include <amgcl/make_solver.hpp>
#include <amgcl/amg.hpp>
#include <amgcl/adapter/crs_tuple.hpp>
#include <amgcl/adapter/zero_copy.hpp>
#include <amgcl/coarsening/runtime.hpp>
#include <amgcl/relaxation/runtime.hpp>
#include <amgcl/solver/runtime.hpp>
#include <boost/property_tree/ptree.hpp>

using vr::crsd;
typedef amgcl::backend::builtin<double> B;
typedef amgcl::make_solver<amgcl::amg<B, amgcl::runtime::coarsening::wrapper, amgcl::runtime::relaxation::wrapper>, amgcl::runtime::solver::wrapper<B>> Solver;
typedef std::vector<double> vec;

static const char *COARSENINGS[] = {"ruge_stuben", "aggregation", "smoothed_aggregation", "smoothed_aggr_emin"};
static const char *RELAX[] = {"gauss_seidel", "ilu0", "iluk", "ilup", "ilut", "damped_jacobi", "spai0", "spai1", "chebyshev"};
static const char *SOLVERS[] = {"cg", "bicgstab", "bicgstabl", "gmres", "lgmres", "fgmres", "idrs", "richardson"};

typedef std::vector<std::vector<std::pair<int,double>>> rows_t;
static std::vector<std::pair<std::string, std::shared_ptr<crsd>>> matrices() {
    std::vector<std::pair<std::string, std::shared_ptr<crsd>>> v;
    { rows_t r(1); r[0] = {{0, 3.0}}; v.push_back({"1x1", vr::from_rows(1, 1, r)}); }
    { rows_t r(2); r[0] = {{0, 2.0}}; r[1] = {{1, 5.0}}; v.push_back({"diag2", vr::from_rows(2, 2, r)}); }
    { rows_t r(3); r[0] = {{0, 2.0}}; r[1] = {{1, 4.0}}; r[2] = {{2, 1.5}}; v.push_back({"diag3", vr::from_rows(3, 3, r)}); }
    v.push_back({"tridiag3", vr::poisson2d(3, 1)});
    { rows_t r(5); r[0] = {{0, 2.0}, {1, -1.0}}; r[1] = {{0, -1.0}, {1, 2.0}}; r[2] = {{2, 4.0}}; r[3] = {{3, 2.0}, {4, -1.0}}; r[4] = {{3, -1.0}, {4, 3.0}};
      v.push_back({"disconnected5", vr::from_rows(5, 5, r)}); }
    { rows_t r(4); r[0] = {{0, 4.0}, {1, 1.0}, {2, 1.0}}; r[1] = {{0, 1.0}, {1, 4.0}, {3, 1.0}}; r[2] = {{0, 1.0}, {2, 4.0}, {3, 1.0}}; r[3] = {{1, 1.0}, {2, 1.0}, {3, 4.0}};
      v.push_back({"positive_offdiag4", vr::from_rows(4, 4, r)}); }
    { rows_t r(5); r[0] = {{0, 4.0}, {1, -1.0}, {2, 1.0}}; r[1] = {{0, -1.0}, {1, 4.0}, {3, -1.0}}; r[2] = {{0, 1.0}, {2, 4.0}, {4, 1.0}}; r[3] = {{1, -1.0}, {3, 4.0}, {4, -1.0}}; r[4] = {{2, 1.0}, {3, -1.0}, {4, 4.0}};
      v.push_back({"mixed_sign5", vr::from_rows(5, 5, r)}); }
    { // two hubs K(2,6): every leaf depends strongly on both hubs, no coupling between the hubs
      int m = 6; rows_t r(m + 2);
      for (int i = 0; i < m; ++i) r[i] = {{i, 3.0}, {m, -1.0}, {m + 1, -1.0}};
      for (int h = m; h < m + 2; ++h) { for (int i = 0; i < m; ++i) r[h].push_back({i, -1.0}); r[h].push_back({h, m + 1.0}); }
      v.push_back({"two_hubs8", vr::from_rows(m + 2, m + 2, r)}); }
    { // one-directional couplings (structurally non-symmetric strength graph: aggregates can vanish)
      int m = 12; rows_t r(m); double o = -0.4;
      for (int i = 0; i < m; ++i) r[i].push_back({i, 1.0});
      auto add = [&](int i, int j) { r[i].push_back({j, o}); };
      add(0, 1); add(1, 0); add(2, 0); add(2, 1); add(3, 4); add(4, 3); add(5, 6); add(6, 5); add(7, 8); add(8, 7); add(9, 10); add(10, 9); add(10, 11); add(11, 10);
      for (auto &x : r) std::sort(x.begin(), x.end());
      v.push_back({"oneway12", vr::from_rows(m, m, r)}); }
    { // random structurally non-symmetric, row-dominant
      vr::rng g(4242); auto A = vr::random_int(g, 20, 20, 0.15, 1, false, true);
      for (size_t i = 0; i < A->nrows; ++i) { double s = 0; for (ptrdiff_t p = A->ptr[i]; p < A->ptr[i+1]; ++p) if (A->col[p] != (ptrdiff_t)i) { A->val[p] = -std::fabs(A->val[p]); s += 1; }
        for (ptrdiff_t p = A->ptr[i]; p < A->ptr[i+1]; ++p) if (A->col[p] == (ptrdiff_t)i) A->val[p] = s + 1; }
      v.push_back({"nonsym20", A}); }
    v.push_back({"poisson8x7", vr::poisson2d(8, 7)});
    v.push_back({"poisson30x1", vr::poisson2d(30, 1)});
    return v;
}

struct cfg { const char *c, *r, *s; unsigned ce, ml; bool dc; const char *extra = ""; };   // extra: "path=value;path=value" non-default parameters
static boost::property_tree::ptree ptree_of(const cfg &c) {
    boost::property_tree::ptree p;
    p.put("precond.coarsening.type", c.c); p.put("precond.relax.type", c.r); p.put("solver.type", c.s);
    p.put("precond.coarse_enough", c.ce); p.put("precond.max_levels", c.ml); p.put("precond.direct_coarse", c.dc);
    std::stringstream ss(c.extra); std::string kv;
    while (std::getline(ss, kv, ';')) { size_t e = kv.find('='); if (e != std::string::npos) p.put(kv.substr(0, e), kv.substr(e + 1)); }
    return p;
}

struct outcome { int cls; size_t it; double res; vec x; std::string what; long long tru; bool reuse_same = true; };
static bool g_second_call = false;      // prm mode: a second solve (point source) on the same object must equal the first solve of a fresh object
// cls: 0 converged (reported residual < tol), 1 exception, 2 reported non-converged (finite), 3 reported non-finite
static outcome run_once(const crsd &A, const cfg &c, const vec &f) {
    outcome o; o.cls = 1; o.it = 0; o.res = 0; o.tru = 0; o.x.assign(A.nrows, 0.0);
    try {
        Solver s(A, ptree_of(c));
        auto r = s(f, o.x);
        o.it = std::get<0>(r); o.res = std::get<1>(r);
        o.cls = !std::isfinite(o.res) ? 3 : (o.res < 1e-8 ? 0 : 2);
        // true relative residual in long double, millidecades
        long double nr = 0, nf = 0;
        for (size_t i = 0; i < A.nrows; ++i) { long double s2 = f[i]; for (ptrdiff_t p = A.ptr[i]; p < A.ptr[i+1]; ++p) s2 -= (long double)A.val[p] * o.x[A.col[p]]; nr += s2 * s2; nf += (long double)f[i] * f[i]; }
        long double rel = sqrtl(nr / nf);
        o.tru = !std::isfinite((double)rel) ? 20000 : (rel <= 1e-20L ? -20000 : (long long)llroundl(1000 * log10l(rel)));
        if (g_second_call) {
            vec e(A.nrows, 0.0); e[(2 * A.nrows) / 3] = 1.0;
            vec x2(A.nrows, 0.0), x3(A.nrows, 0.0); size_t it2 = 0, it3 = 0; double r2 = 0, r3 = 0; bool t2 = false, t3 = false;
            try { auto q = s(e, x2); it2 = std::get<0>(q); r2 = std::get<1>(q); } catch (const std::exception &) { t2 = true; }
            Solver fresh(A, ptree_of(c));
            try { auto q = fresh(e, x3); it3 = std::get<0>(q); r3 = std::get<1>(q); } catch (const std::exception &) { t3 = true; }
            o.reuse_same = t2 == t3 && it2 == it3 && std::memcmp(&r2, &r3, sizeof(double)) == 0 && std::memcmp(x2.data(), x3.data(), x2.size() * sizeof(double)) == 0;
        }
    } catch (const std::exception &e) { o.cls = 1; o.what = e.what(); }
    return o;
}
static vr::digest dig(const outcome &o) { vr::digest d; d.pod(o.cls); d.pod(o.it); d.pod(o.res); d.vec(o.x.data(), o.x.size()); d.bytes(o.what.data(), o.what.size()); return d; }

// leave a pattern in the stack region the next calls will use
static void __attribute__((noinline)) dirty_stack(int pattern) {
    volatile unsigned char buf[192 * 1024];
    for (size_t i = 0; i < sizeof(buf); ++i) buf[i] = (unsigned char)(pattern == 3 ? (i * 131 + 7) : pattern == 0 ? 0x00 : pattern == 1 ? 0x7F : 0xFF);
    asm volatile("" ::: "memory");
}
// the library called from inside the caller's own parallel region (nesting is off): every amgcl
// parallel region then runs with a team of one although omp_get_max_threads() is larger
static outcome run_nested(const crsd &A, const cfg &c, const vec &f, int pattern) {
    outcome o;
#pragma omp parallel num_threads(2)
    {
#pragma omp master
        { dirty_stack(pattern); o = run_once(A, c, f); }
    }
    return o;
}

static void dirty_heap(vr::rng &g) {      // leave garbage in freed blocks of many sizes
    int keep = g_fill_mode; g_fill_mode = 3;
    std::vector<char*> blocks; for (int k = 0; k < 400; ++k) blocks.push_back(new char[8 + g.below(4000)]);
    for (char *b : blocks) delete[] b;
    g_fill_mode = keep;
}

int main(int argc, char **argv) {
    vr::install_terminate();
    std::string mode = argc > 1 ? argv[1] : "degen";
    std::string which = argc > 2 ? argv[2] : "all";
    vr::rng g(vr::env_seed() + 1010);
    bool th = vr::thorough();
    auto mats = matrices();
    unsigned ces[] = {0u, 1u, 3000u}, mls[] = {1u, 2u, 100u};
    long count = 0;
    for (size_t mi = 0; mi < mats.size() && mode != "prm" && mode != "own"; ++mi) {
        if (which != "all" && which != mats[mi].first && which != std::to_string(mi)) continue;
        const crsd &A = *mats[mi].second; int n = A.nrows;
        vec f(n); for (int i = 0; i < n; ++i) f[i] = 1.0 + 0.25 * (i % 3);
        for (int ci = 0; ci < 4; ++ci) for (int ri = 0; ri < 9; ++ri) for (unsigned ce : ces) for (unsigned ml : mls) for (int dc = 0; dc < 2; ++dc)
        for (int si = 0; si < 8; ++si) {
            ++count;
            // quick: the solver rotates with the configuration (every solver meets every coarsening x relaxation);
            // thorough: the full cross product
            if (mode == "fill" && !th && si != (int)((ci * 9 + ri + ce + ml + dc + vr::env_seed()) % 8)) continue;
            cfg c{COARSENINGS[ci], RELAX[ri], SOLVERS[si], n > 10 && ce == 1 ? 6u : ce, ml, (bool)dc};
            if (mode == "stack") {
                // needs 2 <= OMP_NUM_THREADS <= 3 (the level-scheduled sweeps, laid out for >= 4 threads, do not support a smaller team)
                if (si != (int)((ci * 9 + ri + ce + ml + dc) % 8)) continue;
                std::vector<vr::digest> d; std::vector<int> cls;
                for (int pat = 0; pat < 4; ++pat) { outcome o = run_nested(A, c, f, pat); d.push_back(dig(o)); cls.push_back(o.cls); }
                std::ostringstream ds; ds << "["; for (size_t k = 0; k < d.size(); ++k) ds << (k ? "," : "") << "[" << d[k].lo() << "," << d[k].hi() << "]"; ds << "]";
                vr::obj j; j.str("k", "fill").str("m", mats[mi].first).str("c", c.c).str("r", c.r).str("s", c.s).i("ce", c.ce).i("ml", std::min(c.ml, 1000u)).b("dc", c.dc).str("what", "stack");
                j.raw("d", ds.str()).ints("cls", cls);
                vr::emit(j.done());
            } else if (mode == "degen") {
                outcome o = run_once(A, c, f);
                vr::obj j; j.str("k", "degen").str("m", mats[mi].first).str("c", c.c).str("r", c.r).str("s", c.s).i("ce", c.ce).i("ml", std::min(c.ml, 1000u)).b("dc", c.dc);
                j.i("cls", o.cls).i("it", o.it).i("tru", o.tru).str("what", o.what);
                vr::emit(j.done());
            } else {
                std::vector<vr::digest> d; std::vector<int> cls;
                for (int fm = 0; fm < 4; ++fm) { g_fill_mode = fm; dirty_heap(g); outcome o = run_once(A, c, f); g_fill_mode = -1; d.push_back(dig(o)); cls.push_back(o.cls); }
                { g_fill_mode = 1; outcome o = run_once(A, c, f); g_fill_mode = -1; d.push_back(dig(o)); cls.push_back(o.cls); }   // second construction, no prelude
                std::ostringstream ds; ds << "["; for (size_t k = 0; k < d.size(); ++k) ds << (k ? "," : "") << "[" << d[k].lo() << "," << d[k].hi() << "]"; ds << "]";
                vr::obj j; j.str("k", "fill").str("m", mats[mi].first).str("c", c.c).str("r", c.r).str("s", c.s).i("ce", c.ce).i("ml", std::min(c.ml, 1000u)).b("dc", c.dc);
                j.raw("d", ds.str()).ints("cls", cls);
                vr::emit(j.done());
            }
        }
    }
    if (mode == "own") {
        // every way a builtin crs changes hands: a matrix that borrows the user's arrays (adapter::zero_copy) and owned ones
        // through copy / move construction and assignment.  The user's arrays must survive bitwise and be freed by the
        // user only, owned arrays must be freed exactly once (the sanitizer build aborts on a foreign or double free and
        // reports leaks at exit); every matrix that holds data must still be the operator.
        for (size_t mi = 0; mi < mats.size(); ++mi) {
            if (which != "all" && which != mats[mi].first) continue;
            const crsd &A = *mats[mi].second; ptrdiff_t n = A.nrows, nnz = A.ptr[n];
            vec x(n), want(n, 0.0); for (ptrdiff_t i = 0; i < n; ++i) x[i] = 1 + (i % 4);
            for (ptrdiff_t i = 0; i < n; ++i) for (ptrdiff_t j = A.ptr[i]; j < A.ptr[i + 1]; ++j) want[i] += A.val[j] * x[A.col[j]];
            auto is_op = [&](const crsd &M) { if ((ptrdiff_t)M.nrows != n || !M.ptr) return false; vec y(n, 0.0);
                for (ptrdiff_t i = 0; i < n; ++i) for (ptrdiff_t j = M.ptr[i]; j < M.ptr[i + 1]; ++j) y[i] += M.val[j] * x[M.col[j]];
                return std::memcmp(y.data(), want.data(), n * sizeof(double)) == 0; };
            for (int h = 0; h < 9; ++h) {
                ptrdiff_t *uptr = new ptrdiff_t[n + 1], *ucol = new ptrdiff_t[nnz ? nnz : 1]; double *uval = new double[nnz ? nnz : 1];
                std::copy(A.ptr, A.ptr + n + 1, uptr); std::copy(A.col, A.col + nnz, ucol); std::copy(A.val, A.val + nnz, uval);
                bool same = true, flags = true;
                {
                    auto Z = amgcl::adapter::zero_copy((size_t)n, uptr, ucol, uval);
                    flags = !Z->own_data;
                    switch (h) {
                        case 0: { crsd M(std::move(*Z)); same = is_op(M); flags = flags && !M.own_data; } break;
                        case 1: { crsd M(*Z); same = is_op(M) && is_op(*Z); flags = flags && M.own_data && !Z->own_data; } break;
                        case 2: { crsd M; M = std::move(*Z); same = is_op(M); flags = flags && !M.own_data; } break;
                        case 3: { crsd M; M = *Z; same = is_op(M) && is_op(*Z); flags = flags && M.own_data; } break;
                        case 4: { crsd O(A); *Z = std::move(O); same = is_op(*Z); flags = flags && Z->own_data; } break;
                        case 5: { crsd O(A); O = std::move(*Z); crsd P(std::move(O)); same = is_op(P); flags = flags && !P.own_data; } break;
                        case 6: { auto S = std::make_shared<crsd>(std::move(*Z)); crsd T(*S); same = is_op(*S) && is_op(T); flags = flags && !S->own_data && T.own_data; } break;
                        case 7: { crsd O(A); crsd P(std::move(O)); crsd Q; Q = std::move(P); same = is_op(Q); flags = flags && Q.own_data; } break;
                        case 8: { crsd M(std::move(*Z)); *Z = std::move(M); same = is_op(*Z); flags = flags && !Z->own_data; } break;
                    }
                }
                bool intact = std::memcmp(uptr, A.ptr, (n + 1) * sizeof(ptrdiff_t)) == 0 && std::memcmp(ucol, A.col, nnz * sizeof(ptrdiff_t)) == 0 && std::memcmp(uval, A.val, nnz * sizeof(double)) == 0;
                delete[] uptr; delete[] ucol; delete[] uval;
                vr::obj j; j.str("k", "own").str("m", mats[mi].first).i("h", h).b("intact", intact).b("same", same).b("flags", flags); vr::emit(j.done());
            }
        }
    }
    if (mode == "prm") {
        // non-default component parameters (the cross product above uses the defaults): outcome independent of the heap
        // contents and of an earlier construction in the same process; a second call on the object = a fresh object
        static const cfg PSETS[] = {
            {"smoothed_aggregation", "ilut", "bicgstab", 3, 100, true, "precond.relax.p=1.25;precond.relax.tau=1e-8"},
            {"smoothed_aggregation", "ilut", "gmres", 3, 100, true, "precond.relax.p=1.5;precond.relax.tau=1e-3"},
            {"aggregation", "ilut", "cg", 3, 100, false, "precond.relax.p=2.5;precond.relax.tau=1e-12"},
            {"ruge_stuben", "ilut", "bicgstab", 3, 100, true, "precond.relax.p=0.75;precond.relax.tau=1e-2"},
            {"ruge_stuben", "ilut", "bicgstab", 0, 1, true, "precond.relax.p=3.3;precond.relax.tau=0"},
            {"smoothed_aggregation", "iluk", "bicgstab", 3, 100, true, "precond.relax.k=3"},
            {"aggregation", "ilup", "gmres", 3, 100, true, "precond.relax.k=2"},
            {"smoothed_aggregation", "chebyshev", "cg", 3, 100, true, "precond.relax.power_iters=5;precond.relax.scale=true;precond.relax.degree=3"},
            {"smoothed_aggregation", "chebyshev", "cg", 3, 100, false, "precond.relax.power_iters=2"},
            {"smoothed_aggregation", "spai0", "cg", 3, 100, true, "precond.coarsening.estimate_spectral_radius=true;precond.coarsening.power_iters=4"},
            {"smoothed_aggregation", "damped_jacobi", "cg", 3, 100, true, "precond.coarsening.estimate_spectral_radius=true;precond.coarsening.power_iters=0;precond.coarsening.relax=0.7;precond.relax.damping=0.6"},
            {"smoothed_aggregation", "spai0", "bicgstab", 3, 100, true, "precond.coarsening.aggr.eps_strong=0;precond.npre=2;precond.npost=3;precond.ncycle=2"},
            {"aggregation", "gauss_seidel", "bicgstab", 3, 100, false, "precond.coarsening.over_interp=1;precond.coarsening.aggr.eps_strong=0.5;precond.pre_cycles=2"},
            {"ruge_stuben", "spai1", "gmres", 3, 100, true, "precond.coarsening.eps_strong=0.5;precond.coarsening.do_trunc=false"},
            {"ruge_stuben", "damped_jacobi", "bicgstab", 3, 100, true, "precond.coarsening.eps_strong=0.125;precond.coarsening.eps_trunc=0.5"},
            {"smoothed_aggr_emin", "spai0", "cg", 3, 100, true, "precond.coarsening.aggr.eps_strong=0.2"},
            {"smoothed_aggregation", "spai0", "gmres", 3, 100, true, "solver.M=2;solver.pside=left"},
            {"smoothed_aggregation", "spai0", "lgmres", 3, 100, true, "solver.M=2;solver.K=3"},
            {"smoothed_aggregation", "spai0", "fgmres", 3, 100, true, "solver.M=3"},
            {"smoothed_aggregation", "ilu0", "idrs", 3, 100, true, "solver.s=1;solver.smoothing=true;solver.replacement=true"},
            {"smoothed_aggregation", "ilu0", "idrs", 3, 100, true, "solver.s=6;solver.omega=0.9"},
            {"smoothed_aggregation", "gauss_seidel", "bicgstabl", 3, 100, true, "solver.L=3;solver.delta=0.01;solver.convex=false"},
            {"aggregation", "spai0", "bicgstabl", 3, 100, true, "solver.L=1;solver.pside=left"},
            {"smoothed_aggregation", "spai0", "richardson", 3, 100, true, "solver.damping=0.8;solver.maxiter=30"},
            {"smoothed_aggregation", "spai0", "preonly", 3, 100, true, ""},
            {"smoothed_aggregation", "spai0", "cg", 3, 100, true, "solver.ns_search=true;solver.maxiter=7"},
            {"smoothed_aggregation", "spai0", "bicgstab", 3, 100, true, "solver.check_after=true;solver.tol=1e-3;solver.abstol=1e-2"},
        };
        g_second_call = true;
        for (size_t mi = 0; mi < mats.size(); ++mi) {
            if (which != "all" && which != mats[mi].first) continue;
            const crsd &A = *mats[mi].second; int n = A.nrows;
            if (n < 5) continue;
            vec f(n); for (int i = 0; i < n; ++i) f[i] = 1.0 + 0.25 * (i % 3);
            for (const cfg &c : PSETS) {
                std::vector<vr::digest> d; std::vector<int> cls; bool reuse = true;
                for (int fm = 0; fm < 4; ++fm) { g_fill_mode = fm; dirty_heap(g); outcome o = run_once(A, c, f); g_fill_mode = -1; d.push_back(dig(o)); cls.push_back(o.cls); reuse = reuse && o.reuse_same; }
                { g_fill_mode = 1; outcome o = run_once(A, c, f); g_fill_mode = -1; d.push_back(dig(o)); cls.push_back(o.cls); reuse = reuse && o.reuse_same; }
                std::ostringstream ds; ds << "["; for (size_t k = 0; k < d.size(); ++k) ds << (k ? "," : "") << "[" << d[k].lo() << "," << d[k].hi() << "]"; ds << "]";
                vr::obj j; j.str("k", "fill").str("m", mats[mi].first).str("c", c.c).str("r", c.r).str("s", c.s).i("ce", c.ce).i("ml", std::min(c.ml, 1000u)).b("dc", c.dc).str("what", "prm").str("extra", c.extra);
                j.raw("d", ds.str()).ints("cls", cls).b("reuse", reuse);
                vr::emit(j.done());
            }
        }
    }
    vr::obj o; o.str("e", "End"); vr::emit(o.done());
    return 0;
}
